"""C20 — Word -> Markdown export keeps reading order and text, and is stable (spec module MdOut)."""
import json, os, re, shutil, subprocess, threading, time
import vlib

MANIFEST = dict(
    module="MdOut", ref="§5 C20",
    text="Word bodies are abstract block sequences in MdOut.tla (paragraph / heading 1-9 / quote / code / list item / empty "
         "paragraph with runs carrying any of the 16 bold-italic-strike-code flag sets and a text class, tables 1x1..3x3; a "
         "heading / quote / code paragraph may also carry numbering properties - Word's numbered headings - and any styled "
         "paragraph may be blank; the text classes cover the Markdown metacharacters in harmless and meaningful positions, "
         "every list marker in front of a word, texts that are a block marker and nothing else, and white space); the "
         "reference function MdOut!ToMd(body, options) gives what the property demands of the Markdown as a relation over its "
         "projection (block kinds in body order, every run's visible tokens exactly once, flags), and MdOut!Judge compares an "
         "observed projection with it field by field. TLC builds every body within the bounds block by block (so every "
         "interleaving of paragraphs and tables) x export options x ways of calling the exporter, checks the design laws of ToMd "
         "on all of them (order, text exactly once, flags, options only govern the table layout, the style decides what a "
         "numbered paragraph is, a block that shows nothing leaves no trace in the others, the judge accepts the reference "
         "and rejects damaged projections, compositionality, the fixpoint on the model) and emits the cases; dedicated layers put "
         "a blank styled paragraph before and between blocks with formatted and escapable text (the exporter's walk has a memory: "
         "in a list, in a code block) and numbered headings / quotes / code next to list items under both heading syntaxes. The harness builds "
         "each body with the public API (optionally saves and reopens it), exports it through ExportToString / ExportToBytes / "
         "ExportToFile / BatchExport / AutoConvert, reads the Markdown with the reference CommonMark+GFM renderer, converts it "
         "back with the real ConvertString, projects the converted document from its saved bytes with the independent reader and "
         "exports it again; MdOut_Trace.tla judges export, fixpoint and stability and attributes every deviation to the minimal "
         "set of construct classes showing it. Exhaustive small scope plus seeded larger samples fits an exporter whose defects "
         "depend on the document's shape and on single characters.",
    technique="TLA+ reference function MdOut!ToMd + judge MdOut!Judge; TLC model checking of the reference machine (design laws on "
              "every generated body x options); TLC-generated documents replayed on the library (export, real convert-back, "
              "re-export), projections by independent readers; TLC trace judge with minimal-class attribution",
)

LEVEL = "model_checking"
RULE = ("cases = every Word body within each bfs_* bound (built by the generator of MdOut_MC.tla, each exactly once) x the option sets / "
        "call variants of the layer, plus seeded random larger bodies; each is built with the public API, exported by the real "
        "exporter; the Markdown is projected by the reference CommonMark+GFM reader to (block kind, heading level, visible tokens with "
        "flags, table cells) and compared with MdOut!ToMd by MdOut!Judge (phase exp); the Markdown is converted back by the real "
        "ConvertString, the saved converted document is projected the same way and compared again (phase fix: block sequence and "
        "text), and the export of the converted document must equal the first export (fix/stable); a deviation is reported under "
        "(phase, field, construct classes), minimal class sets only; the classes of a block include what it is (kind, numbering "
        "properties, text classes, flag sets, how its runs meet) and which blank styled paragraphs precede it in the body")

LAWS = ["Inv_Order", "Inv_TextOnce", "Inv_Flags", "Inv_Options", "Inv_Reflexive", "Inv_Sensitive", "Inv_StyleWins", "Inv_BlankNoTrace"]
PAR = 6


def tlc_par(ctx, jobs):
    """Run several TLC processes concurrently (own metadirs); adds the state counts to ctx like vlib.Ctx._tlc does."""
    res = [None] * len(jobs)
    sem = threading.Semaphore(PAR)
    lock = threading.Lock()

    def one(i, j):
        with sem:
            meta = os.path.join(ctx.work, "pmeta%d_%d" % (id(jobs) % 9973, i))
            cmd = ["tlc", "-metadir", meta, "-config", j["cfg"], "-workers", str(j.get("workers", 1))] + j.get("extra", []) + [j["spec"]]
            e = dict(os.environ)
            e.setdefault("JAVA_TOOL_OPTIONS", "-Xss256m -Xmx%dg" % j.get("heap", 3))
            e.update(j.get("env") or {})
            t = time.time()
            try:
                r = subprocess.run(cmd, cwd=ctx.specdir, env=e, capture_output=True, text=True, timeout=j.get("timeout", 900))
                out = r.stdout + r.stderr
            except subprocess.TimeoutExpired:
                subprocess.run(["pkill", "-f", meta])
                out = None
            shutil.rmtree(meta, ignore_errors=True)
            gen = dist = 0
            if out is not None:
                m = re.search(r"(\d+) states generated, (\d+) distinct states found", out)
                if m:
                    gen, dist = int(m.group(1)), int(m.group(2))
                else:
                    m = re.search(r"The number of states generated: (\d+)", out)
                    if m:
                        gen = dist = int(m.group(1))
            with lock:
                ctx.states += dist
                ctx.transitions += gen
                vlib.log("  tlc %s %s: %d generated / %d distinct, %.1fs" % (j["spec"], j["cfg"], gen, dist, time.time() - t))
            res[i] = out

    ts = [threading.Thread(target=one, args=(i, j)) for i, j in enumerate(jobs)]
    for t in ts:
        t.start()
    for t in ts:
        t.join()
    for j, out in zip(jobs, res):
        if out is None:
            raise vlib.Machinery("TLC timed out: %s %s" % (j["spec"], j["cfg"]))
    return res


def gen_par(ctx, jobs, also=()):
    tj = []
    for k, j in enumerate(jobs):
        extra = []
        if j.get("mode") == "sim":
            extra = ["-simulate", "num=%d" % j["num"], "-depth", str(j["depth"]), "-seed", str(ctx.seed * 1000 + k)]
        tj.append(dict(spec="MdOut_MC.tla", cfg=j["cfg"], extra=extra, timeout=j.get("timeout", 900)))
    outs = tlc_par(ctx, tj + list(also))
    also_out = outs[len(tj):]
    res = {}
    for k, (j, out) in enumerate(zip(jobs, outs)):
        if [l for l in out.splitlines() if l.startswith("Error:")]:
            raise vlib.Machinery("TLC generation %s failed:\n%s" % (j["cfg"], vlib.tail(out)))
        cases, seen = [], set()
        for m in re.finditer(r'^<<"WZCASE", (".*")>>$', out, re.M):
            s = json.loads(m.group(1))
            if s in seen:
                continue
            seen.add(s)
            c = vlib.normalise_case(json.loads(s))
            c["id"] = (k + 1) * 10000000 + len(cases) + 1
            cases.append(c)
            if j.get("limit") and len(cases) >= j["limit"]:
                break
        if not cases:
            raise vlib.Machinery("TLC generation %s produced no behaviours:\n%s" % (j["cfg"], vlib.tail(out)))
        vlib.log("  gen %s: %d behaviours" % (j["tag"], len(cases)))
        res[j["tag"]] = cases
    return res, also_out


def trace_par(ctx, obs, tag, parts):
    """Judge the observation file in `parts` pieces cut at behaviour boundaries, concurrently."""
    files, cur, n = [], None, 0
    total = sum(1 for _ in open(obs))
    per = max(1, total // parts + 1)
    with open(obs) as f:
        for line in f:
            if cur is None or (n >= per and '"ev":"reset"' in line[:60]):
                if cur:
                    cur.close()
                files.append([os.path.join(ctx.work, "%s.part%d.ndjson" % (tag, len(files))), 0])
                cur = open(files[-1][0], "w")
                n = 0
            cur.write(line)
            n += 1
            files[-1][1] += 1
    if cur:
        cur.close()
    jobs = [dict(spec="MdOut_Trace.tla", cfg="MdOut_Trace.cfg", env={"WZ_OBS": p, "WZ_STAT": p + ".stat.json"}, timeout=1800) for p, _ in files]
    outs = tlc_par(ctx, jobs)
    wits, stats = [], []
    for (p, cnt), out in zip(files, outs):
        m = re.search(r'^<<"WZDONE", (\d+), (".*")>>$', out, re.M)
        if not m:
            raise vlib.Machinery("trace judge did not finish on %s:\n%s" % (p, vlib.tail(out, 60)))
        if int(m.group(1)) != cnt:
            raise vlib.Machinery("trace judge consumed %s of %d events of %s" % (m.group(1), cnt, p))
        for w in json.loads(json.loads(m.group(2))):
            wits.append({"sig": [str(x) for x in w["sig"]], "case": w["case"], "tag": tag})
        if os.path.exists(p + ".stat.json"):
            with open(p + ".stat.json") as f:
                stats.append(json.load(f))
    # minimality over the parts: a class set that includes another part's set of the same kind is dropped
    keep = []
    for w in wits:
        pre, ks = split_sig(w["sig"])
        if any(split_sig(v["sig"])[0] == pre and set(split_sig(v["sig"])[1]) < set(ks) for v in wits):
            continue
        keep.append(w)
    ctx.witnesses.extend(keep)
    vlib.log("  judge %s: %d events in %d parts, %d witness signatures" % (tag, total, len(files), len(keep)))
    return keep, stats


def S(*xs):
    return frozenset(xs)


F16 = S("", "b", "i", "s", "c", "bi", "bs", "bc", "is", "ic", "sc", "bis", "bic", "bsc", "isc", "bisc")
META = S("star", "star1", "us", "us1", "hash", "hashend", "pipe", "tick", "tick1", "gt", "brk", "link", "bs", "bs1", "lt", "lt1",
         "amp", "amp1", "tilde", "numdot", "dash", "dash1", "fence")
# the list markers the first set lacks, in front of a word; texts that are a block marker and nothing else; look-alikes
MARK = S("plus", "numpar", "num2", "m-dash", "m-plus", "m-star", "m-num", "m-par", "m-hash", "m-gt", "m-rule", "m-eq", "m-dashsp",
         "dashw", "decimal")
SPACE = S("lead", "trail", "dbl", "ind4", "nl", "tab")
ALLCLS = META | MARK | SPACE | S("w1", "two", "cjk", "empty")
STYLED = S("h", "q", "code", "li")
ALLK = S("p", "h", "q", "code", "li", "empty", "tbl")
SHAPES = S("1x1", "1x2", "1x3", "2x1", "2x2", "2x3", "3x1", "3x2", "3x3")
T, F = True, False
B = lambda *xs: vlib.Raw("{" + ", ".join("TRUE" if x else "FALSE" for x in xs) + "}")

BASE = dict(
    MaxBlocks=1, MinBlocks=1, MaxRuns=1, Kinds=S("p"), HLevels=S(1), LiTypes=S("bul"), LiLevels=S(0),
    FlagNames=S(""), FirstCls=S("w1"), MoreCls=S("w2"), PosText=False, TblOffs=S(0), EmptyCls=S("none"), TblShapes=S("2x2"),
    BlankKinds=S(), BlankOnly=S(), NumPrs=S(""),
    Gfms=B(T), Setexts=B(F), Metas=B(F), Bullets=S("-"), Emphs=S("*"), Langs=S(""), Wraps=S(0), Miscs=S("default"), OptArity=8,
    Apis=S("string"), Cos=S("ctor"), Origins=S("mem"), Warms=B(F), UOpts=S("default"),
)
ALLOPT = dict(Gfms=B(T, F), Setexts=B(F, T), Metas=B(F, T), Bullets=S("-", "*", "+"), Emphs=S("*", "_"), Langs=S("", "go"),
              Wraps=S(0, 10, 40), Miscs=S("default", "hq", "alltrue", "allfalse"))


def layer(cells="CS_plain", **kw):
    c = dict(BASE)
    c.update(kw)
    return c, cells


def cfg_of(ctx, name, lay, invariants, properties=()):
    c, cells = lay
    return ctx.cfg(name, "Spec", c, invariants=invariants, properties=properties, extra="CONSTANTS\n  CellCls <- %s" % cells)


def tiers(ctx):
    q = ctx.tier == "quick"
    mc = layer("CS_mix", MaxBlocks=2, Kinds=ALLK, HLevels=S(1, 7), FlagNames=S("", "ic"), FirstCls=S("w1", "star"),
               EmptyCls=S("none", "ws"), BlankKinds=S("code", "li"), NumPrs=S("", "num"),
               TblShapes=S("1x1", "2x2"), Gfms=B(T, F), Setexts=B(F, T), OptArity=2,
               UOpts=S("default", "simple", "setext", "wrapmeta"), **({} if q else dict(MaxRuns=2, MoreCls=S("lead"))))
    layers = {
        # every interleaving of paragraphs (of several kinds) and tables
        "order": layer(MaxBlocks=4, Kinds=S("p", "h", "li", "tbl") if q else S("p", "h", "li", "q", "code", "empty", "tbl"), PosText=True,
                       TblShapes=S("2x2") if q else S("1x1", "2x2")),
        "order2": layer(MaxBlocks=5 if q else 7, MinBlocks=5 if q else 5, Kinds=S("p", "tbl"), PosText=True, TblShapes=S("1x2")),
        # all 16 flag sets on one run and on two runs meeting with and without white space, both emphasis markers
        "flags": layer(MaxRuns=2, FlagNames=F16, FirstCls=S("w1"), MoreCls=S("w2", "lead"), Emphs=S("*") if q else S("*", "_"),
                       OptArity=1),
        "flags_us": layer(MaxRuns=2, FlagNames=S("", "i", "b", "bi", "is"), FirstCls=S("w1", "trail"), MoreCls=S("w2", "lead"), Emphs=S("_"), OptArity=1),
        # all 16 flag sets in the other kinds of paragraph
        "flagkinds": layer(Kinds=S("h", "q", "code", "li"), HLevels=S(2), FlagNames=F16),
        # every text class in every kind of paragraph, plain and bold
        "text": layer(Kinds=S("p", "h", "q", "code", "li"), HLevels=S(1, 3), LiTypes=S("bul", "num"), FirstCls=ALLCLS - MARK if q else ALLCLS,
                      FlagNames=S("", "b")),
        # a text that is a block marker and nothing else (- + * 12. 3) # > --- ===), the markers in front of a word, look-alikes:
        # in every kind of paragraph (quick: plain; thorough: also bold, in the layer above, and under both heading syntaxes)
        "markers": layer(Kinds=S("p", "h", "q", "code", "li"), HLevels=S(1, 3), FirstCls=MARK, Setexts=B(F) if q else B(F, T), OptArity=1),
        # every text class as the second run (after a plain word, no white space between)
        "text2": layer(MaxRuns=2, MinBlocks=1, Kinds=S("p") if q else S("p", "h", "li"), FirstCls=S("w3"), MoreCls=ALLCLS - S("w1", "two"),
                       FlagNames=S("") if q else S("", "i")),
        # every text class in a header cell and in a body cell
        "cells": layer("CS_meta", Kinds=S("tbl"), TblShapes=S("1x1", "2x1") if q else S("1x1", "2x1", "1x2"), TblOffs=frozenset(range(33))),
        "shapes": layer("CS_mix", Kinds=S("tbl"), TblShapes=SHAPES, TblOffs=S(0) if q else S(0, 3, 5)),
        # every kind with its parameters (heading levels 1-9, list types and levels, empty paragraphs, table shapes), in pairs
        "pairs": layer("CS_plain", MaxBlocks=2, Kinds=ALLK, PosText=True, HLevels=S(1, 2, 6, 7, 9) if q else frozenset(range(1, 10)),
                       LiTypes=S("bul", "num"), LiLevels=S(0, 1) if q else S(0, 1, 2), EmptyCls=S("none", "ws"),
                       TblShapes=S("1x1", "2x3", "3x3") if q else SHAPES),
        # every field of ExportOptions on the smallest documents of every kind
        "options": layer(Kinds=S("p", "h", "li", "code", "tbl"), HLevels=S(1, 3), FirstCls=S("two"), FlagNames=S("", "i"),
                         OptArity=2 if q else 8, **ALLOPT),
        # the exporter's walk has a memory (in a list, in a code block): a blank heading / quote / code paragraph / list item /
        # plain paragraph, then every kind of block with formatted text and with text that must be escaped ...
        "carry": layer("CS_meta", MaxBlocks=2, MinBlocks=2, Kinds=ALLK, BlankKinds=STYLED, BlankOnly=S(1),
                       EmptyCls=S(("ws", "none")[ctx.seed % 2]) if q else S("none", "ws"),
                       FlagNames=S("", "b"), FirstCls=S("w1", "star"), TblShapes=S("1x1")),
        # ... and the same between two blocks (in the quick tier what the blank paragraph holds - no run, a run of white space -
        # rotates with the seed, the other way round in the two layers)
        "carry3": layer("CS_meta", MaxBlocks=3, MinBlocks=3, Kinds=S("p", "li", "code", "empty") if q else ALLK, BlankKinds=STYLED, BlankOnly=S(2),
                        EmptyCls=S(("none", "ws")[ctx.seed % 2]) if q else S("none", "ws"), FlagNames=S("", "b"), FirstCls=S("star"),
                        TblShapes=S("1x1")),
        # headings / quotes / code paragraphs that carry numbering properties (Word's numbered headings) next to list items and
        # to each other, in both heading syntaxes
        "numbered": layer(MaxBlocks=2, MinBlocks=2, Kinds=S("p", "h", "q", "code", "li"), NumPrs=S("", ("num", "bul")[ctx.seed % 2]) if q else S("", "bul", "num"),
                          HLevels=S(1, 2) if q else S(1, 2, 3), PosText=True, Setexts=B(F, T), OptArity=1),
        # every way of calling the exporter, on documents built in memory and opened from saved bytes
        "calls": layer(MaxBlocks=2, Kinds=S("p", "tbl") if q else S("p", "h", "li", "tbl"), PosText=True, Gfms=B(T, F), Setexts=B(F, T), OptArity=1,
                       Apis=S("string", "bytes", "file", "batch", "auto"), Cos=S("ctor", "call", "both", "none"),
                       Origins=S("mem", "open"), Warms=B(F, T)),
    }
    # larger random bodies; the flag sets and text classes of the run are a seeded sample (keeps TLC's successor sets small)
    import random
    rng = random.Random(ctx.seed)
    fl = frozenset(rng.sample(sorted(F16 - S("")), 5)) | S("")
    cl = frozenset(rng.sample(sorted(ALLCLS - S("w1", "two")), 10)) | S("w1", "two")
    sim = dict(num=70, depth=40, limit=500) if q else dict(num=900, depth=60, limit=6000)
    simc = layer("CS_mix", MaxBlocks=6 if q else 8, MinBlocks=3, MaxRuns=3, Kinds=ALLK, HLevels=S(1, 2, 4, 8), LiTypes=S("bul", "num"),
                 LiLevels=S(0, 2), FlagNames=fl, FirstCls=cl, MoreCls=cl, EmptyCls=S("none", "ws", "empty"), BlankKinds=STYLED, NumPrs=S("", "num"),
                 TblShapes=S("1x1", "2x2", "3x2", "2x3"),
                 TblOffs=S(0, 4), OptArity=2, Apis=S("string", "file"), Cos=S("ctor", "call"), Origins=S("mem", "open"),
                 Warms=B(F), **ALLOPT)
    return mc, layers, simc, sim


def bounds_of(lay):
    c, cells = lay
    d = {k: (sorted(v, key=str) if isinstance(v, frozenset) else (v.s if isinstance(v, vlib.Raw) else v)) for k, v in c.items()}
    d["CellCls"] = cells
    return d


def split_sig(sig):
    """['C20', phase, field, '|', classes...] -> (prefix incl. '|', classes)"""
    if "|" in sig:
        i = sig.index("|")
        return sig[: i + 1], sig[i + 1:]
    return list(sig), []


def attribute(wits):
    """A deviation is known when its (phase, field) prefix matches that of a recorded finding ("*" = any phase / any field: the
    finding is a root cause that shows in several fields) and its class set includes the finding's class set; it is then
    reported under that finding's signature."""
    known = [k["signature"] for k in vlib.load_known() if k["property"] == "C20" and k.get("status", "open") == "open"]
    for w in wits:
        if w["sig"][0] != "C20":
            continue
        pre, ks = split_sig(w["sig"])
        w["sig"][:] = pre + sorted(ks)
        best = None
        for s in known:
            kpre, kks = split_sig(s)
            if len(kpre) == len(pre) and all(a == "*" or a == b for a, b in zip(kpre, pre)) and set(kks) <= set(ks) and (best is None or len(kks) > len(split_sig(best)[1])):
                best = s
        if best is not None:
            w["sig"][:] = list(best)


def judge(ctx, cases, tag, parts=1):
    ctx.cases_by_tag[tag] = {c["id"]: c for c in cases}
    obs = ctx.run_exec("mdout", cases, tag, timeout=1500)
    wits, stats = trace_par(ctx, obs, tag, parts)
    for w in wits:
        if w["sig"][0] == "MACH":
            raise vlib.Machinery("the harness did not execute the logged case (%s, case %s)" % (w["sig"], w["case"]))
    attribute(wits)
    cov = ctx.extra_cov
    tot = {"exports": 0, "unbuilt": 0, "deviating": 0}
    unb = []
    for st in stats:
        cov["classes_exercised"] = sorted(set(cov.get("classes_exercised", [])) | set(st.get("classes", [])))
        for k in tot:
            tot[k] += st.get("stat", {}).get(k, 0)
        unb += st.get("stat", {}).get("unbuiltcases", [])
    for k in tot:
        cov.setdefault("judged", {}).setdefault(k, 0)
        cov["judged"][k] += tot[k]
    if tot["exports"] and tot["unbuilt"] * 50 > tot["exports"]:
        raise vlib.Machinery("%d of %d documents handed to the exporter are not the body the specification built (cases %s)"
                             % (tot["unbuilt"], tot["exports"], unb[:10]))
    return wits


ASSUMPTIONS = [
    "the meaning of a Markdown text is what CommonMark + GFM (tables, strikethrough) define; it is read by the reference renderer of the "
    "parser the library embeds, never by the library's own converter; a leading YAML front matter block is metadata, not body content",
    "visible text = the sequence of non-white tokens; white space is compared collapsed (Markdown keeps no more); an empty or "
    "white-space-only paragraph has nothing to show and is not demanded in the Markdown",
    "Markdown has six heading levels: Heading7-9 may be written as level 6; the list marker type (bullet/number) and the nesting level of a "
    "list item are not demanded (the statement speaks of order, text and the four character formats); code blocks carry no inline flags",
    "the paragraph style decides what a paragraph is: a heading / quote / code paragraph that also carries numbering properties (a Word "
    "numbered heading) is demanded as the heading / quote / code it is, its number is not demanded; the harness checks on the saved "
    "bytes that the numbering properties are really there",
    "a heading / quote / code paragraph / list item without a word shows nothing, like an empty paragraph: it is not demanded in the "
    "Markdown, and the blocks after it must look exactly as they would without it",
    "flags are demanded of paragraphs, headings, quotes and list items in the export; for the converted-back document the statement "
    "demands block sequence and text only; the second export must equal the first as a string",
    "a table exported in the non-GFM layout (UseGFMTables=false) is not a Markdown table: only its words (once, in order) are demanded of "
    "the Markdown; that it does not come back as a table is reported under its own class (opt:simple)",
    "options are passed to NewExporter and/or to the Export* call with the same values; what different values at the two places or in "
    "successive calls mean is not documented and never generated",
    "a document whose saved bytes do not show the body the specification built (another property's defect, e.g. of Open) is counted as "
    "unbuilt and not judged",
    "a deviation is a known finding when its (phase, field) equals and its class set includes those of a recorded finding; therefore "
    "a block containing a known-defective construct cannot reveal a second defect in the same field until the first is repaired",
]


def pipeline(ctx, replay_case=None):
    ctx.assumptions = list(ASSUMPTIONS)
    if replay_case is not None:
        judge(ctx, [replay_case], "replay")
        return ctx.finish(LEVEL, RULE)
    mc, layers, simc, sim = tiers(ctx)
    q = ctx.tier == "quick"
    mccfg = cfg_of(ctx, "mc.cfg", mc, LAWS, ["Act_Compositional"])
    also = [dict(spec="MdOut_MC.tla", cfg=mccfg, timeout=900, workers=2 if q else 4, heap=6)]
    jobs = []
    for name, lay in layers.items():
        jobs.append(dict(tag=name, cfg=cfg_of(ctx, "gen_%s.cfg" % name, lay, ["Emit"]), timeout=1500))
    jobs.append(dict(tag="sim", cfg=cfg_of(ctx, "gen_sim.cfg", simc, ["Emit"]), mode="sim", num=sim["num"], depth=sim["depth"],
                     limit=sim["limit"], timeout=900))
    by_tag, mcout = gen_par(ctx, jobs, also)
    for out in mcout:
        if "Model checking completed. No error has been found." not in out:
            raise vlib.Machinery("TLC model check of MdOut_MC/mc.cfg did not pass:\n%s" % vlib.tail(out))
    m = re.search(r"(\d+) states generated, (\d+) distinct states found", mcout[0])
    ctx.mc_runs.append({"spec": "MdOut_MC.tla", "cfg": "mc.cfg", "generated": int(m.group(1)), "distinct": int(m.group(2))})
    counts = {t: len(cs) for t, cs in by_tag.items()}
    cases = [c for j in jobs for c in by_tag[j["tag"]]]
    ctx.exhaustive = True
    judge(ctx, cases, "all", parts=PAR)
    ctx.extra_cov["bounds"] = dict({"model_check": bounds_of(mc), "simulate": bounds_of(simc)},
                                   **{"bfs_" + k: bounds_of(v) for k, v in layers.items()})
    ctx.extra_cov["cases"] = counts
    ctx.extra_cov["laws_model_checked"] = LAWS + ["Act_Compositional"]
    ctx.extra_cov["exhaustive_what"] = ("every body within each bfs_* bound x the layer's option sets / call variants was executed; "
                                        "the simulated set is a seeded sample of larger bodies")
    return ctx.finish(LEVEL, RULE)


def run(ctx):
    return pipeline(ctx)


def replay(ctx, rp):
    return pipeline(ctx, rp["case"])
