"""C14 — style inheritance resolves to the nearest definition and always terminates (spec module StyleInh)."""
import concurrent.futures, json, os, threading, time, zlib

MANIFEST = dict(
    module="StyleInh", ref="§5 C14",
    text="The reference resolver of StyleInh.tla (nearest definition along basedOn with a visited set) is model-checked over "
         "every registry of the bound (all basedOn graphs incl. self loops, cycles and missing parents, all set/unset masks, "
         "all queried ids) against an independent bounded-search characterisation, a recursive law and a frame property; the "
         "pair (registry, copy taken by Clone) is model-checked as a machine of two registries with separate histories "
         "(snapshot and isolation as action properties). TLC then enumerates every (registry, queried id) input once, every "
         "read / change / read-again history with a copy taken before the change and read for the first time after it, "
         "every based-on graph that refers to a parent by an alias of a style (its display name, its id in other letter "
         "case or with a blank, the label of the library's predefined tables: all undefined ids), every registry written "
         "as a styles part and handed to the three XML loaders, and generates random operation sequences over both "
         "registries; each is executed on real StyleManager objects (every one of the 18 paragraph/character elements in "
         "turn playing the enumerated mask, in a child process because a based-on cycle can kill the process). The copy is "
         "never looked at by the executor except through the operations the behaviour addresses to it, so when a style of "
         "the copy is first read is part of the behaviour. The owner of every element of every result, the deep fingerprint "
         "of the registry before/after every call and the independence of the two registries are judged by "
         "StyleInh_Trace.tla. Exhaustive small-scope enumeration is the right level for a claim over all graphs and "
         "attribute subsets of a hand-written per-attribute merge.",
    technique="TLA+ spec StyleInh; TLC exhaustive MC of the reference resolver and of the registry/copy pair + TLC-enumerated "
              "inputs and histories and simulated sequences replayed on the library (supervised child process) + TLC trace judge",
)

LEVEL = "model_checking"
RULE = ("inputs = every registry over N style ids (basedOn of each style in ids ∪ {none, undefined id}: every graph with self "
        "loops, cycles, missing parents) × set/unset mask of attribute slot x over the styles × mask of slot y as stated "
        "in bounds × every queried id incl. an undefined one, enumerated by TLC exactly once; each input is executed with "
        "20 concrete attribute→slot assignments (each of the 18 formatting elements alone in x with the other 17 in y; "
        "paragraph-level vs character-level both ways) through Load, GetStyleWithInheritance, ApplyStyleToXML, "
        "GetStyleInfo (+ Clone ops, resolution on the clone, write-through-the-result probe); histories = every 2-style "
        "registry × queried id × single registry change (AddStyle / RemoveStyle / CreateCustomStyle / in-place edit): resolve, "
        "Clone, change, resolve, then on the copy: first read of the same id, Peek, the same change, Peek; alias graphs = "
        "every 2-style graph with a parent named by an alias (name / case / blank / label) × every id and alias queried; "
        "styles parts = every 2-style registry through ParseStylesFromXML / MergeStylesFromXML / LoadStylesFromDocument; plus "
        "seeded random sequences of all operations on the registry and on its copy; judged step by step by StyleInh_Trace.tla")

ALLOPS = {"AddStyle", "RemoveStyle", "Create", "Edit", "Resolve", "ToXML", "Info", "List", "MutRes", "CloneSwap", "CloneDrop",
          "Clone", "OnClone", "LoadXML"}
KINDS = ["space", "name", "case", "label"]     # StyleInh!AliasKinds
PAIR_OPS = {"AddStyle", "RemoveStyle", "Edit", "Resolve", "Clone", "OnClone"}


def enumcfg(ctx, name, n, ymodes, plans, kinds=(), reads=()):
    return ctx.cfg(name, "SpecEnum", {"NStyles": n, "TwoSlots": True, "YModes": set(ymodes), "Kinds": set(kinds),
                                      "Plans": set(plans), "CloneReads": set(reads),
                                      "Depth": 0, "OpNames": set()}, invariants=["EmitEnum", "Inv_EnumSound"])


def simcfg(ctx, name, n, depth, kinds):
    return ctx.cfg(name, "SpecGen", {"NStyles": n, "TwoSlots": True, "YModes": set(), "Kinds": set(kinds), "Plans": set(),
                                     "CloneReads": set(), "Depth": depth, "OpNames": ALLOPS}, invariants=["Emit"])


def paircfg(ctx, name, n):
    """The pair (registry, copy) as a machine: snapshot + isolation, stated as action properties."""
    return ctx.cfg(name, "SpecMC", {"NStyles": n, "TwoSlots": False, "YModes": set(), "Kinds": set(), "Plans": set(),
                                    "CloneReads": set(), "Depth": 0, "OpNames": PAIR_OPS},
                   invariants=["Inv_Terminates", "Inv_Found", "Inv_Undef", "Inv_ReadOnly", "Inv_CopySound"],
                   properties=["Act_Snapshot", "Act_Isolated", "Act_ReadOnly", "Act_OwnWins"], view="MCView")


def exec_grouped(ctx, cases, tag, nb=12):
    """Execute cases so that all behaviours with the same (based-on graph, queried id) go to the same harness
    process (the harness does not repeat a resolver call that already failed to return for that pair)."""
    buckets = [[] for _ in range(nb)]
    for c in cases:
        st = c["steps"]
        key = ""
        if st and st[0].get("op") == "Load":
            key = ",".join(sorted("%s>%s" % (d["s"], d["b"]) for d in st[0]["defs"]))
            key += "|" + next((o.get("q", "") for o in st[1:] if "q" in o), "")
        buckets[zlib.crc32(key.encode()) % nb].append(c)
    buckets = [b for b in buckets if b]
    with concurrent.futures.ThreadPoolExecutor(len(buckets)) as ex:
        futs = [ex.submit(ctx.run_exec, "styleinh", b, "%s.b%d" % (tag, i), 1) for i, b in enumerate(buckets)]
        parts = [f.result() for f in futs]
    obs = os.path.join(ctx.work, "%s.obs.ndjson" % tag)
    with open(obs, "w") as out:
        for p in parts:
            with open(p) as f:
                out.write(f.read())
            os.remove(p)
    return obs


def account(ctx, obs, tag):
    """Evidence only: which operations were executed with which outcome (read off the observation file)."""
    ops = ctx.extra_cov.setdefault("op_outcomes", {})
    n = 0
    with open(obs) as f:
        for line in f:
            if '"ev":"step"' not in line:
                continue
            e = json.loads(line)
            o = e["op"]
            k = "%s:%s" % ("OnClone(%s)" % o["o"]["op"] if o["op"] == "OnClone" else o["op"], e["ret"])
            ops[k] = ops.get(k, 0) + 1
            n += 1
    return n


def judge(ctx, obs, tag):
    account(ctx, obs, tag)
    res = ctx.tlc_trace("StyleInh_Trace.tla", "StyleInh_Trace.cfg", obs, tag)
    info = ctx.extra_cov.setdefault("observations_not_judged", [])
    for w in res:
        if w["sig"][0] == "INFO-C14" and w["sig"][1:] not in info:
            info.append(w["sig"][1:])


TAGNO = {"enum3": 1, "rmr2": 2, "enum4": 3, "sim": 4}


def gen(ctx, tag, *a, **kw):
    """tlc_gen, then case ids that depend on the plan only (the generation runs of the quick tier are started together,
    the driver numbers cases by the order in which runs end)."""
    cases = ctx.tlc_gen("StyleInh_MC.tla", *a, **kw)
    for i, c in enumerate(cases):
        c["id"] = TAGNO[tag] * 10000000 + i + 1
    ctx.cases_by_tag[tag] = {c["id"]: c for c in cases}
    return cases


def split_obs(path, k):
    """Cut an observation file into k files of whole behaviours (the judge starts afresh at every reset line)."""
    parts = ["%s.part%d" % (path, i) for i in range(k)]
    outs = [open(pp, "w") for pp in parts]
    n = -1
    with open(path) as f:
        for line in f:
            if '"ev":"reset"' in line[:60]:
                n += 1
            outs[max(n, 0) % k].write(line)
    for o in outs:
        o.close()
    return parts


class Background:
    """Runs jobs that each start exactly ONE TLC run next to the main line of the pipeline (the model checks and the
    judge of a finished observation file do not depend on what the main line does meanwhile).  start() returns only
    after the job's TLC run has taken its sequence number from the driver, so no two runs are ever started at once."""

    def __init__(self, ctx):
        self.ctx, self.jobs = ctx, []

    def start(self, fn, *a, cap=None, **kw):
        while cap and sum(1 for t, _ in self.jobs if t.is_alive()) >= cap:
            time.sleep(0.05)        # at most cap jobs at a time (the main line waits)
        seq, box = self.ctx.tlc_seq, {}

        def body():
            try:
                box["r"] = fn(*a, **kw)
            except BaseException as e:      # re-raised by join() on the main line
                box["e"] = e
        t = threading.Thread(target=body)
        t.start()
        while self.ctx.tlc_seq == seq and t.is_alive():
            time.sleep(0.01)
        self.jobs.append((t, box))

    def wait(self):
        for t, _ in self.jobs:
            t.join()

    def join(self):
        self.wait()
        for _, box in self.jobs:
            if "e" in box:
                raise box["e"]


def pipeline(ctx, cases_by=None):
    bg = Background(ctx)
    try:
        rc = pipeline1(ctx, bg, cases_by)
    finally:
        bg.wait()       # nothing of ours keeps running, whatever happened
    return rc


def pipeline1(ctx, bg, cases_by):
    q = ctx.tier == "quick"
    ctx.assumptions += [
        "element granularity: a style that sets a formatting element sets all of its sub-attributes (e.g. all four of "
        "w:spacing), so element-wise and attribute-wise merging agree; the property speaks of elements",
        "valueless elements (keepNext, keepLines, pageBreakBefore, bold, italic, strike) are observed as present/absent, "
        "their owner is not identifiable",
        "ApplyStyleToXML is judged on the elements it conveys (spacing, alignment, indentation, outlineLevel and the "
        "eight character-level ones)",
        "a resolver call that does not return (process death announced by the Go runtime, 60 s limit) is a witness; further resolver calls for the "
        "same id on the unchanged registry are then not executed in that behaviour, nor for the same (based-on graph, "
        "queried id) under other attribute masks in later enumerated behaviours (each death costs a process start); "
        "they are logged as skipped (see op_outcomes) and judged by nothing",
        "writing through the object returned by GetStyleWithInheritance changes the registry (the result is the registered "
        "object or shares its parts); C14 constrains resolution, not the caller, so this is recorded, not judged",
        "the copy taken by the abstract operation Clone is observed only through the operations addressed to it (OnClone; "
        "Peek = GetStyle + StyleExists of every id of the behaviour and GetAllStyles); between two Peeks the judge follows "
        "the copy by the specification alone (the source as it was when Clone was called + what was addressed to the copy), "
        "the source is projected and fingerprinted after every step, also after steps addressed to the copy",
        "an in-place edit (Edit) adds formatting elements to the registered object and re-points its basedOn (through the "
        "existing w:basedOn object or by replacing it, per behaviour); it does not remove elements or rewrite the values "
        "of elements the style already sets",
        "aliases: display name = 'name of <id>' (every style of a behaviour that uses a name alias gets one), other letter "
        "case = ASCII letters swapped, blank = id followed by a space, label = the entry of GetPredefinedStyleNames / "
        "GetPredefinedStyleConfigs for that id; an id without such a form (no letters, the other-case form is an id of the "
        "behaviour too, not a predefined id) is concretised as just another undefined id",
        "what an XML loader does with a styles part (accept it or not, which registry results) is outside C14: it is "
        "recorded under observations_not_judged; C14 is judged on whatever registry the loader left behind. On this tree "
        "the three loaders reject every input (see observations_not_judged), so the styles-part origin currently "
        "contributes no registries; LoadStylesFromDocument then re-registers the predefined styles (behaviours that use "
        "it take ids that are not predefined)",
    ]
    if ctx.wzh is None:
        ctx.build_harness()
    if cases_by is not None:
        obs = ctx.run_exec("styleinh", cases_by, "replay")
        judge(ctx, obs, "replay")
        return ctx.finish(LEVEL, RULE)

    bg.start(ctx.tlc_mc, "StyleInh_MC.tla", "StyleInh_MC_quick.cfg" if q else "StyleInh_MC_two.cfg", timeout=600, workers=4)
    bg.start(ctx.tlc_mc, "StyleInh_MC.tla", paircfg(ctx, "pair.cfg", 1 if q else 2), timeout=600, workers=2 if q else 4)
    # (the 4-style registries are checked against the same design-level statements while they are
    #  enumerated: Inv_EnumSound in enum4.cfg; StyleInh_MC_thorough.cfg is the stand-alone 4-style run)

    bounds = {}
    reads = ["Resolve", "ToXML"]
    if q:
        reads = [reads[(ctx.seed + 1) % 2]]     # seed 1: Resolve
    d = 7 if q else 12
    kinds = [KINDS[ctx.seed % 4]] if q else KINDS      # seed 1: name, 2: case, 3: label, 4: space
    plans = [
        ("enum3", (enumcfg(ctx, "enum3.cfg", 3, ["compl"] if q else ["free"], ["plain"] if q else ["clone"]), "enum3"), dict(timeout=900)),
        ("rmr2", (enumcfg(ctx, "rmr2.cfg", 2, ["compl"] if q else ["free"], ["rmr", "clone", "alias", "xml"] if q else ["rmr", "alias", "xml"],
                          KINDS, reads), "rmr2"), dict(timeout=900)),
        ("enum4", (enumcfg(ctx, "enum4.cfg", 4, ["compl"], ["plain"]), "enum4"), dict(timeout=1200)),
        ("sim", (simcfg(ctx, "gen_sim.cfg", 3 if q else 4, d, kinds), "sim"),
         dict(mode="sim", num=45 if q else 400, depth=d + 1, limit=1500 if q else 12000)),
    ]
    if q:
        plans = [pl for pl in plans if pl[0] != "enum4"]
    # the generation runs are started together, next to the main line (which executes what is ready); every observation
    # file is judged next to the main line as soon as it is complete, in pieces of whole behaviours
    got = {}

    def produce(tag, a, kw):
        got[tag] = gen(ctx, tag, *a, **kw)
    for tag, a, kw in plans:
        bg.start(produce, tag, a, kw)

    def cases_of(tag):
        while tag not in got:
            if not any(t.is_alive() for t, _ in bg.jobs):
                bg.join()
                raise RuntimeError("generation of %s ended without cases" % tag)
            time.sleep(0.05)
        return got[tag]

    def judged(obs, tag, k=1):
        if not q:
            k = max(1, sum(1 for _ in open(obs)) // 150000)
        for part in (split_obs(obs, k) if k > 1 else [obs]):
            bg.start(judge, ctx, part, tag, cap=8 if q else 7)

    if q:
        bounds["enum3"] = "3 styles: 5^3 basedOn graphs x 2^3 masks of x, y exactly where x is not x 4 queried ids"
    else:
        bounds["enum3"] = "3 styles: 5^3 basedOn graphs x 2^3 masks of x x 2^3 masks of y (independent) x 4 queried ids; tail: clone ops"
    judged(exec_grouped(ctx, cases_of("enum3"), "enum3"), "enum3")
    bounds["rmr2"] = ("2 styles: every registry (y %s) x every queried style id x every single AddStyle / RemoveStyle / "
                      "CreateCustomStyle / in-place edit mu: resolve, Clone (the copy is put aside unread), mu, resolve again, then "
                      "on the copy: %s of the same id (its first read), Peek, mu, Peek"
                      % ("exactly where x is not" if q else "independent", " / ".join(reads)))
    bounds["alias2"] = ("2 styles: every based-on graph in which a style refers to its parent by an alias (display name, other "
                        "letter case, added blank) of a style x masks x every style id and every alias used as queried id: "
                        "Load, Resolve, ToXML, Info")
    bounds["xml2"] = ("2 styles: every registry written as a styles part (XML) x each loader (ParseStylesFromXML, MergeStylesFromXML, "
                      "LoadStylesFromDocument) x every queried style id: LoadXML, Resolve, ToXML, Info")
    if q:
        bounds["rmr2"] += "; and every registry x 3 queried ids with tail: clone ops, resolution on the clone"
    judged(exec_grouped(ctx, cases_of("rmr2"), "rmr2"), "rmr2", 2)
    if not q:
        bounds["enum4"] = "4 styles: 6^4 basedOn graphs x 2^4 masks of x, y exactly where x is not x 5 queried ids"
        judged(exec_grouped(ctx, cases_of("enum4"), "enum4"), "enum4")
    ctx.exhaustive = True

    sim = cases_of("sim")
    bounds["sim"] = ("%d random operation sequences of length %d over %d styles, all %d operations (those on the copy included), "
                     "alias kinds %s" % (len(sim), d, 3 if q else 4, len(ALLOPS), "/".join(kinds)))
    judged(ctx.run_exec("styleinh", sim, "sim", shards=12), "sim")
    bg.join()
    ctx.extra_cov["bounds"] = bounds
    ctx.extra_cov["variants_per_behaviour"] = 20
    ctx.extra_cov["exhaustive_scope"] = ("all (registry, queried id) inputs / histories of bounds.enum*/rmr*/alias*/xml* are enumerated and executed; resolver "
                                         "calls counted as skipped in op_outcomes were not executed (budget rule after a call that "
                                         "did not return); the random sequences (bounds.sim) are a sample, not exhaustive")
    return ctx.finish(LEVEL, RULE)


def run(ctx):
    return pipeline(ctx)


def replay(ctx, rp):
    c = rp["case"]
    ctx.cases_by_tag["replay"] = {c["id"]: c}
    return pipeline(ctx, [c])
