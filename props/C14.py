"""C14 — style inheritance resolves to the nearest definition and always terminates (spec module StyleInh)."""
import json, os

MANIFEST = dict(
    module="StyleInh", ref="§5 C14",
    text="The reference resolver of StyleInh.tla (nearest definition along basedOn with a visited set) is model-checked over "
         "every registry of the bound (all basedOn graphs incl. self loops, cycles and missing parents, all set/unset masks, "
         "all queried ids) against an independent bounded-search characterisation, a recursive law and a frame property; "
         "TLC then enumerates every (registry, queried id) input once and generates random operation sequences, each is "
         "executed on real StyleManager objects (every one of the 18 paragraph/character elements in turn playing the "
         "enumerated mask, in a child process because a based-on cycle can kill the process) and the owner of every "
         "element of every result, the deep fingerprint of the registry before/after every call and the independence of "
         "clones are judged by StyleInh_Trace.tla. Exhaustive small-scope enumeration is the right level for a claim over "
         "all graphs and attribute subsets of a hand-written per-attribute merge.",
    technique="TLA+ spec StyleInh; TLC exhaustive MC of the reference resolver + TLC-enumerated inputs and simulated "
              "sequences replayed on the library (supervised child process) + TLC trace judge",
)

LEVEL = "model_checking"
RULE = ("inputs = every registry over N style ids (basedOn of each style in ids ∪ {none, undefined id}: every graph with self "
        "loops, cycles, missing parents) × set/unset mask of attribute slot x over the styles × mask of slot y as stated "
        "in bounds × every queried id incl. an undefined one, enumerated by TLC exactly once; each input is executed with "
        "20 concrete attribute→slot assignments (each of the 18 formatting elements alone in x with the other 17 in y; "
        "paragraph-level vs character-level both ways) through Load, GetStyleWithInheritance, ApplyStyleToXML, "
        "GetStyleInfo (+ Clone ops, resolution on the clone, write-through-the-result probe); plus seeded random "
        "sequences of AddStyle/RemoveStyle/CreateCustomStyle/queries/Clone; judged step by step by StyleInh_Trace.tla")

ALLOPS = {"AddStyle", "RemoveStyle", "Create", "Resolve", "ToXML", "Info", "MutRes", "CloneSwap", "CloneDrop"}


def enumcfg(ctx, name, n, ymodes, tail):
    return ctx.cfg(name, "SpecEnum", {"NStyles": n, "TwoSlots": True, "YModes": set(ymodes), "TailMode": tail,
                                      "Depth": 0, "OpNames": set()}, invariants=["EmitEnum", "Inv_EnumSound"])


def simcfg(ctx, name, n, depth):
    return ctx.cfg(name, "SpecGen", {"NStyles": n, "TwoSlots": True, "YModes": set(), "TailMode": "none",
                                     "Depth": depth, "OpNames": ALLOPS}, invariants=["Emit"])


def account(ctx, obs, tag):
    """Evidence only: which operations were executed with which outcome (read off the observation file)."""
    ops = ctx.extra_cov.setdefault("op_outcomes", {})
    n = 0
    with open(obs) as f:
        for line in f:
            if '"ev":"step"' not in line:
                continue
            e = json.loads(line)
            k = "%s:%s" % (e["op"]["op"], e["ret"])
            ops[k] = ops.get(k, 0) + 1
            n += 1
    return n


def judge(ctx, obs, tag):
    account(ctx, obs, tag)
    res = ctx.tlc_trace("StyleInh_Trace.tla", "StyleInh_Trace.cfg", obs, tag)
    info = ctx.extra_cov.setdefault("observations_not_judged", [])
    for w in res:
        if w["sig"][0] == "INFO-C14" and w["sig"][1:] not in info:
            info.append(w["sig"][1:])


def pipeline(ctx, cases_by=None):
    q = ctx.tier == "quick"
    ctx.assumptions += [
        "element granularity: a style that sets a formatting element sets all of its sub-attributes (e.g. all four of "
        "w:spacing), so element-wise and attribute-wise merging agree; the property speaks of elements",
        "valueless elements (keepNext, keepLines, pageBreakBefore, bold, italic, strike) are observed as present/absent, "
        "their owner is not identifiable",
        "ApplyStyleToXML is judged on the elements it conveys (spacing, alignment, indentation, outlineLevel and the "
        "eight character-level ones)",
        "a resolver call that does not return (process death announced by the Go runtime, 60 s limit) is a witness; further resolver calls for the "
        "same id on the unchanged registry are then not executed in that behaviour (each death costs a process start)",
        "writing through the object returned by GetStyleWithInheritance changes the registry (the result is the registered "
        "object or shares its parts); C14 constrains resolution, not the caller, so this is recorded, not judged",
    ]
    if cases_by is not None:
        obs = ctx.run_exec("styleinh", cases_by, "replay")
        judge(ctx, obs, "replay")
        return ctx.finish(LEVEL, RULE)

    ctx.tlc_mc("StyleInh_MC.tla", "StyleInh_MC_quick.cfg" if q else "StyleInh_MC_two.cfg", timeout=600)
    if not q:
        ctx.tlc_mc("StyleInh_MC.tla", "StyleInh_MC_thorough.cfg", timeout=900)

    bounds = {}
    if q:
        cases = ctx.tlc_gen("StyleInh_MC.tla", enumcfg(ctx, "enum3.cfg", 3, ["compl"], "none"), "enum3", timeout=600)
        bounds["enum3"] = "3 styles: 5^3 basedOn graphs x 2^3 masks of x, y exactly where x is not x 4 queried ids"
    else:
        cases = ctx.tlc_gen("StyleInh_MC.tla", enumcfg(ctx, "enum3.cfg", 3, ["free"], "clone"), "enum3", timeout=900)
        bounds["enum3"] = "3 styles: 5^3 basedOn graphs x 2^3 masks of x x 2^3 masks of y (independent) x 4 queried ids; tail: clone ops"
    allobs = [ctx.run_exec("styleinh", cases, "enum3", shards=12)]
    if q:
        cases = ctx.tlc_gen("StyleInh_MC.tla", enumcfg(ctx, "enum2.cfg", 2, ["free"], "clone"), "enum2", timeout=600)
        bounds["enum2"] = "2 styles: 4^2 basedOn graphs x 2^2 masks of x x 2^2 masks of y x 3 queried ids; tail: clone ops, resolution on the clone"
        allobs.append(ctx.run_exec("styleinh", cases, "enum2", shards=4))
    cases = ctx.tlc_gen("StyleInh_MC.tla", enumcfg(ctx, "rmr2.cfg", 2, ["compl"] if q else ["free"], "rmr"), "rmr2", timeout=600)
    bounds["rmr2"] = ("2 styles: every registry (y %s) x every defined-or-not queried style id: resolve, then every single "
                      "AddStyle / RemoveStyle / CreateCustomStyle, then resolve again" % ("exactly where x is not" if q else "independent"))
    allobs.append(ctx.run_exec("styleinh", cases, "rmr2", shards=12))
    if not q:
        cases = ctx.tlc_gen("StyleInh_MC.tla", enumcfg(ctx, "enum4.cfg", 4, ["compl"], "none"), "enum4", timeout=1200)
        bounds["enum4"] = "4 styles: 6^4 basedOn graphs x 2^4 masks of x, y exactly where x is not x 5 queried ids"
        obs = ctx.run_exec("styleinh", cases, "enum4", shards=12)
        judge(ctx, obs, "enum4")
        judge(ctx, allobs.pop(0), "enum3")
    ctx.exhaustive = True

    d = 7 if q else 12
    sim = ctx.tlc_gen("StyleInh_MC.tla", simcfg(ctx, "gen_sim.cfg", 3 if q else 4, d), "sim", mode="sim",
                      num=45 if q else 400, depth=d + 1, limit=1500 if q else 12000)
    bounds["sim"] = "%d random operation sequences of length %d over %d styles, all 9 operations" % (len(sim), d, 3 if q else 4)
    allobs.append(ctx.run_exec("styleinh", sim, "sim", shards=12))
    if allobs:
        # one judge run over the remaining observation files (TLC start-up dominates small runs)
        merged = {}
        for t in list(ctx.cases_by_tag):
            merged.update(ctx.cases_by_tag[t])
        ctx.cases_by_tag["all"] = merged
        obs = os.path.join(ctx.work, "all.obs.ndjson")
        with open(obs, "w") as out:
            for p in allobs:
                with open(p) as f:
                    out.write(f.read())
        judge(ctx, obs, "all")
    ctx.extra_cov["bounds"] = bounds
    ctx.extra_cov["variants_per_behaviour"] = 20
    ctx.extra_cov["exhaustive_scope"] = ("all (registry, queried id) inputs of bounds.enum*; the random sequences (bounds.sim) "
                                         "are a sample, not exhaustive")
    return ctx.finish(LEVEL, RULE)


def run(ctx):
    return pipeline(ctx)


def replay(ctx, rp):
    c = rp["case"]
    ctx.cases_by_tag["replay"] = {c["id"]: c}
    return pipeline(ctx, [c])
