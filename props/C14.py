"""C14 — style inheritance resolves to the nearest definition and always terminates (spec module StyleInh)."""
import concurrent.futures, json, os, zlib

MANIFEST = dict(
    module="StyleInh", ref="§5 C14",
    text="The reference resolver of StyleInh.tla (nearest definition along basedOn with a visited set) is model-checked over "
         "every registry of the bound (all basedOn graphs incl. self loops, cycles and missing parents, all set/unset masks, "
         "all queried ids) against an independent bounded-search characterisation, a recursive law and a frame property; "
         "TLC then enumerates every (registry, queried id) input once and generates random operation sequences, each is "
         "executed on real StyleManager objects (every one of the 18 paragraph/character elements in turn playing the "
         "enumerated mask, in a child process because a based-on cycle can kill the process) and the owner of every "
         "element of every result, the deep fingerprint of the registry before/after every call and the independence of "
         "clones are judged by StyleInh_Trace.tla. Exhaustive small-scope enumeration is the right level for a claim over "
         "all graphs and attribute subsets of a hand-written per-attribute merge.",
    technique="TLA+ spec StyleInh; TLC exhaustive MC of the reference resolver + TLC-enumerated inputs and simulated "
              "sequences replayed on the library (supervised child process) + TLC trace judge",
)

LEVEL = "model_checking"
RULE = ("inputs = every registry over N style ids (basedOn of each style in ids ∪ {none, undefined id}: every graph with self "
        "loops, cycles, missing parents) × set/unset mask of attribute slot x over the styles × mask of slot y as stated "
        "in bounds × every queried id incl. an undefined one, enumerated by TLC exactly once; each input is executed with "
        "20 concrete attribute→slot assignments (each of the 18 formatting elements alone in x with the other 17 in y; "
        "paragraph-level vs character-level both ways) through Load, GetStyleWithInheritance, ApplyStyleToXML, "
        "GetStyleInfo (+ Clone ops, resolution on the clone, write-through-the-result probe); plus seeded random "
        "sequences of AddStyle/RemoveStyle/CreateCustomStyle/queries/listings/Clone; judged step by step by StyleInh_Trace.tla")

ALLOPS = {"AddStyle", "RemoveStyle", "Create", "Edit", "Resolve", "ToXML", "Info", "List", "MutRes", "CloneSwap", "CloneDrop",
          "Clone", "OnClone"}
KINDS = ["name", "case", "space"]     # StyleInh!AliasKinds
PAIR_OPS = {"AddStyle", "RemoveStyle", "Edit", "Resolve", "Clone", "OnClone"}


def enumcfg(ctx, name, n, ymodes, plans, kinds=(), reads=()):
    return ctx.cfg(name, "SpecEnum", {"NStyles": n, "TwoSlots": True, "YModes": set(ymodes), "Kinds": set(kinds),
                                      "Plans": set(plans), "CloneReads": set(reads),
                                      "Depth": 0, "OpNames": set()}, invariants=["EmitEnum", "Inv_EnumSound"])


def simcfg(ctx, name, n, depth, kinds):
    return ctx.cfg(name, "SpecGen", {"NStyles": n, "TwoSlots": True, "YModes": set(), "Kinds": set(kinds), "Plans": set(),
                                     "CloneReads": set(), "Depth": depth, "OpNames": ALLOPS}, invariants=["Emit"])


def paircfg(ctx, name, n):
    """The pair (registry, copy) as a machine: snapshot + isolation, stated as action properties."""
    return ctx.cfg(name, "SpecMC", {"NStyles": n, "TwoSlots": False, "YModes": set(), "Kinds": set(), "Plans": set(),
                                    "CloneReads": set(), "Depth": 0, "OpNames": PAIR_OPS},
                   invariants=["Inv_Terminates", "Inv_Found", "Inv_Undef", "Inv_ReadOnly", "Inv_CopySound"],
                   properties=["Act_Snapshot", "Act_Isolated", "Act_ReadOnly", "Act_OwnWins"], view="MCView")


def exec_grouped(ctx, cases, tag, nb=12):
    """Execute cases so that all behaviours with the same (based-on graph, queried id) go to the same harness
    process (the harness does not repeat a resolver call that already failed to return for that pair)."""
    buckets = [[] for _ in range(nb)]
    for c in cases:
        st = c["steps"]
        key = ""
        if st and st[0].get("op") == "Load":
            key = ",".join(sorted("%s>%s" % (d["s"], d["b"]) for d in st[0]["defs"]))
            key += "|" + next((o.get("q", "") for o in st[1:] if "q" in o), "")
        buckets[zlib.crc32(key.encode()) % nb].append(c)
    buckets = [b for b in buckets if b]
    with concurrent.futures.ThreadPoolExecutor(len(buckets)) as ex:
        futs = [ex.submit(ctx.run_exec, "styleinh", b, "%s.b%d" % (tag, i), 1) for i, b in enumerate(buckets)]
        parts = [f.result() for f in futs]
    obs = os.path.join(ctx.work, "%s.obs.ndjson" % tag)
    with open(obs, "w") as out:
        for p in parts:
            with open(p) as f:
                out.write(f.read())
            os.remove(p)
    return obs


def account(ctx, obs, tag):
    """Evidence only: which operations were executed with which outcome (read off the observation file)."""
    ops = ctx.extra_cov.setdefault("op_outcomes", {})
    n = 0
    with open(obs) as f:
        for line in f:
            if '"ev":"step"' not in line:
                continue
            e = json.loads(line)
            k = "%s:%s" % (e["op"]["op"], e["ret"])
            ops[k] = ops.get(k, 0) + 1
            n += 1
    return n


def judge(ctx, obs, tag):
    account(ctx, obs, tag)
    res = ctx.tlc_trace("StyleInh_Trace.tla", "StyleInh_Trace.cfg", obs, tag)
    info = ctx.extra_cov.setdefault("observations_not_judged", [])
    for w in res:
        if w["sig"][0] == "INFO-C14" and w["sig"][1:] not in info:
            info.append(w["sig"][1:])


def pipeline(ctx, cases_by=None):
    q = ctx.tier == "quick"
    ctx.assumptions += [
        "element granularity: a style that sets a formatting element sets all of its sub-attributes (e.g. all four of "
        "w:spacing), so element-wise and attribute-wise merging agree; the property speaks of elements",
        "valueless elements (keepNext, keepLines, pageBreakBefore, bold, italic, strike) are observed as present/absent, "
        "their owner is not identifiable",
        "ApplyStyleToXML is judged on the elements it conveys (spacing, alignment, indentation, outlineLevel and the "
        "eight character-level ones)",
        "a resolver call that does not return (process death announced by the Go runtime, 60 s limit) is a witness; further resolver calls for the "
        "same id on the unchanged registry are then not executed in that behaviour, nor for the same (based-on graph, "
        "queried id) under other attribute masks in later enumerated behaviours (each death costs a process start); "
        "they are logged as skipped (see op_outcomes) and judged by nothing",
        "writing through the object returned by GetStyleWithInheritance changes the registry (the result is the registered "
        "object or shares its parts); C14 constrains resolution, not the caller, so this is recorded, not judged",
    ]
    if ctx.wzh is None:
        ctx.build_harness()
    if cases_by is not None:
        obs = ctx.run_exec("styleinh", cases_by, "replay")
        judge(ctx, obs, "replay")
        return ctx.finish(LEVEL, RULE)

    ctx.tlc_mc("StyleInh_MC.tla", "StyleInh_MC_quick.cfg" if q else "StyleInh_MC_two.cfg", timeout=600)
    ctx.tlc_mc("StyleInh_MC.tla", paircfg(ctx, "pair.cfg", 1 if q else 2), timeout=600)
    # (the 4-style registries are checked against the same design-level statements while they are
    #  enumerated: Inv_EnumSound in enum4.cfg; StyleInh_MC_thorough.cfg is the stand-alone 4-style run)

    bounds = {}
    if q:
        cases = ctx.tlc_gen("StyleInh_MC.tla", enumcfg(ctx, "enum3.cfg", 3, ["compl"], ["plain"]), "enum3", timeout=600)
        bounds["enum3"] = "3 styles: 5^3 basedOn graphs x 2^3 masks of x, y exactly where x is not x 4 queried ids"
    else:
        cases = ctx.tlc_gen("StyleInh_MC.tla", enumcfg(ctx, "enum3.cfg", 3, ["free"], ["clone"]), "enum3", timeout=900)
        bounds["enum3"] = "3 styles: 5^3 basedOn graphs x 2^3 masks of x x 2^3 masks of y (independent) x 4 queried ids; tail: clone ops"
    allobs = [exec_grouped(ctx, cases, "enum3")]
    reads = ["Resolve", "ToXML"]
    if q:
        reads = [reads[(ctx.seed + 1) % 2]]     # seed 1: Resolve
    cases = ctx.tlc_gen("StyleInh_MC.tla", enumcfg(ctx, "rmr2.cfg", 2, ["compl"] if q else ["free"],
                                                   ["rmr", "clone", "alias"] if q else ["rmr", "alias"], KINDS, reads),
                        "rmr2", timeout=600)
    bounds["rmr2"] = ("2 styles: every registry (y %s) x every queried style id: resolve, then every single AddStyle / "
                      "RemoveStyle / CreateCustomStyle, then resolve again" % ("exactly where x is not" if q else "independent"))
    if q:
        bounds["rmr2"] += "; and the same registries x 3 queried ids with tail: clone ops, resolution on the clone"
    allobs.append(exec_grouped(ctx, cases, "rmr2"))
    if not q:
        cases = ctx.tlc_gen("StyleInh_MC.tla", enumcfg(ctx, "enum4.cfg", 4, ["compl"], ["plain"]), "enum4", timeout=1200)
        bounds["enum4"] = "4 styles: 6^4 basedOn graphs x 2^4 masks of x, y exactly where x is not x 5 queried ids"
        obs = exec_grouped(ctx, cases, "enum4")
        judge(ctx, obs, "enum4")
        judge(ctx, allobs.pop(0), "enum3")
    ctx.exhaustive = True

    d = 7 if q else 12
    kinds = [KINDS[ctx.seed % 3]] if q else KINDS      # seed 1: case, 2: space, 3: name
    sim = ctx.tlc_gen("StyleInh_MC.tla", simcfg(ctx, "gen_sim.cfg", 3 if q else 4, d, kinds), "sim", mode="sim",
                      num=45 if q else 400, depth=d + 1, limit=1500 if q else 12000)
    bounds["sim"] = "%d random operation sequences of length %d over %d styles, all 10 operations" % (len(sim), d, 3 if q else 4)
    allobs.append(ctx.run_exec("styleinh", sim, "sim", shards=12))
    if allobs:
        # one judge run over the remaining observation files (TLC start-up dominates small runs)
        merged = {}
        for t in list(ctx.cases_by_tag):
            merged.update(ctx.cases_by_tag[t])
        ctx.cases_by_tag["all"] = merged
        obs = os.path.join(ctx.work, "all.obs.ndjson")
        with open(obs, "w") as out:
            for p in allobs:
                with open(p) as f:
                    out.write(f.read())
        judge(ctx, obs, "all")
    ctx.extra_cov["bounds"] = bounds
    ctx.extra_cov["variants_per_behaviour"] = 20
    ctx.extra_cov["exhaustive_scope"] = ("all (registry, queried id) inputs of bounds.enum*/rmr* are enumerated and executed; resolver "
                                         "calls counted as skipped in op_outcomes were not executed (budget rule after a call that "
                                         "did not return); the random sequences (bounds.sim) are a sample, not exhaustive")
    return ctx.finish(LEVEL, RULE)


def run(ctx):
    return pipeline(ctx)


def replay(ctx, rp):
    c = rp["case"]
    ctx.cases_by_tag["replay"] = {c["id"]: c}
    return pipeline(ctx, [c])
