"""C13 — everything a document refers to by id is defined in the same package (spec module Defs)."""
import collections

MANIFEST = dict(
    module="Defs", ref="§5 C13",
    text="The reference machine Defs.tla (every helper registers the style ids it emits; the styles part is rewritten from the "
         "registry at every save; RemoveStyle removes the one style named, styles based on it stay; numbering and note definitions "
         "belong to the document and only grow; two documents of one process do not touch each other; reading changes nothing) is "
         "model-checked exhaustively; TLC-generated operation sequences mixing style creation (on a built-in, custom or unknown "
         "base, several levels deep)/change/removal, styled content (headings, quotes/code via Markdown, TOC helpers, table style "
         "templates), lists, notes, read accesses (Look), saves, reopen (same and fresh process), opening synthesised foreign "
         "packages with their own styles/numbering and switching between two documents alive in the process are executed on the "
         "real library three times: saving where the behaviour says, saving after every step, and blind (no read access to the "
         "document by the observer between the operations); every saved package is read by the independent OPC reader and judged "
         "by Defs_Trace.tla (ids resolved across parts; styles added/changed through the style API and not removed by the caller "
         "present in the next save with their content and base).",
    technique="TLA+ spec Defs; TLC exhaustive MC + TLC-generated behaviours replayed on the library + TLC trace judge",
)

LEVEL = "model_checking"
RULE = ("behaviours = every sequence of the operation alphabet up to the tier's BFS depth enumerated by TLC (whole alphabet and "
        "focused alphabets: styles with hierarchies, toc, registries, two documents, tables), plus seeded random longer ones; each "
        "is executed three times on the real library (A: saving as generated + once at the end; B: saving after every step; C: the "
        "schedule of A without any accessor call by the observer); after every step the in-memory registry/body of the current "
        "document (A, B) and, at every save, the written package are projected and judged by Defs_Trace.tla: style ids emitted by "
        "library helpers resolve in the styles part, numIds resolve to num and abstractNum, note ids resolve, the parts are "
        "well-formed, styles added/changed through the style API are in the next save with their current content and base - also "
        "when the registry lost them without the caller removing them (style-lost)")

ASSUMPTIONS = [
    "a style id the caller passes to SetStyle / TableStyleConfig.StyleID that is not in the document's registry at the time of "
    "the call is a caller error and is not reported (by = SetStyle:unregistered / ApplyTableStyle:unregistered)",
    "a reference to a style the caller removed with RemoveStyle (and did not add again) is not reported; likewise the text marker "
    "of a note the caller removed with RemoveFootnote/RemoveEndnote. Removing a style is not removing the styles based on it: "
    "those must stay defined (their dangling basedOn is not judged - the property speaks of ids used in the body)",
    "the library writes note references as text markers '[n]' / '[尾注n]' at the end of the paragraph AddFootnote/AddEndnote "
    "creates; these markers (and real w:footnoteReference / w:endnoteReference elements) are the note ids referred to",
    "a style counts as changed when its w:rPr/w:sz carries one of the harness's version tokens; 'present in the next save' is "
    "checked for the ids added/changed through the style API since the previous save (not for registry entries the loader adds); "
    "the base (w:basedOn) is compared for the styles the behaviour itself adds",
    "numbering/notes/styles parts are located through the main part's relationships with a fall-back to the conventional part "
    "name (a misplaced relationship is property C02's concern)",
    "in the blind variant (C) nothing is observed in memory; the judge resynchronises on what variant A observed at the same "
    "step of the same behaviour (the library is deterministic for a given behaviour and seed), so a difference between an "
    "observed and an unobserved run shows in the saved package only",
    "two documents: Switch makes the other document of the process current (a new document the first time); only the current "
    "document is projected and saved. Isolation of the in-memory state is property C07's concern; here the saved package of "
    "either document must resolve its ids whatever was done to the other one in between",
    "note texts get different lengths (step index) so that notes parts of different documents differ in size",
]

ALLOPS = ["AddHeading", "SetStyle", "AddStyle", "ModifyStyle", "RemoveStyle", "GenerateTOC", "AutoGenerateTOC", "UpdateTOC",
          "TOCEntry", "ApplyTableStyle", "CreateCustomTableStyle", "AddListItem", "AddNote", "RemoveNote", "Save", "SaveFile",
          "Reopen", "OpenForeign", "Markdown", "RenderTemplate", "AddParagraph", "AddHeader", "AddFooter", "AddTable",
          "Switch", "Look"]

# argument classes
SMALL = dict(Lv={2, 9}, Maxes={3}, StyIds={"Quote", "C1", "Zz9"}, AddIds={"C1"}, ModIds={"Heading2", "C1"}, RmIds={"Heading2", "C1"},
             Tpls={"TableGrid"}, TblIds={"ab", "TS1"}, ListTypes={"bullet", "number"}, Shapes={"lists", "toc"}, Kinds={"all"},
             ViasC={"AddStyle"}, HowsC={"mutate", "replace"}, FreshC={True}, OnIds={"Normal", "Heading2"}, NoteKinds={"fn", "en"},
             Looks={"styles"})
WIDE = dict(Lv=set(range(1, 10)), Maxes={1, 3, 9}, StyIds={"Quote", "Title", "Heading2", "C1", "Q1", "F1", "TOC2", "Zz9"},
            AddIds={"C1", "Q1", "TS1"}, ModIds={"Heading1", "Quote", "13", "C1", "F1", "Normal"}, RmIds={"Heading1", "Heading2", "Quote", "C1", "13"},
            Tpls={"TableNormal", "TableGrid", "TableList", "TableColorful1", "TableColorful2", "TableColorful3", "TableColumns1",
                  "TableColumns2", "TableColumns3", "TableRows1", "TableRows2", "TableRows3", "TablePlain1", "TablePlain2", "TablePlain3"},
            TblIds={"ab", "a1", "TS1", "FT1"}, ListTypes={"bullet", "number", "decimal", "lowerLetter", "upperLetter", "lowerRoman", "upperRoman"},
            Shapes={"plain", "lists", "listslow", "toc", "tbl", "nostyles"}, Kinds={"quote", "code", "heads", "all"},
            ViasC={"AddStyle", "CreateCustomStyle", "CreateQuickStyle"}, HowsC={"mutate", "replace"}, FreshC={True, False},
            OnIds={"Normal", "Heading1", "Quote", "C1", "Q1", "Zz9"}, NoteKinds={"fn", "en"}, Looks={"styles", "body", "parts"})


def consts(ops, args, depth=0, maxsteps=0):
    c = {"MaxSteps": maxsteps, "Depth": depth, "OpNames": set(ops)}
    c.update(args)
    return c


def gencfg(ctx, name, ops, args, depth):
    return ctx.cfg(name, "SpecGen", consts(ops, args, depth=depth), invariants=["Emit"])


# focused alphabets explored exhaustively deeper than the whole alphabet:
# (name, ops, argument classes, quick depth (0 = thorough only), thorough depth)
GROUPS = [
    ("styles", ["AddStyle", "ModifyStyle", "RemoveStyle", "SetStyle", "AddHeading", "Save", "Reopen", "OpenForeign", "RenderTemplate"],
     dict(SMALL, Lv={2}, StyIds={"C1"}, ModIds={"C1", "Heading2"}, RmIds={"C1", "Heading2"}, OnIds={"Heading2"}, Shapes={"plain"},
          HowsC={"replace"}, FreshC={False}), 3, 4),
    # style hierarchies: custom on built-in, custom on custom; removal of a base that styled content depends on indirectly
    ("hierarchy", ["AddStyle", "RemoveStyle", "SetStyle", "Save", "Reopen"],
     dict(SMALL, AddIds={"C1", "C2"}, OnIds={"Heading2", "C1"}, RmIds={"C1", "Heading2"}, StyIds={"C2"}, FreshC={False}), 3, 4),
    ("toc", ["AddHeading", "GenerateTOC", "AutoGenerateTOC", "UpdateTOC", "TOCEntry", "RemoveStyle", "Reopen", "OpenForeign", "Markdown"],
     dict(SMALL, Lv={2}, Maxes={3}, RmIds={"14"}, Shapes={"toc"}, Kinds={"heads"}, FreshC={False}), 3, 4),
    ("registries", ["AddListItem", "AddNote", "Reopen", "OpenForeign"],
     dict(SMALL, ListTypes={"bullet"}, Shapes={"lists"}, FreshC={True}), 4, 5),
    ("registries2", ["AddListItem", "AddNote", "RemoveNote", "Reopen", "OpenForeign", "Save"],
     dict(SMALL, ListTypes={"bullet", "number"}, Shapes={"lists", "listslow"}, FreshC={True, False}), 0, 4),
    # two documents alive in one process, each with its own notes / lists, operations interleaved (the kind of note
    # rotates with the seed in the quick tier)
    ("twodocs", ["AddNote", "RemoveNote", "AddListItem", "Switch", "Save"],
     dict(SMALL, ListTypes={"bullet"}, NoteKinds={"fn"}), 4, 5),
    ("tables", ["AddStyle", "ApplyTableStyle", "CreateCustomTableStyle", "RemoveStyle", "Reopen", "OpenForeign", "Save"],
     dict(SMALL, AddIds={"TS1"}, RmIds={"TS1", "ab"}, Tpls={"TableGrid", "TableColorful2"}, TblIds={"ab", "TS1", "FT1"}, Shapes={"tbl"}, FreshC={False}), 0, 3),
]


def judge(ctx, cases, tag):
    obs = ctx.run_exec("defs", cases, tag, env={"GOGC": "200"})
    res = ctx.tlc_trace("Defs_Trace.tla", "Defs_Trace.cfg", obs, tag)
    dev = ctx.extra_cov.setdefault("model_deviations", [])
    for w in res:
        if w["sig"][0] == "M13" and w["sig"] not in dev:
            dev.append(w["sig"])
    return res


def count_ops(cnt, cases):
    for c in cases:
        for s in c["steps"]:
            cnt[s["op"]] += 1


def pipeline(ctx, cases_by=None):
    q = ctx.tier == "quick"
    ctx.assumptions.extend(ASSUMPTIONS)
    ctx.tlc_mc("Defs_MC.tla", "Defs_MC_quick.cfg" if q else "Defs_MC_thorough.cfg")
    if cases_by is None:
        cnt = collections.Counter()
        allc = []
        # (1) every behaviour of the whole alphabet (small argument classes) to depth 2; in the thorough tier also
        #     depth 3 without the operations that emit no ids (plain paragraph/table/header/footer, file Save)
        depths = {"all": 2}
        allc += ctx.tlc_gen("Defs_MC.tla", gencfg(ctx, "gen_bfs_all.cfg", ALLOPS, SMALL, 2), "bfsall")
        if not q:
            ops3 = [o for o in ALLOPS if o not in ("AddParagraph", "AddHeader", "AddFooter", "AddTable", "SaveFile", "RemoveNote", "Look")]
            allc += ctx.tlc_gen("Defs_MC.tla", gencfg(ctx, "gen_bfs_all3.cfg", ops3, dict(SMALL, OnIds={"Heading2"}), 3), "bfsall3")
            depths["all-without-idless-ops"] = 3
        # (2) every behaviour of each focused alphabet, deeper
        for name, ops, args, dq, dt in GROUPS:
            d2 = dq if q else dt
            if d2 == 0:
                continue
            if name == "twodocs":
                args = dict(args, NoteKinds={"fn", "en"} if not q else ({"fn"} if ctx.seed % 2 else {"en"}))
            allc += ctx.tlc_gen("Defs_MC.tla", gencfg(ctx, "gen_bfs_%s.cfg" % name, ops, args, d2), "bfs" + name)
            depths[name] = d2
        ctx.exhaustive = True
        # (3) seeded random long behaviours over the wide argument classes
        d3 = 10 if q else 16
        allc += ctx.tlc_gen("Defs_MC.tla", gencfg(ctx, "gen_sim.cfg", ALLOPS, WIDE, d3), "sim", mode="sim", num=6 if q else 14, depth=d3 + 1)
        count_ops(cnt, allc)
        # one execution + one judge run over everything (case ids are unique across generators)
        ctx.cases_by_tag["gen"] = {c["id"]: c for c in allc}
        judge(ctx, allc, "gen")
        ctx.extra_cov["bounds"] = {"bfs_depths": depths, "sim_depth": d3, "variants_per_behaviour": 3,
                                   "exhaustive_over": "operation sequences of the stated alphabets/argument classes up to the BFS depths"}
        ctx.extra_cov["op_counts"] = dict(cnt)
    else:
        judge(ctx, cases_by, "replay")
    return ctx.finish(LEVEL, RULE)


def run(ctx):
    return pipeline(ctx)


def replay(ctx, rp):
    c = rp["case"]
    ctx.cases_by_tag["replay"] = {c["id"]: c}
    return pipeline(ctx, [c])
