"""C17 — template rendering is pure, repeatable and safe to use concurrently (spec module Engine)."""
import copy, json, os, re, threading

from vlib import Machinery, log

MANIFEST = dict(
    module="Engine", ref="§5 C17",
    text="Engine.tla specifies the template engine as a cache of immutable template values with rendering as a pure function "
         "of the value captured at load and of the data (inheritance chain: most derived block wins, siblings independent; document "
         "templates with paragraphs, page header and tables - split-run placeholders, a row loop with a nested table, summary cells "
         "holding a whole loop and a conditional, a row loop over a list nobody supplies; list items that are maps, maps lacking "
         "the field, map[string]string or plain strings). The alphabet covers the engine (LoadTemplate, LoadTemplateFromDocument, "
         "RenderToDocument, RenderTemplateToDocument, Get/Validate/Remove/ClearCache/SetBasePath) and the TemplateRenderer front "
         "on the same engine (LoadTemplateFromFile, RenderTemplate, AnalyzeTemplate + GetRequiredData as a reader). TLC checks the "
         "reference machine exhaustively, sequentially (Engine_MC) and under all interleavings of two thread programs at "
         "hook-point granularity (Engine_Conc), and must find counterexamples in the separately modelled as-built variant "
         "(non-vacuity self-test). Every operation sequence to the BFS depth plus seeded random ones is replayed on a real "
         "engine; after every step what every name renders (paragraphs, header, table rows; in memory and as saved), which object "
         "is cached and deep before/after snapshots of templates, base documents and data are judged by Engine_Trace.tla. "
         "TLC-generated schedules of two/three threads - writers against readers, and renders of document templates with data "
         "of their own per thread - are forced on the real engine through the verifPoint gate (call-level interleavings if the "
         "library has no hook points) and judged for linearisability; the same programs run free on a -race build, race reports "
         "become witnesses.",
    technique="TLA+ spec Engine; TLC exhaustive MC (sequential + concurrent, reference and as-built variants) + TLC-generated "
              "behaviours and schedules replayed on the library (gate hook, -race stress) + TLC trace judge with a linearisability check",
    note="TLC 1.8.0 and the TLA+ modules in spec/; the Go harness executor/projector (reflection-based deep dumps, the engine of a "
         "TemplateRenderer read from its unexported field, independent archive/zip + encoding/xml reader, no oracle logic); the Go "
         "race detector as an observation channel for memory-level races (a race on a path the generated programs do not execute is "
         "missed); state shared between two renders in progress is only seen by the free-running stage (the gate releases one thread "
         "at a time and the library has no hook point inside a render's substitution pass); bounds stated in the evidence file",
)

LEVEL = "model_checking"
RULE = ("sequential: every sequence of load / load-from-document / render (both engine entry points) / remove / clear-cache calls up "
        "to the tier's depth over a pool of root, child, sibling and grandchild definitions (string and document templates), and every "
        "sequence of load-from-file / load-from-document / render through TemplateRenderer.RenderTemplate (data with map, field-less "
        "map, map[string]string items) / analyze / remove calls up to its depth, enumerated by TLC in BFS order, plus seeded random "
        "longer ones over the whole operation alphabet, all three entry points and six data classes; after every step every pool "
        "name is rendered through both engine entry points and compared (paragraphs, header, table rows) with PureRender of the value "
        "the reference machine holds, and with its own previous render when the step did not redefine it; a render asked for by the "
        "behaviour is compared with PureRender when its list items are of the documented kind and, whatever the kind, with its "
        "immediate repetition and with every earlier render of the same value with the same data; an analysis must leave "
        "templates and base documents untouched and the template must render the data it asks for the same twice. concurrent: every "
        "interleaving, at hook-point granularity, of two thread programs from the tier's pool (writer/reader and reader/reader pairs "
        "over string templates with inheritance; pairs of renders of document templates with per-thread data through all three entry "
        "points, analysis and a reload from file next to them; three threads sampled), forced on the real engine and judged for "
        "linearisability against the reference machine; the same programs free-running on a -race build")

ASSUMPTIONS = [
    "the text a render must show is fixed by Engine.tla for the template shapes of its pools only: a whole {{#each}} inside one "
    "cell paragraph is generated together with a conditional and outside the table's row loop (WellFormedTbl), a loop row holds "
    "no variable or conditional of the outer data; other shapes are not generated",
    "list items are map[string]interface{} with the field used (documented), or - undocumented kinds - maps without it, "
    "map[string]string, strings. Of renders with undocumented kinds no text is demanded (no render-wrong): only the status, the "
    "same result as an immediate repetition, as any earlier render of the same template value with the same data in the behaviour "
    "(sequential) / as the render done alone before the threads start and as the other calls of the run (concurrent), and "
    "untouched data, templates and base documents; the reference machine's own choice for them only feeds generation",
    "TemplateRenderer is driven on the engine it creates for itself (pointer read from the unexported field `engine`); template "
    "files are written by Document.Save and read back by the library's Open",
    "AnalyzeTemplate / GetRequiredData: only read-only-ness and repeatability of the render with the data asked for are judged, "
    "not the content of the analysis",
]

ALLK = {"Load", "Render", "Get", "Validate", "Remove", "Clear", "SetBasePath", "Analyze"}
ALLE = {"doc", "tpl", "rnd"}
NAMES = {"base", "A", "B", "G"}


def mc_cfg(ctx, name, variant, pool, maxloads, invariants, properties, datas="DatasStd"):
    return ctx.cfg(name, "SpecMC",
                   {"Variant": variant, "OpKinds": ALLK, "ArgNames": NAMES, "Entries": ALLE, "MaxLoads": maxloads, "Depth": 0},
                   invariants=invariants, properties=properties, extra="CONSTANTS\n  Loadables <- %s\n  RDatas <- %s" % (pool, datas))


def gen_cfg(ctx, name, pool, kinds, argnames, entries, depth, datas="DatasStd"):
    return ctx.cfg(name, "SpecGen",
                   {"Variant": "ref", "OpKinds": set(kinds), "ArgNames": set(argnames), "Entries": set(entries), "MaxLoads": 999, "Depth": depth},
                   invariants=["Emit"], extra="CONSTANTS\n  Loadables <- %s\n  RDatas <- %s" % (pool, datas))


def conc_cfg(ctx, name, variant, setup, progs, invariants):
    return ctx.cfg(name, "Spec", {"Variant": variant}, invariants=invariants,
                   extra="CONSTANTS\n  Setup <- %s\n  ProgChoices <- %s" % (setup, progs))


def expect_violation(ctx, spec, cfg, what, timeout=300):
    """Non-vacuity self-test: the as-built variant must violate `what`; returns the length of TLC's counterexample."""
    rc, out, gen, dist = ctx._tlc(spec, cfg, [], timeout, workers=1)
    if ("Invariant %s is violated" % what) not in out and ("Action property %s is violated" % what) not in out:
        raise Machinery("self-test: TLC did not find the expected violation of %s in %s/%s:\n%s"
                        % (what, spec, cfg, "\n".join(out.splitlines()[-25:])))
    n = len(re.findall(r"^State \d+:", out, re.M))
    ctx.extra_cov.setdefault("selftest_as_built_counterexamples", []).append(
        {"spec": spec, "property": what, "counterexample_states": n})
    return n


def conc_stats(ctx, obs, key):
    n = gates = unf = hr = 0
    for line in open(obs):
        e = json.loads(line)
        if e.get("ev") != "conc":
            continue
        n += 1
        gates += e.get("gates", 0)
        unf += 0 if e.get("followed", True) else 1
        hr += e.get("hraces", 0)
    if hr:
        raise Machinery("the race detector reported %d race(s) without any library frame (harness defect)" % hr)
    ctx.extra_cov[key] = {"runs": n, "hook_points_fired": gates, "schedules_not_followed_exactly": unf}
    return n, gates


def dedupe_programs(cases):
    seen, out = set(), []
    for c in cases:
        x = c["extra"]
        k = json.dumps([x["setup"], x["progs"]], sort_keys=True)
        if k in seen:
            continue
        seen.add(k)
        d = dict(c)
        d["extra"] = dict(x, sched=[])
        out.append(d)
    return out


def judge(ctx, obs, tag, parts=1):
    """Judge an observation file; with parts > 1 it is cut at behaviour boundaries and the pieces are judged by
    concurrent TLC runs (each behaviour is judged independently of the others, so this changes nothing but the wall time)."""
    if parts <= 1:
        return ctx.tlc_trace("Engine_Trace.tla", "Engine_Trace.cfg", obs, tag)
    lines = open(obs).read().splitlines(True)
    starts = [i for i, l in enumerate(lines) if '"ev":"reset"' in l[:60]] or [0]
    per = max(1, -(-len(starts) // parts))
    cuts = [starts[i] for i in range(0, len(starts), per)] + [len(lines)]
    cuts[0] = 0
    subs, threads = [], []
    for i in range(len(cuts) - 1):
        f = "%s.part%d" % (obs, i)
        with open(f, "w") as fh:
            fh.writelines(lines[cuts[i]:cuts[i + 1]])
        sub = copy.copy(ctx)                      # shares the witness list, has its own counters
        sub.states = sub.transitions = 0
        sub.tlc_seq = 1000 * (i + 1) + ctx.tlc_seq
        sub.part_error = None
        subs.append(sub)
        threads.append(threading.Thread(target=run_part, args=(sub, f, tag)))
    for t in threads:
        t.start()
    for t in threads:
        t.join()
    for sub in subs:
        if sub.part_error:
            raise sub.part_error
        ctx.states += sub.states
        ctx.transitions += sub.transitions
    ctx.tlc_seq += 1


def run_part(sub, f, tag):
    try:
        sub.tlc_trace("Engine_Trace.tla", "Engine_Trace.cfg", f, tag)
    except Exception as ex:                        # re-raised in the main thread
        sub.part_error = ex


def merged(ctx, tag, lists):
    cases = [c for l in lists for c in l]
    ctx.cases_by_tag[tag] = {c["id"]: c for c in cases}
    ops = ctx.extra_cov.setdefault("operations_executed", {})
    for c in cases:
        x = c.get("extra") or {}
        for o in c.get("steps", []) + x.get("setup", []) + [o for p in x.get("progs", []) for o in p]:
            k = o["op"] + ((":" + o["def"]["k"]) if o["op"] == "Load" else (":" + o["e"]) if o["op"] == "Render" else "")
            key = tag + "/" + k
            ops[key] = ops.get(key, 0) + 1
    return cases


def sequential(ctx, q):
    inv = ["Inv_ShowsPure", "Inv_RenderPure", "Inv_FrontAgnostic", "Inv_CacheAgree"]
    props = ["Act_Local", "Act_ReadersPure", "Act_ValuesImmutable"]
    ctx.tlc_mc("Engine_MC.tla", mc_cfg(ctx, "mc_ref.cfg", "ref", "PoolCore" if q else "PoolQuick", 3 if q else 4, inv, props), timeout=900)
    # as-built variant: base shows the child's block after two loads, a sibling after three
    expect_violation(ctx, "Engine_MC.tla", mc_cfg(ctx, "mc_built_inv.cfg", "built", "PoolTiny", 3, ["Inv_ShowsPure"], []), "Inv_ShowsPure")
    if not q:
        expect_violation(ctx, "Engine_MC.tla", mc_cfg(ctx, "mc_built_act.cfg", "built", "PoolTiny", 3, [], ["Act_Local"]), "Act_Local")

    core = dict(pool="PoolCore", kinds=["Load", "Render", "Remove", "Clear"], argnames=["A"], entries=["doc"])
    wide = dict(pool="PoolQuick" if q else "PoolThorough", kinds=["Load", "Render", "Remove", "Clear"],
                argnames=sorted(NAMES) if q else ["base", "A"], entries=["doc", "tpl"])
    wide["datas"] = "DatasKeys"
    # the TemplateRenderer front: templates loaded from files, rendered through RenderTemplate with every kind of
    # list item, analysed; next to templates loaded through the engine API under the same names
    front = dict(pool="PoolFile", kinds=["Load", "Render", "Analyze", "Remove"], argnames=["base", "A"],
                 entries=["rnd"], datas="DatasKinds")
    plans = [("bfs-core", core, 4 if q else 5), ("bfs-wide", wide, 2 if q else 3), ("bfs-front", front, 2 if q else 3)]
    lists = []
    for tag, a, depth in plans:
        lists.append(ctx.tlc_gen("Engine_MC.tla", gen_cfg(ctx, "gen_%s.cfg" % tag, a["pool"], a["kinds"], a["argnames"], a["entries"], depth,
                                                          a.get("datas", "DatasStd")), tag))
    ctx.exhaustive = True
    d = 8 if q else 14
    lists.append(ctx.tlc_gen("Engine_MC.tla", gen_cfg(ctx, "gen_sim.cfg", "PoolAll", sorted(ALLK), sorted(NAMES), sorted(ALLE), d, "Datas"),
                             "sim", mode="sim", num=6 if q else 40, depth=d + 2))
    judge(ctx, ctx.run_exec("engine", merged(ctx, "seq", lists), "seq"), "seq", parts=1 if q else 4)
    ctx.extra_cov["sequential_bounds"] = {"bfs_core_depth": plans[0][2], "bfs_wide_depth": plans[1][2], "bfs_front_depth": plans[2][2], "sim_depth": d,
                                          "behaviours": {"bfs_core": len(lists[0]), "bfs_wide": len(lists[1]), "bfs_front": len(lists[2]),
                                                         "sim": len(lists[3])},
                                          "pools": {"core": "PoolCore", "wide": wide["pool"], "front": "PoolFile", "sim": "PoolAll"},
                                          "render_data": {"core": "DatasStd", "wide": "DatasKeys", "front": "DatasKinds", "sim": "Datas"}}


def concurrent(ctx, q):
    inv = ["Inv_ConcPure", "Inv_NoRace", "Inv_NotStuck", "Inv_CacheAgree"]
    # writers against readers and readers against readers over string templates with inheritance (from SetupBaseA), and
    # document templates (tables, loops, conditionals) rendered by two threads at once, each with data of its own, through
    # all three entry points, analysis next to renders, a reload from a file in between (from SetupDocs)
    progs = "ProgsQuickAll" if q else "ProgsThoroughAll"
    ctx.tlc_mc("Engine_Conc.tla", conc_cfg(ctx, "conc_ref.cfg", "ref", "SetupBaseA", progs, inv), timeout=600)
    expect_violation(ctx, "Engine_Conc.tla", conc_cfg(ctx, "conc_built_race.cfg", "built", "SetupBaseA", "ProgsTiny", ["Inv_NoRace"]), "Inv_NoRace")
    if not q:
        expect_violation(ctx, "Engine_Conc.tla", conc_cfg(ctx, "conc_built_pure.cfg", "built", "SetupBaseA", "ProgsTiny", ["Inv_ConcPure"]), "Inv_ConcPure")
        # without any inheritance the as-built model still goes wrong: RenderTemplateToDocument fetches the template twice
        expect_violation(ctx, "Engine_Conc.tla", conc_cfg(ctx, "conc_built_refetch.cfg", "built", "SetupFlat", "ProgsRefetch", ["Inv_ConcPure"]), "Inv_ConcPure")

    # (i) schedules of the as-built model forced through the gate hook
    lists = [ctx.tlc_gen("Engine_Conc.tla", conc_cfg(ctx, "gen_gate.cfg", "built", "SetupBaseA", progs, ["EmitC"]), "gate-inherit"),
             ctx.tlc_gen("Engine_Conc.tla", conc_cfg(ctx, "gen_gateflat.cfg", "built", "SetupFlat", "ProgsFlatQuick" if q else "ProgsFlat", ["EmitC"]),
                         "gate-flat"),
             ctx.tlc_gen("Engine_Conc.tla", conc_cfg(ctx, "gen_gate3.cfg", "built", "SetupBaseA", "ProgsThree", ["EmitC"]), "gate-three",
                         mode="sim", num=20 if q else 300, depth=40)]
    obs = ctx.run_exec("enginegate", merged(ctx, "gate", lists), "gate")
    n, ngates = conc_stats(ctx, obs, "forced_schedules")
    ctx.extra_cov["forced_schedules"]["behaviours"] = {"two_threads_inheritance_and_document_templates": len(lists[0]),
                                                       "two_threads_flat": len(lists[1]), "three_threads_sampled": len(lists[2])}
    judge(ctx, obs, "gate")
    if ngates == 0:
        ctx.extra_cov["forced_schedules"]["mode"] = "library has no engine.* hook points: schedules degraded to call-level interleavings"
        ctx.assumptions.append("no verifPoint(\"engine.*\") hook fired: the forced schedules were call-level interleavings only "
                               "(proposed_hooks/C17-engine.diff is not applied to the tree under test)")
    else:
        ctx.extra_cov["forced_schedules"]["mode"] = "hook-point granularity (engine.* verifPoint gates)"

    # (ii) the same programs free-running on a -race build, each program set in a child process
    race = ctx.build_harness(race=True)
    rounds = "4" if q else "8"
    free = merged(ctx, "free", [dedupe_programs(l) for l in lists])
    obs = ctx.run_exec("enginefree", free, "free", binary=race, env={"WZ_ENG_ROUNDS": rounds}, shards=min(8, len(free)))
    conc_stats(ctx, obs, "free_running")
    ctx.extra_cov["free_running"]["rounds_per_program_set"] = int(rounds)
    judge(ctx, obs, "free")


def run(ctx):
    q = ctx.tier == "quick"
    ctx.assumptions = list(ASSUMPTIONS)
    part = os.environ.get("WZ_C17_PART", "")      # development aid: "seq" or "conc" runs only that half
    if part in ("", "seq"):
        sequential(ctx, q)
    if part in ("", "conc"):
        concurrent(ctx, q)
    if part:
        ctx.assumptions.append("partial run (WZ_C17_PART=%s)" % part)
    return ctx.finish(LEVEL, RULE)


def replay(ctx, rp):
    ctx.assumptions = list(ASSUMPTIONS)
    c = rp["case"]
    tag = rp.get("tag", "bfs")
    ctx.cases_by_tag["replay"] = {c["id"]: c}
    if tag.startswith("free"):
        race = ctx.build_harness(race=True)
        obs = ctx.run_exec("enginefree", [c], "replay", binary=race, env={"WZ_ENG_ROUNDS": "40"})
    elif tag.startswith("gate"):
        obs = ctx.run_exec("enginegate", [c], "replay")
    else:
        obs = ctx.run_exec("engine", [c], "replay")
    judge(ctx, obs, "replay")
    return ctx.finish(LEVEL, RULE)
