"""C06 — opening never crashes or hangs, whatever the input bytes (spec module XmlIn)."""
import json, os
import vlib

MANIFEST = dict(
    module="XmlIn", ref="§5 C06",
    text="XmlIn.tla describes an input as a token string over the reader's element alphabet (start/end/empty tags and character "
         "data, placed grammatically or not, with usual / missing / unusable attributes) inside one of 52 contexts (every container "
         "of the alphabet = every token loop of the reader as it is now, incl. the loops below a floating picture: positions and "
         "their text, the polygon / extent carrying wrap kinds, the vertex list of a wrap polygon, frame and picture locks, picture "
         "parts, and the border / margin / grid / tab / numbering lists; XmlIn_MC ASSUMEs that the contexts are grammatical paths "
         "and that no container is without one), one mutation of the main part (truncation after and inside every token, dropped / duplicated / "
         "swapped tags, second root, wrong root, strict / absent / default / re-declared namespace, prolog variants, bad entity, "
         "control character, invalid UTF-8, empty / absent / non-XML part, nesting depth, sibling count, text and attribute size) "
         "and one deviation of the package (any other part empty / truncated / text / binary / foreign root / attribute-less / "
         "self-referential / absent; 15 ZIP-level shapes; 68 lies of the archive directory = a structurally sound archive in which "
         "the header of the main part / the styles / the media entry / every entry declares an uncompressed or compressed size "
         "of zero, one less, one more, 2^32-2, 2^62 (zip64) or 2^63+n (zip64, negative as int64), a wrong or zero checksum, or a "
         "method the data were not stored with, the declared value being a function of the true one given by the specification; "
         "Open(file), OpenFromMemory, failing reader), and the property as the "
         "relation Allowed: Open returns an error or a document; on a document each of 38 battery calls (all read accessors, table "
         "row/column/merge/format edits on every table incl. nested ones, paragraph and page setters, header/footer, images, lists, "
         "notes, TOC, template rendering, RemoveParagraphAt, ToBytes, Save) returns within the limit, and a save that returns nil "
         "has a well-formed main part. XmlIn_MC builds the inputs step by step (open/close/leaf on a stack) so that TLC's BFS "
         "reaches every input of the bound exactly once, model-checks the relation and the soundness of the input classification "
         "against an independent recogniser of well-formed token strings, and emits the behaviours. The harness writes the bytes "
         "by hand from the TLA+ value and executes every behaviour in a supervised worker process with a wall-clock limit per "
         "call (a death or overrun counts only if it repeats with four times the limit); XmlIn_Trace.tla judges every call. "
         "The relation demands nothing about which inputs are accepted. Unstructured byte noise is only a small seeded supplement.",
    technique="TLA+ spec XmlIn; TLC exhaustive MC of the reference relation and of the input classification + TLC-generated "
              "inputs (BFS exhaustive to the bound, -simulate beyond) replayed on the library in a supervised child process + "
              "TLC trace judge",
)

LEVEL = "model_checking"
RULE = ("inputs = (context, token string, mutation, package deviation, entry point) built by the state machine XmlIn_MC: "
        "exhaustively (TLC BFS) every token string of the stated node/depth/oddity budgets in every context x {no mutation}, "
        "every context path x every mutation kind at every position, one-element strings x every truncation / tag mutation, "
        "package deviations x ZIP shapes x entry points, every lie of the archive directory x entry point, the extreme sizes in a "
        "supervised child (the quick tier visits the 28 lower contexts with two of the five unusual attribute classes and a third "
        "of them with the position-dependent mutations, rotating with the seed); plus seeded random larger "
        "products (TLC -simulate). Each input is written as bytes by hand, opened, and on a document the full battery of calls is "
        "made; every call's outcome (value / error / recovered panic with its site / death / overrun) and the independent "
        "reader's verdict on every saved main part are judged against XmlIn!Allowed by XmlIn_Trace.tla")

Q_GROUPS = ["q-place1", "q-place1n", "q-place2", "q-mut0", "q-mut0n", "q-mut1", "q-pkg", "q-ziplie", "q-extreme"]
T_GROUPS = [["t-place2", "t-mut0", "t-pkg", "t-ziplie"], ["t-place3", "t-mut1", "t-mut2"], ["t-odd2", "t-place2n", "t-mut0n", "t-mut1n"], ["t-extreme"]]
BOUNDS = {
    "q-place1": "24 upper contexts x <= 1 generated element over the whole alphabet (125 names), <= 1 oddity (ungrammatical placement of one of 15 names, or attribute class none/word/negative/large/2^31), no mutation, full battery",
    "q-place1n": "28 lower contexts (property lists, floating-picture and picture-part loops) x <= 1 generated element over the whole alphabet, <= 1 oddity (ungrammatical placement of one of 7 names, or two of the five unusual attribute classes, rotating with the seed), no mutation",
    "q-place2": "10 main contexts x exactly 2 generated elements over 22 names, <= 1 ungrammatical placement, no mutation",
    "q-mut0": "24 upper context paths x every mutation kind (29) x every position",
    "q-mut0n": "a third of the 28 lower context paths (rotating with the seed) x truncation after / inside every token, every dropped / duplicated / swapped tag",
    "q-mut1": "24 upper contexts x one grammatical element of 22 names x every truncation and every dropped end tag",
    "q-pkg": "contexts body, tc x (10 parts x 8 breaks + 15 ZIP shapes x 3 entry points), full battery",
    "q-ziplie": "68 lies of the archive directory (4 fields x their value classes x entry main / styles / media / all) x Open(file), OpenFromMemory",
    "q-extreme": "contexts tc, r x one element of {p, t, tbl, text} x nesting depth 2000 / 8000 siblings / 8000-byte text and attribute / 1000 attributes on every element",
    "t-place2": "24 upper contexts x <= 2 generated elements over the whole alphabet (125 names), <= 1 oddity (attribute classes none/2^31), 4 text classes",
    "t-place2n": "28 lower contexts x <= 2 generated elements over the whole alphabet, <= 1 oddity (ungrammatical placement of one of 7 names, attribute classes none/2^31), text classes plain/cdata",
    "t-place3": "10 main contexts x exactly 3 generated elements (depth <= 3) over 22 names, <= 1 ungrammatical placement",
    "t-odd2": "10 main contexts x exactly 2 generated elements over 22 names, <= 2 oddities (attribute classes none/2^31), text classes plain/pi/space",
    "t-mut0": "24 upper context paths x every mutation kind x every position x with/without standard siblings x memory/file",
    "t-mut0n": "28 lower context paths x every mutation kind (29) x every position",
    "t-mut1": "24 upper contexts x one grammatical element of 22 names x every mutation kind x every position",
    "t-mut1n": "28 lower contexts x one grammatical element of the whole alphabet x every truncation, every dropped / duplicated / swapped tag",
    "t-mut2": "10 main contexts x two grammatical elements of 22 names x every truncation and every dropped end tag",
    "t-pkg": "5 contexts x (10 parts x 8 breaks + 15 ZIP shapes x 3 entry points) x with/without standard siblings, full battery",
    "t-ziplie": "contexts body, tc x 68 lies of the archive directory x Open(file), OpenFromMemory, full battery",
    "t-extreme": "contexts tc, r, bsdt x one element of {p, t, tbl, text} x nesting depth 30000 / 40000 siblings, bytes of text, bytes of attribute, 5000 attributes on every element",
}


def gencfg(ctx, name, groups):
    return ctx.cfg(name, "SpecGen", {"Groups": set(groups), "Rot": ctx.seed % 3}, invariants=["Emit"])


def account(ctx, cases, obs):
    cov = ctx.extra_cov
    muts = cov.setdefault("mutation_counts", {})
    ctxs = cov.setdefault("context_counts", {})
    grps = cov.setdefault("group_counts", {})
    pks = cov.setdefault("package_deviation_counts", {})
    for c in cases:
        o = c["steps"][0]
        muts[o["mut"]["kind"]] = muts.get(o["mut"]["kind"], 0) + 1
        ctxs[o["ctx"]] = ctxs.get(o["ctx"], 0) + 1
        grps[o["grp"]] = grps.get(o["grp"], 0) + 1
        pk = o["pk"]
        k = "ziplie=%s-%s" % (pk["lie"]["fld"], pk["lie"]["val"]) if pk["lie"]["fld"] != "none" else "zip=%s" % pk["zip"] if pk["zip"] != "ok" else ("%s=%s" % (pk["part"], pk["brk"]) if pk["part"] != "none" else "entry=%s" % pk["entry"])
        pks[k] = pks.get(k, 0) + 1
    outs = cov.setdefault("call_outcomes", {})
    opens = cov.setdefault("open_outcomes_by_input_class", {})
    with open(obs) as f:
        for line in f:
            if '"ev":"step"' not in line:
                continue
            e = json.loads(line)
            for k in e["calls"]:
                key = "%s:%s" % (k["o"], k["ret"])
                outs[key] = outs.get(key, 0) + 1
            if e["calls"]:
                key = "%s/%s:%s" % (e["op"]["cls"], e["inwf"], e["calls"][0]["ret"])
                opens[key] = opens.get(key, 0) + 1
            if e.get("retried"):
                cov["cases_re_executed_with_longer_limit"] = cov.get("cases_re_executed_with_longer_limit", 0) + 1


def execute(ctx, cases, tag, pending, shards=None, env=None):
    obs = ctx.run_exec("xmlin", cases, tag, shards=shards, env=env)
    account(ctx, cases, obs)
    pending.append((tag, obs))


def judge(ctx, pending):
    allobs = os.path.join(ctx.work, "all%d.obs.ndjson" % ctx.tlc_seq)
    with open(allobs, "w") as out:
        for _, path in pending:
            with open(path) as f:
                for line in f:
                    out.write(line)
    wit = ctx.tlc_trace("XmlIn_Trace.tla", "XmlIn_Trace.cfg", allobs, "all")
    for w in wit:
        for tag, cases in ctx.cases_by_tag.items():
            if w["case"] in cases:
                w["tag"] = tag
    mach = [w for w in wit if w["sig"][0] == "MACH"]
    if mach:
        raise vlib.Machinery("harness and specification disagree: %s (case %s, %s)" % (mach[0]["sig"], mach[0]["case"], mach[0]["tag"]))
    info = ctx.extra_cov.setdefault("observations_not_judged", [])
    for w in wit:
        if w["sig"][0] == "INFO-C06" and w["sig"][1:] not in info:
            info.append(w["sig"][1:])
    del pending[:]
    return wit


def pipeline(ctx, replay_case=None):
    q = ctx.tier == "quick"
    pend = []
    ctx.assumptions += [
        "time limit: 10 s wall clock per call (20 s for the extreme sizes), 6 GiB of address space per worker; an overrun or a death of the worker process counts "
        "only if it repeats at the same call when the case is re-executed in a fresh process with four times the limit; "
        "otherwise it is logged as noise and judged by nothing",
        "the battery passes the natural arguments a caller derives from the accessors (positions 0 and count, data sized by "
        "GetRowCount/GetColumnCount, first/last cell); per-element calls visit the first 46 and last 2 paragraphs and the first "
        "48 tables incl. nested ones",
        "nothing is demanded about which inputs Open accepts (a well-formed input may be refused, an ill-formed one accepted: the "
        "latter is recorded under observations_not_judged); text survival is C03/C04's",
        "the ZIP layer is the standard library's: ZIP-level shapes and lies of the directory (one field of one entry or of every "
        "entry, local header and central directory agreeing with each other) are enumerated, random byte damage ('noise') is a "
        "small seeded supplement; memory is bounded only by the worker's address-space limit (an allocation the lie provokes "
        "counts when it kills the worker or overruns the time limit)",
    ]
    if replay_case is not None:
        execute(ctx, [replay_case], "replay", pend, shards=1)
        judge(ctx, pend)
        return ctx.finish(LEVEL, RULE)
    ctx.tlc_mc("XmlIn_MC.tla", "XmlIn_MC_quick.cfg" if q else "XmlIn_MC_thorough.cfg", timeout=1200)
    bounds = {}
    if q:
        cases = ctx.tlc_gen("XmlIn_MC.tla", gencfg(ctx, "gen_q.cfg", Q_GROUPS), "bfs", timeout=600)
        execute(ctx, cases, "bfs", pend, shards=24)
        for g in Q_GROUPS:
            bounds[g] = BOUNDS[g]
    else:
        for i, gs in enumerate(T_GROUPS):
            tag = "bfs%d" % i
            cases = ctx.tlc_gen("XmlIn_MC.tla", gencfg(ctx, "gen_t%d.cfg" % i, gs), tag, timeout=1800)
            execute(ctx, cases, tag, pend, shards=8 if "t-extreme" in gs else 20)
            judge(ctx, pend)
            for g in gs:
                bounds[g] = BOUNDS[g]
    ctx.exhaustive = True
    # seeded random larger products: more elements, several oddities, mutation x package deviation
    sim = ctx.tlc_gen("XmlIn_MC.tla", gencfg(ctx, "gen_sim.cfg", ["q-sim" if q else "t-sim"]), "sim", mode="sim",
                      num=12 if q else 150, depth=45, limit=500 if q else 5000, timeout=900)
    execute(ctx, sim, "sim", pend, shards=16)
    bounds["sim"] = ("%d seeded random inputs: <= %d generated elements (depth <= %d), <= 3 oddities, 10 mutation kinds x package deviation x entry point"
                     % (len(sim), 9 if q else 14, 4 if q else 6))
    judge(ctx, pend)
    ctx.extra_cov["bounds"] = bounds
    ctx.extra_cov["battery"] = "full = 39 calls per opened document (XmlIn_MC!BatteryFull); std = the same without SaveFile, Template, StyleReads, CopyTable"
    return ctx.finish(LEVEL, RULE)


def run(ctx):
    return pipeline(ctx)


def replay(ctx, rp):
    c = rp["case"]
    ctx.cases_by_tag["replay"] = {c["id"]: c}
    return pipeline(ctx, c)
