"""C02 — relationships and relationship references always resolve, uniquely (spec module Rels)."""
import collections, os
import vlib

MANIFEST = dict(
    module="Rels", ref="§5 C02",
    text="Rels.tla is the relationship machine of a package: per relationship part (package, main part, every header/footer/other "
         "part) the relationships (id, type, resolved target, mode), the references used in the main part and in header/footer "
         "parts (r:id of header/footer references and hyperlinks, r:embed / r:link of pictures) and the set of parts; the property "
         "as witness sets (ids unique per relationship part, internal targets exist, relationships attached to the part that uses "
         "them, every reference resolves in its own part's relationships to the matching type) and, per call, StepDiff: existing "
         "relationships are left alone and a relationship-creating call creates exactly one relationship with an unused id in the "
         "relationships of the part that uses it. Rels_MC model-checks the reference machine exhaustively (invariants + action "
         "properties) from document.New() and from foreign packages with arbitrary id schemes, and TLC must find the "
         "counterexample for the pinned tree's count+2 allocation (non-vacuity). TLC then enumerates every order of the "
         "relationship-creating calls (pictures in body / table cell / without element / template placeholders, six header/footer "
         "constructors x three kinds, list items, foot/endnotes, SetFootnoteConfig, document properties, styles) and of the calls "
         "that take notes away again (RemoveFootnote / RemoveEndnote of one note or of all of them) with Save, ToBytes, "
         "Reopen (memory and file) and the three document-template rendering entry points, from a new document and from "
         "synthesised packages (dense, sparse, non-rId ids, styles relationship last / in the middle / absent, ids sitting on "
         "count+2, header with its own relationship part, external targets, absolute targets); each behaviour is executed on the "
         "real library, the written package is read by the independent OPC reader after every step (and, in a second variant, only "
         "where the behaviour saves) and judged step by step by Rels_Trace.tla.",
    technique="TLA+ spec Rels; TLC exhaustive model checking of the reference machine + TLC-generated behaviours replayed on the "
              "library + TLC trace judge",
)

LEVEL = "model_checking"
RULE = ("behaviours = every sequence of the stated operation alphabets up to the tier's BFS depths from every stated start "
        "(document.New() / synthesised foreign package) enumerated by TLC, plus seeded random longer ones; each is executed on the "
        "real library twice (package written and read after every step; package written only where the behaviour saves, loads or "
        "renders and at the end); every relationship of every relationship part, every r:* attribute of the main part and of "
        "header/footer parts and the part names are judged by Rels_Trace.tla against Viol_C02 and against "
        "Apply/NewCount/NewOK/AllowedGone of Rels.tla")

ASSUMPTIONS = [
    "duplicate relationship ids in an opened package are malformed input and are not generated",
    "docProps parts without a package-level relationship are not a violation (nothing dangles); SetDocumentProperties may add "
    "core/extended-properties relationships to the package relationships but need not",
    "a repeated header/footer call of a kind may drop the relationship its replaced reference used (C11 demands the "
    "replacement); nothing else may remove or change a relationship",
    "a list / note / settings call creates its relationship when the main part has none of that type; what it does when one "
    "exists is exactly nothing",
    "the legacy rendering entry point RenderToDocument renders the template text a second time and may create more pictures "
    "than placeholders; only for it the number of new picture relationships is not fixed",
    "the types that must hang on the main part are styles, numbering, footnotes, endnotes, settings, header, footer, theme, "
    "fontTable, webSettings, comments, glossaryDocument; officeDocument and the property types belong to the package; image and "
    "hyperlink relationships belong to whatever part uses them but never to the package; other types are not judged for attachment",
    "which id / part name the library picks is free (only that the id is unused in that relationship part)",
]

HF6 = ["AddHeader", "AddFooter", "AddHeaderWithPageNumber", "AddFooterWithPageNumber", "AddFormattedHeader", "AddFormattedFooter"]
CREATE = ["AddImage", "AddListItem", "AddFootnote", "AddEndnote", "SetFootnoteConfig", "SetProps"]
REMOVE = ["RemoveFootnote", "RemoveEndnote"]
OTHER = REMOVE + ["AddStyle", "AddParagraph", "AddTable", "Placeholder", "Render", "Save", "ToBytes", "Reopen"]
ALLOPS = HF6 + CREATE + OTHER
ALLVIA = {"data", "file", "item", "bullet", "numbered", "multi", "text", "run", "props", "title", "mem", "doc", "legacy", "renderer"}
VIA1 = {"data", "item", "text", "props", "mem", "doc"}
SCHEMES = ["dense", "sparse", "nonrid", "styleslast", "stylesmid", "nostyles", "collide", "collide1", "gap"]
CONTENTS = ["min", "one", "pics", "hf", "hf2", "notes", "mix", "full"]
LAZY_OFF = 500000000   # case ids of the second execution variant


def gencfg(ctx, name, ops, depth, kinds=("default", "first", "even"), where=("body", "cell", "resource"), via=VIA1,
           new=True, schemes=(), contents=(), flags=(True,), abs_=(False,), last=(), keep=("only",), pics=("png",)):
    c = {"MaxSteps": 0, "Depth": depth, "OpNames": set(ops), "KindsC": set(kinds), "WhereC": set(where), "ViaC": set(via),
         "StartNew": new, "SchemesC": set(schemes), "ContentsC": set(contents), "FlagsC": set(flags), "AbsC": set(abs_),
         "LastC": set(last), "Design": "unused", "KeepC": set(keep), "PicC": set(pics)}
    return ctx.cfg(name, "SpecGen", c, invariants=["Emit"])


def plans(seed, q):
    """(tag, kwargs of gencfg) — every behaviour of each alphabet from each start to its depth."""
    k2 = [("default", "first"), ("first", "even"), ("even", "default")][seed % 3]
    core = ["AddImage", "AddHeader", "AddFooterWithPageNumber", "AddListItem", "AddFootnote", "AddEndnote", "SetFootnoteConfig", "SetProps", "Reopen"]
    fcore = ["AddImage", "AddHeader", "AddFormattedFooter", "AddListItem", "AddFootnote", "AddEndnote", "SetFootnoteConfig", "Reopen", "Placeholder", "Render"]
    P = [
        # the whole alphabet with every argument value, pairs
        ("all", dict(ops=ALLOPS, depth=2, via=ALLVIA if not q else VIA1 | {["file", "multi", "run", "title", "legacy", "renderer", "bullet"][seed % 7]},
                     kinds=("default", "first", "even") if not q else k2[1:])),
        # every order of the relationship-creating calls, with Reopen in between
        ("core", dict(ops=core, depth=3 if q else 4, kinds=k2[:1], where=("body",))),
        # after opening packages with arbitrary relationship ids
        ("foreign", dict(ops=fcore, depth=2 if q else 3, kinds=("default",), where=("body",),
                         new=False, schemes=SCHEMES if q else [x for i, x in enumerate(SCHEMES) if i % 3 != seed % 3], contents=["full"])),
    ]
    # one engine renders the same template with the same data twice: the first / the second document is the one kept
    P += [("render2", dict(ops=["Placeholder", "Render", "AddImage"], depth=3 if q else 4, kinds=("default",), where=("body", "cell"),
                           via=VIA1 | ({"renderer"} if seed % 2 else {"legacy"}), keep=("first", "second")))]
    # pictures whose file name does not carry the canonical extension of their format, through every picture entry point
    P += [("pics", dict(ops=["AddImage", "Reopen", "ToBytes"], depth=2, kinds=("default",), where=("body", "cell", "resource"),
                        via=VIA1 | {"file"}, pics=("png", "jpg", "gifcap")))]
    # notes added and taken away again (one / all of them), in every order, with Reopen in between
    P += [("notes", dict(ops=["AddFootnote", "AddEndnote", "Reopen"] + REMOVE, depth=3 if q else 5, kinds=k2[:1], where=("body",)))]
    if q:
        P += [("foreign1", dict(ops=ALLOPS, depth=1, via=VIA1 | {"legacy"}, kinds=k2[:1], new=False, schemes=SCHEMES,
                                contents=["min", "full", ["pics", "hf2", "notes", "mix", "hf"][seed % 5]])),
              # absolute targets, no header relationships / property relationships, opened from a file: rotated by the seed
              ("foreignabs", dict(ops=fcore, depth=1, kinds=("first",), where=("cell",), via=VIA1 | {"file"} - {"mem"}, new=False,
                                  schemes=SCHEMES, contents=[["hf", "full", "notes"][seed % 3]], flags=(False,), abs_=(True,)))]
    else:
        P += [
            ("foreign1", dict(ops=ALLOPS, depth=1, via=ALLVIA - {"file"}, new=False, schemes=SCHEMES,
                              contents=[x for i, x in enumerate(CONTENTS) if i % 3 != seed % 3 or x == "full"], flags=(True,), abs_=(False, True))),
            ("foreignfile", dict(ops=fcore, depth=1, via=VIA1 | {"file"}, new=False, schemes=SCHEMES, contents=["full"], flags=(False,), abs_=(False, True))),
            ("foreign2", dict(ops=fcore + ["AddHeaderWithPageNumber"], depth=2, kinds=("default", "even"), where=("body", "cell"),
                              new=False, schemes=SCHEMES, contents=["min", ["notes", "hf2", "mix"][seed % 3]])),
            # redefinitions free ids in the middle of the list: constructors x kinds x other creating calls, deeper
            ("hf", dict(ops=HF6 + ["AddImage", "Reopen"], depth=3, kinds=k2, where=("body",))),
            ("hf4", dict(ops=["AddHeader", "AddFooter", "AddImage", "AddFootnote", "Reopen"], depth=4, kinds=k2[:1], where=("cell",))),
            ("hf5", dict(ops=["AddHeader", "AddImage", "Reopen"], depth=6, kinds=k2[:1], where=("body",))),
            ("tmpl", dict(ops=["Placeholder", "Render", "AddImage", "Reopen"], depth=4, kinds=("default",),
                          where=("body", "cell"), via=VIA1 | {"legacy", "renderer"})),
            ("foreignhf", dict(ops=HF6 + ["AddImage"], depth=2, kinds=k2, where=("body",), new=False, schemes=SCHEMES, contents=["hf2", "full"])),
        ]
    return P


def par_tlc(ctx, jobs, timeout):
    """Run several TLC processes side by side (each with its own metadir); returns {name: output}.
    jobs = [(name, spec, cfg, extra args, workers)].  Same command line as vlib.Ctx._tlc."""
    import subprocess, shutil, re, time
    env = dict(os.environ)
    env.setdefault("JAVA_TOOL_OPTIONS", "-Xss256m")
    procs = []
    t0 = time.time()
    for name, spec, cfg, extra, workers in jobs:
        meta = os.path.join(ctx.work, "pmeta-" + name)
        log = open(os.path.join(ctx.work, "tlc-%s.out" % name), "w")
        cmd = ["tlc", "-metadir", meta, "-config", cfg, "-workers", str(workers)] + extra + [spec]
        procs.append((name, cfg, meta, log, subprocess.Popen(cmd, cwd=ctx.specdir, env=env, stdout=log, stderr=subprocess.STDOUT, text=True)))
    outs = {}
    for name, cfg, meta, log, p in procs:
        try:
            p.wait(timeout=max(1, timeout - (time.time() - t0)))
        except subprocess.TimeoutExpired:
            for q in procs:
                q[4].kill()
            raise vlib.Machinery("TLC timed out after %ss: %s" % (timeout, cfg))
        log.close()
        with open(log.name) as f:
            out = f.read()
        shutil.rmtree(meta, ignore_errors=True)
        gen = dist = 0
        m = re.search(r"(\d+) states generated, (\d+) distinct states found", out)
        if m:
            gen, dist = int(m.group(1)), int(m.group(2))
        else:
            m = re.search(r"The number of states generated: (\d+)", out)
            if m:
                gen = dist = int(m.group(1))
        ctx.states += dist
        ctx.transitions += gen
        vlib.log("  tlc %s: %d generated / %d distinct" % (cfg, gen, dist))
        outs[name] = (out, gen, dist)
    vlib.log("  %d TLC runs side by side: %.1fs" % (len(jobs), time.time() - t0))
    return outs


def cases_of(ctx, out, tag, cfg):
    """The behaviours a generation run printed (same parsing as vlib.Ctx.tlc_gen)."""
    import json, re
    if [l for l in out.splitlines() if l.startswith("Error:")]:
        raise vlib.Machinery("TLC generation %s failed:\n%s" % (cfg, vlib.tail(out)))
    cases, seen = [], set()
    base = len(ctx.cases_by_tag) * 10000000
    for m in re.finditer(r'^<<"WZCASE", (".*")>>$', out, re.M):
        try:
            s = json.loads(m.group(1))
            if s in seen:
                continue
            seen.add(s)
            steps = json.loads(s)
        except Exception as ex:
            raise vlib.Machinery("cannot parse generated case: %r (%s)" % (m.group(1)[:200], ex))
        c = vlib.normalise_case(steps)
        c["id"] = base + len(cases) + 1
        cases.append(c)
    if not cases:
        raise vlib.Machinery("TLC generation %s produced no behaviours:\n%s" % (cfg, vlib.tail(out)))
    ctx.cases_by_tag[tag] = {c["id"]: c for c in cases}
    vlib.log("  gen %s: %d behaviours" % (tag, len(cases)))
    return cases


def judge(ctx, cases, tag):
    """Execute the behaviours in both variants and judge all observations in one TLC run."""
    obs1 = ctx.run_exec("rels", cases, tag)
    lazy = [dict(c, id=c["id"] + LAZY_OFF) for c in cases]
    obs2 = ctx.run_exec("relslazy", lazy, tag + "-lazy")
    ctx.traces -= len(cases)  # the same behaviours, executed in two variants
    # the judge remembers the first behaviour that shows a signature: put short behaviours first
    both = os.path.join(ctx.work, tag + ".obs.both.ndjson")
    groups = []
    for p in (obs1, obs2):
        with open(p) as f:
            for line in f:
                if len(line) < 80 and '"ev":"reset"' in line:
                    groups.append([line])
                else:
                    groups[-1].append(line)
    order = sorted(range(len(groups)), key=lambda i: (len(groups[i]), i))
    with open(both, "w") as out:
        for i in order:
            out.writelines(groups[i])
    ctx.cases_by_tag[tag] = {c["id"]: c for c in cases}
    ctx.cases_by_tag[tag].update({c["id"]: c for c in lazy})
    res = ctx.tlc_trace("Rels_Trace.tla", "Rels_Trace.cfg", both, tag)
    dev = ctx.extra_cov.setdefault("model_deviations", [])
    for w in res:
        if w["sig"][0] == "M02":
            if w["sig"][2] == "synth-mismatch":
                raise vlib.Machinery("the synthesised foreign package is not what Rels!ForeignPkg says: %s" % (w["sig"],))
            if w["sig"] not in dev:
                dev.append(w["sig"])
    return res


CHUNK = 9000   # behaviours per judge run (the judge reads its whole observation file into one TLA+ value)


def pipeline(ctx, cases_by=None):
    q = ctx.tier == "quick"
    ctx.assumptions.extend(ASSUMPTIONS)
    mccfg = "Rels_MC_quick.cfg" if q else "Rels_MC_thorough.cfg"
    # (1) model check of the reference machine; (2) non-vacuity: the allocation of the pinned tree (id = count+2, styles
    # forced to rId1, notes in the package relationships) must violate the invariant; (3) generation - all side by side
    jobs = [("mc", "Rels_MC.tla", mccfg, [], 3 if q else 8), ("cex", "Rels_MC.tla", "Rels_MC_asbuilt_cex.cfg", [], 1)]
    gens, bounds = [], {}
    if cases_by is None:
        for tag, kw in plans(ctx.seed, q):
            cfg = gencfg(ctx, "gen_%s.cfg" % tag, **kw)
            jobs.append((tag, "Rels_MC.tla", cfg, [], 1))
            gens.append((tag, cfg, "bfs" + tag))
            bounds[tag] = {k: (sorted(v, key=str) if isinstance(v, (set, list, tuple)) else v) for k, v in kw.items()}
        # seeded random long behaviours over the whole alphabet from every kind of start
        d = 10 if q else 18
        for k in range(1 if q else 3):
            r = ctx.seed + k
            via = {"data", "file", "mem", ["item", "bullet", "numbered", "multi"][r % 4], ["text", "run"][r % 2], ["props", "title"][r % 2],
                   ["doc", "legacy", "renderer"][r % 3]}
            cfg = gencfg(ctx, "gen_sim%d.cfg" % k, ALLOPS, d, via=via, new=(k == 0), schemes=SCHEMES[r % 3::3],
                         contents=[CONTENTS[(r + 3) % 8], "full"], flags=(r % 2 == 0,), abs_=(r % 3 == 0,), last=["ToBytes", "Save"])
            jobs.append(("sim%d" % k, "Rels_MC.tla", cfg,
                         ["-simulate", "num=%d" % (40 if q else 120), "-depth", str(d + 2), "-seed", str(ctx.seed * 1000 + k)], 1))
            gens.append(("sim%d" % k, cfg, "sim%d" % k))
    outs = par_tlc(ctx, jobs, 600 if q else 1500)
    out, gen, dist = outs["mc"]
    if "Model checking completed. No error has been found." not in out:
        raise vlib.Machinery("TLC model check of Rels_MC.tla/%s did not pass:\n%s" % (mccfg, vlib.tail(out)))
    ctx.mc_runs.append({"spec": "Rels_MC.tla", "cfg": mccfg, "generated": gen, "distinct": dist})
    if "Invariant Inv_C02 is violated" not in outs["cex"][0]:
        raise vlib.Machinery("Rels_MC_asbuilt_cex.cfg: the as-built allocation no longer violates Inv_C02 (vacuous invariant?):\n" + vlib.tail(outs["cex"][0]))
    ctx.extra_cov["non_vacuity"] = "Rels_MC_asbuilt_cex.cfg (Design = asbuilt, the pinned tree's allocation): TLC reports Inv_C02 violated"
    if cases_by is None:
        cnt, starts = collections.Counter(), collections.Counter()
        allc = []
        for tag, cfg, ctag in gens:
            cs = cases_of(ctx, outs[tag][0], ctag, cfg)
            allc += cs
            if tag in bounds:
                bounds[tag]["behaviours"] = len(cs)
        ctx.exhaustive = True
        for c in allc:
            for s in c["steps"]:
                cnt[s["op"] + (":" + s["via"] if "via" in s and s["op"] not in ("OpenForeign",) else "")] += 1
            s0 = c["steps"][0]
            starts[s0["op"] + ("/" + s0["scheme"] + "/" + s0["content"] if "scheme" in s0 else "")] += 1
        for k in range(0, len(allc), CHUNK):
            judge(ctx, allc[k:k + CHUNK], "gen%d" % (k // CHUNK))
        ctx.extra_cov["bounds"] = {"bfs": bounds, "sim_depth": d, "variants_per_behaviour": 2,
                                   "exhaustive_over": "operation sequences of the stated alphabets/argument values up to the BFS depths "
                                                      "from every stated start"}
        ctx.extra_cov["op_counts"] = dict(cnt)
        ctx.extra_cov["start_counts"] = dict(starts)
    else:
        judge(ctx, cases_by, "replay")
    return ctx.finish(LEVEL, RULE)


def run(ctx):
    return pipeline(ctx)


def replay(ctx, rp):
    c = dict(rp["case"])
    if c["id"] >= LAZY_OFF:
        c["id"] -= LAZY_OFF
    return pipeline(ctx, [c])
