"""C10 — every picture shows exactly the image bytes it was given, at the requested size (spec module Pics)."""
import collections

MANIFEST = dict(
    module="Pics", ref="§5 C10",
    text="The reference machine Pics.tla (media parts name -> image token, relationships of the main part, pictures in "
         "document order in the body and in table cells, open picture placeholders, image counter, the caller's image files "
         "path -> content as environment; the sizing rules transcribed into integer EMU arithmetic) is model-checked "
         "exhaustively: relationship ids unique, media names functional, every picture resolves, no call disturbs an earlier "
         "picture, a call creates exactly the pictures it is asked for with the bytes and extent given (for an addition from a "
         "file: what the file holds when the call is made), writing or removing a file changes no document, rendering "
         "replaces placeholders in place. TLC-generated operation "
         "sequences over every public image call (AddImageFromData/FromFile/WithoutElement, the three AddCellImage forms, "
         "image placeholders through TemplateEngine/TemplateRenderer/string templates, the six ImageInfo setters), three "
         "formats, file-name classes, size configurations, encoded lengths from under 1 KiB up a ladder 2^16+1 ... 2^25+1 bytes, "
         "files of the caller that are written, added from (body and cell calls, the path spelt in equivalent ways), "
         "rewritten with other bytes of equal length or another format, removed and added from again, other "
         "relationship-creating calls, Save, reopen from memory and file, and synthesised foreign packages with unusual media "
         "names or a media part above 16 MiB are executed on the real library; the written "
         "package is read by the independent OPC reader after every step (and, in a second run, only where the behaviour "
         "itself saves) and Pics_Trace.tla resolves picture -> relationship -> part -> bytes and judges bytes, placement "
         "and extent of every picture, old and new.",
    technique="TLA+ spec Pics; TLC exhaustive MC + TLC-generated behaviours replayed on the library + TLC trace judge",
)

LEVEL = "model_checking"
RULE = ("behaviours = every sequence of the operation alphabets below up to the tier's BFS depth enumerated by TLC (a plan may "
        "fix a start state; the quick tier takes the images above 16 MiB in every run and rotates the lower rungs of the "
        "length ladder and the ways in and out with the seed), plus seeded "
        "random longer ones over the wide argument classes; each is executed twice on the real library (package written and "
        "projected after every step; package written only at Save/Reopen/Render/OpenForeign and after the last step); "
        "Pics_Trace.tla resolves every picture of the written main part through its relationship to the media part and its "
        "bytes' token and compares bytes, placement and extent (wp:extent and a:ext) of all pictures with the state the "
        "specification reaches; ±1 EMU only where the sizing rule divides or the millimetre value has no exact binary form")

ASSUMPTIONS = [
    "a size configuration that names one dimension without KeepAspectRatio, or no positive dimension, falls under the third "
    "sizing rule (pixel size at 96 dpi): the property's first two rules do not apply to it",
    "ResizeImage / SetImagePosition / SetImageWrapText / SetImageAltText / SetImageTitle / SetImageAlignment act on the ImageInfo "
    "handle; the property is judged against the size configuration given when the picture was added, so the judge requires "
    "that these calls leave every picture's bytes and extent as they are (not that ResizeImage re-sizes the drawing)",
    "millimetre values are passed as float64(n)/100; for values that are not multiples of 0.25 mm one EMU of conversion "
    "error is tolerated, the derived dimension gets one further EMU for the division",
    "pictures are identified by document order and container (body / table ordinal / cell index); the independent reader "
    "flattens nested blocks inside a cell",
    "foreign packages are synthesised with inline pictures in the markup form the library itself writes, so that what "
    "Open+Save preserves of a picture (C03/C04) is not in question here",
    "an image file of the caller is a path slot of the specification; the executor gives each slot one fixed file name "
    "(chart.png, an extension-less non-ASCII name), spells the path clean / with a '.' segment / with 'x/..' in turn and "
    "replaces the content in place or by renaming a new file over it; an addition from a path that holds no file is "
    "expected to fail and change nothing",
    "images of a stated encoded length are valid files of their format brought to exactly that length with data every "
    "decoder skips (a private ancillary PNG chunk before IEND, JPEG comment segments after SOI, a GIF comment extension "
    "before the trailer); 'exactly the bytes given' includes that data",
    "AddCellImage with a nil table, an out-of-range cell or a Format the bytes are not in is expected to fail and change "
    "nothing; return-value deviations are recorded as M10 notes, not as verdicts",
]

BFS_PLANS = ["all", "adds", "sizes", "sizes2", "names", "names2", "foreign", "foreign2", "templates", "templates2", "tstrings", "tcells", "twins", "setters", "setters3", "files", "bulk"]
LAZY_OFF = 500000000   # case ids of the second execution variant


def gencfg(ctx, name, plans, mode, steps=0):
    return ctx.cfg(name, "SpecGen", {"Tier": ctx.tier, "Plans": set(plans), "MaxSteps": steps, "Mode": mode}, invariants=["Emit"])


def judge(ctx, cases, tag):
    """Execute the behaviours in both variants and judge all observations in one TLC run."""
    import json, os
    obs1 = ctx.run_exec("pics", cases, tag)
    lazy = [dict(c, id=c["id"] + LAZY_OFF) for c in cases]
    obs2 = ctx.run_exec("picslazy", lazy, tag + "-lazy")
    ctx.traces -= len(cases)  # the same behaviours, executed in two variants
    # the judge remembers the first behaviour that shows a signature: put short behaviours first
    both = os.path.join(ctx.work, tag + ".obs.both.ndjson")
    groups = []
    for p in (obs1, obs2):
        with open(p) as f:
            for line in f:
                if len(line) < 80 and '"ev":"reset"' in line:
                    groups.append([line])
                else:
                    groups[-1].append(line)
    order = sorted(range(len(groups)), key=lambda i: (len(groups[i]), i))
    with open(both, "w") as out:
        for i in order:
            out.writelines(groups[i])
    ctx.cases_by_tag[tag] = {c["id"]: c for c in cases}
    ctx.cases_by_tag[tag].update({c["id"]: c for c in lazy})
    res = ctx.tlc_trace("Pics_Trace.tla", "Pics_Trace.cfg", both, tag)
    dev = ctx.extra_cov.setdefault("model_deviations", [])
    for w in res:
        if w["sig"][0] == "M10" and w["sig"] not in dev:
            dev.append(w["sig"])
    return res


def count_ops(cnt, cases):
    for c in cases:
        for s in c["steps"]:
            cnt[s["op"]] += 1


def pipeline(ctx, cases_by=None):
    q = ctx.tier == "quick"
    ctx.assumptions.extend(ASSUMPTIONS)
    ctx.tlc_mc("Pics_MC.tla", "Pics_MC_quick.cfg" if q else "Pics_MC_thorough.cfg", workers=4 if q else 8)
    if cases_by is None:
        cnt = collections.Counter()
        # (1) every behaviour of each focused alphabet up to its depth (Pics_MC.tla: PlanOf), one TLC run
        # (the quick tier's share of the large images rotates with the seed: PlanOf("bulk<k>"))
        plans = BFS_PLANS + (["bulk%d" % (ctx.seed % 3)] if q else [])
        allc = ctx.tlc_gen("Pics_MC.tla", gencfg(ctx, "gen_bfs.cfg", plans, "bfs"), "bfs")
        nb = len(allc)
        ctx.exhaustive = True
        # (2) seeded random walks over the wide argument classes
        d3 = 10 if q else 18
        sim = ctx.tlc_gen("Pics_MC.tla", gencfg(ctx, "gen_sim.cfg", ["wide"], "sim", d3), "sim", mode="sim",
                          num=150 if q else 2000, depth=d3 + 3)
        allc += sim
        count_ops(cnt, allc)
        judge(ctx, allc, "gen")
        ctx.extra_cov["bounds"] = {"bfs_plans": plans, "bfs_behaviours": nb, "random_walks": len(sim), "walk_length": d3,
                                   "variants_per_behaviour": 2,
                                   "exhaustive_over": "operation sequences of the alphabets/argument classes of PlanOf (Pics_MC.tla) "
                                                      "up to their depth for this tier"}
        ctx.extra_cov["op_counts"] = dict(cnt)
    else:
        judge(ctx, cases_by, "replay")
    return ctx.finish(LEVEL, RULE)


def run(ctx):
    return pipeline(ctx)


def replay(ctx, rp):
    c = dict(rp["case"])
    if c["id"] >= LAZY_OFF:
        c["id"] -= LAZY_OFF
    return pipeline(ctx, [c])
