"""C12 — page-setting calls change only what they name, and settings read back as set (spec module PageSet)."""

MANIFEST = dict(
    module="PageSet", ref="§5 C12",
    text="The reference machine PageSet.tla (size, orientation, margins, header/footer distance, gutter, document grid; every "
         "public page-setting call with valid, documented-invalid and open argument classes) is model-checked exhaustively: "
         "most-recent-call-wins, only-named-fields-change, size/orientation kept by the other setters, orientation swaps the "
         "physical page exactly once, invalid requests change nothing. TLC then enumerates every (state, operation) pair of that "
         "machine - the state is installed in the real library with one SetPageSettings call - plus seeded random long call "
         "sequences; after every step GetPageSettings, the saved w:pgSz/w:pgMar/w:docGrid (independent reader) and "
         "GetPageSettings of the reopened bytes are judged by PageSet_Trace.tla with the tolerances of the statement (1 twip; "
         "1 mm only for recognising a near-standard size). The convenience setters are read-all/modify-one/write-all, so the "
         "property is exactly 'read and write paths are inverse in every state': that needs every state x every call, which "
         "is what a finite reference machine enumerates.",
    technique="TLA+ spec PageSet; TLC exhaustive MC + TLC-generated (state, call) pairs and call sequences replayed on the library + TLC trace judge",
)

LEVEL = "model_checking"
RULE = ("every (state, operation) pair of the reference machine over the tier's pools (state installed by one SetPageSettings "
        "call in a new document, then every operation of the pool: the nine setters with valid / documented-invalid / open "
        "arguments, SetPageSettings(DefaultPageSettings()), GetPageSettings, save+reopen, header/footer/paragraph calls as "
        "bystanders), plus seeded random sequences and (state, 3 operations) samples of the same operations; after every step "
        "the accessor view, the saved sectPr and the accessor view of the reopened bytes are judged by PageSet_Trace.tla")

TRACE = ("PageSet_Trace.tla", "PageSet_Trace.cfg")
CHUNK = 45000    # events per judge run (bounds the memory of one TLC trace evaluation)
JUDGES = 4       # trace judges running side by side (each is a single-worker TLC)

import copy
from concurrent.futures import ThreadPoolExecutor


def gencfg(ctx, name, scale, mode, depth, install_all=True):
    return ctx.cfg(name, "SpecGen", {"Scale": scale, "Mode": mode, "Depth": depth, "InstallAll": install_all}, invariants=["Emit"])


def judge(ctx, cases, tag):
    """Execute the behaviours on the library, then judge them in chunks of whole behaviours (several TLC judges in parallel)."""
    per = max(1, CHUNK // (max(len(c["steps"]) for c in cases) + 1))
    jobs = []
    for k, i in enumerate(range(0, len(cases), per)):
        part = cases[i:i + per]
        t = tag if len(cases) <= per else "%s%d" % (tag, k)
        ctx.cases_by_tag[t] = {c["id"]: c for c in part}
        jobs.append((k, t, ctx.run_exec("pageset", part, t)))

    def one(job):
        k, t, obs = job
        c = copy.copy(ctx)                      # private counters / TLC scratch numbering per judge
        c.tlc_seq = 1000 * (len(ctx.cases_by_tag) + 1) + 10 * k
        c.states = c.transitions = 0
        c.witnesses = []
        c.tlc_trace(TRACE[0], TRACE[1], obs, t, env={"JAVA_TOOL_OPTIONS": "-Xss256m -Xmx4g"})   # 4 judges side by side
        return c

    with ThreadPoolExecutor(max_workers=JUDGES) as ex:
        for c in ex.map(one, jobs):
            ctx.states += c.states
            ctx.transitions += c.transitions
            ctx.witnesses.extend(c.witnesses)


def opcount(ctx, cases):
    cnt = ctx.extra_cov.setdefault("operations_executed", {})
    for c in cases:
        for s in c["steps"]:
            cnt[s["op"]] = cnt.get(s["op"], 0) + 1


def pipeline(ctx, replay_case=None):
    q = ctx.tier == "quick"
    if replay_case is not None:
        judge(ctx, [replay_case], "replay")
        return ctx.finish(LEVEL, RULE)
    ctx.tlc_mc("PageSet_MC.tla", "PageSet_MC_quick.cfg" if q else "PageSet_MC_thorough.cfg")
    # (state, operation) pairs: the state is installed with one SetPageSettings call in a new document
    #   quick:    Scale 1, every size x orientation x grid with the rest all-default / all-non-default
    #   thorough: Scale 2 with EVERY state of the pool, and Scale 3 (largest pools) with the rest on the diagonal
    plan = [("pairs", 1, False)] if q else [("pairs", 2, True), ("pairsL", 3, False)]
    npairs = 0
    for tag, scale, allst in plan:
        pairs = ctx.tlc_gen("PageSet_MC.tla", gencfg(ctx, "gen_%s.cfg" % tag, scale, "pairs", 2, install_all=allst), tag)
        opcount(ctx, pairs)
        judge(ctx, pairs, tag)
        npairs += len(pairs)
    ctx.exhaustive = True
    ctx.extra_cov["state_action_pairs"] = npairs
    # random long sequences from a new document
    d = 12 if q else 30
    sim = ctx.tlc_gen("PageSet_MC.tla", gencfg(ctx, "gen_sim.cfg", 2 if q else 3, "seq", d), "sim", mode="sim",
                      num=30 if q else 150, depth=d + 1, limit=600 if q else 3000)
    opcount(ctx, sim)
    judge(ctx, sim, "sim")
    if not q:
        # an installed state followed by three operations (seeded sample of the triples)
        tri = ctx.tlc_gen("PageSet_MC.tla", gencfg(ctx, "gen_tri.cfg", 3, "pairs", 4), "tri", mode="sim",
                          num=200, depth=5, seed_off=7, limit=8000)
        opcount(ctx, tri)
        judge(ctx, tri, "tri")
    ctx.extra_cov["bounds"] = {"pairs": [{"scale": sc, "every_state": a} for _, sc, a in plan], "sim_depth": d,
                               "mc_scale": 1 if q else 3}
    ctx.extra_cov["exhaustive_what"] = (
        "every (installed state, operation) pair of PageSet_MC for the pools listed under bounds.pairs; "
        "longer sequences and triples are seeded samples")
    ctx.assumptions.append("tolerances: 1 twip on every length; a custom size closer than 1 mm (both dimensions, same way round) "
                           "to a predefined size may be reported/rewritten as that size")
    ctx.assumptions.append("requests whose validity the documentation leaves open (unknown size name, SetPageSize(Custom), negative "
                           "margins through SetPageSettings, negative char space) may be rejected-unchanged or accepted-as-given")
    return ctx.finish(LEVEL, RULE)


def run(ctx):
    return pipeline(ctx)


def replay(ctx, rp):
    c = rp["case"]
    ctx.cases_by_tag["replay"] = {c["id"]: c}
    return pipeline(ctx, c)
