"""C12 — page-setting calls change only what they name, and settings read back as set (spec module PageSet)."""

MANIFEST = dict(
    module="PageSet", ref="§5 C12",
    text="The reference machine PageSet.tla (size, orientation, margins, header/footer distance, gutter, document grid; every "
         "public page-setting call with valid, documented-invalid and open argument classes) is model-checked exhaustively: "
         "most-recent-call-wins, only-named-fields-change, size/orientation kept by the other setters, orientation swaps the "
         "physical page exactly once, invalid requests change nothing. TLC then enumerates every (state, operation) pair of that "
         "machine - the state is installed in the real library with one SetPageSettings call - plus seeded random long call "
         "sequences; after every step GetPageSettings, the saved w:pgSz/w:pgMar/w:docGrid (independent reader) and "
         "GetPageSettings of the reopened bytes are judged by PageSet_Trace.tla with the tolerances of the statement (1 twip; "
         "1 mm only for recognising a near-standard size). The convenience setters are read-all/modify-one/write-all, so the "
         "property is exactly 'read and write paths are inverse in every state': that needs every state x every call, which "
         "is what a finite reference machine enumerates.",
    technique="TLA+ spec PageSet; TLC exhaustive MC + TLC-generated (state, call) pairs and call sequences replayed on the library + TLC trace judge",
)

LEVEL = "model_checking"
RULE = ("every (state, operation) pair of the reference machine over the tier's pools (state installed by one SetPageSettings "
        "call in a new document, then every operation of the pool: the nine setters with valid / documented-invalid / open "
        "arguments, GetPageSettings, save+reopen), plus seeded random sequences of the same operations; after every step "
        "the accessor view, the saved sectPr and the accessor view of the reopened bytes are judged by PageSet_Trace.tla")

TRACE = ("PageSet_Trace.tla", "PageSet_Trace.cfg")
CHUNK = 60000   # events per judge run (bounds the memory of one TLC trace evaluation)


def gencfg(ctx, name, scale, mode, depth, install_all=True):
    return ctx.cfg(name, "SpecGen", {"Scale": scale, "Mode": mode, "Depth": depth, "InstallAll": install_all}, invariants=["Emit"])


def judge(ctx, cases, tag):
    """execute + judge, in chunks of whole behaviours"""
    per = max(1, CHUNK // max(1, max(len(c["steps"]) for c in cases) + 1))
    k = 0
    for i in range(0, len(cases), per):
        part = cases[i:i + per]
        t = tag if len(cases) <= per else "%s%d" % (tag, k)
        if t != tag:
            ctx.cases_by_tag[t] = {c["id"]: c for c in part}
        obs = ctx.run_exec("pageset", part, t)
        ctx.tlc_trace(TRACE[0], TRACE[1], obs, t)
        k += 1


def opcount(ctx, cases):
    cnt = ctx.extra_cov.setdefault("operations_executed", {})
    for c in cases:
        for s in c["steps"]:
            cnt[s["op"]] = cnt.get(s["op"], 0) + 1


def pipeline(ctx, replay_case=None):
    q = ctx.tier == "quick"
    if replay_case is not None:
        judge(ctx, [replay_case], "replay")
        return ctx.finish(LEVEL, RULE)
    ctx.tlc_mc("PageSet_MC.tla", "PageSet_MC_quick.cfg" if q else "PageSet_MC_thorough.cfg")
    scale = 1 if q else 3
    pairs = ctx.tlc_gen("PageSet_MC.tla", gencfg(ctx, "gen_pairs.cfg", scale, "pairs", 2, install_all=not q), "pairs")
    ctx.exhaustive = True
    opcount(ctx, pairs)
    judge(ctx, pairs, "pairs")
    ctx.extra_cov["state_action_pairs"] = len(pairs)
    # random long sequences from a new document (all operations of the larger pools)
    d = 12 if q else 30
    sim = ctx.tlc_gen("PageSet_MC.tla", gencfg(ctx, "gen_sim.cfg", 2 if q else 3, "seq", d), "sim", mode="sim",
                      num=30 if q else 400, depth=d + 1, limit=600 if q else 8000)
    opcount(ctx, sim)
    judge(ctx, sim, "sim")
    if not q:
        # installed state followed by three operations (sampled)
        tri = ctx.tlc_gen("PageSet_MC.tla", gencfg(ctx, "gen_tri.cfg", 3, "pairs", 4), "tri", mode="sim",
                          num=400, depth=5, seed_off=7, limit=20000)
        opcount(ctx, tri)
        judge(ctx, tri, "tri")
    ctx.extra_cov["bounds"] = {"scale": scale, "pairs_depth": 2, "sim_depth": d}
    ctx.extra_cov["exhaustive_what"] = ("every (installable state, operation) pair of PageSet_MC at Scale %d; sequences and "
                                        "triples are seeded samples" % scale)
    ctx.assumptions.append("tolerances: 1 twip on every length; a custom size closer than 1 mm (both dimensions, same way round) "
                           "to a predefined size may be reported/rewritten as that size")
    ctx.assumptions.append("requests whose validity the documentation leaves open (unknown size name, SetPageSize(Custom), negative "
                           "margins through SetPageSettings, negative char space) may be rejected-unchanged or accepted-as-given")
    return ctx.finish(LEVEL, RULE)


def run(ctx):
    return pipeline(ctx)


def replay(ctx, rp):
    c = rp["case"]
    ctx.cases_by_tag["replay"] = {c["id"]: c}
    return pipeline(ctx, c)
