"""C03 — saving then opening a document loses nothing the library can express (spec module RoundTrip)."""
import json, os

import vlib

MANIFEST = dict(
    module="RoundTrip", ref="§5 C03",
    text="RoundTrip.tla models Build(feature...);(Save;Open)* over a feature alphabet of ~240 tokens (one per public "
         "setter / constructor variant / argument class / exported formatting field) and ~50 constructors - among them "
         "constructors whose target lies below a nested table node (DeepCtors: every table feature, pictures included, is "
         "applied to a table nested one or two levels deep) - and states C03 as witness sets over four projections of one "
         "abstract type (document as built, first saved part, reopened body, re-saved part; further cycles). A relationship id "
         "is projected together with what it resolves to in the SAME source (picture bytes, header / footer part), in memory "
         "through the document's own relationship list and part store, on disk through the independent package reader, so a "
         "picture or header whose target is lost or swapped is a changed value on either side. Groups of which a section holds "
         "several instances (header / footer references, one per kind = slot) are modelled per slot. TLC checks the reference "
         "machine exhaustively (identity reader: silent; lossy reader: exactly the lost groups, a lost nested node reported once; "
         "aliasing reader - every instance a copy of the last one read: exactly the multi groups with two instances or more), "
         "generates every single feature on every applicable constructor, every pair of features on one element in varying "
         "contexts, every set of three (thorough: three to seven) header / footer kinds on one section (thorough also: sampled "
         "triples), the harness replays them on the library and projects memory (reflection over the exported data model) and "
         "saved bytes (independent XML reader) generically, and RoundTrip_Trace.tla judges. A generator that exercises every "
         "setter, compared through an independent parser, is what the property's quantifier needs; exhaustive small scope over "
         "the feature product is the right level for a reader that has one hand-written case per element.",
    technique="TLA+ spec RoundTrip; TLC exhaustive MC (intended + lossy + aliasing reader) + TLC-generated documents replayed on the library + TLC trace judge",
)

LEVEL = "model_checking"
RULE = ("documents = a focus element (every constructor, including tables nested 1-2 levels below a body table as the target "
        "of every table feature; every single applicable feature token; every pair of feature tokens of the tier's pair alphabet "
        "on the canonical constructor of each class and on a nested table) embedded in a context of 0-2 other elements and section settings, plus "
        "sections carrying every set of 3 (thorough 3-7) of the header / footer kinds and the first-page switch, enumerated by "
        "TLC in BFS order, plus seeded random feature triples in the thorough tier; each is built through the public API, saved "
        "and opened three times (bytes API and file API alternate); after every step the in-memory body or the saved main part "
        "is projected to the abstract document - relationship ids together with the bytes / part they resolve to in that source "
        "- and RoundTrip_Trace.tla judges mem1=mem0, disk1~mem0, disk2=disk1 and the fixed point of further cycles")

# one or two representatives per formatting group: the pair alphabet of the quick tier
REPS = {
    "x.text.edgews", "x.text.xmlmeta", "tf.bold", "tf.family", "p.align.center", "p.spacing.all", "p.ind.hanging",
    "p.keepNext.on", "p.keepLines.on", "p.pbb.on", "p.widow.off", "p.outline.3", "p.snap.off", "p.style.h2", "p.format.full",
    "p.border.all", "p.bold.on", "p.italic.on", "p.underline.on", "p.strike.on", "p.highlight.yellow", "p.font.cjk",
    "p.size.16", "p.color.hash", "p.addtext.fmt", "p.addbreak", "p.struct.tabs", "p.struct.field", "p.struct.numpr",
    "tc.data", "t.celltext.edgews", "t.cellfmt.full", "t.cellftext", "t.cellpara", "t.celllist.bullet", "t.cellimage",
    "t.nested.d1", "t.nested.d2", "t.merge.h", "t.merge.v", "t.merge.range", "t.rowheight.exact", "t.rowheader",
    "t.cantsplit", "t.align.right", "t.style.grid", "t.borders.partial", "t.shading", "t.cellborders.diag",
    "t.cellshading", "t.textdir", "t.appendrow", "t.insertcol0", "t.struct.tcmar",
    "s.header.first", "s.footer.even",
    "i.size.wh", "i.align.center", "i.alt", "i.fl.tight", "i.fl.topbottom", "i.fr.square", "i.off.xy", "i.setalign.right",
    "s.size.custom", "s.size.custom.wide", "s.orient.landscape", "s.margins", "s.grid.chars", "s.header.default", "s.footer.first",
    "s.titlepg.on", "s.headerpn",
}
# targets below a nested table node (DeepCtors of the spec): every table feature alone on a nested table; the depth rotates
# with the seed in the quick tier, the thorough tier takes all of them
NESTED = ["c.ntbl.d1.2x2", "c.ntbl.d2.2x2"]
# the section's header / footer references (multi groups of the spec: one instance per kind) and the first-page switch:
# sets of 3 (quick) / 3..7 (thorough) of them on one section
HF = {"s.header.default", "s.header.first", "s.header.even", "s.footer.default", "s.footer.first", "s.footer.even", "s.titlepg.on"}
# pair alphabet on a nested table in the quick tier (content, pictures, further nesting, merges, rows / columns, formatting)
NREPS = {"tc.data", "t.cellimage", "t.cellimage.same", "t.nested.d1", "t.merge.h", "t.merge.v", "t.cellpara", "t.celllist.bullet",
         "t.rowheight.exact", "t.borders.partial", "t.appendrow", "t.insertcol0", "t.cellfmt.full"}
CANON_Q = {"c.fpara", "c.tbl.2x2", "c.img.png", "sect"}
CANON_T = {"c.fpara", "c.tbl.3x3", "c.img.png", "sect"}
MC_DUMMY = {"Lost": set(), "LostKinds": set(), "Alias": set(), "MCCtors": set(), "MCFeats": set(), "MCSect": set(), "MCSectMax": 0}


def all_tokens(ctx):
    """Feature and constructor tokens of the specification (read from the spec text, used only to size the alphabets)."""
    import re
    with open(os.path.join(ctx.specdir, "RoundTrip.tla")) as f:
        s = f.read()
    feats = re.findall(r'^\s*F\("([^"]+)"', s, re.M)
    ctors = re.findall(r'^\s*C\("([^"]+)"', s, re.M)
    ctx.extra_cov["feature_tokens_without_presence_claim"] = re.findall(r'^\s*F\("([^"]+)",\s*"\w",\s*\{[^}]*\},\s*"none"', s, re.M)
    return feats, ctors


def gencfg(ctx, name, **kw):
    consts = dict(MC_DUMMY)
    consts.update(dict(Cycles=3, MinF=0, MaxF=2, SingleCtors=set(), PairCtors=set(), PairFeats=set(),
                       FocusKinds={"ctor", "sect"}, CtxMode="one", PreSaves={False, True}))
    consts.update(kw)
    return ctx.cfg(name, "SpecGen", consts, invariants=["Emit"])


def judge(ctx, cases, tag, chunk=1500):
    """Execute and judge in chunks (bounds the size of one observation file for the TLC judge)."""
    for k in range(0, len(cases), chunk):
        part = cases[k:k + chunk]
        t = "%s%d" % (tag, k // chunk) if len(cases) > chunk else tag
        ctx.cases_by_tag[t] = {c["id"]: c for c in part}
        obs = ctx.run_exec("roundtrip", part, t)
        ctx.tlc_trace("RoundTrip_Trace.tla", "RoundTrip_Trace.cfg", obs, t)
        if not ctx.keep:
            os.remove(obs)


def coverage(ctx, cases, feats, ctors):
    used_f, used_c, pairs = set(), set(), set()
    for c in cases:
        b = c["steps"][0]
        for e in b["els"]:
            used_c.add(e["c"])
            used_f.update(e["fs"])
            if len(e["fs"]) == 2:
                pairs.add(tuple(e["fs"]))
        used_f.update(b["sect"])
        if len(b["sect"]) == 2:
            pairs.add(tuple(b["sect"]))
    ctx.extra_cov["feature_tokens"] = len(feats)
    ctx.extra_cov["feature_tokens_exercised"] = sorted(used_f)
    ctx.extra_cov["feature_tokens_not_exercised"] = sorted(set(feats) - used_f)
    ctx.extra_cov["constructors_exercised"] = sorted(used_c)
    ctx.extra_cov["constructors_not_exercised"] = sorted(set(ctors) - used_c)
    ctx.extra_cov["feature_pairs_on_one_element"] = len(pairs)


def info(ctx):
    """Non-verdict observations of the judge (signature head C03i): what Build was specified to leave but did not."""
    inf = sorted({tuple(w["sig"]) for w in ctx.witnesses if w["sig"][0] == "C03i"})
    ctx.extra_cov["unobservable_or_build_mismatch"] = [list(x) for x in inf]
    if inf:
        vlib.log("  note: %d build observations differ from the specification of the setters (see evidence): %s"
                 % (len(inf), inf[:6]))


def pipeline(ctx, replay_case=None):
    q = ctx.tier == "quick"
    feats, ctors = all_tokens(ctx)
    if replay_case is not None:
        judge(ctx, [replay_case], "replay")
        info(ctx)
        return ctx.finish(LEVEL, RULE)
    ctx.tlc_mc("RoundTrip_MC.tla", "RoundTrip_MC_quick.cfg" if q else "RoundTrip_MC_thorough.cfg")
    ctx.tlc_mc("RoundTrip_MC.tla", "RoundTrip_MC_quick_lossy.cfg" if q else "RoundTrip_MC_thorough_lossy.cfg")
    allc = set(ctors) | {"sect"}
    if q:
        cfg = gencfg(ctx, "gen_bfs.cfg", SingleCtors=CANON_Q | {"c.para", NESTED[ctx.seed % len(NESTED)]}, PairCtors=CANON_Q, PairFeats=REPS)
    else:
        cfg = gencfg(ctx, "gen_bfs.cfg", SingleCtors=allc, PairCtors=CANON_T | {NESTED[0]}, PairFeats=set(feats), CtxMode="all")
    cases = ctx.tlc_gen("RoundTrip_MC.tla", cfg, "bfs", timeout=900)
    # sections with three or more header / footer references (BFS, exhaustive over the subsets of HF of the tier's sizes)
    cfg = gencfg(ctx, "gen_hf.cfg", MinF=3, MaxF=3 if q else len(HF), PairCtors={"sect"}, PairFeats=HF, FocusKinds={"sect"},
                 PreSaves={False} if q else {False, True})
    cases += ctx.tlc_gen("RoundTrip_MC.tla", cfg, "hf", timeout=600)
    if q:
        # pairs of table features on a nested table (the thorough tier has every pair, see PairCtors above)
        cfg = gencfg(ctx, "gen_nest.cfg", MinF=2, MaxF=2, PairCtors={NESTED[ctx.seed % len(NESTED)]}, PairFeats=NREPS, FocusKinds={"ctor"},
                     PreSaves={False})
        cases += ctx.tlc_gen("RoundTrip_MC.tla", cfg, "nest", timeout=600)
    allcases = list(cases)
    judge(ctx, cases, "bfs")
    ctx.exhaustive = True
    if not q:
        # sampled triples (and pairs on non-canonical constructors) beyond the exhaustive bound
        cfg = gencfg(ctx, "gen_sim.cfg", MinF=2, MaxF=3, SingleCtors=allc, PairCtors=allc, PairFeats=set(feats))
        sim = ctx.tlc_gen("RoundTrip_MC.tla", cfg, "sim", mode="sim", num=4000, depth=12, timeout=900, limit=4000)
        allcases += sim
        judge(ctx, sim, "sim")
    coverage(ctx, allcases, feats, ctors)
    ctx.extra_cov["bounds"] = dict(cycles=3, max_features_on_focus=2 if q else 3, context_elements="0-2 + section settings",
                                   pair_alphabet=len(REPS) if q else len(feats),
                                   nested_targets=[NESTED[ctx.seed % len(NESTED)]] if q else sorted(c for c in ctors if c.startswith("c.ntbl")),
                                   header_footer_kinds_on_one_section="3" if q else "3-7")
    info(ctx)
    ctx.assumptions.append("text domain = characters legal in XML 1.0; xml:space is not interpreted by the independent reader (DESIGN 6.2)")
    ctx.assumptions.append("the in-memory side of a relationship id (picture bytes, header / footer part) is read from the document's private "
                           "relationship list by read-only reflection and from GetParts(): the library has no accessor for it; the order of the "
                           "header / footer references of a section is taken as written (k-th reference against k-th reference)")
    ctx.assumptions.append("a setter that leaves nothing in the in-memory document (no-op stub) is not a C03 matter; such tokens are listed under unobservable_or_build_mismatch when the specification expected an effect")
    return ctx.finish(LEVEL, RULE)


def run(ctx):
    return pipeline(ctx)


def replay(ctx, rp):
    c = rp["case"]
    return pipeline(ctx, c)
