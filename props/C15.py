"""C15 — lists, notes and tables of contents reflect exactly the calls made (spec module Lists)."""
import copy
import os
from concurrent.futures import ThreadPoolExecutor

MANIFEST = dict(
    module="Lists", ref="§5 C15",
    text="The reference machine Lists.tla (per document: list paragraphs with the numbering definition they resolve to, the "
         "notes parts and counts, the note configuration, headings, ListHeadings/GetHeadingCount and the table-of-contents "
         "content controls; every public list / note / heading / TOC call, on new and reopened documents, one or two documents "
         "per process) is model-checked exhaustively: every list paragraph has the requested format, symbol and start at its "
         "level, added notes appear exactly once and removals remove exactly one, a generated / updated / regenerated TOC lists "
         "exactly the headings up to its level in order, regeneration is idempotent, families and documents do not disturb each "
         "other. TLC then enumerates every call sequence of each family to the tier's depth plus seeded random mixed ones; the "
         "real library executes them and after every step the saved package (independent reader: body -> w:num -> w:abstractNum "
         "-> w:lvl, notes parts, settings, TOC controls) and the accessors of every document are judged by Lists_Trace.tla. "
         "The violations live in second calls (definition cache keyed without the start number), in calls after a reopen and "
         "in repeated regeneration, which is what enumerating call sequences against a reference machine reaches.",
    technique="TLA+ spec Lists; TLC exhaustive MC + TLC-generated behaviours replayed on the library + TLC trace judge",
)

LEVEL = "model_checking"
RULE = ("behaviours = every sequence of list / note / heading+TOC operations (argument pools per family listed under bounds) "
        "up to the family's BFS depth, enumerated by TLC, plus seeded random mixed sequences over all operations on one and "
        "two documents; each is executed on the real library; after every step the view of every document (saved package via "
        "the independent reader + accessors) is judged by Lists_Trace.tla against Lists.tla")

TRACE = ("Lists_Trace.tla", "Lists_Trace.cfg")
CHUNK = 40000    # events per judge run
JUDGES = 3       # trace judges side by side (each a single-worker TLC)

ALLTYPES = {"bullet", "number", "decimal", "lowerLetter", "upperLetter", "lowerRoman", "upperRoman"}
ALLSYMS = {"dot", "circle", "square", "dash", "arrow"}

LIST_OPS = {"AddListItem", "AddListItemNil", "AddBulletList", "AddNumberedList", "CreateMultiLevelList", "RestartNumbering",
            "RemoveListItem"}
NOTE_OPS = {"AddFootnote", "AddEndnote", "AddFootnoteToRun", "RemoveFootnote", "RemoveEndnote", "SetFootnoteConfig"}
TOC_OPS = {"AddHeading", "AddStyledParagraph", "RemoveHeading", "GenerateTOC", "AutoGenerateTOC", "UpdateTOC", "SetTOCStyle",
           "BuildTOCSDT"}
ALL_OPS = LIST_OPS | NOTE_OPS | TOC_OPS | {"Reopen"}

# smallest pools: one value everywhere (a family's cfg overrides what it enumerates)
BASE = dict(
    KeyHasStart=True, ClampLevel=True, ND=1, OpNames=set(),
    Types={"bullet", "decimal"}, Syms={"dot"}, NumSyms={"empty"}, LvlCodes={1}, Starts={1},
    MLTypes={"bullet", "decimal"}, MLLvls={0, 1}, MLStarts={1}, MLLen=1,
    NTexts={"note a"}, Runs={"para"}, Refs={"bogus"},
    CfgFmts={"lowerRoman"}, CfgStarts={0},
    Apis={"para"}, HLvls={1}, HTexts={"Alpha"}, Styles={"Title"},
    MLs={3}, TSLvls={1}, Files={False}, MaxK=2, Depth=0,
    MaxItems=2, MaxNotes=2, MaxHeads=2, MaxTocs=2, MaxAlloc=3,
)


def consts(**kw):
    c = dict(BASE)
    c.update(kw)
    return c


def gencfg(ctx, name, **kw):
    return ctx.cfg(name, "SpecGen", consts(**kw), invariants=["Emit"])


def mccfg(ctx, name, **kw):
    return ctx.cfg(name, "SpecMC", consts(**kw), invariants=["Inv_C15", "Inv_Ids", "Inv_Idem"],
                   properties=["Act_TOC", "Act_Notes", "Act_Frame"], view="MCView")


def judge(ctx, cases, tag):
    """Execute the behaviours on the library, then judge them in chunks of whole behaviours (several TLC judges in parallel)."""
    per = max(1, CHUNK // (max(len(c["steps"]) for c in cases) + 1))
    jobs = []
    for k, i in enumerate(range(0, len(cases), per)):
        part = cases[i:i + per]
        t = tag if len(cases) <= per else "%s-c%d" % (tag, k)   # ("-c": never the name of another family)
        ctx.cases_by_tag[t] = {c["id"]: c for c in part}
        jobs.append((k, t, ctx.run_exec("lists", part, t)))

    def one(job):
        k, t, obs = job
        c = copy.copy(ctx)                      # private counters / TLC scratch numbering per judge
        c.tlc_seq = ctx.tlc_seq + 100 + 10 * k
        c.states = c.transitions = 0
        c.witnesses = []
        c.tlc_trace(TRACE[0], TRACE[1], obs, t, env={"JAVA_TOOL_OPTIONS": "-Xss256m -Xmx4g"})
        return c

    with ThreadPoolExecutor(max_workers=JUDGES) as ex:
        for c in ex.map(one, jobs):
            ctx.states += c.states
            ctx.transitions += c.transitions
            ctx.witnesses.extend(c.witnesses)


def opcount(ctx, cases):
    cnt = ctx.extra_cov.setdefault("operations_executed", {})
    for c in cases:
        for s in c["steps"]:
            cnt[s["op"]] = cnt.get(s["op"], 0) + 1


def families(q):
    """(tag, constants) of the exhaustively enumerated families of the tier."""
    lvls_q, lvls_t = {0, 1, 9, 10}, {0, 1, 2, 9, 10}          # level = code - 1:  -1, 0, (1,) 8, 9
    fam = []
    if q:
        fam.append(("lists", dict(OpNames=LIST_OPS | {"Reopen"}, Depth=2, Types={"bullet", "decimal", "lowerRoman"},
                                  Syms={"dot", "dash"}, LvlCodes=lvls_q, Starts={1, 5}, MLStarts={1, 5}, MLLen=2, MaxK=2)))
        fam.append(("notes", dict(OpNames=NOTE_OPS | {"Reopen"}, Depth=3, Runs={"para", "detached"},
                                  Refs={"gone", "bogus", "sep"}, CfgStarts={0, 5}, MaxK=2)))
        fam.append(("notes2", dict(ND=2, OpNames={"AddFootnote", "AddEndnote", "RemoveFootnote", "RemoveEndnote"}, Depth=3,
                                   Refs={"other"}, MaxK=1)))
        fam.append(("toc", dict(OpNames=TOC_OPS - {"SetTOCStyle", "BuildTOCSDT"} | {"Reopen"}, Depth=3, HLvls={1, 4},
                                HTexts={"Alpha", ""}, Styles={"Heading2"}, MLs={1, 3}, MaxK=1)))
        fam.append(("tocnote", dict(OpNames={"AddHeading", "AddFootnoteToRun", "GenerateTOC", "UpdateTOC", "Reopen"}, Depth=3,
                                    Runs={"heading"}, Files={True}, HLvls={1}, MLs={3})))
        # a TOC generated while only shallow headings exist, deeper headings added afterwards, then updated
        fam.append(("tocupd", dict(OpNames={"AddHeading", "GenerateTOC", "UpdateTOC"}, Depth=4, HLvls={1, 3}, MLs={3})))
    else:
        # every PAIR of list calls over every type / symbol / level class / start (cache-key collisions of any two requests)
        fam.append(("lists", dict(OpNames=LIST_OPS | {"Reopen"}, Depth=2, Types=ALLTYPES, Syms=ALLSYMS | {"custom"},
                                  LvlCodes=lvls_t, Starts={0, 1, 5}, MLStarts={1, 5}, MLLen=2, MaxK=3)))
        fam.append(("listsym", dict(OpNames={"AddListItem", "AddBulletList", "Reopen"}, Depth=3, Types={"bullet", "decimal"},
                                    Syms={"dot", "arrow"}, NumSyms={"empty", "dot"}, LvlCodes={1, 2}, Starts={1, 5})))
        fam.append(("lists3", dict(OpNames=LIST_OPS - {"CreateMultiLevelList"} | {"Reopen"}, Depth=3,
                                   Types={"bullet", "decimal", "upperLetter"}, Syms={"dot", "arrow"}, LvlCodes={1, 10},
                                   Starts={1, 5}, MaxK=2)))
        fam.append(("lists4", dict(OpNames={"AddListItem", "AddListItemNil", "RemoveListItem", "Reopen"}, Depth=4,
                                   Types={"bullet", "lowerRoman"}, LvlCodes={1, 10}, Starts={1, 5}, MaxK=2)))
        fam.append(("lists2d", dict(ND=2, OpNames={"AddListItem", "AddNumberedList", "RestartNumbering", "Reopen"}, Depth=3,
                                    Types={"bullet", "decimal"}, LvlCodes={1, 10}, Starts={1, 5})))
        fam.append(("notes", dict(OpNames=NOTE_OPS | {"Reopen"}, Depth=3, NTexts={"note a", "", "<&>"},
                                  Runs={"para", "detached", "foreign"}, Refs={"gone", "bogus", "sep", "empty"}, CfgFmts={"lowerRoman", "decimal"},
                                  CfgStarts={0, 5}, MaxK=2)))
        fam.append(("notes4", dict(OpNames=NOTE_OPS | {"Reopen"}, Depth=4, Refs={"gone"}, CfgStarts={5}, MaxK=3)))
        fam.append(("notes2", dict(ND=2, OpNames=NOTE_OPS - {"SetFootnoteConfig"} | {"Reopen"}, Depth=3,
                                   Runs={"para", "foreign"}, Refs={"other", "gone"}, MaxK=2)))
        fam.append(("toc2", dict(OpNames=TOC_OPS | {"Reopen"}, Depth=2, Apis={"para", "parabm", "tocbm"}, HLvls={1, 2, 3, 4, 9},
                                 HTexts={"Alpha", "", "A <&> B"}, Styles={"Heading2", "Heading9", "Title"}, MLs={0, 1, 2, 3, 4, 9, 12},
                                 TSLvls={0, 1, 9, 10}, MaxK=2)))
        fam.append(("toc", dict(OpNames=TOC_OPS | {"Reopen"}, Depth=3, Apis={"para", "parabm"}, HLvls={1, 3, 4},
                                HTexts={"Alpha", ""}, Styles={"Heading2", "Title"}, MLs={0, 1, 3, 9}, TSLvls={0, 1}, MaxK=2)))
        fam.append(("toc4", dict(OpNames={"AddHeading", "RemoveHeading", "GenerateTOC", "AutoGenerateTOC", "UpdateTOC", "Reopen"},
                                 Depth=4, HLvls={1, 4}, HTexts={"Alpha", ""}, MLs={3}, MaxK=1)))
        # the reference marker of a note put into a heading's run changes the heading text the TOC has to list
        fam.append(("tocnote", dict(OpNames={"AddHeading", "AddFootnoteToRun", "RemoveFootnote", "GenerateTOC", "AutoGenerateTOC",
                                             "UpdateTOC", "Reopen"}, Depth=4, Runs={"heading"}, Files={False, True}, HLvls={1, 4},
                                    HTexts={"Alpha"}, MLs={3}, Refs={"gone"}, MaxK=1)))
        fam.append(("tocupd", dict(OpNames={"AddHeading", "GenerateTOC", "UpdateTOC", "AutoGenerateTOC"}, Depth=5, HLvls={1, 2, 4},
                                   MLs={3}, MaxHeads=3)))
    return fam


MC_QUICK = ["Lists_MC_quick_lists.cfg", "Lists_MC_quick_notes.cfg", "Lists_MC_quick_notes2.cfg", "Lists_MC_quick_toc.cfg"]
MC_THOROUGH = ["Lists_MC_thorough_lists.cfg", "Lists_MC_thorough_notes.cfg", "Lists_MC_thorough_toc.cfg", "Lists_MC_quick_toc.cfg"]


def model_checks(ctx, cfgs, workers):
    """Exhaustive checks of the reference machine, one per family, side by side (they run while behaviours are replayed)."""
    def one(job):
        k, cfg = job
        c = copy.copy(ctx)
        c.tlc_seq = 500 + 10 * k
        c.states = c.transitions = 0
        c.mc_runs = []
        c.tlc_mc("Lists_MC.tla", cfg, workers=workers)
        return c
    ex = ThreadPoolExecutor(max_workers=len(cfgs))
    return ex, [ex.submit(one, (k, cfg)) for k, cfg in enumerate(cfgs)]


def asbuilt_cex(ctx):
    """The same machine with the definition cache keyed as built (no start number, level written as given) must VIOLATE
    the list clause in the model: shows the invariant is not vacuous and that the model explains the recorded findings."""
    rc, out, gen, dist = ctx._tlc("Lists_MC.tla", "Lists_MC_asbuilt_cex.cfg", [], 300, workers=2)
    if "Invariant Inv_C15 is violated" not in out:
        raise vlib_machinery("as-built variant of Lists_MC did not violate Inv_C15:\n" + out[-2000:])
    ctx.extra_cov["asbuilt_model_violates_Inv_C15"] = True


def vlib_machinery(msg):
    import vlib
    return vlib.Machinery(msg)


SIM_FULL = dict(Files={False, True}, Types={"bullet", "decimal", "upperLetter", "lowerRoman"}, Syms={"dot", "square", "custom"}, NumSyms={"empty"},
                LvlCodes={0, 1, 5, 9, 10}, Starts={0, 1, 5}, MLTypes={"bullet", "upperRoman"}, MLStarts={1, 5},
                MLLen=2, NTexts={"note a", "<&>"}, Runs={"para", "detached", "foreign", "heading"},
                Refs={"gone", "other", "bogus", "sep", "empty"}, CfgFmts={"lowerRoman"}, CfgStarts={0, 5},
                Apis={"para", "parabm", "tocbm"}, HLvls={1, 2, 3, 4, 9}, HTexts={"Alpha", "", "A <&> B"},
                Styles={"Heading2", "Title"}, MLs={0, 1, 2, 3, 9}, TSLvls={0, 1, 10}, MaxK=3)
SIM_QUICK = dict(Files={False, True}, Types={"bullet", "decimal", "upperLetter"}, Syms={"dot", "square"}, LvlCodes={1, 4, 10}, Starts={1, 5},
                 MLStarts={1, 5}, MLLen=1, NTexts={"note a", "<&>"}, Runs={"para", "foreign", "heading"}, Refs={"gone", "other", "bogus"},
                 CfgStarts={5}, Apis={"para", "parabm", "tocbm"}, HLvls={1, 2, 4}, HTexts={"Alpha", ""},
                 Styles={"Heading2", "Title"}, MLs={1, 3, 9}, TSLvls={0, 1}, MaxK=2)
SIM_PER_TRACE = 4    # TLC prints every successor of the last state of a random walk: keep a few of these siblings per walk


def plan(q):
    """(tag, mode, constants, generation arguments) of every family of the tier."""
    jobs = [(tag, "bfs", kw, {}) for tag, kw in families(q)]
    d = 10 if q else 20
    pools = SIM_QUICK if q else SIM_FULL
    for tag, nd, off in (("sim1", 1, 0), ("sim2", 2, 1)):
        jobs.append((tag, "sim", dict(pools, ND=nd, OpNames=ALL_OPS, Depth=d),
                     dict(num=40 if q else 120, depth=d + 1, seed_off=off)))
    return jobs, d, pools


def thin(ctx, cases):
    """Random walks: of the behaviours that share everything but the last operation keep SIM_PER_TRACE (seeded choice)."""
    import json, random
    rnd = random.Random(ctx.seed)
    groups = {}
    for c in cases:
        groups.setdefault(json.dumps(c["steps"][:-1], sort_keys=True), []).append(c)
    out = []
    for g in groups.values():
        out.extend(g if len(g) <= SIM_PER_TRACE else rnd.sample(g, SIM_PER_TRACE))
    return out


def family(ctx, k, job):
    tag, mode, kw, genargs = job
    c = copy.copy(ctx)                          # private counters and TLC scratch numbering; shared case / sample stores
    c.tlc_seq = 10000 * (k + 1)
    c.states = c.transitions = c.traces = c.events = 0
    c.witnesses = []
    cases = c.tlc_gen("Lists_MC.tla", gencfg(c, "gen_%s.cfg" % tag, **kw), tag, mode=mode, **genargs)
    if mode == "sim":
        cases = thin(c, cases)
    judge(c, cases, tag)
    return c, cases


def pipeline(ctx, replay_case=None):
    q = ctx.tier == "quick"
    if replay_case is not None:
        judge(ctx, [replay_case], "replay")
        return ctx.finish(LEVEL, RULE)
    # many TLC processes run side by side: do not let each of them reserve a quarter of the machine's memory
    os.environ.setdefault("JAVA_TOOL_OPTIONS", "-Xss256m -Xmx6g")
    ctx.build_harness()
    pool, mcs = model_checks(ctx, MC_QUICK if q else MC_THOROUGH, 2 if q else 4)
    jobs, d, simkw = plan(q)
    bounds = {}
    nbfs = 0
    with ThreadPoolExecutor(max_workers=3 if q else 4) as ex:
        futs = [ex.submit(family, ctx, k, job) for k, job in enumerate(jobs)]
        for job, f in zip(jobs, futs):
            c, cases = f.result()
            ctx.states += c.states
            ctx.transitions += c.transitions
            ctx.traces += c.traces
            ctx.events += c.events
            ctx.witnesses.extend(c.witnesses)
            opcount(ctx, cases)
            if job[1] == "bfs":
                nbfs += len(cases)
                bounds[job[0]] = {k: (sorted(v, key=str) if isinstance(v, (set, frozenset)) else v) for k, v in job[2].items()}
    ctx.exhaustive = True
    for f in mcs:
        c = f.result()
        ctx.states += c.states
        ctx.transitions += c.transitions
        ctx.mc_runs.extend(c.mc_runs)
    pool.shutdown()
    if not q:
        asbuilt_cex(ctx)
    ctx.extra_cov["bounds"] = bounds
    ctx.extra_cov["bfs_behaviours"] = nbfs
    ctx.extra_cov["sim"] = {"depth": d, "pools": {k: (sorted(v, key=str) if isinstance(v, (set, frozenset)) else v) for k, v in simkw.items()}}
    ctx.extra_cov["exhaustive_what"] = ("every operation sequence of each family (bounds.<family>: operations, argument pools, Depth) on "
                                        "new documents, with reopen (same process and new process) as one of the operations; "
                                        "mixed sequences over all operations are seeded samples")
    ctx.assumptions.append("a heading is a body paragraph whose style id is Heading1..Heading9; an empty heading is not listed by a TOC")
    ctx.assumptions.append("UpdateTOC has no level argument: its entries are judged only for a TOC known to have the default level 3; "
                           "a second GenerateTOC is a second TOC, AutoGenerateTOC is a regeneration (replaces an existing TOC)")
    ctx.assumptions.append("which body elements Open keeps (TOC content controls, bookmarks) belongs to C03 and is not judged at Reopen; "
                           "a reopen 'in a new process' is modelled by document.VerifResetGlobals() before OpenFromMemory")
    ctx.assumptions.append("levels outside 0..8: any written level 0..8 that has the requested definition is accepted")
    return ctx.finish(LEVEL, RULE)


def run(ctx):
    return pipeline(ctx)


def replay(ctx, rp):
    c = rp["case"]
    ctx.cases_by_tag["replay"] = {c["id"]: c}
    return pipeline(ctx, c)
