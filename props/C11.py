"""C11 — each header/footer kind has exactly one, current, resolvable definition (spec module HdrFtr)."""
import collections, copy
import vlib

MANIFEST = dict(
    module="HdrFtr", ref="§5 C11",
    text="The reference machine HdrFtr.tla (per header/footer kind: one reference, one relationship, one part carrying the latest "
         "call's text, run formatting, alignment and PAGE field; first-page flag; Save/Reopen/Render keep everything) is model-checked "
         "exhaustively (invariants + action properties; the pinned tree's append design is shown to violate them). TLC-generated "
         "sequences over every public header/footer call (six constructors x three kinds, formatted and nil-config variants, "
         "SetDifferentFirstPage) interleaved with all page-setting calls, relationship-creating body calls, Save/ToBytes, Reopen "
         "(memory and file) and both document-template rendering entry points are executed on the real library; the written "
         "package is read by the independent OPC reader after every step (and, in a second variant, only when the behaviour saves) "
         "and judged step by step by HdrFtr_Trace.tla. Exhaustive small-scope over call histories is the level at which "
         "'second call of the same kind' defects live.",
    technique="TLA+ spec HdrFtr; TLC exhaustive MC + TLC-generated behaviours replayed on the library + TLC trace judge",
)

LEVEL = "model_checking"
RULE = ("behaviours = every sequence of the stated operation alphabets up to the tier's BFS depths enumerated by TLC, plus seeded "
        "random longer ones over the wide argument classes; each is executed on the real library twice (package written and read "
        "after every step; package written only where the behaviour saves and at the end); the observed references, relationships, "
        "header/footer parts (text token with call serial, run formatting, alignment, field structure) and flags are judged by "
        "HdrFtr_Trace.tla against Apply/Def/Viol_Struct of HdrFtr.tla")

ASSUMPTIONS = [
    "the section settings that count are the last w:sectPr child of the body of the written main part",
    "literal text that is no call's text (the decoration the page-number variants put around the field) is ignored when a PAGE "
    "field is present and reported as stray-text when it is not",
    "w:titlePg is treated as part of the first-page definition (it decides whether that definition takes effect), so it must "
    "survive Save/Reopen/Render like the references; the even/odd switch of the settings part is observed but the library has no "
    "call for it and nothing is demanded of it",
    "kinds outside default/first/even (HeaderFooterType is an open string type) are outside the property's quantifier and are not passed",
    "which relationship id / part name the library picks is free (only freshness is noted, as M11 binding notes without verdict)",
]

HF6 = ["AddHeader", "AddFooter", "AddHeaderWithPageNumber", "AddFooterWithPageNumber", "AddFormattedHeader", "AddFormattedFooter"]
PAGE_ALL = {"SetPageSettings", "SetPageSize", "SetCustomPageSize", "SetPageOrientation", "SetPageMargins",
            "SetHeaderFooterDistance", "SetGutterWidth", "SetDocGrid", "ClearDocGrid", "GetPageSettings"}
OTHERS = ["SetDifferentFirstPage", "PageSet", "AddImage", "AddListItem", "AddFootnote", "AddParagraph", "AddTable",
          "Save", "ToBytes", "Reopen", "Render"]
ALLOPS = HF6 + OTHERS

TEXTS = ["plain", "meta", "cjk", "edge", "var"]
FMTS = ["bold", "ital", "neg", "zero", "nil"]
FMT1 = ["b1", "i1", "u1", "st1", "size1", "col1", "ff1", "fn1", "hl1"]   # exactly one attribute set
ALIGNS = ["center", "right", "both", "left", ""]


def small(seed, **over):
    """One argument class per slot, rotated by the seed."""
    a = dict(HfC={"h", "f"}, KindsC={"default", "first", "even"}, TextC={TEXTS[seed % len(TEXTS)]}, ShowC={True},
             FmtC={FMTS[seed % 2], FMTS[2 + seed % 3]}, AlignC={ALIGNS[seed % 4]}, CfgNilC={False},
             PageC={sorted(PAGE_ALL)[seed % len(PAGE_ALL)]}, ViaC={"mem"}, RViaC={"doc"}, DataC={"def"})
    a.update(over)
    return a


WIDE = dict(HfC={"h", "f"}, KindsC={"default", "first", "even"}, TextC={"plain", "meta", "cjk", "edge", "empty", "var"},
            ShowC={True, False}, FmtC=set(FMTS), AlignC=set(ALIGNS), CfgNilC={True}, PageC=PAGE_ALL,
            ViaC={"mem", "file", "word", "wordabs", "worddot"}, RViaC={"doc", "legacy"}, DataC={"def", "undef"})


def gencfg(ctx, name, ops, args, depth, last=()):
    c = {"MaxSteps": 0, "Depth": depth, "OpNames": set(ops), "Design": "replace", "LastC": set(last)}
    c.update(args)
    return ctx.cfg(name, "SpecGen", c, invariants=["Emit"])


def plans(seed, q):
    """(tag, ops, argument classes, depth) — every behaviour of each alphabet to its depth."""
    core = ["AddHeader", "AddFooterWithPageNumber", "AddFormattedHeader", "SetDifferentFirstPage", "AddImage", "ToBytes", "Reopen", "Render"]
    P = [
        # the whole alphabet, one argument class per slot
        ("all", ALLOPS, small(seed, CfgNilC={True}), 2),

        # constructors of two kinds interleaved with what must not disturb them, deeper
        ("core", core, small(seed, KindsC={"default", "first"} if seed % 2 else {"even", "default"}, TextC={"var"}, FmtC={FMTS[2 + seed % 3]}), 3 if q else 4),
        # header/footer calls on a document that went through a package with Word-style part names
        ("foreign", ["AddHeader", "AddFooterWithPageNumber", "AddFormattedHeader", "Reopen", "ToBytes"],
         small(seed, KindsC={"first", "default"}, TextC={"plain"}, ViaC={"word"}, FmtC={FMTS[seed % 2]}), 3 if q else 4),
        # ... every constructor of one sort (the three footer / the three header calls) after such a package: the part a kind
        # is written to must be the one its reference points to, whichever of the entry points is used
        ("foreignf", ["AddFooter", "AddFooterWithPageNumber", "AddFormattedFooter", "Reopen"],
         small(seed, KindsC={"first", "default"}, TextC={"plain"}, ViaC={"word"}, FmtC={FMTS[seed % 2]}), 3),
        ("foreignh", ["AddHeader", "AddHeaderWithPageNumber", "AddFormattedHeader", "Reopen"],
         small(seed, KindsC={"even", "default"}, TextC={"plain"}, ViaC={"word"}, FmtC={FMTS[seed % 2]}), 3),
        # the same package with the header/footer relationship targets spelt as absolute part names / with a dot segment
        ("spelt", ["AddHeader", "AddFooterWithPageNumber", "Reopen", "ToBytes"],
         small(seed, KindsC={"default", "first"} if seed % 2 else {"even", "default"}, TextC={"plain"}, ViaC={"wordabs", "worddot"}), 3),
    ]
    P += [
        # formats that set exactly one attribute, first definition and redefinition (the latest call's formatting must show)
        ("fmt1", ["AddFormattedHeader", "AddFormattedFooter"],
         small(seed, KindsC={["default", "first", "even"][seed % 3]}, TextC={"plain"}, FmtC=set(FMT1), AlignC={""}), 2),
        # every page-setting call between and after definitions: a header and a footer kind each, three calls deep
        ("page", ["AddHeader", "AddFooterWithPageNumber", "PageSet"],
         small(seed, KindsC={["first", "even", "default"][seed % 3]}, TextC={"plain"}, PageC=PAGE_ALL), 3),
    ]
    if not q:
        P += [
            # every constructor triple / same kind twice and thrice, headers and footers (pairs are part of "all")
            ("hf", HF6, small(seed, TextC={"plain"} if seed % 2 else {"var"}, FmtC={FMTS[seed % 2]}), 3),
            ("hdr4", ["AddHeader", "AddHeaderWithPageNumber", "AddFormattedHeader"], small(seed, HfC={"h"}, TextC={"plain"}, FmtC={FMTS[seed % 2]}), 4),
            ("ftr4", ["AddFooter", "AddFooterWithPageNumber", "AddFormattedFooter", "Reopen"],
             small(seed, HfC={"f"}, KindsC={"first", "even"}, TextC={"cjk"}, ViaC={"file"}, FmtC={FMTS[2 + seed % 3]}), 4),
            ("args", HF6, dict(WIDE, KindsC={"default"}, HfC={"h"}, TextC={"empty", "edge"}, FmtC={"nil", "ital", "neg"}, AlignC={"", "both"}), 2),
            ("survive", ["AddFooter", "AddFormattedHeader", "SetDifferentFirstPage", "Save", "Reopen", "Render", "AddListItem", "AddFootnote"],
             small(seed, KindsC={"first"}, TextC={"var"}, ViaC={"mem", "file"}, RViaC={"doc", "legacy"}, DataC={"def", "undef"}), 3),
        ]
    return P


def judge(ctx, cases, tag):
    obs = ctx.run_exec("hdrftr", cases, tag)
    res = ctx.tlc_trace("HdrFtr_Trace.tla", "HdrFtr_Trace.cfg", obs, tag)
    dev = ctx.extra_cov.setdefault("model_deviations", [])
    for w in res:
        if w["sig"][0] == "M11" and w["sig"] not in dev:
            dev.append(w["sig"])
    return res


def with_variants(cases):
    """Each behaviour twice: eager (written and read after every step) and lazy (only where it saves + at the end)."""
    out = []
    for c in cases:
        e = dict(c, id=c["id"] * 2)
        l = dict(copy.deepcopy(c), id=c["id"] * 2 + 1, extra={"lazy": True})
        out += [e, l]
    return out


CHUNK = 9000   # behaviours per judge run (the judge reads its whole observation file into one TLA+ value)


def pipeline(ctx, cases_by=None):
    q = ctx.tier == "quick"
    ctx.assumptions.extend(ASSUMPTIONS)
    ctx.tlc_mc("HdrFtr_MC.tla", "HdrFtr_MC_quick.cfg" if q else "HdrFtr_MC_thorough.cfg", workers=4 if q else 8)
    if not q:
        ctx.tlc_mc("HdrFtr_MC.tla", "HdrFtr_MC_deep.cfg", workers=8)
    # non-vacuity: the design of the pinned tree (a repeated call appends) must violate the invariant
    rc, out, gen, dist = ctx._tlc("HdrFtr_MC.tla", "HdrFtr_MC_append_cex.cfg", [], 300, workers=2)
    if "Invariant Inv_C11 is violated" not in out:
        raise vlib.Machinery("HdrFtr_MC_append_cex.cfg: the append design no longer violates Inv_C11 (vacuous invariant?):\n" + vlib.tail(out))
    ctx.extra_cov["non_vacuity"] = "HdrFtr_MC_append_cex.cfg (Design = append, the pinned tree's behaviour): TLC reports Inv_C11 violated"
    if cases_by is None:
        cnt = collections.Counter()
        allc, depths = [], {}
        for tag, ops, args, depth in plans(ctx.seed, q):
            allc += ctx.tlc_gen("HdrFtr_MC.tla", gencfg(ctx, "gen_%s.cfg" % tag, ops, args, depth), "bfs" + tag)
            depths[tag] = {"ops": sorted(ops), "depth": depth, "args": {k: sorted(v, key=str) for k, v in args.items()}}
        ctx.exhaustive = True
        # seeded random long behaviours. -simulate evaluates every successor at every step, so each run samples from
        # argument pools narrowed by rotation (run k of seed s uses rotation s + k); together the runs cover the wide pools
        d = 10 if q else 20
        for k in range(1 if q else 4):
            r = ctx.seed + k
            pools = dict(WIDE, FmtC={"nil", FMTS[r % 4]}, AlignC={"", ALIGNS[r % 4]}, TextC={"empty", "var", TEXTS[r % 4]},
                         PageC=set(sorted(PAGE_ALL)[r % 5::5]))
            allc += ctx.tlc_gen("HdrFtr_MC.tla", gencfg(ctx, "gen_sim%d.cfg" % k, ALLOPS, pools, d, last=["ToBytes", "Save"]),
                                "sim%d" % k, mode="sim", num=20 if q else 100, depth=d + 1, seed_off=k)
        for c in allc:
            for s in c["steps"]:
                cnt[s["op"] + (":" + s["which"] if "which" in s else "")] += 1
        allc = with_variants(allc)
        for k in range(0, len(allc), CHUNK):
            tag = "gen%d" % (k // CHUNK)
            ctx.cases_by_tag[tag] = {c["id"]: c for c in allc[k:k + CHUNK]}
            judge(ctx, allc[k:k + CHUNK], tag)
        ctx.extra_cov["bounds"] = {"bfs": depths, "sim_depth": d, "variants_per_behaviour": 2,
                                   "exhaustive_over": "operation sequences of the stated alphabets/argument classes up to the BFS depths"}
        ctx.extra_cov["op_counts"] = dict(cnt)
    else:
        judge(ctx, cases_by, "replay")
    return ctx.finish(LEVEL, RULE)


def run(ctx):
    return pipeline(ctx)


def replay(ctx, rp):
    c = rp["case"]
    ctx.cases_by_tag["replay"] = {c["id"]: c}
    return pipeline(ctx, [c])
