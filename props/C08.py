"""C08 — body editing behaves like an ordered list of elements (spec module Body)."""

MANIFEST = dict(
    module="Body", ref="§5 C08",
    text="The reference list machine Body.tla is model-checked exhaustively (invariants + action properties) and every "
         "operation sequence to the BFS depth, plus seeded random long ones, is replayed on the real library; the in-memory "
         "body and the saved main part after every step are judged by Body_Trace.tla. Exhaustive small-scope over histories "
         "is the right level for index/handle arithmetic over a heterogeneous list.",
    technique="TLA+ spec Body; TLC exhaustive MC + TLC-generated behaviours replayed on the library + TLC trace judge",
)

LEVEL = "model_checking"
RULE = ("behaviours = every sequence of body operations (constructors, section-touching calls, the three "
        "removals with every index in -1..len+1 and every live/removed/foreign handle, the accessor pair GetParagraphs / "
        "GetTables as an operation of its own, Body.AddElement, empty and non-empty texts) up to the tier's depth "
        "enumerated by TLC in BFS order, plus seeded random longer ones; each is executed on the real library, "
        "the in-memory body and the saved main part are projected after every step and judged by Body_Trace.tla")


CORE = {"AddParagraph", "AddHeadingParagraphWithBookmark", "AddTable", "AddMathFormula", "GenerateTOC",
        "SetPageMargins", "AddHeader", "RemoveParagraph", "RemoveParagraphAt", "RemoveElementAt"}
# a read accessor between edits (an answer remembered from an earlier length), empty texts, caller-built elements
READ = {"AddParagraph", "Read", "RemoveParagraphAt"}
TEXTS = {"AddParagraph", "AddFootnote", "AddEndnote", "AddListItem", "AddTable", "AddElement", "Read", "RemoveParagraphAt"}
# repeated appends of equal things (same picture bytes and config object), many-at-once appends with a blank item
REPEAT = {"AddImage", "CreateMultiLevelList", "AddParagraph", "RemoveElementAt"}
ALL = CORE | {"Read", "AddElement", "CreateMultiLevelList", "AddFormattedParagraph", "AddHeadingParagraph", "AddHeadingWithBookmark", "AddPageBreak", "AddImage",
              "AddListItem", "AddFootnote", "AddEndnote", "SetPageSize", "SetPageOrientation", "GetPageSettings",
              "AddFooter", "AddHeaderWithPageNumber", "AddFooterWithPageNumber", "SetDifferentFirstPage",
              "SetDocGrid", "ClearDocGrid"}


def gencfg(ctx, name, ops, depth, txt=("tok",), idx=()):
    return ctx.cfg(name, "SpecGen", {"MaxEls": 999, "MaxUid": 999, "Depth": depth, "OpNames": ops, "TxtC": set(txt), "IdxC": set(idx)},
                   invariants=["Emit"])


def pipeline(ctx, cases_by=None):
    q = ctx.tier == "quick"
    ctx.tlc_mc("Body_MC.tla", "Body_MC_quick.cfg" if q else "Body_MC_thorough.cfg")
    if cases_by is None:
        cases = ctx.tlc_gen("Body_MC.tla", gencfg(ctx, "gen_bfs.cfg", CORE, 3 if q else 4), "bfs")
        ctx.exhaustive = True
        obs = ctx.run_exec("body", cases, "bfs")
        ctx.tlc_trace("Body_Trace.tla", "Body_Trace.cfg", obs, "bfs")
        # read - edit - edit - read: every sequence of append / read / removal at index 0 or 1, five (six) calls deep
        cases = ctx.tlc_gen("Body_MC.tla", gencfg(ctx, "gen_read.cfg", READ, 5 if q else 6, idx=(0, 1)), "read")
        obs = ctx.run_exec("body", cases, "read")
        ctx.tlc_trace("Body_Trace.tla", "Body_Trace.cfg", obs, "read")
        # every constructor that takes a text with an empty and a non-empty one, caller-built elements
        cases = ctx.tlc_gen("Body_MC.tla", gencfg(ctx, "gen_txt.cfg", TEXTS, 3, txt=("tok", "empty"), idx=(0, 1) if q else ()), "txt")
        obs = ctx.run_exec("body", cases, "txt")
        ctx.tlc_trace("Body_Trace.tla", "Body_Trace.cfg", obs, "txt")
        cases = ctx.tlc_gen("Body_MC.tla", gencfg(ctx, "gen_rep.cfg", REPEAT, 3 if q else 4, idx=(0, 1)), "rep")
        obs = ctx.run_exec("body", cases, "rep")
        ctx.tlc_trace("Body_Trace.tla", "Body_Trace.cfg", obs, "rep")
        d = 12 if q else 24
        sim = ctx.tlc_gen("Body_MC.tla", gencfg(ctx, "gen_sim.cfg", ALL, d, txt=("tok", "empty")), "sim", mode="sim", num=40 if q else 1500, depth=d + 1)
        obs = ctx.run_exec("body", sim, "sim")
        ctx.tlc_trace("Body_Trace.tla", "Body_Trace.cfg", obs, "sim")
    else:
        obs = ctx.run_exec("body", cases_by, "replay")
        ctx.tlc_trace("Body_Trace.tla", "Body_Trace.cfg", obs, "replay")
    return ctx.finish(LEVEL, RULE)


def run(ctx):
    return pipeline(ctx)


def replay(ctx, rp):
    c = rp["case"]
    ctx.cases_by_tag["replay"] = {c["id"]: c}
    return pipeline(ctx, [c])
