"""C05 — Save reports success only for a completely written, faithful file (spec module SaveIO)."""
import json, os, re
import vlib

MANIFEST = dict(
    module="SaveIO", ref="§5 C05",
    text="SaveIO.tla is the save protocol (mkdir / create / serialise / per-entry header and data through a compressor "
         "and a buffered writer, optionally a write-behind stage below it / zip close / stage close / file close / return) "
         "over a target that refuses bytes beyond an offset, refuses all bytes, or cannot be created, named by a path string "
         "whose spelling is part of the target class ('..', '.', doubled slashes, symbolic links on the way or as the last "
         "component; a small model of OS resolution vs lexical cleaning says where each string leads). TLC checks "
         "exhaustively that the intended protocol returns nil only for a complete closed file AT THE PLACE THE GIVEN STRING "
         "LEADS TO, equals the closed-form oracle, and that a fault leaving more than the tail missing surfaces before close; "
         "three deviating protocols are checked too: as built (deferred closes, errors dropped: TLC must produce the "
         "counterexample), 'cleaned' (path cleaned lexically first: wrong exactly for '..' after a symlink) and 'uncollected' "
         "(the stage's result is not collected at close: loses exactly faults in the last chunk). TLC-generated scenarios "
         "(document programs x entry point x target class x fault plan) are executed on the real library with RLIMIT_FSIZE = k "
         "for every offset k, /dev/full, uncreatable targets and every path spelling; documents range from 3 KB to 600 KB and "
         "come from New() or from opened packages (minimal, rich, and 'odd': zero-length / one-byte / incompressible parts, "
         "unusual part names); a plan 'conc' repeats the save while 1..7 other goroutines save other documents to other paths. "
         "SaveIO_Trace.tla judges every call on its own: nil => the very path string handed to the call reads back as a zip "
         "whose parts equal ToBytes-just-before.",
    technique="TLA+ spec SaveIO; TLC exhaustive MC (two protocol variants) + TLC-generated scenarios replayed with a "
              "write fault at every byte offset + TLC trace judge",
)

LEVEL = "model_checking"
RULE = ("scenarios = content operations followed by saves, enumerated by TLC (BFS over the content alphabet incl. origins "
        "opened-minimal / opened-rich / opened-odd and sizes up to 600 KB, entry point in {Save, ConvertFile, BatchConvert}, "
        "target class in {new nested dir, existing file, re-save, /dev/full, unwritable dir, read-only file, parent is a file, "
        "path is a directory, relative path, a/../b, .//a/./b//, via a symlinked directory, symlink/.., symlink to an existing "
        "file, dangling symlink}); a save with plan 'sweep' is executed once per fault offset k (RLIMIT_FSIZE = k, every k in "
        "0..N+2 for small packages, evenly spaced + edges + buffer boundaries for large ones) and once more without a limit; "
        "a save with plan 'conc' is executed `rounds` times by its own goroutine while 1..7 other goroutines save documents "
        "of their own to their own paths, free-running; every call is one judged observation, read back through the same "
        "path string that was handed to the call")

GROUPS = ["sweep-all", "sweep-large", "targets", "md-targets", "md-sweep", "resave", "opened", "odd-sweep", "spelt-sweep", "conc"]


def gencfg(ctx, name, groups):
    return ctx.cfg(name, "SpecGen", {
        "MaxEnt": 1, "MinDat": 1, "MaxDat": 1, "DirSizes": {1}, "BufSizes": {2}, "MCVariants": {"intended"}, "MCTargets": {"newdir"},
        "GroupNames": set(groups)}, invariants=["Emit"])


def expect_counterexample(ctx):
    """Machinery self-test (non-vacuity): the protocol as built must violate the C05 invariant in the model."""
    rc, out, gen, dist = ctx._tlc("SaveIO_MC.tla", "SaveIO_MC_asbuilt_cex.cfg", [], 300)
    if "Invariant Inv_C05_AsBuilt is violated" not in out:
        raise vlib.Machinery("TLC did not produce the expected counterexample for the as-built save protocol:\n" + vlib.tail(out))
    last = out.rfind("/\\ cfg = [")
    desc = re.sub(r"\s+", " ", out[last:out.find("]", last) + 1]) if last >= 0 else "?"
    steps = len(re.findall(r"^State \d+:", out, re.M))
    ctx.extra_cov["asbuilt_counterexample"] = {"invariant": "Inv_C05_AsBuilt", "violated": True, "length": steps, "config": desc}
    for f in os.listdir(ctx.specdir):
        if "TTrace" in f:
            os.remove(os.path.join(ctx.specdir, f))


def count_groups(cases):
    out = {}
    for c in cases:
        g = c["steps"][0].get("g", "?")
        out[g] = out.get(g, 0) + 1
    return out


def judge_obs(ctx, obs, tag):
    calls, skipped, byclass = 0, {}, {}
    with open(obs) as f:
        for line in f:
            if '"ev":"save"' in line:
                calls += 1
                e = json.loads(line)
                key = "%s/%s/%s" % (e["via"], e["target"], "limit" if e["k"] >= 0 else "nolimit")
                byclass[key] = byclass.get(key, 0) + 1
            elif '"ev":"skip"' in line:
                e = json.loads(line)
                skipped[e["target"] + ":" + e["why"]] = skipped.get(e["target"] + ":" + e["why"], 0) + 1
    st = ctx.extra_cov.setdefault("save_calls", {"total": 0, "by_class": {}, "skipped": {}})
    st["total"] += calls
    for k, v in byclass.items():
        st["by_class"][k] = st["by_class"].get(k, 0) + v
    for k, v in skipped.items():
        st["skipped"][k] = st["skipped"].get(k, 0) + v
    wit = ctx.tlc_trace("SaveIO_Trace.tla", "SaveIO_Trace.cfg", obs, tag)
    mach = [w for w in wit if w["sig"][0] == "MACH"]
    # an obstacle in front of the target (an existing read-only file) stops an implementation that opens the target for writing;
    # one that writes elsewhere and renames is not stopped by it.  Saving successfully - completely and faithfully, which is what
    # this witness says - is then simply a save without a fault, not a failure of the machinery.
    soft = [w for w in mach if w["sig"][1] == "fault-not-injected" and w["sig"][2] in ("rofile",)]
    if soft:
        ctx.extra_cov.setdefault("obstacle_did_not_stop_save", [])
        for w in soft:
            if w["sig"][2] not in ctx.extra_cov["obstacle_did_not_stop_save"]:
                ctx.extra_cov["obstacle_did_not_stop_save"].append(w["sig"][2])
    mach = [w for w in mach if w not in soft]
    wit = [w for w in wit if w not in soft]
    if mach:
        raise vlib.Machinery("the fault model did not behave as assumed (not a verdict): %s" % [w["sig"] for w in mach])
    return wit


def pipeline(ctx, replay_case=None):
    q = ctx.tier == "quick"
    if replay_case is not None:
        judge_obs(ctx, ctx.run_exec("saveio", [replay_case], "replay", shards=1), "replay")
        return ctx.finish(LEVEL, RULE)
    ctx.tlc_mc("SaveIO_MC.tla", "SaveIO_MC_quick.cfg" if q else "SaveIO_MC_thorough.cfg", timeout=900)
    if not q:
        # zero-length entries (a stored empty part) and every path spelling, on smaller layouts
        ctx.tlc_mc("SaveIO_MC.tla", "SaveIO_MC_thorough0.cfg", timeout=600)
    expect_counterexample(ctx)
    ctx.assumptions.append("fault model: RLIMIT_FSIZE = k makes the write crossing byte k of a regular file fail (SIGXFSZ ignored); "
                           "/dev/full refuses every byte; failures of close()/fsync() not caused by a short write are modelled "
                           "(closeFault) but not injected")
    ctx.assumptions.append("path spellings are laid out in a scratch tree with relative symbolic links; 'relative' changes the working "
                           "directory of the harness process around the call (one behaviour at a time per process); BatchConvert "
                           "composes the file path itself (filepath.Join cleans it), so it is not combined with the spelt targets")
    ctx.assumptions.append("plan 'conc' is free-running (no forced schedule: Save has no hook points): what it can show depends on "
                           "the interleavings the scheduler happens to produce; every call in it is still judged exactly")
    ctx.assumptions.append("phase labels in signatures assume archive/zip buffers 4096 bytes and compress/flate holds back at most ~64 KiB")
    pre = "q-" if q else "t-"
    # every scenario of the tier's groups (SaveIO_MC.tla, AllGroups), enumerated breadth-first ...
    cases = ctx.tlc_gen("SaveIO_MC.tla", gencfg(ctx, "gen_bfs.cfg", [pre + g for g in GROUPS + ([] if q else ["sweep-huge", "opened-odd"])]), "bfs")
    # ... plus seeded random longer documents, swept
    rnd = ctx.tlc_gen("SaveIO_MC.tla", gencfg(ctx, "gen_sim.cfg", [pre + "random"]), "sim", mode="sim",
                      num=3 if q else 12, depth=12, limit=12 if q else 80)
    ctx.extra_cov["scenario_groups"] = count_groups(cases + rnd)
    # heavy cases (sweeps) first and one per shard so that they run in parallel
    sweeps = [c for c in cases + rnd if any(s.get("plan") == "sweep" for s in c["steps"])]
    light = [c for c in cases if c not in sweeps]
    ctx.cases_by_tag["all"] = {c["id"]: c for c in cases + rnd}
    obs1 = ctx.run_exec("saveio", sweeps, "sweeps", shards=min(len(sweeps), vlib.NCPU))
    obs2 = ctx.run_exec("saveio", light, "light")
    obs = os.path.join(ctx.work, "all.obs.ndjson")
    with open(obs, "w") as out:
        for o in (obs1, obs2):
            with open(o) as f:
                for line in f:
                    out.write(line)
    judge_obs(ctx, obs, "all")
    ctx.exhaustive = True
    if ctx.extra_cov.get("save_calls", {}).get("skipped"):
        ctx.assumptions.append("running with privileges that override file permissions: target classes rodir/rofile "
                               "cannot be made to fail and were skipped (%s)" % ctx.extra_cov["save_calls"]["skipped"])
    return ctx.finish(LEVEL, RULE)


def run(ctx):
    return pipeline(ctx)


def replay(ctx, rp):
    c = rp["case"]
    ctx.cases_by_tag["replay"] = {c["id"]: c}
    return pipeline(ctx, c)
