"""C05 — Save reports success only for a completely written, faithful file (spec module SaveIO)."""
import json, os, re
import vlib

MANIFEST = dict(
    module="SaveIO", ref="§5 C05",
    text="SaveIO.tla is the save protocol (mkdir / create / serialise / per-entry header and data through a compressor "
         "and a buffered writer / zip close / file close / return) over a target that refuses bytes beyond an offset, "
         "refuses all bytes, or cannot be created. TLC checks exhaustively that the intended protocol returns nil only "
         "for a complete closed file, equals the closed-form oracle, and that a fault leaving more than the tail missing "
         "surfaces before close; the protocol as built (deferred closes, errors dropped) is checked too and TLC must "
         "produce the counterexample. TLC-generated scenarios (document programs x entry point x target class x fault "
         "plan) are executed on the real library with RLIMIT_FSIZE = k for every offset k, /dev/full and uncreatable "
         "targets; SaveIO_Trace.tla judges every call: nil => readable zip whose parts equal ToBytes-just-before.",
    technique="TLA+ spec SaveIO; TLC exhaustive MC (two protocol variants) + TLC-generated scenarios replayed with a "
              "write fault at every byte offset + TLC trace judge",
)

LEVEL = "model_checking"
RULE = ("scenarios = content operations followed by saves, enumerated by TLC (BFS over the content alphabet, entry point "
        "in {Save, ConvertFile, BatchConvert}, target class in {new nested dir, existing file, /dev/full, unwritable dir, "
        "read-only file, parent is a file, path is a directory}); a save with plan 'sweep' is executed once per fault offset "
        "k (RLIMIT_FSIZE = k, every k in 0..N+2 for small packages, evenly spaced + edges + buffer boundaries for large "
        "ones) and once more without a limit; every call is one judged observation")

SMALL = ["table", "header", "footnote", "para", "image", "list"]
LARGE = ["longtext", "midimage", "bigimage"]
ALLDOC = ["para", "heading", "longtext", "table", "image", "midimage", "header", "footer", "footnote", "list", "margins"]
MD = ["mdpara", "mdheading", "mdlist", "mdtable", "mdlong"]
TARGETS = ["newdir", "existing", "device", "rodir", "rofile", "parentfile", "isdir"]


def gencfg(ctx, name, doc=(), md=(), vias=("Save",), targets=("newdir",), plans=("none",), points=0, edge=64,
           maxdoc=1, maxsaves=1):
    return ctx.cfg(name, "SpecGen", {
        "MaxEnt": 1, "MaxDat": 1, "DirSizes": {1}, "BufSizes": {2}, "MCVariants": {"intended"}, "MCTargets": {"newdir"},
        "DocOps": set(doc), "MdOps": set(md), "Vias": set(vias), "GenTargets": set(targets), "Plans": set(plans),
        "SweepPoints": points, "SweepEdge": edge, "MaxDoc": maxdoc, "MaxSaves": maxsaves}, invariants=["Emit"])


def expect_counterexample(ctx):
    """Machinery self-test (non-vacuity): the protocol as built must violate the C05 invariant in the model."""
    rc, out, gen, dist = ctx._tlc("SaveIO_MC.tla", "SaveIO_MC_asbuilt_cex.cfg", [], 300)
    if "Invariant Inv_C05_AsBuilt is violated" not in out:
        raise vlib.Machinery("TLC did not produce the expected counterexample for the as-built save protocol:\n" + vlib.tail(out))
    last = out.rfind("/\\ cfg = [")
    desc = re.sub(r"\s+", " ", out[last:out.find("]", last) + 1]) if last >= 0 else "?"
    steps = len(re.findall(r"^State \d+:", out, re.M))
    ctx.extra_cov["asbuilt_counterexample"] = {"invariant": "Inv_C05_AsBuilt", "violated": True, "length": steps, "config": desc}
    for f in os.listdir(ctx.specdir):
        if "TTrace" in f:
            os.remove(os.path.join(ctx.specdir, f))


def judge(ctx, cases, tag, shards=None):
    obs = ctx.run_exec("saveio", cases, tag, shards=shards)
    calls, skipped, byclass = 0, {}, {}
    with open(obs) as f:
        for line in f:
            if '"ev":"save"' in line:
                calls += 1
                e = json.loads(line)
                key = "%s/%s/%s" % (e["via"], e["target"], "limit" if e["k"] >= 0 else "nolimit")
                byclass[key] = byclass.get(key, 0) + 1
            elif '"ev":"skip"' in line:
                e = json.loads(line)
                skipped[e["target"] + ":" + e["why"]] = skipped.get(e["target"] + ":" + e["why"], 0) + 1
    st = ctx.extra_cov.setdefault("save_calls", {"total": 0, "by_class": {}, "skipped": {}})
    st["total"] += calls
    for k, v in byclass.items():
        st["by_class"][k] = st["by_class"].get(k, 0) + v
    for k, v in skipped.items():
        st["skipped"][k] = st["skipped"].get(k, 0) + v
    wit = ctx.tlc_trace("SaveIO_Trace.tla", "SaveIO_Trace.cfg", obs, tag)
    mach = [w for w in wit if w["sig"][0] == "MACH"]
    if mach:
        raise vlib.Machinery("the fault model did not behave as assumed (not a verdict): %s" % [w["sig"] for w in mach])
    return wit


def pipeline(ctx, replay_case=None):
    q = ctx.tier == "quick"
    ctx.tlc_mc("SaveIO_MC.tla", "SaveIO_MC_quick.cfg" if q else "SaveIO_MC_thorough.cfg", timeout=600)
    expect_counterexample(ctx)
    ctx.assumptions.append("fault model: RLIMIT_FSIZE = k makes the write crossing byte k of a regular file fail (SIGXFSZ ignored); "
                           "/dev/full refuses every byte; failures of close()/fsync() not caused by a short write are modelled "
                           "(closeFault) but not injected")
    ctx.assumptions.append("phase labels in signatures assume archive/zip buffers 4096 bytes and compress/flate holds back at most ~64 KiB")
    if replay_case is not None:
        judge(ctx, [replay_case], "replay", shards=1)
        return ctx.finish(LEVEL, RULE)

    # (A) every offset of small packages
    a = ctx.tlc_gen("SaveIO_MC.tla", gencfg(ctx, "gen_a.cfg", doc=SMALL[:1] if q else SMALL, targets=["newdir", "existing"],
                                            plans=["sweep"], points=0, maxdoc=1), "sweep-all")
    judge(ctx, a, "sweep-all", shards=len(a))
    # (B) large packages (faults surface while entries are written as well as at close)
    b = ctx.tlc_gen("SaveIO_MC.tla", gencfg(ctx, "gen_b.cfg", doc=LARGE, targets=["newdir"] if q else ["newdir", "existing"],
                                            plans=["sweep"], points=120 if q else 1500, edge=64 if q else 300,
                                            maxdoc=1 if q else 2), "sweep-large")
    judge(ctx, b, "sweep-large", shards=min(len(b), vlib.NCPU))
    # (C) every target class, many documents, no limit
    c = ctx.tlc_gen("SaveIO_MC.tla", gencfg(ctx, "gen_c.cfg", doc=ALLDOC, targets=TARGETS, plans=["none"],
                                            maxdoc=1 if q else 2), "targets")
    judge(ctx, c, "targets")
    # (D) the Markdown entry points
    d = ctx.tlc_gen("SaveIO_MC.tla", gencfg(ctx, "gen_d.cfg", md=MD, vias=["ConvertFile", "BatchConvert"], targets=TARGETS,
                                            plans=["none"], maxdoc=1 if q else 2), "md-targets")
    judge(ctx, d, "md-targets")
    d2 = ctx.tlc_gen("SaveIO_MC.tla", gencfg(ctx, "gen_d2.cfg", md=["mdtable", "mdlong"], vias=["ConvertFile"] if q else ["ConvertFile", "BatchConvert"],
                                             targets=["newdir"], plans=["sweep"], points=150 if q else 0, maxdoc=1), "md-sweep")
    judge(ctx, d2, "md-sweep", shards=len(d2))
    # (E) save - edit - save on the same document
    e = ctx.tlc_gen("SaveIO_MC.tla", gencfg(ctx, "gen_e.cfg", doc=["para", "image"], targets=["newdir", "existing", "device"],
                                            plans=["none"], maxdoc=2, maxsaves=2), "resave")
    judge(ctx, e, "resave")
    # (F) seeded random longer documents, swept
    f = ctx.tlc_gen("SaveIO_MC.tla", gencfg(ctx, "gen_f.cfg", doc=ALLDOC, targets=["newdir", "existing", "device"],
                                            plans=["sweep"], points=60 if q else 400, edge=32 if q else 128, maxdoc=8, maxsaves=2),
                    "random", mode="sim", num=3 if q else 12, depth=11, limit=12 if q else 80)
    judge(ctx, f, "random", shards=min(len(f), vlib.NCPU))
    ctx.exhaustive = True
    if ctx.extra_cov.get("save_calls", {}).get("skipped"):
        ctx.assumptions.append("running with privileges that override file permissions: target classes rodir/rofile "
                               "cannot be made to fail and were skipped (%s)" % ctx.extra_cov["save_calls"]["skipped"])
    return ctx.finish(LEVEL, RULE)


def run(ctx):
    return pipeline(ctx)


def replay(ctx, rp):
    c = rp["case"]
    ctx.cases_by_tag["replay"] = {c["id"]: c}
    return pipeline(ctx, c)
