"""C07 — documents are independent of each other, sequentially and concurrently (spec module Iso)."""
import concurrent.futures, json, os, re, shutil, subprocess, sys, time

import vlib
from vlib import Machinery, log

MANIFEST = dict(
    module="Iso", ref="§5 C07",
    text="Iso.tla models every document with its own note/numbering registry (intended) and, as separately named actions, "
         "the as-built single process-wide registry at call and at read-counter/write-counter/write-map/regenerate sub-step "
         "granularity. TLC proves independence (Inv_Iso, Act_Iso, Inv_NoForeign) for the intended design and, as a non-vacuity "
         "self-test, must find the sequential leak and the duplicate id under interleaving in the as-built variants. TLC then "
         "enumerates every call-level interleaving of per-document programs (and the sub-step schedules in which the as-built "
         "model predicts a duplicate id); each is executed on real documents in one process - on one goroutine, on one goroutine "
         "per document under a blocking gate, and free-running under the race detector - and Iso_Trace.tla demands that the "
         "canonical view of every document equals the view of the same program run alone. Interleaving-exhaustive model "
         "checking is the level at which 'depends only on the calls made on that document' is decidable.",
    technique="TLA+ spec Iso (intended + as-built registries); TLC exhaustive MC with expected-violation self-test; TLC-generated "
              "interleavings replayed sequentially / gated goroutines / -race; TLC trace judge obs[d] = solo[d]",
)

LEVEL = "model_checking"
RULE = ("schedules = every interleaving (call granularity) of per-document programs over the operation alphabet up to the "
        "tier's depth, enumerated by TLC in BFS order with documents taking their first step in a fixed order, plus seeded "
        "random longer ones over three documents, plus the sub-step schedules in which the as-built model predicts a duplicate "
        "id; each is executed on real documents in one process and the view of every document after every step (accessor "
        "results, in-memory body and parts, saved package; canonical, never raw bytes) is compared by Iso_Trace.tla with the "
        "view of the same program run alone after a registry reset; data races are observed by the Go race detector while "
        "the same programs run free on one goroutine per document")

CORE = ["AddFootnote", "AddEndnote", "RemoveFootnote", "AddListItem", "AddImage", "AddStyle", "EditStyle", "ToBytes"]
FULL = CORE + ["AddFootnoteToRun", "RemoveEndnote", "RestartNumbering", "AddParagraph", "AddTable", "AddHeader", "AddFooter", "GenerateTOC",
               "SetPageMargins", "SetFootnoteConfig", "RenderTextTemplate", "ConvertMd", "Save", "Open"]
SUBOPS = ["AddFootnote", "AddEndnote", "AddListItem"]
RELOPS = ["AddFootnote", "AddListItem", "AddImage", "AddImageFile", "EditStyle", "ToBytes"]   # sequential stages only (AddImageFile
# shares a file between the documents: writing it from two goroutines at once would be the harness's own race)


def consts(ndocs, ops, maxlen, depth):
    return {"NDocs": ndocs, "OpSet": set(ops), "MaxLen": maxlen, "Depth": depth}


# ----------------------------------------------------------------------------- model checking

def expect_violation(ctx, cfg, what):
    """Non-vacuity self-test: the as-built variant of the model must violate `what`."""
    rc, out, gen, dist = ctx._tlc("Iso_MC.tla", cfg, [], 600)
    pat = {"Inv": r"Invariant %s is violated", "Act": r"Action property %s is violated"}[what[:3]] % what
    if not re.search(pat, out):
        raise Machinery("self-test failed: TLC did not find the expected violation of %s in %s:\n%s"
                        % (what, cfg, vlib.tail(out)))
    ctx.mc_runs.append({"spec": "Iso_MC.tla", "cfg": cfg, "generated": gen, "distinct": dist,
                        "expected": "violation of " + what, "found": True})
    return True


def model_check(ctx):
    q = ctx.tier == "quick"
    ops = CORE if q else CORE + ["RemoveEndnote", "RestartNumbering", "AddHeader", "Open"]
    n = 2
    ctx.tlc_mc("Iso_MC.tla", ctx.cfg("mc_intended.cfg", "SpecMC", consts(2, ops, n, 0),
                                      invariants=["Inv_Iso", "Inv_NoForeign", "Inv_UniqueIds"], properties=["Act_Iso"]))
    st = {}
    if not q:
        # as built, call granularity: ids stay unique, but independence fails
        ctx.tlc_mc("Iso_MC.tla", ctx.cfg("mc_built_ids.cfg", "SpecBuiltSeq", consts(2, ops, n, 0), invariants=["Inv_UniqueIds"]))
        st["sequential leak (Inv_Iso)"] = expect_violation(
            ctx, ctx.cfg("mc_built_inv.cfg", "SpecBuiltSeq", consts(2, ops, n, 0), invariants=["Inv_Iso"]), "Inv_Iso")
    st["sequential leak (Act_Iso)"] = expect_violation(
        ctx, ctx.cfg("mc_built_act.cfg", "SpecBuiltSeq", consts(2, ops, n, 0), properties=["Act_Iso"]), "Act_Iso")
    st["duplicate id under interleaving (Inv_UniqueIds)"] = expect_violation(
        ctx, ctx.cfg("mc_built_sub.cfg", "SpecBuiltSub", consts(2, SUBOPS, n, 0), invariants=["Inv_UniqueIds"]), "Inv_UniqueIds")
    ctx.extra_cov["as_built_selftest"] = st


# ----------------------------------------------------------------------------- pipeline pieces

def with_mode(cases, mode, **kw):
    for c in cases:
        c["extra"] = dict(mode=mode, **kw)
    return cases


def _judge_chunk(ctx, path, idx, tag):
    """One TLC run of the trace judge on one chunk (own metadir, bounded heap)."""
    meta = os.path.join(ctx.work, "jmeta-%s-%d" % (tag, idx))
    env = dict(os.environ, WZ_OBS=path, JAVA_TOOL_OPTIONS="-Xss256m -Xmx4g")
    cmd = ["tlc", "-metadir", meta, "-config", "Iso_Trace.cfg", "-workers", "1", "Iso_Trace.tla"]
    try:
        r = subprocess.run(cmd, cwd=ctx.specdir, env=env, capture_output=True, text=True, timeout=3000)
    except subprocess.TimeoutExpired:
        subprocess.run(["pkill", "-f", meta])
        raise Machinery("trace judge timed out on %s" % path)
    finally:
        shutil.rmtree(meta, ignore_errors=True)
    out = r.stdout + r.stderr
    n = sum(1 for _ in open(path))
    m = re.search(r'^<<"WZDONE", (\d+), (".*")>>$', out, re.M)
    if not m:
        raise Machinery("trace judge Iso_Trace did not finish on %s:\n%s" % (path, vlib.tail(out, 60)))
    if int(m.group(1)) != n:
        raise Machinery("trace judge Iso_Trace consumed %s of %d events" % (m.group(1), n))
    g = re.search(r"(\d+) states generated, (\d+) distinct states found", out)
    return json.loads(json.loads(m.group(2))), (int(g.group(1)), int(g.group(2))) if g else (0, 0)


def judge(ctx, obs, tag, chunk=None, par=6):
    """Judge an observation file with Iso_Trace.tla, in chunks cut at case boundaries, several TLC processes at a time."""
    t0 = time.time()
    lines = open(obs).readlines()
    if chunk is None:
        chunk = min(25000, max(5000, len(lines) // par + 1))
    paths, i = [], 0
    while i < len(lines):
        j = min(len(lines), i + chunk)
        while j < len(lines) and '"ev":"reset"' not in lines[j]:
            j += 1
        p = "%s.part%d" % (obs, len(paths))
        with open(p, "w") as f:
            f.writelines(lines[i:j])
        paths.append(p)
        i = j
    with concurrent.futures.ThreadPoolExecutor(max_workers=par) as ex:
        res = list(ex.map(lambda a: _judge_chunk(ctx, a[1], a[0], tag), enumerate(paths)))
    seen = set()
    for wit, (gen, dist) in res:
        ctx.states += dist
        ctx.transitions += gen
        for w in wit:
            sig = tuple(str(x) for x in w["sig"])
            if sig in seen:
                continue
            seen.add(sig)
            ctx.witnesses.append({"sig": list(sig), "case": w["case"], "tag": tag})
    for p in paths:
        os.remove(p)
    log("  judge %s: %d events in %d chunk(s), %d distinct witness signatures, %.1fs"
        % (tag, len(lines), len(paths), len(seen), time.time() - t0))
    note_obs(ctx, lines)


def note_obs(ctx, lines):
    cov = ctx.extra_cov.setdefault("op_coverage", {})
    modes = ctx.extra_cov.setdefault("modes", {})
    for ln in lines:
        if '"ev":"reset"' in ln:
            e = json.loads(ln)
            modes[e["mode"]] = modes.get(e["mode"], 0) + 1
            ctx.extra_cov["library_has_registry_hooks"] = bool(e.get("hooks"))
        elif '"ev":"step"' in ln:
            m = re.search(r'"op":\{[^}]*"op":"(\w+)"', ln)
            if m:
                cov[m.group(1)] = cov.get(m.group(1), 0) + 1


def model_diag(ctx):
    md = sorted({tuple(w["sig"]) for w in ctx.witnesses if w["sig"][0] == "MODEL"})
    if md:
        log("  MODEL-MISMATCH (diagnostic, not a verdict): %s" % md)
    ctx.extra_cov["model_conformance_mismatches"] = [list(x) for x in md]


def gen(ctx, name, spec, emit, ndocs, ops, maxlen, total, tag, **kw):
    return ctx.tlc_gen("Iso_MC.tla", ctx.cfg(name, spec, consts(ndocs, ops, maxlen, total), invariants=[emit]), tag, **kw)


def unordered(ctx, cases, tag):
    """Free-running programs have no schedule: keep one case per multiset of per-document programs."""
    seen, out = set(), []
    for c in cases:
        progs = {}
        for st in c["steps"]:
            progs.setdefault(st["d"], []).append((st["op"], st["a"]))
        key = tuple(sorted(tuple(p) for p in progs.values()))
        if key not in seen:
            seen.add(key)
            out.append(c)
    ctx.cases_by_tag[tag] = {c["id"]: c for c in out}
    return out


def execute(ctx, cases, tag, mode, **kw):
    """Run cases in the given mode and judge them."""
    t0 = time.time()
    if mode == "race":
        if not getattr(ctx, "wzh_race", None):
            ctx.wzh_race = ctx.build_harness(race=True)
        obs = ctx.run_exec("isorace", with_mode(cases, "race", **kw), tag, binary=ctx.wzh_race,
                           shards=min(vlib.NCPU, max(1, len(cases) // 4)))
    else:
        obs = ctx.run_exec("iso", with_mode(cases, mode, **kw), tag)
    log("  exec %s took %.1fs (incl. build)" % (tag, time.time() - t0))
    judge(ctx, obs, tag)


def run(ctx):
    q = ctx.tier == "quick"
    only = set(filter(None, os.environ.get("C07_ONLY", "").split(",")))   # development aid: run a subset of the stages

    def on(stage):
        return not only or stage in only

    if on("mc"):
        model_check(ctx)
    if on("seq"):
        # (1) every call-level interleaving of two documents (both acting), one goroutine
        if q:
            seq = gen(ctx, "gen_seq.cfg", "SpecGen", "Emit", 2, CORE, 3, 3, "seq")
        else:
            seq = gen(ctx, "gen_seq.cfg", "SpecGen", "Emit", 2, CORE, 2, 4, "seq")
        ctx.exhaustive = True
        execute(ctx, seq, "seq", "seq")
        # the same schedules on documents that were all rendered from ONE shared document template
        # (quick: the calls that create relationships / parts; thorough: the whole core alphabet)
        seqt = gen(ctx, "gen_seqtmpl.cfg", "SpecGen", "Emit", 2, RELOPS if q else CORE, 3 if q else 2, 3 if q else 4, "seqtmpl")
        execute(ctx, seqt, "seqtmpl", "seq", origin="tmpl")
        # ... and on documents that were all converted from Markdown by ONE shared converter, each with its own options
        seqm = gen(ctx, "gen_seqmd.cfg", "SpecGen", "Emit", 2 if q else 3, RELOPS, 1, 2 if q else 3, "seqmd")
        execute(ctx, seqm, "seqmd", "seq", origin="md")
        if not q:
            full2 = gen(ctx, "gen_full2.cfg", "SpecGen", "Emit", 2, FULL, 1, 2, "full2")
            execute(ctx, full2, "full2", "seq")
            full3 = gen(ctx, "gen_full3.cfg", "SpecGen", "Emit", 2, FULL, 2, 3, "full3")
            execute(ctx, full3, "full3", "seq")
    d = 8 if q else 10
    if on("sim"):
        # (2) seeded random longer schedules over three documents and the whole alphabet
        sim = gen(ctx, "gen_sim.cfg", "SpecGen", "Emit", 3, FULL, 4, d, "sim", mode="sim", num=4 if q else 40, depth=d + 1,
                  limit=250 if q else 2500)
        execute(ctx, sim, "sim", "seq")
    if on("gate"):
        # (3) one goroutine per document, the schedule forced by a blocking gate at call granularity
        gate = gen(ctx, "gen_gate.cfg", "SpecGen", "Emit", 2, CORE if q else FULL, 1 if q else 1, 2, "gate")
        execute(ctx, gate, "gate", "go")
        if not q:
            gate3 = gen(ctx, "gen_gate3.cfg", "SpecGen", "Emit", 2, CORE, 2, 3, "gate3")
            execute(ctx, gate3, "gate3", "go")
    if on("sub"):
        # (4) sub-step schedules in which the as-built model predicts a duplicate id, forced at the hook points
        sub = gen(ctx, "gen_sub.cfg", "SpecGenSub", "EmitSub", 2, SUBOPS, 2, 2, "sub")
        execute(ctx, sub, "sub", "go")
        sub3 = gen(ctx, "gen_sub3.cfg", "SpecGenSub", "EmitSub", 2, SUBOPS + ["RemoveFootnote"], 2, 3, "sub3",
                   mode="sim", num=1500 if q else 6000, depth=16, limit=300 if q else 2500)
        execute(ctx, sub3, "sub3", "go")
    if on("race"):
        # (5) the same programs free-running on one goroutine per document under the race detector
        race = gen(ctx, "gen_race.cfg", "SpecGen", "Emit", 2, CORE + ["Save", "SetPageMargins"] if q else FULL, 1, 2, "race")
        execute(ctx, unordered(ctx, race, "race"), "race", "race", rounds=20 if q else 30)
        if not q:
            race2 = gen(ctx, "gen_race2.cfg", "SpecGen", "Emit", 3, FULL, 3, 7, "race2", mode="sim", num=8, depth=8, limit=100)
            execute(ctx, unordered(ctx, race2, "race2"), "race2", "race", rounds=24)
    if not ctx.extra_cov.get("library_has_registry_hooks"):
        ctx.assumptions.append("the library under test has no notes./numbering. hook points: sub-step schedules were executed "
                               "at call granularity (each call ran at its 'begin' entry)")
    ctx.assumptions.append("memory-level races are observed by the Go race detector on the executed programs only")
    if only:
        ctx.assumptions.append("C07_ONLY=%s: only these stages were run" % ",".join(sorted(only)))
    ctx.extra_cov["bounds"] = dict(
        seq="2 documents, alphabet_core, every interleaving of %s calls with both documents acting (exhaustive)"
            % ("3 (programs <= 2+1)" if q else "4 (programs 2+2)"),
        full=None if q else "2 documents, alphabet_full, every interleaving of 2 calls (1+1) and of 3 calls (2+1) (exhaustive)",
        sim="3 documents, alphabet_full, %d calls, seeded random" % d,
        gate="one goroutine per document, every 1+1 schedule%s" % ("" if q else " over alphabet_full and every 2+1 schedule over alphabet_core"),
        sub="every schedule of 2 registry calls (1+1 and 2+0 excluded) at hook-point granularity in which the as-built model predicts a duplicate id"
            + "; seeded random ones of 3 calls",
        race="every unordered pair of single calls free-running under -race, %d rounds each" % (20 if q else 30),
        alphabet_core=CORE, alphabet_full=FULL)
    model_diag(ctx)
    return ctx.finish(LEVEL, RULE)


def replay(ctx, rp):
    c = rp["case"]
    tag = rp.get("tag", "seq")
    ctx.cases_by_tag[tag] = {c["id"]: c}
    mode = (c.get("extra") or {}).get("mode", "seq")
    kw = {k: v for k, v in (c.get("extra") or {}).items() if k != "mode"}
    execute(ctx, [c], tag, mode, **kw)
    model_diag(ctx)
    return ctx.finish(LEVEL, RULE)
