"""C07 — documents are independent of each other, sequentially and concurrently (spec module Iso)."""
import json, os, re, sys

import vlib
from vlib import Machinery, log

MANIFEST = dict(
    module="Iso", ref="§5 C07",
    text="Iso.tla models every document with its own note/numbering registry (intended) and, as separately named actions, "
         "the as-built single process-wide registry at call and at read-counter/write-counter/write-map/regenerate sub-step "
         "granularity. TLC proves independence (Inv_Iso, Act_Iso, Inv_NoForeign) for the intended design and, as a non-vacuity "
         "self-test, must find the sequential leak and the duplicate id under interleaving in the as-built variants. TLC then "
         "enumerates every call-level interleaving of per-document programs (and the sub-step schedules in which the as-built "
         "model predicts a duplicate id); each is executed on real documents in one process - on one goroutine, on one goroutine "
         "per document under a blocking gate, and free-running under the race detector - and Iso_Trace.tla demands that the "
         "canonical view of every document equals the view of the same program run alone. Interleaving-exhaustive model "
         "checking is the level at which 'depends only on the calls made on that document' is decidable.",
    technique="TLA+ spec Iso (intended + as-built registries); TLC exhaustive MC with expected-violation self-test; TLC-generated "
              "interleavings replayed sequentially / gated goroutines / -race; TLC trace judge obs[d] = solo[d]",
)

LEVEL = "model_checking"
RULE = ("schedules = every interleaving (call granularity) of per-document programs over the operation alphabet up to the "
        "tier's depth, enumerated by TLC in BFS order with documents taking their first step in a fixed order, plus seeded "
        "random longer ones over three documents, plus the sub-step schedules in which the as-built model predicts a duplicate "
        "id; each is executed on real documents in one process and the view of every document after every step (accessor "
        "results, in-memory body and parts, saved package; canonical, never raw bytes) is compared by Iso_Trace.tla with the "
        "view of the same program run alone after a registry reset; data races are observed by the Go race detector while "
        "the same programs run free on one goroutine per document")

CORE = ["AddFootnote", "AddEndnote", "RemoveFootnote", "AddListItem", "AddImage", "AddStyle", "ToBytes"]
FULL = CORE + ["RemoveEndnote", "RestartNumbering", "AddParagraph", "AddTable", "AddHeader", "AddFooter", "GenerateTOC",
               "SetPageMargins", "SetFootnoteConfig", "RenderTextTemplate", "ConvertMd", "Save", "Open"]
SUBOPS = ["AddFootnote", "AddEndnote", "AddListItem"]


def consts(ndocs, ops, maxlen, depth):
    return {"NDocs": ndocs, "OpSet": set(ops), "MaxLen": maxlen, "Depth": depth}


# ----------------------------------------------------------------------------- model checking

def expect_violation(ctx, cfg, what):
    """Non-vacuity self-test: the as-built variant of the model must violate `what`."""
    rc, out, gen, dist = ctx._tlc("Iso_MC.tla", cfg, [], 600)
    pat = {"Inv": r"Invariant %s is violated", "Act": r"Action property %s is violated"}[what[:3]] % what
    if not re.search(pat, out):
        raise Machinery("self-test failed: TLC did not find the expected violation of %s in %s:\n%s"
                        % (what, cfg, vlib.tail(out)))
    ctx.mc_runs.append({"spec": "Iso_MC.tla", "cfg": cfg, "generated": gen, "distinct": dist,
                        "expected": "violation of " + what, "found": True})
    return True


def model_check(ctx):
    q = ctx.tier == "quick"
    ops = CORE if q else CORE + ["RemoveEndnote", "RestartNumbering", "AddHeader", "Open"]
    n = 2
    ctx.tlc_mc("Iso_MC.tla", ctx.cfg("mc_intended.cfg", "SpecMC", consts(2, ops, n, 0),
                                      invariants=["Inv_Iso", "Inv_NoForeign", "Inv_UniqueIds"], properties=["Act_Iso"]))
    # as built, call granularity: ids stay unique, but independence fails
    ctx.tlc_mc("Iso_MC.tla", ctx.cfg("mc_built_ids.cfg", "SpecBuiltSeq", consts(2, ops, n, 0), invariants=["Inv_UniqueIds"]))
    st = {}
    st["sequential leak (Inv_Iso)"] = expect_violation(
        ctx, ctx.cfg("mc_built_inv.cfg", "SpecBuiltSeq", consts(2, ops, n, 0), invariants=["Inv_Iso"]), "Inv_Iso")
    st["sequential leak (Act_Iso)"] = expect_violation(
        ctx, ctx.cfg("mc_built_act.cfg", "SpecBuiltSeq", consts(2, ops, n, 0), properties=["Act_Iso"]), "Act_Iso")
    st["duplicate id under interleaving (Inv_UniqueIds)"] = expect_violation(
        ctx, ctx.cfg("mc_built_sub.cfg", "SpecBuiltSub", consts(2, SUBOPS, n, 0), invariants=["Inv_UniqueIds"]), "Inv_UniqueIds")
    ctx.extra_cov["as_built_selftest"] = st


# ----------------------------------------------------------------------------- pipeline pieces

def with_mode(cases, mode, **kw):
    for c in cases:
        c["extra"] = dict(mode=mode, **kw)
    return cases


def judge(ctx, obs, tag, chunk=60000):
    """Judge an observation file, in chunks cut at case boundaries (keeps TLC's memory bounded)."""
    lines = open(obs).readlines()
    i, part = 0, 0
    while i < len(lines):
        j = min(len(lines), i + chunk)
        while j < len(lines) and '"ev":"reset"' not in lines[j]:
            j += 1
        p = "%s.part%d" % (obs, part)
        with open(p, "w") as f:
            f.writelines(lines[i:j])
        ctx.tlc_trace("Iso_Trace.tla", "Iso_Trace.cfg", p, tag)
        os.remove(p)
        i, part = j, part + 1
    note_obs(ctx, lines)


def note_obs(ctx, lines):
    cov = ctx.extra_cov.setdefault("op_coverage", {})
    modes = ctx.extra_cov.setdefault("modes", {})
    for ln in lines:
        if '"ev":"reset"' in ln:
            e = json.loads(ln)
            modes[e["mode"]] = modes.get(e["mode"], 0) + 1
            ctx.extra_cov["library_has_registry_hooks"] = bool(e.get("hooks"))
        elif '"ev":"step"' in ln:
            m = re.search(r'"op":\{[^}]*"op":"(\w+)"', ln)
            if m:
                cov[m.group(1)] = cov.get(m.group(1), 0) + 1


def model_diag(ctx):
    md = sorted({tuple(w["sig"]) for w in ctx.witnesses if w["sig"][0] == "MODEL"})
    if md:
        log("  MODEL-MISMATCH (diagnostic, not a verdict): %s" % md)
    ctx.extra_cov["model_conformance_mismatches"] = [list(x) for x in md]


def run(ctx):
    q = ctx.tier == "quick"
    model_check(ctx)
    # (1) every call-level interleaving, one goroutine
    seq = ctx.tlc_gen("Iso_MC.tla", ctx.cfg("gen_seq.cfg", "SpecGen", consts(2, CORE, 3, 3 if q else 4), invariants=["Emit"]), "seq")
    ctx.exhaustive = True
    judge(ctx, ctx.run_exec("iso", with_mode(seq, "seq"), "seq"), "seq")
    model_diag(ctx)
    return ctx.finish(LEVEL, RULE)


def replay(ctx, rp):
    c = rp["case"]
    tag = rp.get("tag", "seq")
    ctx.cases_by_tag[tag] = {c["id"]: c}
    judge(ctx, ctx.run_exec("iso", [c], tag), tag)
    model_diag(ctx)
    return ctx.finish(LEVEL, RULE)
