"""C16 — text templates render according to the documented substitution semantics (spec module Tmpl)."""
import json, os
import vlib

MANIFEST = dict(
    module="Tmpl", ref="§5 C16",
    text="The documented template language is transcribed into TLA+ as an AST plus the reference interpreter Tmpl!Render; "
         "TLC builds every template within the size bound (generator state machine with a stack of open constructs) together "
         "with every data environment over the names it uses, checks the interpreter's design laws on all of them, and emits "
         "(template, data, expected tokens). Each is serialised, rendered by the real engine under several concretisations "
         "and judged by Tmpl_Trace.tla, which attributes a deviation to the minimal set of construct classes showing it. "
         "Values range over plain text, numbers, booleans, empty, directive-like text, regexp-replacement syntax, newlines, the "
         "engine's image marker and text containing the placeholder of another variable / item field (classed by whether "
         "that name is supplied where the value is inserted: val:ref, val:fref, val:ref0); quoted names (blocks, the extended "
         "template) range over identifiers and free text (hyphen, space, dot, non-ASCII). The laws Inv_Opaque (a value acts "
         "only as its token and its truthiness) and Inv_Names (names are only compared) state at design level that neither is "
         "ever interpreted. "
         "Exhaustive small scope plus seeded random larger templates is the right level for a pipeline of regular-expression "
         "passes whose defects are interactions of two or three constructs.",
    technique="TLA+ reference interpreter Tmpl; TLC exhaustive enumeration of templates x data (design laws + expected output), "
              "real engine rendering, TLC trace judge with minimal-class attribution",
)

LEVEL = "model_checking"
RULE = ("cases = every template AST within the node/depth bound built by the generator of Tmpl_MC.tla (BFS: each exactly once) "
        "x every data environment over the names the template uses (present/absent/empty, value classes incl. values that "
        "contain the placeholder of another variable or item field, 0-2 list items; layer refs: two variables / two fields "
        "of one item with every way of supplying, omitting or adding-as-unused the mentioned name), block names and the name "
        "of the extended template as identifiers and as free text, "
        "plus seeded random larger templates; expected output = Tmpl!Render; every case is rendered by the real engine in "
        "6 concretisation rounds (strings per token class, SetVariable/SetVariables/Merge/FromStruct, RenderToDocument/"
        "RenderTemplateToDocument; each round with the variables / item fields handed over in ascending and in descending "
        "order when a map of the data has two or more entries, because the library keeps them in Go maps whose iteration "
        "order follows the insertion order) and the paragraph texts joined by newline are compared with the concretised expectation; "
        "a deviating case is reported under the minimal set of construct classes (Tmpl!Classes) that deviates in the run")

LAWS = ["Inv_Verbatim", "Inv_Opaque", "Inv_Unused", "Inv_AbsentFalse", "Inv_Dual", "Inv_Blocks", "Inv_Names", "Inv_LoopHom",
        "Inv_Norm", "Inv_Data"]


def S(*xs):
    return frozenset(xs)


FULL = dict(
    Lits=S("p1", "p2", "nl", "br1", "br2", "x1"), Vars=S("v1", "v2"), Conds=S("c1", "c2"),
    Flds=S("f1", "f2"), QFlds=S("q1", "q2"), SubS=S("sub"), SubM=S("subm"), GFlds=S("g1"), RFlds=S("r1"),
    Blocks=S("b1", "b2", "h1"), TNames=S("t1", "t2"), Imgs=S("im1", "im2"), LoopLeafs=S("this", "idx", "first", "last"),
    VarVals=S("p1", "n1", "n2", "bT", "e1", "d1", "d2", "d3", "d4", "s1", "w1", "x1", "rv1", "rv2", "rf1"),
    ThisVals=S("p1", "n1", "bF", "e1", "d1", "d2", "d3", "d4", "s1", "w1", "x1", "rv1", "rf1"),
    FldVals=S("p1", "n0", "e1", "d1", "d2", "d3", "d4", "s1", "w1", "x1", "rv1", "rf1", "rf2"),
    CondVals=S("bT", "bF", "e1", "p1", "n0", "n1"),
)

BASE = dict(
    MinNodes=0, Lits=S("p1", "nl"), Vars=S("v1"), Conds=S("c1"), SLists=S("ls"), MLists=S("lm"),
    Flds=S("f1"), QFlds=S("q1"), SubS=S("sub"), SubM=S(), GFlds=S(), RFlds=S(), Blocks=S("b1"), TNames=S("t1"), Imgs=S("im1"),
    LoopLeafs=S("this", "idx"), CondOpens=S("if", "ife"), AllowExt=True,
    VarVals=S("p1", "d2"), ThisVals=S("p1"), FldVals=S("p1"), CondVals=S("bT", "bF"),
    NoiseOpts=vlib.Raw("{FALSE}"), Full2=False,
)
NOISE = vlib.Raw("{FALSE, TRUE}")


def consts(*ds, **kw):
    d = dict(BASE)
    for x in ds:
        d.update(x)
    d.update(kw)
    return d


def tiers(ctx):
    """model-check bounds, the exhaustive layers (name -> constants) and the simulation bounds of the tier"""
    q = ctx.tier == "quick"
    mc = consts(MaxNodes=3, MaxDepth=2)
    mid = dict(Lits=S("p1", "nl", "br2"), VarVals=S("p1", "e1", "d2", "w1"), ThisVals=S("p1", "d4"),
               FldVals=S("p1", "d1"), CondVals=S("bT", "bF", "e1", "p1"), LoopLeafs=S("this", "idx", "last"),
               SubM=S("subm"), GFlds=S("g1"))
    if q:
        mid.update(Lits=S("p1", "nl"), VarVals=S("p1", "d2"), CondVals=S("bT", "bF", "p1"), LoopLeafs=S("this", "idx"))
    else:
        # structure-focused: the non-plain value classes are covered in every position by the wide and loops layers
        mid.update(Lits=S("p1", "nl"), VarVals=S("p1", "d2"), ThisVals=S("p1"), FldVals=S("p1"),
                   CondVals=S("bT", "bF", "p1"), LoopLeafs=S("this", "idx"))
    # values that mention another name of the data: two variables / two fields of one item, every way of supplying or
    # omitting the mentioned name (also as data the template does not use), outside and inside a loop
    refs = dict(Lits=S(), Vars=S("v1", "v2"), Conds=S(), SLists=S(), Flds=S("f1", "f2"), QFlds=S(), SubS=S(), Blocks=S(),
                Imgs=S(), LoopLeafs=S(), CondOpens=S(), AllowExt=False, VarVals=S("p1", "rv1", "rv2", "rf1"),
                FldVals=S("p1", "rv1", "rf1", "rf2"), NoiseOpts=NOISE)
    if not q:
        # ... and {{this}} of a nested loop over scalars mentioning a field of the enclosing item
        # (a variable's placeholder in an item value is covered in every position by the wide and loops layers)
        refs.update(SubS=S("sub"), LoopLeafs=S("this"), ThisVals=S("p1", "rf1"), FldVals=S("p1", "rf1", "rf2"))
    loops = dict(Lits=S(), Conds=S(), QFlds=S(), Blocks=S(), Imgs=S(), CondOpens=S(), AllowExt=False, CondVals=S("bT"))
    layers = {
        # every name, literal and value class in every position of the smallest templates
        "wide": consts(FULL, MaxNodes=2, MaxDepth=3, NoiseOpts=vlib.Raw("{FALSE}") if q else NOISE),
        # every combination of constructs over a reduced alphabet
        "deep": consts(mid, MaxNodes=3 if q else 4, MaxDepth=3, Blocks=S("b1", "h1")),
        "refs": consts(refs, MaxNodes=3 if q else 4, MaxDepth=2 if q else 3),
    }
    if not q:
        # every loop shape up to two levels with every value class and with unused data
        layers["loops"] = consts(FULL, loops, MaxNodes=3, MaxDepth=3, Vars=S("v1"), Flds=S("f1"), NoiseOpts=NOISE)
    sim = dict(num=1200, depth=80, limit=5000) if q else dict(num=10000, depth=90, limit=40000)
    simc = consts(FULL, MaxNodes=7 if q else 9, MinNodes=4 if q else 5, MaxDepth=3, NoiseOpts=NOISE)
    return mc, layers, simc, sim


def bounds_of(c):
    return {k: (sorted(v) if isinstance(v, frozenset) else (v.s if isinstance(v, vlib.Raw) else v)) for k, v in c.items()}


def attribute(wits):
    """A deviating case is known when its class set includes the class set of a recorded finding (DESIGN §5 C16:
    'a failing case with no listed class is a VIOLATION'); it is then reported under that finding's signature."""
    known = [k["signature"] for k in vlib.load_known() if k["property"] == "C16" and k.get("status", "open") == "open"]
    for w in wits:
        if w["sig"][0] != "C16":
            continue
        for ks in known:
            if ks[1] == w["sig"][1] and set(ks[2:]) <= set(w["sig"][2:]):
                w["sig"][:] = list(ks)
                break


def judge(ctx, cases, tag):
    ctx.cases_by_tag[tag] = {c["id"]: c for c in cases}
    if len(ctx.samples) < 4:
        ctx.samples.extend(c.get("extra") for c in cases[: 4 - len(ctx.samples)])
    obs = ctx.run_exec("tmpl", cases, tag)
    stat = os.path.join(ctx.work, tag + ".stat.json")
    wits = ctx.tlc_trace("Tmpl_Trace.tla", "Tmpl_Trace.cfg", obs, tag, env={"WZ_STAT": stat})
    for w in wits:
        if w["sig"][0] == "MACH":
            raise vlib.Machinery("the harness compared against tokens that are not Tmpl!Render of the logged case (case %s)" % w["case"])
        # the judge prints the class set in TLC's internal order; sort it so that a signature is canonical
        w["sig"][2:] = sorted(w["sig"][2:])
    attribute(wits)
    if os.path.exists(stat):
        with open(stat) as f:
            st = json.load(f)
        ctx.extra_cov.setdefault("classes_exercised", [])
        ctx.extra_cov["classes_exercised"] = sorted(set(ctx.extra_cov["classes_exercised"]) | set(st.get("classes", [])))
        ctx.extra_cov["deviating_cases"] = ctx.extra_cov.get("deviating_cases", 0) + st.get("deviating", 0)
    return wits


ASSUMPTIONS = [
    "documented semantics = pkg/document/README.md (template section), README.md / README_zh.md examples, "
    "examples/nested_loop_demo/README.md, CHANGELOG v1.3.6 (truthiness of loop-inner conditions), transcribed as Tmpl!Render",
    "{{@index}} is 0-based (implementation and examples agree; no document states the base)",
    "a loop over a list missing from the data renders nothing, like an empty list (the engine does this at the top level)",
    "inside a loop over map items a condition is the truthiness of the item's field: absent, false, \"\" and 0 are false",
    "never generated because the documentation does not fix the meaning: same name for a global variable and an item field, "
    "{{else}} outside an if, unbalanced directives, whitespace-only lines, conditions inside loops over scalars, {{this}} of a "
    "map item, lists mixing scalars and maps, loop variables outside loops, blocks inside other constructs, child-template text "
    "outside blocks, overriding an undefined block, an image placeholder sharing its line with text or lacking image data, "
    "floats whose shortest and fixed notations differ",
    "output that is blank as a whole yields no paragraph (splitter behaviour, part of the reference: Tmpl!Norm)",
    "a deviating case is a known finding when its class set includes the class set of a recorded finding (DESIGN §5 C16); "
    "therefore cases containing a known-defective construct cannot reveal a second defect until the first is repaired",
    "a value that contains {{name}} is expected verbatim whether or not the data supply name (property: nothing inside a value is "
    "interpreted); the classes val:ref (a supplied global variable), val:fref (a value field of an enclosing loop item) and "
    "val:ref0 (nobody supplies it there) only attribute a deviation. val:ref deviates on the unchanged tree only under "
    "inheritance, val:fref inside loops (both recorded findings, split off the catch-all val:d); val:ref0 never",
    "a quoted name (block, extended template) is any text without a double quote, brace or newline; names are concretised as "
    "identifiers (b1 b2 t1) or as text with a hyphen, space, dot, colon, slash or non-ASCII letters (h1 h2 t2)",
    "the comparison got == concretised expectation is a plain string equality in the Go harness; the judge recomputes "
    "Tmpl!Render of the logged case and rejects the run (exit 2) if the harness compared against anything else",
]


def pipeline(ctx, cases_by=None):
    ctx.assumptions = list(ASSUMPTIONS)
    if cases_by is not None:
        judge(ctx, cases_by, "replay")
        return ctx.finish(LEVEL, RULE)
    mc, layers, simc, sim = tiers(ctx)
    ctx.tlc_mc("Tmpl_MC.tla", ctx.cfg("mc.cfg", "Spec", mc, invariants=LAWS, properties=["Act_Compositional"]), timeout=600)
    if ctx.tier != "quick":
        # non-vacuity of the model check: per-action counts and the number of never-evaluated sub-expressions
        import re
        rc, out, gen, dist = ctx._tlc("Tmpl_MC.tla", "mc.cfg", ["-coverage", "1"], 900)
        if "Model checking completed. No error has been found." not in out:
            raise vlib.Machinery("coverage run of Tmpl_MC did not pass")
        acts = {m.group(1): int(m.group(2)) for m in re.finditer(r"^<(\w+) line \d+, col \d+ to line \d+, col \d+ of module Tmpl_MC>: (\d+):\d+", out, re.M)}
        ctx.extra_cov["mc_actions_covered"] = acts
        ctx.extra_cov["mc_never_evaluated_expressions"] = len(re.findall(r": 0$", out, re.M))
    cases, counts = [], {}
    for name, c in layers.items():
        got = ctx.tlc_gen("Tmpl_MC.tla", ctx.cfg("gen_%s.cfg" % name, "Spec", c, invariants=["Emit"]), name, timeout=1200)
        counts[name] = len(got)
        cases += got
    more = ctx.tlc_gen("Tmpl_MC.tla", ctx.cfg("gen_sim.cfg", "Spec", simc, invariants=["Emit"]), "sim", mode="sim",
                       num=sim["num"], depth=sim["depth"], limit=sim["limit"], timeout=900)
    counts["simulated"] = len(more)
    counts["concretisation_rounds"] = 6
    ctx.exhaustive = True
    # one judge run over all sets: minimality of a deviating class set is decided against the exhaustive small scope
    judge(ctx, cases + more, "all")
    ctx.extra_cov["bounds"] = dict({"model_check": bounds_of(mc), "simulate": bounds_of(simc)},
                                   **{"bfs_" + k: bounds_of(v) for k, v in layers.items()})
    ctx.extra_cov["cases"] = counts
    ctx.extra_cov["laws_model_checked"] = LAWS + ["Act_Compositional"]
    ctx.extra_cov["exhaustive_what"] = ("every template within each bfs_* bound x every data environment over its names was "
                                        "executed; the simulated set is a seeded sample of larger templates")
    return ctx.finish(LEVEL, RULE)


def run(ctx):
    return pipeline(ctx)


def replay(ctx, rp):
    c = rp["case"]
    return pipeline(ctx, [c])
