"""C19 — Markdown converts to Word totally and without losing or inventing text (spec module MdIn)."""
import json, os, re, shutil, subprocess, threading, time
import vlib

MANIFEST = dict(
    module="MdIn", ref="§5 C19",
    text="Markdown documents are abstract syntax trees in MdIn.tla; the reference function MdIn!ToWord(ast, options) gives the "
         "expected abstract Word body (block order, visible tokens, heading levels, run flags, code lines with indentation, "
         "table shape / cell text / column alignment) and MdIn!JudgeFid compares an observed body with it field by field. "
         "TLC builds every AST within the bounds with a stack machine (blocks, list items, inline containers), checks the design "
         "laws of ToWord on all of them (no text lost or invented under any option set, options only touch the constructs they "
         "govern, compositionality, the judge accepts the reference and rejects a damaged body) and emits (converter options, "
         "calls). The harness spells each AST as unambiguous Markdown, converts it with the real converter through "
         "ConvertString/ConvertBytes/ConvertFile/BatchConvert, reads the saved package back with the independent reader and "
         "MdIn_Trace.tla judges; the same text rendered by the embedded parser's reference HTML renderer guards against a "
         "spelling that does not mean the AST. Totality: TLC builds every string over the Markdown lexical alphabet up to the "
         "length bound, converted under the option masks of the tier; extreme nesting shapes run in a child process. Exhaustive "
         "small scope plus seeded larger samples fits a converter whose defects are interactions of two or three constructs.",
    technique="TLA+ reference function MdIn!ToWord + judge MdIn!JudgeFid; TLC exhaustive enumeration of Markdown ASTs x options "
              "(design laws) and of token strings; real converter executed, saved package projected by the independent reader; "
              "TLC trace judge with minimal-class attribution",
)

LEVEL = "model_checking"
RULE = ("fidelity: cases = every Markdown AST within each bfs_* bound (built by the generator of MdIn_MC.tla, each exactly once) x the "
        "option masks / call variants of the layer, plus seeded random larger ASTs; each is spelled as Markdown, converted by the "
        "real converter, the saved package is projected to (block kind, heading level, visible tokens with run flags, table "
        "cells and alignment) and compared with MdIn!ToWord by MdIn!JudgeFid; a deviating block is reported under "
        "(field, construct classes of the block), minimal class sets only. totality: every token string up to the length bound "
        "x the option masks of the tier must convert without panic or error to a package that is a readable ZIP with well-formed "
        "XML parts, content types for all parts, resolvable internal relationships and a main document")

LAWS = ["Inv_Reflexive", "Inv_Sensitive", "Inv_Atoms", "Inv_Options", "Inv_Headings", "Inv_Flags", "Inv_Shape"]

DEFAULT = 191          # gfm tables tasks math footnotes toc, TOC level 3 (MdIn!OptOfMask)


PAR = 8          # TLC processes run side by side (each with one worker)


def tlc_par(ctx, jobs):
    """Run several TLC processes concurrently (own metadirs). jobs: dict(spec, cfg, extra, env, timeout).
    Returns the outputs in order; adds the state counts to ctx like vlib.Ctx._tlc does."""
    res = [None] * len(jobs)
    sem = threading.Semaphore(PAR)
    lock = threading.Lock()

    def one(i, j):
        with sem:
            meta = os.path.join(ctx.work, "pmeta%d_%d" % (id(jobs) % 9973, i))
            cmd = ["tlc", "-metadir", meta, "-config", j["cfg"], "-workers", str(j.get("workers", 1))] + j.get("extra", []) + [j["spec"]]
            e = dict(os.environ)
            e.setdefault("JAVA_TOOL_OPTIONS", "-Xss256m -Xmx%dg" % j.get("heap", 4))
            e.update(j.get("env") or {})
            t = time.time()
            try:
                r = subprocess.run(cmd, cwd=ctx.specdir, env=e, capture_output=True, text=True, timeout=j.get("timeout", 900))
                out = r.stdout + r.stderr
            except subprocess.TimeoutExpired:
                subprocess.run(["pkill", "-f", meta])
                out = None
            shutil.rmtree(meta, ignore_errors=True)
            gen = dist = 0
            if out is not None:
                m = re.search(r"(\d+) states generated, (\d+) distinct states found", out)
                if m:
                    gen, dist = int(m.group(1)), int(m.group(2))
                else:
                    m = re.search(r"The number of states generated: (\d+)", out)
                    if m:
                        gen = dist = int(m.group(1))
            with lock:
                ctx.states += dist
                ctx.transitions += gen
                vlib.log("  tlc %s %s: %d generated / %d distinct, %.1fs" % (j["spec"], j["cfg"], gen, dist, time.time() - t))
            res[i] = out

    ts = [threading.Thread(target=one, args=(i, j)) for i, j in enumerate(jobs)]
    for t in ts:
        t.start()
    for t in ts:
        t.join()
    for j, out in zip(jobs, res):
        if out is None:
            raise vlib.Machinery("TLC timed out: %s %s" % (j["spec"], j["cfg"]))
    return res


def gen_par(ctx, jobs, also=()):
    """jobs: dict(tag, cfg, mode, num, depth, limit). Returns ({tag: cases}, outputs of the `also` TLC jobs run in the
    same pool); ids are unique over all tags."""
    tj = []
    for k, j in enumerate(jobs):
        extra = []
        if j.get("mode") == "sim":
            extra = ["-simulate", "num=%d" % j["num"], "-depth", str(j["depth"]), "-seed", str(ctx.seed * 1000 + k)]
        tj.append(dict(spec="MdIn_MC.tla", cfg=j["cfg"], extra=extra, timeout=j.get("timeout", 900)))
    outs = tlc_par(ctx, tj + list(also))
    also_out = outs[len(tj):]
    res = {}
    for k, (j, out) in enumerate(zip(jobs, outs)):
        if [l for l in out.splitlines() if l.startswith("Error:")]:
            raise vlib.Machinery("TLC generation %s failed:\n%s" % (j["cfg"], vlib.tail(out)))
        cases, seen = [], set()
        for m in re.finditer(r'^<<"WZCASE", (".*")>>$', out, re.M):
            s = json.loads(m.group(1))
            if s in seen:
                continue
            seen.add(s)
            c = vlib.normalise_case(json.loads(s))
            c["id"] = (k + 1) * 10000000 + len(cases) + 1
            cases.append(c)
            if j.get("limit") and len(cases) >= j["limit"]:
                break
        if not cases:
            raise vlib.Machinery("TLC generation %s produced no behaviours:\n%s" % (j["cfg"], vlib.tail(out)))
        vlib.log("  gen %s: %d behaviours" % (j["tag"], len(cases)))
        res[j["tag"]] = cases
    return res, also_out


def trace_par(ctx, obs, tag, parts):
    """Judge the observation file in `parts` pieces cut at behaviour boundaries, concurrently."""
    files, cur, n, lines = [], None, 0, 0
    total = sum(1 for _ in open(obs))
    per = max(1, total // parts + 1)
    with open(obs) as f:
        for line in f:
            if cur is None or (n >= per and line.startswith('{"case"') and '"ev":"reset"' in line):
                if cur:
                    cur.close()
                files.append([os.path.join(ctx.work, "%s.part%d.ndjson" % (tag, len(files))), 0])
                cur = open(files[-1][0], "w")
                n = 0
            cur.write(line)
            n += 1
            files[-1][1] += 1
    if cur:
        cur.close()
    jobs = [dict(spec="MdIn_Trace.tla", cfg="MdIn_Trace.cfg", env={"WZ_OBS": p, "WZ_STAT": p + ".stat.json"}, timeout=1800) for p, _ in files]
    outs = tlc_par(ctx, jobs)
    wits, stats = [], []
    for (p, cnt), out in zip(files, outs):
        m = re.search(r'^<<"WZDONE", (\d+), (".*")>>$', out, re.M)
        if not m:
            raise vlib.Machinery("trace judge did not finish on %s:\n%s" % (p, vlib.tail(out, 60)))
        if int(m.group(1)) != cnt:
            raise vlib.Machinery("trace judge consumed %s of %d events of %s" % (m.group(1), cnt, p))
        for w in json.loads(json.loads(m.group(2))):
            wits.append({"sig": [str(x) for x in w["sig"]], "case": w["case"], "tag": tag})
        if os.path.exists(p + ".stat.json"):
            with open(p + ".stat.json") as f:
                stats.append(json.load(f))
    ctx.witnesses.extend(wits)
    vlib.log("  judge %s: %d events in %d parts, %d witness signatures" % (tag, total, len(files), len(wits)))
    return wits, stats


def S(*xs):
    return frozenset(xs)


ALL_INL = S("em", "st", "del", "code", "link", "math")
ALL_TOP = S("p", "h", "ul", "ol", "q", "fence", "icode", "hr", "tbl", "mathb")
ALL_IN = S("p", "h", "ul", "ol", "q", "fence", "hr")
TOT_ALPHA = S("hash", "star", "us", "bt", "tilde", "pipe", "dash", "gt", "lb", "rb", "lp", "rp", "bang", "dollar", "bs", "amp",
              "lt", "num", "box", "colon", "sp", "tab", "nl", "a", "e", "nul", "ff", "eq", "fnref", "fndef", "dd", "fence")
TOT_CORE = S("hash", "star", "us", "bt", "tilde", "pipe", "dash", "gt", "lb", "rb", "lp", "bang", "dollar", "bs", "lt", "num",
             "box", "colon", "sp", "nl", "a", "dd")
TOT_CORE16 = S("hash", "star", "us", "bt", "tilde", "pipe", "dash", "gt", "lb", "rb", "lp", "bang", "dollar", "sp", "nl", "a")
TOT_CORE8 = S("star", "us", "bt", "lb", "rb", "dollar", "sp", "nl", "a")
DEEP = S("gt", "li", "star", "us", "lb", "bt", "lp", "bang", "dollar", "tilde", "num", "qq", "frac", "sqrt", "bs", "lt", "indent", "tab")

BASE = dict(
    Mode="fid", MaxNodes=3, MinNodes=0, MaxDepth=1, MaxInl=1, MaxKids=3,
    Atoms=S("w1", "w2"), CodeAtoms=S("w1"), Inls=S(), TopKinds=S("p"), InKinds=S("p"),
    HLevels=S(1), HStyles=S("atx"), Tasks=S("none"), AllowSB=False,
    OVMasks=S(DEFAULT), OVApis=S("string"), OVCos=S("nil"), OVWarms=vlib.Raw("{FALSE}"), UMasks=S(DEFAULT, 0),
    TotToks=S(), TotLen=0, MaskSet=S(), DeepToks=S(), DeepNs=S(),
)
PRESETS = dict(LineSeqs="LS_one", CellSeq="CS_quick", TblShapes="TS_one", MathSeqs="MS_all")


def layer(**kw):
    pre = dict(PRESETS)
    for k in list(kw):
        if k in pre:
            pre[k] = kw.pop(k)
    c = dict(BASE)
    c.update(kw)
    return c, pre


def cfg_of(ctx, name, lay, invariants, properties=()):
    c, pre = lay
    extra = "CONSTANTS\n" + "\n".join("  %s <- %s" % kv for kv in sorted(pre.items()))
    return ctx.cfg(name, "Spec", c, invariants=invariants, properties=properties, extra=extra)


def tiers(ctx):
    q = ctx.tier == "quick"
    allmasks = frozenset(range(256))
    optmasks = frozenset(range(128, 192, 4)) | frozenset(range(1, 64, 9)) | S(DEFAULT, 0, 255, 64 + 21) if q else allmasks
    mc = lambda q: layer(MaxNodes=3 if q else 4, MaxDepth=1, MaxInl=2, Atoms=S("w1", "e1"), Inls=S("em", "st", "code", "del") if q else S("em", "st", "code", "del", "math"),
               TopKinds=S("p", "h", "ul", "q", "fence", "tbl", "mathb", "hr", "icode"), InKinds=S("p", "ul"),
               HLevels=S(1, 3), HStyles=S("atx", "setext"), Tasks=S("none", "open"), AllowSB=True,
               LineSeqs="LS_one" if q else "LS_quick", UMasks=S(DEFAULT, 0, 190, 189, 183))
    mc_small, mc = mc(True), mc(q)
    layers = {
        # every inline construct in every nesting of two, with soft breaks, in paragraphs and headings
        "inline": layer(MaxNodes=5 if q else 6, MaxInl=2, MaxKids=3, Inls=ALL_INL, TopKinds=S("p", "h"), HLevels=S(2),
                        HStyles=S("atx", "setext"), AllowSB=True),
        # every text atom class in every kind of leaf
        "atoms": layer(MaxNodes=4, MaxDepth=1, MaxInl=1, MaxKids=2,
                       Atoms=S("w1", "u1", "x1", "e1", "n1", "a1", "a2") if q else S("w1", "u1", "u2", "x1", "x2", "e1", "e2", "n1", "n2", "a1", "a2"),
                       CodeAtoms=S("w1", "m1", "x1") if q else S("w1", "m1", "m2", "x1", "u1"),
                       Inls=S("em", "code", "link"), TopKinds=S("p", "h", "ul", "q"), InKinds=S("p"), HLevels=S(3)),
        # every block kind with its code / table / formula shapes, in every pair
        "blocks": layer(MaxNodes=2 if q else 3, MaxDepth=1, MaxInl=1, MaxKids=1, Atoms=S("w1"), Inls=S(),
                        TopKinds=ALL_TOP, InKinds=S("p", "fence", "hr", "h"), HLevels=S(1, 6) if q else S(1, 2, 3, 4, 5, 6),
                        HStyles=S("atx", "setext"), Tasks=S("none"),
                        LineSeqs="LS_quick", TblShapes="TS_quick", CellSeq="CS_quick" if q else "CS_full"),
        # every code / table shape of the pools on its own
        "shapes": layer(MaxNodes=1 if q else 2, MaxDepth=1, MaxInl=1, MaxKids=1, Atoms=S("w1"), Inls=S(), TopKinds=S("fence", "icode", "tbl", "mathb"),
                        InKinds=S("p"), LineSeqs="LS_full", TblShapes="TS_full", CellSeq="CS_full", OVMasks=S(DEFAULT, 0, 189)),
        # every pair of block kinds next to each other
        "pairs": layer(MaxNodes=4, MaxDepth=1, MaxInl=1, MaxKids=1, Atoms=S("w1"), Inls=S(), TopKinds=ALL_TOP, InKinds=S("p"),
                       HLevels=S(3), HStyles=S("atx", "setext"), Tasks=S("none")),
        # containers nested two deep: quotes, lists, items with several blocks, task states
        "nesting": layer(MaxNodes=6 if q else 7, MaxDepth=2, MaxInl=1, MaxKids=3, Atoms=S("w1"), Inls=S() if q else S("em"),
                         TopKinds=S("p", "ul", "ol", "q", "fence", "h"), InKinds=S("p", "ul", "ol", "q", "fence", "h"), HLevels=S(2),
                         Tasks=S("none", "open", "done"), AllowSB=True),
        # every option combination and TOC level on the smallest documents of every kind
        "options": layer(MaxNodes=2, MaxDepth=1, MaxInl=1, MaxKids=1, Atoms=S("w1", "a2"), Inls=S("del", "math", "em"),
                         TopKinds=ALL_TOP, InKinds=S("p"), HLevels=S(1, 2, 4), Tasks=S("none", "open", "done"),
                         OVMasks=optmasks, UMasks=S(DEFAULT, 0, 190, 189, 183, 187)),
        # every way of calling the converter
        "calls": layer(MaxNodes=3, MaxDepth=1, MaxInl=1, MaxKids=1, Atoms=S("w1"), Inls=S("st"),
                       TopKinds=S("p", "h", "ul", "fence", "tbl", "q"), InKinds=S("p"), HLevels=S(2),
                       OVMasks=S(DEFAULT) if q else S(DEFAULT, 0, 128 + 42, 21),
                       OVApis=S("string", "bytes", "file", "batch", "missing"), OVCos=S("nil", "same"), OVWarms=vlib.Raw("{FALSE, TRUE}")),
    }
    sim = dict(num=16, depth=60, limit=1200) if q else dict(num=300, depth=80, limit=30000)
    simc = layer(MaxNodes=10 if q else 14, MinNodes=5 if q else 6, MaxDepth=3, MaxInl=3, MaxKids=4,
                 Atoms=S("w1", "w2", "w3", "w4", "u1", "x1", "e1", "n1", "a1", "a2", "x2", "u2"), CodeAtoms=S("w1", "w2", "m1", "m2", "x1"),
                 Inls=ALL_INL, TopKinds=ALL_TOP, InKinds=ALL_IN, HLevels=S(1, 2, 3, 4, 5, 6), HStyles=S("atx", "setext"),
                 Tasks=S("none", "open", "done"), AllowSB=True, LineSeqs="LS_full", TblShapes="TS_full", CellSeq="CS_full",
                 OVMasks=S(DEFAULT, 0, 255, 170, 85, 149, 106, 63), OVApis=S("string", "bytes", "file"), OVCos=S("nil", "same"),
                 OVWarms=vlib.Raw("{FALSE, TRUE}"))
    tot = [
        # (name, alphabet, length, masks)
        ("tot_full", TOT_ALPHA, 2 if q else 3, S(DEFAULT, 0)),
        ("tot_core", TOT_CORE8 if q else TOT_CORE16, 4, S(DEFAULT)),
        ("tot_opts", TOT_ALPHA, 1, allmasks),
        ("tot_pairs", TOT_CORE16 if q else TOT_ALPHA, 2, frozenset(range(0, 256, 37)) | S(255) if q else frozenset(range(0, 256, 9)) | S(255)),
    ]
    deep = dict(DeepToks=DEEP, DeepNs=S(200, 3000) if q else S(200, 3000, 20000), MaskSet=S(DEFAULT) if q else S(DEFAULT, 0))
    return mc, layers, simc, sim, tot, deep, mc_small


def bounds_of(lay):
    c, pre = lay
    d = {k: (sorted(v, key=str) if isinstance(v, frozenset) else (v.s if isinstance(v, vlib.Raw) else v)) for k, v in c.items()
         if k not in ("TotToks", "TotLen", "MaskSet", "DeepToks", "DeepNs", "Mode")}
    for k in ("OVMasks", "UMasks"):
        if len(d[k]) > 16:
            d[k] = "%d masks" % len(d[k])
    d.update(pre)
    return d


def split_sig(sig):
    """['C19', kind..., '|', classes...] -> (prefix incl. '|', classes)"""
    if "|" in sig:
        i = sig.index("|")
        return sig[: i + 1], sig[i + 1:]
    return list(sig), []


def attribute(wits):
    """A deviating block is known when its (field) prefix equals that of a recorded finding and its class set includes
    the finding's class set; it is then reported under that finding's signature."""
    known = [k["signature"] for k in vlib.load_known() if k["property"] == "C19" and k.get("status", "open") == "open"]
    for w in wits:
        if w["sig"][0] != "C19":
            continue
        pre, ks = split_sig(w["sig"])
        w["sig"][:] = pre + sorted(ks)
        best = None
        for s in known:
            kpre, kks = split_sig(s)
            if kpre == pre and set(kks) <= set(ks) and (best is None or len(kks) > len(split_sig(best)[1])):
                best = s
        if best is not None:
            w["sig"][:] = list(best)


def judge(ctx, cases, tag, parts=1):
    ctx.cases_by_tag[tag] = {c["id"]: c for c in cases}
    obs = ctx.run_exec("mdin", cases, tag, timeout=1500)
    wits, stats = trace_par(ctx, obs, tag, parts)
    for w in wits:
        if w["sig"][0] == "MACH":
            raise vlib.Machinery("the harness did not execute the logged case (%s, case %s)" % (w["sig"], w["case"]))
    attribute(wits)
    cov = ctx.extra_cov
    tot = {"conv": 0, "ambiguous": 0, "raw": 0, "deviating": 0}
    amb = []
    for st in stats:
        cov["classes_exercised"] = sorted(set(cov.get("classes_exercised", [])) | set(st.get("classes", [])))
        for k in tot:
            tot[k] += st.get("stat", {}).get(k, 0)
        amb += st.get("stat", {}).get("ambcases", [])
    for k in tot:
        cov.setdefault("judged", {}).setdefault(k, 0)
        cov["judged"][k] += tot[k]
    if tot["conv"] and tot["ambiguous"] * 50 > tot["conv"]:
        raise vlib.Machinery("%d of %d generated documents are read differently by the reference renderer (cases %s): "
                             "the Markdown spelling is ambiguous" % (tot["ambiguous"], tot["conv"], amb[:10]))
    return wits


ASSUMPTIONS = [
    "the meaning of a Markdown text is what CommonMark / GFM / the formula extension define; the harness spells every AST in forms "
    "whose reading is unambiguous, and a case that the embedded parser's own reference HTML renderer reads differently from the AST "
    "is counted as ambiguous and not judged (evidence: judged.ambiguous)",
    "visible text = the sequence of text atoms, white space collapsed; a backslash escape or entity reference is one visible "
    "character; link destinations, fence info strings and list markers are not visible text (the marker the converter chose is ignored)",
    "a task list item must show its state (a box character or [ ] / [x]); with GFM off the literal brackets satisfy this",
    "run formatting is demanded in paragraphs (anywhere, also inside quotes), not in headings, list item text or table cells; a link "
    "and a formula need no particular formatting; code spans need a monospace font or a code character style",
    "block quote and list item paragraphs need no particular style; headings need the style Heading<level>; a thematic break is an "
    "empty block; a code block is one paragraph per line with exactly the line's leading white space",
    "column alignment: left/center/right as jc of the cell paragraphs, none = no jc or left",
    "with a construct's extension switched off its source is literal text (~~, |, $); with GFM on but table support off only the "
    "presence and order of the cell words is demanded",
    "options are passed to NewConverter and, in some calls, again to Convert* (same values); what different values at the two places "
    "mean is not documented and never generated",
    "a deviating block is a known finding when its field equals and its class set includes those of a recorded finding; therefore "
    "a block containing a known-defective construct cannot reveal a second defect in the same field until the first is repaired",
    "totality is decided for all token strings up to the stated length over the stated alphabet and for the listed extreme shapes, "
    "not for arbitrary byte noise (DESIGN section 7)",
]


def pipeline(ctx, replay_case=None):
    ctx.assumptions = list(ASSUMPTIONS)
    if replay_case is not None:
        judge(ctx, [replay_case], "replay")
        return ctx.finish(LEVEL, RULE)
    mc, layers, simc, sim, tot, deep, mc_small = tiers(ctx)
    q = ctx.tier == "quick"
    mccfg = cfg_of(ctx, "mc.cfg", mc, LAWS, ["Act_Compositional"])
    also = [dict(spec="MdIn_MC.tla", cfg=mccfg, timeout=600, workers=2 if q else 4, heap=8)]
    jobs = []
    for name, lay in layers.items():
        jobs.append(dict(tag=name, cfg=cfg_of(ctx, "gen_%s.cfg" % name, lay, ["Emit"]), timeout=1500))
    jobs.append(dict(tag="sim", cfg=cfg_of(ctx, "gen_sim.cfg", simc, ["Emit"]), mode="sim", num=sim["num"], depth=sim["depth"],
                     limit=sim["limit"], timeout=900))
    for name, alpha, n, masks in tot:
        jobs.append(dict(tag=name, cfg=cfg_of(ctx, "gen_%s.cfg" % name, layer(Mode="tot", TotToks=alpha, TotLen=n, MaskSet=masks), ["Emit"]), timeout=1500))
    jobs.append(dict(tag="tot_sim", cfg=cfg_of(ctx, "gen_totsim.cfg", layer(Mode="tot", TotToks=TOT_ALPHA, TotLen=8 if q else 14, MaskSet=S(DEFAULT, 0)), ["Emit"]),
                     mode="sim", num=20 if q else 600, depth=9 if q else 15, limit=600 if q else 15000, timeout=600))
    jobs.append(dict(tag="deep", cfg=cfg_of(ctx, "gen_deep.cfg", layer(Mode="deep", **deep), ["Emit"]), timeout=300))
    by_tag, mcout = gen_par(ctx, jobs, also)
    for out in mcout:
        if "Model checking completed. No error has been found." not in out:
            raise vlib.Machinery("TLC model check of MdIn_MC/mc.cfg did not pass:\n%s" % vlib.tail(out))
    m = re.search(r"(\d+) states generated, (\d+) distinct states found", mcout[0])
    ctx.mc_runs.append({"spec": "MdIn_MC.tla", "cfg": "mc.cfg", "generated": int(m.group(1)), "distinct": int(m.group(2))})
    counts = {t: len(cs) for t, cs in by_tag.items()}
    cases = [c for j in jobs for c in by_tag[j["tag"]]]
    ctx.exhaustive = True
    # ids are unique per generation tag; one judge run over all sets so that class minimality is decided
    # against the exhaustive small scope
    judge(ctx, cases, "all", parts=PAR)
    ctx.extra_cov["bounds"] = dict({"model_check": bounds_of(mc), "simulate": bounds_of(simc)},
                                   **{"bfs_" + k: bounds_of(v) for k, v in layers.items()})
    ctx.extra_cov["bounds"]["totality"] = {name: {"alphabet": sorted(alpha), "max_len": n, "masks": len(masks)} for name, alpha, n, masks in tot}
    ctx.extra_cov["bounds"]["deep"] = {k: sorted(v, key=str) for k, v in deep.items()}
    ctx.extra_cov["cases"] = counts
    ctx.extra_cov["laws_model_checked"] = LAWS + ["Act_Compositional"]
    ctx.extra_cov["exhaustive_what"] = ("every AST within each bfs_* bound x the layer's option masks / call variants and every token "
                                        "string within each totality bound was executed; the simulated sets are seeded samples of larger inputs")
    return ctx.finish(LEVEL, RULE)


def run(ctx):
    return pipeline(ctx)


def replay(ctx, rp):
    return pipeline(ctx, rp["case"])
