"""C01 — every saved document is a well-formed OOXML package (spec module Pkg)."""
import collections
import vlib

MANIFEST = dict(
    module="Pkg", ref="§5 C01",
    text="Pkg.tla is the whole-package machine: the package as an independent reader sees it (entries, content-type defaults and "
         "overrides, package relationships, per part: kind, extension, XML-ness, well-formedness, content type), the origin of the "
         "document object (new / opened / rendered / text template / Markdown), which call wrote which part, and one pure Apply per "
         "public operation - document/table/image/header/footer/footnote/endnote/list/TOC/properties/math/style API (incl. EditStyle: "
         "six kinds of in-place edit of a style the style manager already holds), document-template rendering (three entry points: "
         "from the document object, legacy, and from a file the renderer opens itself), text-template rendering, Markdown conversion "
         "(ConvertString and ConvertFile), Save, ToBytes and Reopen through eleven spellings another producer may give the saved "
         "package (as is; relationship targets absolute / with a dot segment / with a parent segment; package streams with a namespace "
         "prefix; every part typed by Override; every XML part re-serialised; the minimal package without styles and properties; "
         "other entry order, stored; directory entries; additional parts the library has no model of) - over argument classes (twelve "
         "text classes incl. XML metacharacters, ]]>, control characters with NUL/VT, non-characters and invalid UTF-8, astral, CJK, "
         "empty, whitespace, template braces, 64 KiB; five image-format classes x fifteen original-file-name classes). C01 is the "
         "witness set Viol_C01 (zip readable, no duplicate entry, content types and package relationships present and in their OPC "
         "namespace, exactly one officeDocument relationship whose target exists, every XML part well-formed incl. the XML 1.0 Char "
         "production, every part has a content type). TLC model-checks the reference machine (Inv_C01, shape, origin, frame/growth/"
         "content-type/reopen/style action properties; the pinned tree's name-by-original-extension design must violate Inv_C01), "
         "generates every operation x every argument class, every pair / triple of the core alphabets, every pair of style-manager "
         "calls on an opened document, every content call followed by a reopen through every spelling, and seeded random long "
         "behaviours; each is executed on the real library, written through alternating save entry points after every step (and, in a "
         "second pass, only where the behaviour saves), read by the independent ZIP/XML reader and judged step by step by "
         "Pkg_Trace.tla, which first checks that the package handed to Reopen satisfies the property itself and then charges a new "
         "violation to the call and argument class that introduced it (lazy pass: to the call that last wrote the part and the origin "
         "of the document).",
    technique="TLA+ spec Pkg; TLC exhaustive model checking of the reference machine + TLC-generated behaviours (BFS over op x "
              "argument class, pairs, triples; -simulate long ones) replayed on the library + TLC trace judge (Pkg_Trace.tla)",
)

LEVEL = "model_checking"
RULE = ("behaviours = TLC-enumerated operation sequences of Pkg_MC.tla: every operation of the alphabet x every argument class "
        "(depth 1; Render after the template-content step; Reopen through every spelling x both open entry points), every pair over the "
        "core alphabet, every triple over the small alphabet, a reopen followed by every pair over the style alphabet (every kind of "
        "in-place style edit), every content call followed by a reopen through every spelling, plus seeded random long ones over the "
        "whole alphabet; each is executed on the real library; after every step the document is written through Save or ToBytes "
        "(alternating; ConvertFile's own output where the step is ConvertFile) and the bytes are projected by the independent reader; a "
        "second, lazy pass writes only where the behaviour saves and at its end; the package a Reopen hands to the library is projected "
        "as well and must satisfy Viol_C01 = {} itself (otherwise the run is a machinery failure, not a verdict); Pkg_Trace.tla "
        "evaluates Viol_C01 on every observed package and charges what is new to the step's call")

ASSUMPTIONS = [
    "XML-ness of a part: extension xml/rels or a content type ending +xml or /xml; well-formedness: strict encoding/xml token walk "
    "to EOF with one root, valid UTF-8 and every character in the XML 1.0 Char production (namespace well-formedness and schema "
    "validity are not part of the statement and are not demanded)",
    "the property's premise is 'successful calls': once a call of a behaviour returned an error or panicked, later violations of "
    "that behaviour are recorded as N01 notes without verdict; a Save/ToBytes that fails or panics after successful calls only IS a "
    "C01 witness (there are no saved bytes to be readable)",
    "which parts exist, how they are named and how many media parts a rendering stores is the library's choice: differences from the "
    "reference machine in the part multiset are M01 notes without verdict",
    "image format classes: the three declared ImageFormat constants, a value outside them (\"bmp\" with BMP bytes) and the zero value "
    "(\"\" with PNG bytes); ImageFormat is an open string type, so a call with such a value that returns nil is a successful call",
    "Markdown sources and template texts carry the text class verbatim (raw bytes incl. NUL and invalid UTF-8)",
    "the content-types stream and _rels/.rels are read namespace-aware at their root: a well-formed stream whose root is not "
    "{content-types}Types / {relationships}Relationships declares nothing and is reported as 'foreign' (a violation); all other "
    "parts are only required to be well-formed",
    "spellings of the package fed to Reopen are produced by the harness from the bytes the library saved and keep its meaning; "
    "UTF-16 / BOM encodings of package streams and percent-encoded or case-variant part names are not generated (the independent "
    "reader does not resolve them); ZIP directory entries are not parts; spelling 'min' drops the parts nothing in the body refers "
    "to (styles, document properties) - the library may write them again",
    "EditStyle edits one of the predefined styles (or the style AddStyle added last) through the pointer GetStyle returns, or hands "
    "a new definition with the same id to AddStyle; where the manager holds none of the candidates the step is skipped",
]

TEXTS = ["plain", "xmlmeta", "cdataend", "ctrl", "nonchar", "astral", "cjk", "empty", "ws", "edgews", "braces", "long"]
HOSTILE = ["xmlmeta", "ctrl", "nonchar", "cdataend", "braces", "astral"]
FMTS = ["png", "jpeg", "gif", "other", "unset"]
NAMES = ["png", "jpg", "jpeg", "JPG", "gif", "noext", "dot", "multi", "cjk", "space", "meta", "mislead", "empty", "path", "ctrl"]
TKS = ["var", "cond", "loop", "block", "image", "literal", "all"]
MKS = ["para", "heading", "list", "task", "table", "code", "quote", "inline", "image", "math", "footnote", "html", "all"]
SPELLS = ["asis", "abs", "dot", "updir", "qual", "ovr", "xmlser", "min", "order", "dirs", "extra"]
SPELLS_R = ["abs", "xmlser", "extra", "min", "qual", "updir", "ovr", "dirs", "dot", "order", "asis"]      # rotation order of the narrowed plans
STYLE_EDS = ["name", "run", "para", "strip", "rebase", "readd"]
PAGES = ["SetPageSettings", "SetPageSize", "SetCustomPageSize", "SetPageOrientation", "SetPageMargins",
         "SetHeaderFooterDistance", "SetGutterWidth", "SetDocGrid", "ClearDocGrid", "GetPageSettings"]

BODY_TEXT = ["AddParagraph", "AddHeading", "AddFormattedParagraph", "AddFormattedText", "SetParaStyle", "SetParaFormat",
             "AddMathFormula", "AddMathOMML", "AddInlineMath", "GenerateTOC", "AutoGenerateTOC", "SetTOCStyle", "TOCSDT",
             "AddTable", "SetCellText", "AddCellParagraph", "AddCellList", "AddNestedTable", "TableRows", "TableStyle"]
LISTS = ["AddListItem", "AddBulletList", "AddNumberedList", "CreateMultiLevelList"]
NOTES = ["AddFootnote", "AddFootnoteToRun", "AddEndnote"]
PROPS = ["SetTitle", "SetAuthor", "SetSubject", "SetKeywords", "SetDescription", "SetCategory", "SetDocumentProperties"]
HF = ["AddHeader", "AddFooter", "AddHeaderWithPageNumber", "AddFooterWithPageNumber", "AddFormattedHeader", "AddFormattedFooter"]
PLAIN = ["AddPageBreak", "RestartNumbering", "RemoveFootnote", "SetFootnoteConfig", "UpdateTOC", "TableMerge", "RemoveParagraphAt",
         "SetDifferentFirstPage", "UpdateStatistics", "GetDocumentProperties", "RemoveStyle", "AddTemplateBits"]
ALLOPS = (BODY_TEXT + LISTS + NOTES + PROPS + ["AddImageText", "SetFootnoteFormat"] + HF + ["AddImage", "AddCellImage"] + PLAIN +
          ["Save", "ToBytes", "AddStyle", "EditStyle", "PageSet", "Reopen", "Render", "RenderText", "ConvertMd"])

WIDE = dict(TextC=set(TEXTS), KindC={"default", "first", "even"}, FmtC=set(FMTS), NameC=set(NAMES),
            ImgViaC={"data", "file", "noelem"}, CellViaC={"data", "file", "cfg"}, StyleViaC={"custom", "quick", "add"},
            PageC=set(PAGES), ReopenC={"mem", "file"}, SpellC=set(SPELLS), StyleEdC=set(STYLE_EDS),
            RenderViaC={"doc", "legacy", "file"}, RenderImgC={"none", "png", "jpeg", "gif"}, PrepC={True},
            TkC=set(TKS), MkC=set(MKS), MdViaC={"string", "file"})


def rot(l, k, n=1):
    return {l[(k + j) % len(l)] for j in range(n)}


def small(seed, **over):
    """One argument class per slot, rotated by the seed."""
    a = dict(TextC=rot(HOSTILE, seed), KindC=rot(["default", "first", "even"], seed), FmtC=rot(FMTS, seed),
             NameC=rot(NAMES, seed), ImgViaC=rot(["data", "file", "noelem"], seed), CellViaC=rot(["data", "file", "cfg"], seed),
             StyleViaC=rot(["custom", "quick", "add"], seed), PageC=rot(PAGES, seed), ReopenC=rot(["mem", "file"], seed),
             SpellC=rot(SPELLS_R, seed), StyleEdC=rot(STYLE_EDS, seed), RenderViaC=rot(["doc", "legacy", "file"], seed), RenderImgC=rot(["png", "none", "jpeg", "gif"], seed), PrepC={False},
             TkC=rot(TKS, seed), MkC=rot(MKS, seed), MdViaC=rot(["file", "string"], seed))
    a.update(over)
    return a


def gencfg(ctx, name, ops, args, depth, first=(), last=()):
    c = {"MaxSteps": 0, "Depth": depth, "OpNames": set(ops), "Design": "byformat", "FirstC": set(first), "LastC": set(last)}
    c.update(args)
    return ctx.cfg(name, "SpecGen", c, invariants=["Emit"])


CORE = ["AddParagraph", "AddHeading", "AddMathFormula", "AddListItem", "AddFootnote", "AddEndnote", "AddTable", "TableStyle",
        "GenerateTOC", "SetTitle", "UpdateStatistics", "AddHeader", "AddFooterWithPageNumber", "AddFormattedHeader",
        "AddImage", "AddCellImage", "AddImageText", "AddStyle", "RemoveStyle", "SetFootnoteConfig", "RemoveFootnote", "PageSet",
        "AddTemplateBits", "Render", "RenderText", "ConvertMd", "Reopen", "Save", "ToBytes", "RemoveParagraphAt", "UpdateTOC"]
CORE_Q = [o for o in CORE if o not in ("RemoveStyle", "UpdateTOC", "RemoveParagraphAt", "PageSet", "GenerateTOC", "UpdateStatistics")]
SMALL = ["AddHeader", "AddImage", "AddFootnote", "SetTitle", "AddTemplateBits", "Render", "Reopen"]
STYLE_OPS = ["Reopen", "EditStyle", "AddStyle", "RemoveStyle", "SetParaStyle", "AddHeading", "Render"]
SPELL_PRE = ["AddParagraph", "AddHeader", "AddFooterWithPageNumber", "AddImage", "AddCellImage", "AddFootnote", "AddEndnote", "AddListItem",
             "SetTitle", "AddStyle", "AddTable", "SetFootnoteConfig", "AddTemplateBits", "ConvertMd", "RenderText", "Render"]
SPELL_MID = ["AddHeader", "AddImage", "AddFootnote", "SetTitle", "AddStyle", "EditStyle", "AddListItem", "Render", "ToBytes"]
SMALL_T = SMALL + ["AddParagraph", "ToBytes", "AddListItem", "AddEndnote", "RenderText", "Save", "AddCellImage"]


def plans(seed, q):
    """(tag, ops, argument classes, depth, first, last, lazy)"""
    P = [
        # every operation x every argument class
        # (Render: of a template document that holds placeholders in body, table, header, footer)
        ("single", ALLOPS, WIDE, 1, (), (), False),
        # every pair over the core alphabet
        ("pairs", CORE_Q if q else CORE, small(seed), 2, (), (), not q),
        # every triple over the small alphabet
        ("triples", SMALL if q else SMALL_T, small(seed + 1), 3, (), (), True),
        # a document read back from a package (its parts are preserved and edits are spliced into them), then every pair of
        # style-manager calls (every kind of in-place edit), written once at the end (lazy pass) and after every call (eager)
        ("styles", STYLE_OPS, small(seed, StyleEdC=set(STYLE_EDS), PrepC={True}), 3, ("Reopen",), (), True),
        # every content call, then a reopen through every spelling another producer may give the package
        ("spell", SPELL_PRE + ["Reopen"], small(seed + 2, SpellC=set(SPELLS)), 2, SPELL_PRE, ("Reopen",), False),
    ]
    if not q:
        P += [
            # header/footer/body text of a hostile class, then rendered with values of a hostile class
            ("hfr", HF + ["AddParagraph", "Render"], small(seed, TextC=rot(HOSTILE, seed, 3), KindC={"default"}, RenderImgC={"none"}), 2,
             HF + ["AddParagraph"], ("Render",), False),
            ("pairs2", CORE, small(seed + 2, TextC=rot(TEXTS, seed + 2)), 2, (), (), True),
            ("pairs3", [o for o in ALLOPS if o not in CORE] + ["Reopen", "Render", "ToBytes"], small(seed + 3), 2, (), (), True),
            ("imgpairs", ["AddImage", "AddCellImage", "Reopen", "Render", "AddTemplateBits"],
             small(seed, FmtC=set(FMTS), NameC=rot(NAMES, seed, 3), ImgViaC={"data", "file"}), 2, (), (), False),
            # content, reopen through every spelling, content again (both passes)
            ("spell3", SPELL_MID + ["Reopen"], small(seed + 1, SpellC=set(SPELLS)), 3, SPELL_MID, SPELL_MID, True),
            # reopened through a spelling, then every pair of content calls / further reopens
            ("spell3b", SPELL_MID + ["Reopen"], small(seed + 3, SpellC=rot(SPELLS_R, seed, 4)), 3, ("Reopen",), (), True),
            # four calls on an opened document over the style alphabet and both save entry points
            ("styles4", STYLE_OPS + ["ToBytes"], small(seed + 1, StyleEdC=rot(STYLE_EDS, seed, 3), PrepC={True}), 4, ("Reopen",), (), True),
            ("quads", ["AddHeader", "AddImage", "AddFootnote", "Render", "Reopen", "AddTemplateBits", "ConvertMd"], small(seed + 4), 4, (), (), False),
        ]
    return P


def execute(ctx, cases, tag):
    obs = ctx.run_exec("pkg", cases, tag)
    res = ctx.tlc_trace("Pkg_Trace.tla", "Pkg_Trace.cfg", obs, tag)
    dev = ctx.extra_cov.setdefault("model_deviations", [])
    notes = ctx.extra_cov.setdefault("outside_premise_notes", [])
    for w in res:
        if w["sig"][0] == "M01" and w["sig"] not in dev:
            dev.append(w["sig"])
        if w["sig"][0] == "N01" and w["sig"] not in notes:
            notes.append(w["sig"])
        if w["sig"][0] == "X01":
            FAULTS.append("%s (case %s, %s)" % (w["sig"], w["case"], w["tag"]))
    return res


CHUNK = 4000
FAULTS = []


def verdict(ctx):
    """The package a Reopen handed to the library must satisfy the property itself (X01 otherwise): on a tree that shows no
    violation such a step means the respelling machinery is broken, and the run must not pass for it."""
    rc = ctx.finish(LEVEL, RULE)
    if rc == 0 and FAULTS:
        raise vlib.Machinery("Reopen was fed a package that violates C01 itself: " + "; ".join(FAULTS[:5]))
    return rc


def pipeline(ctx, replay_case=None):
    q = ctx.tier == "quick"
    ctx.assumptions.extend(ASSUMPTIONS)
    ctx.tlc_mc("Pkg_MC.tla", "Pkg_MC_quick.cfg" if q else "Pkg_MC_thorough.cfg", workers=4 if q else 8)
    # non-vacuity: the pinned tree's design (media part named by the original extension) must violate the invariant
    rc, out, gen, dist = ctx._tlc("Pkg_MC.tla", "Pkg_MC_byname_cex.cfg", [], 300, workers=2)
    if "Invariant Inv_C01 is violated" not in out:
        raise vlib.Machinery("Pkg_MC_byname_cex.cfg: the by-name design no longer violates Inv_C01 (vacuous invariant?):\n" + vlib.tail(out))
    ctx.extra_cov["non_vacuity"] = "Pkg_MC_byname_cex.cfg (Design = byname, the pinned tree's media naming): TLC reports Inv_C01 violated"
    if replay_case is not None:
        execute(ctx, [replay_case], "replay")
        return verdict(ctx)
    cnt = collections.Counter()
    cls = collections.Counter()
    allc, bounds = [], {}
    for tag, ops, args, depth, first, last, lazy in plans(ctx.seed, q):
        cs = ctx.tlc_gen("Pkg_MC.tla", gencfg(ctx, "gen_%s.cfg" % tag, ops, args, depth, first, last), "bfs" + tag)
        for c in cs:
            c["extra"] = {"lazy": lazy}
        allc += cs
        if tag == "single" and not q:
            # every operation x every class again under the other concretisations of each class
            for k in (1, 2, 3):
                allc += [dict(c, id=c["id"] + k * 1000000, extra={"lazy": False, "conc": k}) for c in cs]
        bounds[tag] = {"ops": len(set(ops)), "depth": depth, "behaviours": len(cs), "lazy_pass": lazy,
                       "args": {k: sorted(v) for k, v in args.items()} if args is not WIDE else "all classes"}
    ctx.exhaustive = True
    # seeded random long behaviours over the whole alphabet; -simulate evaluates every successor at every step, so each
    # run draws from pools narrowed by rotation (run k of seed s uses rotation s + k) and ends in a save entry point
    d = 10 if q else 16
    for k in range(1 if q else 4):
        r = ctx.seed + k
        pools = small(r, TextC=rot(TEXTS, r, 2) | rot(HOSTILE, r), FmtC=rot(FMTS, r, 2), NameC=rot(NAMES, r, 2),
                      KindC={"default", "first", "even"}, RenderImgC={"none", "png"}, ReopenC={"mem", "file"}, PrepC={True, False},
                      SpellC=rot(SPELLS_R, r, 2), StyleEdC=rot(STYLE_EDS, r, 2))
        cs = ctx.tlc_gen("Pkg_MC.tla", gencfg(ctx, "gen_sim%d.cfg" % k, ALLOPS, pools, d, last=["ToBytes", "Save"]),
                         "sim%d" % k, mode="sim", num=20 if q else 100, depth=d + 1, seed_off=k, limit=40 if q else 300)
        for c in cs:
            c["extra"] = {"lazy": True}
        allc += cs
    bounds["sim"] = {"depth": d, "runs": 1 if q else 4}
    for c in allc:
        for s in c["steps"]:
            cnt[s["op"]] += 1
            for f in ("tc", "fmt", "nm", "tk", "mk"):
                if f in s:
                    cls[f + "=" + s[f]] += 1
    for k in range(0, len(allc), CHUNK):
        tag = "gen%d" % (k // CHUNK)
        ctx.cases_by_tag[tag] = {c["id"]: c for c in allc[k:k + CHUNK]}
        execute(ctx, allc[k:k + CHUNK], tag)
    ctx.extra_cov["bounds"] = bounds
    ctx.extra_cov["op_counts"] = dict(cnt)
    ctx.extra_cov["class_counts"] = dict(cls)
    ctx.extra_cov["exhaustive_over"] = ("operation x argument class (depth 1), pairs of the core alphabet, triples of the small "
                                         "alphabet, for the rotated argument classes listed under bounds")
    return verdict(ctx)


def run(ctx):
    return pipeline(ctx)


def replay(ctx, rp):
    c = rp["case"]
    ctx.cases_by_tag["replay"] = {c["id"]: c}
    return pipeline(ctx, c)
