#!/usr/bin/env python3
"""markfixed.py <proposed_fixes/NAME.diff> <commit> — integrator helper: after a proposed fix has been committed to
/repo as a `fix:` commit, flip every known finding that names it to status "fixed" (fixed entries suppress nothing)."""
import json, glob, sys, os
V = os.path.dirname(os.path.abspath(__file__))
name, commit = sys.argv[1], sys.argv[2]
base = os.path.basename(name).replace(".after-hooks", "")
n = 0
for p in glob.glob(os.path.join(V, "known_findings.d", "*.json")):
    d = json.load(open(p)); ch = False
    for f in d["findings"]:
        if f.get("status", "open") == "open" and os.path.basename(f.get("fix", "")) == base:
            f["status"] = "fixed"; f["commit"] = commit; ch = True; n += 1
    if ch:
        json.dump(d, open(p, "w"), indent=1, ensure_ascii=False); open(p, "a").write("\n")
print("flipped", n, "finding(s) for", base)
