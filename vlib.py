"""Shared machinery of /verif/check.

Pipeline per property (see DESIGN.md §2):
  (1) TLC exhaustive check of the module's *_MC spec        -> design-level invariants
  (2) TLC generation of abstract behaviours (BFS / simulate) -> cases
  (3) Go harness executes the cases on the real library      -> observations
  (4) TLC trace judge re-evaluates the spec on observations  -> witnesses
  (5) witnesses are partitioned by known_findings.json        -> exit code, evidence

Exit codes: 0 property held on everything explored, 1 violation (from real-code
behaviour only), 2 machinery failure (never a verdict).
"""
import json, os, re, shutil, subprocess, sys, time, hashlib, glob

VERIF = os.path.dirname(os.path.abspath(__file__))
REPO = os.environ.get("WZ_REPO", "/repo")
RUNS = os.path.join(VERIF, "runs")
GOENV = dict(GOFLAGS="-mod=mod", GOPROXY="off", GOSUMDB="off", GOTOOLCHAIN="local")
NCPU = os.cpu_count() or 4


class Machinery(Exception):
    """The verification machinery itself failed (exit 2, never a violation)."""


def log(*a):
    print(*a, file=sys.stderr, flush=True)


class Ctx:
    def __init__(self, prop, tier, seed, keep=False, purge=True):
        self.prop, self.tier, self.seed, self.keep = prop, tier, seed, keep
        self.t0 = time.time()
        self.work = os.path.join(RUNS, "%s-%s-%d" % (prop, tier, os.getpid()))
        shutil.rmtree(self.work, ignore_errors=True)
        os.makedirs(self.work)
        if purge:
            for old in glob.glob(os.path.join(RUNS, "replay", prop + "-*.json")):
                os.remove(old)
        self.specdir = os.path.join(self.work, "spec")
        shutil.copytree(os.path.join(VERIF, "spec"), self.specdir)
        self.states = 0          # distinct states over all TLC runs of this invocation
        self.transitions = 0     # generated states over all TLC runs
        self.traces = 0          # behaviours executed on the real library and judged
        self.events = 0
        self.samples = []
        self.witnesses = []      # [{sig:[...], case:int, src:tag}]
        self.cases_by_tag = {}   # tag -> {id: case}
        self.notes = {}
        self.mc_runs = []
        self.exhaustive = None
        self.assumptions = []
        self.wzh = None
        self.tlc_seq = 0
        self.extra_cov = {}

    # ------------------------------------------------------------------ build
    def build_harness(self, race=False):
        out = os.path.join(self.work, "wzh-race" if race else "wzh")
        hdir = os.path.join(VERIF, "harness")
        # the module file is generated per run so that the library under test is $WZ_REPO (default /repo)
        modfile = os.path.join(self.work, "go.mod")
        with open(os.path.join(hdir, "go.mod")) as f:
            mod = f.read().replace("=> /repo", "=> " + REPO)
        with open(modfile, "w") as f:
            f.write(mod)
        shutil.copy(os.path.join(REPO, "go.sum"), os.path.join(self.work, "go.sum"))
        env = dict(os.environ, **GOENV)
        cmd = ["go", "build", "-modfile", modfile, "-tags", "verif"] + (["-race"] if race else []) + ["-o", out, "./cmd/wzh"]
        r = subprocess.run(cmd, cwd=hdir, env=env, capture_output=True, text=True)
        if r.returncode != 0:
            raise Machinery("harness build failed (does %s still compile?):\n" % REPO + r.stdout + r.stderr)
        if not race:
            self.wzh = out
        return out

    # -------------------------------------------------------------------- TLC
    def cfg(self, name, spec, consts=None, invariants=(), properties=(), constraints=(), view=None, extra=""):
        """Write a TLC configuration into the scratch spec directory and return its name."""
        lines = ["SPECIFICATION " + spec]
        if consts:
            lines.append("CONSTANTS")
            for k, v in consts.items():
                lines.append("  %s = %s" % (k, tla_value(v)))
        if invariants:
            lines.append("INVARIANTS " + " ".join(invariants))
        if properties:
            lines.append("PROPERTIES " + " ".join(properties))
        if constraints:
            lines.append("CONSTRAINTS " + " ".join(constraints))
        if view:
            lines.append("VIEW " + view)
        lines.append("CHECK_DEADLOCK FALSE")
        if extra:
            lines.append(extra)
        with open(os.path.join(self.specdir, name), "w") as f:
            f.write("\n".join(lines) + "\n")
        return name

    def _tlc(self, spec, cfg, extra, timeout, env=None, workers=None):
        self.tlc_seq += 1
        meta = os.path.join(self.work, "meta%d" % self.tlc_seq)
        cmd = ["tlc", "-metadir", meta, "-config", cfg, "-workers", str(workers or min(NCPU, 8))] + extra + [spec]
        e = dict(os.environ)
        e.setdefault("JAVA_TOOL_OPTIONS", "-Xss256m")
        if env:
            e.update(env)
        t = time.time()
        try:
            r = subprocess.run(cmd, cwd=self.specdir, env=e, capture_output=True, text=True, timeout=timeout)
        except subprocess.TimeoutExpired:
            subprocess.run(["pkill", "-f", meta])
            raise Machinery("TLC timed out after %ss: %s %s" % (timeout, spec, cfg))
        out = r.stdout + r.stderr
        shutil.rmtree(meta, ignore_errors=True)
        gen = dist = 0
        m = re.search(r"(\d+) states generated, (\d+) distinct states found", out)
        if m:
            gen, dist = int(m.group(1)), int(m.group(2))
        else:
            m = re.search(r"The number of states generated: (\d+)", out)
            if m:
                gen = dist = int(m.group(1))
        self.states += dist
        self.transitions += gen
        log("  tlc %s %s: %d generated / %d distinct, %.1fs" % (spec, cfg, gen, dist, time.time() - t))
        return r.returncode, out, gen, dist

    def tlc_mc(self, spec, cfg, timeout=900, workers=None):
        """Exhaustive model check; any error here is a defect of the spec -> machinery error."""
        rc, out, gen, dist = self._tlc(spec, cfg, [], timeout, workers=workers)
        if "Model checking completed. No error has been found." not in out:
            raise Machinery("TLC model check of %s/%s did not pass:\n%s" % (spec, cfg, tail(out)))
        self.mc_runs.append({"spec": spec, "cfg": cfg, "generated": gen, "distinct": dist})
        return gen, dist

    def tlc_gen(self, spec, cfg, tag, mode="bfs", num=0, depth=0, timeout=1800, seed_off=0, limit=None):
        """Generate abstract behaviours. Returns list of cases [{'id':n,'steps':[...]}]."""
        extra = []
        workers = 1
        if mode == "sim":
            extra = ["-simulate", "num=%d" % num, "-depth", str(depth), "-seed", str(self.seed * 1000 + seed_off)]
        rc, out, gen, dist = self._tlc(spec, cfg, extra, timeout, workers=workers)
        errs = [l for l in out.splitlines() if l.startswith("Error:")]
        if errs:
            raise Machinery("TLC generation %s/%s failed:\n%s" % (spec, cfg, tail(out)))
        cases = []
        seen = set()
        base = len(self.cases_by_tag) * 10000000
        for m in re.finditer(r'^<<"WZCASE", (".*")>>$', out, re.M):
            try:
                s = json.loads(m.group(1))
                if s in seen:
                    continue
                seen.add(s)
                steps = json.loads(s)
            except Exception as ex:
                raise Machinery("cannot parse generated case: %r (%s)" % (m.group(1)[:200], ex))
            c = normalise_case(steps)
            c["id"] = base + len(cases) + 1
            cases.append(c)
            if limit and len(cases) >= limit:
                break
        if not cases:
            raise Machinery("TLC generation %s/%s produced no behaviours:\n%s" % (spec, cfg, tail(out)))
        self.cases_by_tag[tag] = {c["id"]: c for c in cases}
        log("  gen %s: %d behaviours" % (tag, len(cases)))
        return cases

    # ---------------------------------------------------------------- harness
    def run_exec(self, module, cases, tag, shards=None, timeout=3600, env=None, binary=None):
        """Execute cases on the real library; returns path of the observation file."""
        if self.wzh is None:
            self.build_harness()
        binary = binary or self.wzh
        shards = shards or min(NCPU, max(1, len(cases) // 50))
        shards = max(1, min(shards, len(cases)))
        procs = []
        e = dict(os.environ, VERIF_SEED=str(self.seed))
        if env:
            e.update(env)
        for s in range(shards):
            cf = os.path.join(self.work, "%s.cases.%d.ndjson" % (tag, s))
            of = os.path.join(self.work, "%s.obs.%d.ndjson" % (tag, s))
            with open(cf, "w") as f:
                for c in cases[s::shards]:
                    f.write(json.dumps(c, ensure_ascii=False) + "\n")
            p = subprocess.Popen([binary, module, cf, of], env=e, stdout=subprocess.PIPE, stderr=subprocess.PIPE, text=True, cwd=self.work)
            procs.append((p, of, cf))
        obs = os.path.join(self.work, "%s.obs.ndjson" % tag)
        nev = 0
        with open(obs, "w") as out:
            for p, of, cf in procs:
                try:
                    so, se = p.communicate(timeout=timeout)
                except subprocess.TimeoutExpired:
                    p.kill()
                    raise Machinery("harness timed out on %s" % cf)
                if p.returncode != 0:
                    raise Machinery("harness %s failed (rc=%s) on %s:\n%s" % (module, p.returncode, cf, tail(se)))
                with open(of) as f:
                    for line in f:
                        out.write(line)
                        nev += 1
                os.remove(of)
        self.events += nev
        self.traces += len(cases)
        if len(self.samples) < 4:
            self.samples.extend(c["steps"] if "steps" in c else c for c in cases[: 4 - len(self.samples)])
        log("  exec %s: %d behaviours, %d events" % (tag, len(cases), nev))
        return obs

    # ------------------------------------------------------------------ judge
    def tlc_trace(self, spec, cfg, obs, tag, timeout=3600, env=None):
        """Judge observations with the TLA+ trace spec. Adds witnesses; returns them."""
        n = sum(1 for _ in open(obs))
        e = {"WZ_OBS": obs}
        if env:
            e.update(env)
        rc, out, gen, dist = self._tlc(spec, cfg, [], timeout, env=e, workers=1)
        m = re.search(r'^<<"WZDONE", (\d+), (".*")>>$', out, re.M)
        if not m:
            raise Machinery("trace judge %s did not finish:\n%s" % (spec, tail(out, 60)))
        if int(m.group(1)) != n:
            raise Machinery("trace judge %s consumed %s of %d events" % (spec, m.group(1), n))
        wit = json.loads(json.loads(m.group(2)))
        res = []
        for w in wit:
            res.append({"sig": [str(x) for x in w["sig"]], "case": w["case"], "tag": tag})
        self.witnesses.extend(res)
        log("  judge %s: %d events, %d distinct witness signatures" % (tag, n, len(res)))
        return res

    # ----------------------------------------------------------------- verdict
    def add_witness(self, sig, case, tag):
        """Witness produced outside TLC (e.g. process crash observed by the driver)."""
        self.witnesses.append({"sig": [str(x) for x in sig], "case": case, "tag": tag})

    def finish(self, level="model_checking", rule=None):
        known = load_known()
        mine = {}
        for w in self.witnesses:
            if w["sig"][0] != self.prop:
                continue
            mine.setdefault(tuple(w["sig"]), w)
        viol, seen_known = [], []
        for sig, w in sorted(mine.items()):
            k = match_known(known, self.prop, sig)
            if k:
                if k not in seen_known:
                    seen_known.append(k)
            else:
                viol.append(w)
        for k in seen_known:
            print("KNOWN-FINDING: property=%s %s" % (self.prop, k["what"]))
        rdir = os.path.join(RUNS, "replay")
        os.makedirs(rdir, exist_ok=True)
        for w in viol:
            h = hashlib.sha1(json.dumps(w["sig"]).encode()).hexdigest()[:10]
            path = os.path.join(rdir, "%s-%s.json" % (self.prop, h))
            case = self.cases_by_tag.get(w["tag"], {}).get(w["case"])
            with open(path, "w") as f:
                json.dump({"property": self.prop, "signature": w["sig"], "tag": w["tag"], "case": case}, f, ensure_ascii=False)
            print("VIOLATION property=%s replay=%s signature=%s" % (self.prop, path, json.dumps(w["sig"], ensure_ascii=False)))
        cov = {
            "states": self.states,
            "transitions": self.transitions,
            "traces_validated_against_impl": self.traces,
            "events_judged": self.events,
            "samples": self.samples[:4] or ["(none)"],
            "model_check_runs": self.mc_runs,
            "witness_signatures": [list(s) for s in sorted(mine)],
            "known_findings_seen": [k["what"] for k in seen_known],
        }
        if rule:
            cov["rule"] = rule
        if self.exhaustive is not None:
            cov["exhaustive"] = self.exhaustive
        cov.update(self.extra_cov)
        ev = {
            "property_id": self.prop,
            "tier": self.tier,
            "seed": self.seed,
            "level": level,
            "coverage": cov,
            "assumptions": self.assumptions,
            "wall_s": round(time.time() - self.t0, 2),
            "violations": len(viol),
        }
        # evidence/ describes runs against /repo only; a run against another tree ($WZ_REPO, used for
        # mutants and seeded changes) leaves it alone and writes under runs/
        evdir = os.path.join(VERIF, "evidence") if os.path.realpath(REPO) == "/repo" else os.path.join(RUNS, "evidence-other-tree")
        os.makedirs(evdir, exist_ok=True)
        with open(os.path.join(evdir, self.prop + ".json"), "w") as f:
            json.dump(ev, f, indent=1, ensure_ascii=False)
            f.write("\n")
        if not self.keep:
            shutil.rmtree(self.work, ignore_errors=True)
        log("%s %s: %d behaviours on the real library, %d states, %d violation(s), %d known finding(s), %.1fs"
            % (self.prop, self.tier, self.traces, self.states, len(viol), len(seen_known), time.time() - self.t0))
        return 1 if viol else 0


def tla_value(v):
    if isinstance(v, bool):
        return "TRUE" if v else "FALSE"
    if isinstance(v, int):
        return str(v)
    if isinstance(v, str):
        return json.dumps(v)
    if isinstance(v, (set, frozenset)):
        return "{" + ", ".join(tla_value(x) for x in sorted(v, key=str)) + "}"
    if isinstance(v, (list, tuple)):
        return "<<" + ", ".join(tla_value(x) for x in v) + ">>"
    if isinstance(v, Raw):
        return v.s
    raise ValueError(v)


class Raw:
    """A TLA+ expression passed through verbatim."""
    def __init__(self, s):
        self.s = s


def normalise_case(x):
    if isinstance(x, list):
        return {"steps": x}
    if isinstance(x, dict) and "steps" in x:
        return x
    return {"steps": [], "extra": x}


def tail(s, n=40):
    return "\n".join(s.splitlines()[-n:])


def load_known():
    """known_findings.json plus known_findings.d/*.json (one file per property, merged)."""
    out = []
    files = [os.path.join(VERIF, "known_findings.json")] + sorted(glob.glob(os.path.join(VERIF, "known_findings.d", "*.json")))
    for p in files:
        if os.path.exists(p):
            with open(p) as f:
                out.extend(json.load(f).get("findings", []))
    return out


def match_known(known, prop, sig):
    for k in known:
        if k.get("status", "open") != "open" or k["property"] != prop:
            continue
        ks = k["signature"]
        if len(ks) != len(sig):
            continue
        if all(a == "*" or a == b for a, b in zip(ks, sig)):
            return k
    return None
