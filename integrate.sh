#!/bin/sh
# integrate.sh <Cnn>...  — merge builder branch(es) build-Cnn into main, regenerate the manifest, smoke-run.
set -e
cd "$(dirname "$0")"
for id in "$@"; do
  git merge --no-ff -q -m "merge build-$id" "build-$id" || { echo "MERGE CONFLICT for $id"; exit 1; }
done
./mkmanifest.py
./setup.sh
git add -A && git commit -qm "integrate $*: manifest regenerated" || true
echo integrated "$@"
