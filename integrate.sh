#!/bin/sh
# integrate.sh <Cnn>...  — merge builder branch(es) build-Cnn into main, regenerate the manifest, smoke-run.
# evidence/ is written by the checks in /verif itself: on conflict our copy always wins.
set -e
cd "$(dirname "$0")"
for id in "$@"; do
  if ! git merge --no-ff -q -m "merge build-$id" "build-$id" 2>/dev/null; then
    for f in $(git diff --name-only --diff-filter=U); do
      case "$f" in evidence/*) git checkout --ours -- "$f" 2>/dev/null || git rm -q --cached "$f"; git add "$f" 2>/dev/null || true;; *) echo "MERGE CONFLICT for $id in $f"; exit 1;; esac
    done
    git commit -qm "merge build-$id"
  fi
done
./mkmanifest.py
./setup.sh
git add -A && git commit -qm "integrate $*: manifest regenerated" || true
echo integrated "$@"
