------------------------------- MODULE MdIn -------------------------------
(***************************************************************************)
(* Reference semantics of Markdown -> Word conversion (property C19).      *)
(*                                                                         *)
(* The subsystem: a converter is created with options (NewConverter) and   *)
(* then converts Markdown given as a string, as bytes, as a file or as a   *)
(* batch of files.  A conversion is a pure function of (Markdown, options):*)
(* it changes nothing the next conversion can see.                         *)
(*                                                                         *)
(* Markdown documents are abstract syntax trees.  Every node is the record *)
(*   [t, n, a, x, k]   (one JSON shape)                                    *)
(* inline nodes                                                            *)
(*   t = "txt"  x = text atom                                              *)
(*       "sb"   soft line break                                            *)
(*       "em" "st" "del" "link"   k = inline children                      *)
(*       "code" "math"            k = txt children                         *)
(* block nodes                                                             *)
(*   t = "h"    n = level 1..6, a = "atx" | "setext", k = inline           *)
(*       "p"    k = inline                                                 *)
(*       "q"    k = blocks                                                 *)
(*       "ul" "ol"  k = items;  item: t = "item", a = "none"|"open"|"done" *)
(*              (task state), k = blocks, the first one a "p"              *)
(*       "fence" "icode"  a = info string, k = lines; fence: n = indentation*)
(*              of the fence itself (0..3 columns)                        *)
(*              line: t = "line", a = indentation "0" | "2" | "t" (tab),   *)
(*              k = txt children (none = blank line)                       *)
(*       "hr"                                                              *)
(*       "tbl"  k = rows, the first one the header; row: t = "row",        *)
(*              k = cells; cell: t = "cell", a = column alignment          *)
(*              "n" | "l" | "c" | "r" (header cells; "" elsewhere),        *)
(*              k = inline                                                 *)
(*       "mathb" k = txt children (a display formula  $$ .. $$)            *)
(*                                                                         *)
(* Text atoms (the harness owns several concrete spellings per atom):      *)
(*   w1..w4 plain words; u* non-ASCII words; x* words with XML             *)
(*   metacharacters; e* a Markdown metacharacter written with a backslash  *)
(*   escape; n* a character written as an entity reference; a1 an          *)
(*   autolink <http://..>; a2 a bare URL (a link with GFM, plain text      *)
(*   without); m* raw metacharacters inside code; k* a LaTeX command.      *)
(* An atom is ONE visible token whatever its spelling in the source.       *)
(*                                                                         *)
(* Siblings of an inline sequence are separated by one space in the        *)
(* source unless one of them is a soft break (a newline in the source).    *)
(*                                                                         *)
(* Options  o = [gfm, tables, tasks, math, fn, toc : BOOLEAN, lvl : Nat].  *)
(*                                                                         *)
(* ToWord(ast, o) is the expected abstract Word body: a sequence of        *)
(*   [k |-> "h",  lvl, toks]     paragraph in heading style of that level  *)
(*   [k |-> "p",  toks]          paragraph; toks = Seq([t, f]) visible     *)
(*                               tokens with the run flags b i s c         *)
(*   [k |-> "li", toks]          list item text (marker not prescribed)    *)
(*   [k |-> "cl", toks]          one line of a code block, indentation     *)
(*                               tokens "sp" / "tab" in front              *)
(*   [k |-> "hr"]                an empty block                            *)
(*   [k |-> "math", toks]        display formula                           *)
(*   [k |-> "tbl", rows, al]     rows = Seq(Seq(toks)), al = Seq(align)    *)
(*   [k |-> "weak", toks]        (table parsed but table support switched  *)
(*                               off) only the visible words are prescribed*)
(* Tokens: an atom, "sp", "tab", "box0"/"box1" (task state), or            *)
(* "c:<char>" for a literal character.                                     *)
(***************************************************************************)
EXTENDS Integers, Sequences, FiniteSets, TLC

Nd(t, n, a, x, k) == [t |-> t, n |-> n, a |-> a, x |-> x, k |-> k]
Txt(a)     == Nd("txt", 0, "", a, <<>>)
SoftBr     == Nd("sb", 0, "", "", <<>>)
Inl(t, k)  == Nd(t, 0, "", "", k)

InlKinds  == {"em", "st", "del", "link", "code", "math"}
ListKinds == {"ul", "ol"}
FmtKinds  == {"em", "st", "del", "code"}      \* inline constructs that map to run formatting

Words == {"w1", "w2", "w3", "w4"}
AtomClass(a) ==
  CASE a \in Words        -> "w"
    [] a \in {"u1", "u2"} -> "uni"
    [] a \in {"x1", "x2"} -> "xml"
    [] a \in {"e1", "e2"} -> "esc"
    [] a \in {"n1", "n2"} -> "ent"
    [] a = "a1"           -> "auto"
    [] a = "a2"           -> "bare"
    [] a \in {"m1", "m2"} -> "raw"
    [] a = "k1"           -> "tex"
    [] OTHER              -> "?"

\* ---- options -------------------------------------------------------------
\* bit order of the option mask used by the totality cases (the harness decodes the same way)
LvlOf(i) == CASE i = 0 -> 0 [] i = 1 -> 1 [] i = 2 -> 3 [] OTHER -> 9
Bit(m, b) == (m \div b) % 2 = 1
OptOfMask(m) == [gfm |-> Bit(m, 1), tables |-> Bit(m, 2), tasks |-> Bit(m, 4), math |-> Bit(m, 8),
                 fn |-> Bit(m, 16), toc |-> Bit(m, 32), lvl |-> LvlOf((m \div 64) % 4)]
DefaultOpts == [gfm |-> TRUE, tables |-> TRUE, tasks |-> TRUE, math |-> TRUE, fn |-> TRUE, toc |-> TRUE, lvl |-> 3]

\* ---- the converter as a state machine ---------------------------------------
\* NewConverter fixes the options; a Convert* call may repeat them (or pass none).  What a call with
\* *different* options means is not documented, so it is never generated (Guard).
NewConv(o) == [opts |-> o]
Guard(c, op) == op.op = "conv" => op.co \in {"nil", "same"}
Apply(c, op) == IF op.op = "new" THEN NewConv(op.opts) ELSE c      \* converting changes nothing

\* ---- expected visible tokens of inline content -----------------------------
T(t, F) == [t |-> t, f |-> F]
Sp  == T("sp", {})
Ch(c, F) == T("c:" \o c, F)

RECURSIVE RInl(_, _, _), RNode(_, _, _), RMath(_, _)

RInl(s, F, o) ==
  IF s = <<>> THEN <<>>
  ELSE IF Len(s) = 1 THEN RNode(s[1], F, o)
  ELSE RNode(s[1], F, o)
       \o (IF s[1].t = "sb" \/ s[2].t = "sb" THEN <<>> ELSE <<Sp>>)
       \o RInl(Tail(s), F, o)

\* formula atoms are written a+b+c
RMath(s, F) ==
  IF s = <<>> THEN <<>>
  ELSE IF Len(s) = 1 THEN <<T(s[1].x, F)>>
  ELSE <<T(s[1].x, F), Ch("+", F)>> \o RMath(Tail(s), F)

RNode(x, F, o) ==
  CASE x.t = "txt"  -> <<T(x.x, F)>>
    [] x.t = "sb"   -> <<Sp>>
    [] x.t = "em"   -> RInl(x.k, F \cup {"i"}, o)
    [] x.t = "st"   -> RInl(x.k, F \cup {"b"}, o)
    [] x.t = "del"  -> IF o.gfm THEN RInl(x.k, F \cup {"s"}, o)
                       ELSE <<Ch("~", F), Ch("~", F)>> \o RInl(x.k, F, o) \o <<Ch("~", F), Ch("~", F)>>
    [] x.t = "code" -> RInl(x.k, F \cup {"c"}, o)
    [] x.t = "link" -> RInl(x.k, F, o)
    [] x.t = "math" -> IF o.math THEN RMath(x.k, F)
                       ELSE <<Ch("$", F)>> \o RMath(x.k, F) \o <<Ch("$", F)>>
    [] OTHER        -> <<T("?", F)>>

\* ---- expected Word blocks ---------------------------------------------------
Indent(a) == CASE a = "2" -> <<Sp, Sp>> [] a = "t" -> <<T("tab", {})>> [] OTHER -> <<>>
LineToks(ln) == Indent(ln.a) \o RInl(ln.k, {}, DefaultOpts)
\* a line of a fenced block whose opening fence is indented by n columns (1..3): up to n columns of the line's own
\* indentation are removed; a tab is 4 columns wide and what is left of a partly consumed tab is spaces
IndCols(a) == CASE a = "2" -> 2 [] a = "t" -> 4 [] OTHER -> 0
FenceLineToks(ln, n) ==
  IF n = 0 THEN LineToks(ln)
  ELSE LET rem == IF IndCols(ln.a) > n THEN IndCols(ln.a) - n ELSE 0
       IN [i \in 1..rem |-> Sp] \o RInl(ln.k, {}, DefaultOpts)

AlLit(a) == CASE a = "l" -> <<Ch(":", {}), Ch("-", {}), Ch("-", {})>>
              [] a = "c" -> <<Ch(":", {}), Ch("-", {}), Ch(":", {})>>
              [] a = "r" -> <<Ch("-", {}), Ch("-", {}), Ch(":", {})>>
              [] OTHER   -> <<Ch("-", {}), Ch("-", {}), Ch("-", {})>>
Bar == Ch("|", {})

RECURSIVE RowLit(_, _, _), DelimLit(_, _), TblLit(_, _, _), CellWords(_, _, _)
\* a table row as literal text  | c1 | c2 |
RowLit(cells, i, o) ==
  IF i > Len(cells) THEN <<Bar>>
  ELSE <<Bar, Sp>> \o RInl(cells[i].k, {}, o) \o <<Sp>> \o RowLit(cells, i + 1, o)
DelimLit(cells, i) ==
  IF i > Len(cells) THEN <<Bar>>
  ELSE <<Bar, Sp>> \o AlLit(cells[i].a) \o <<Sp>> \o DelimLit(cells, i + 1)
TblLit(rows, i, o) ==
  IF i > Len(rows) THEN <<>>
  ELSE (IF i = 1 THEN RowLit(rows[1].k, 1, o) \o <<Sp>> \o DelimLit(rows[1].k, 1)
        ELSE <<Sp>> \o RowLit(rows[i].k, 1, o))
       \o TblLit(rows, i + 1, o)
CellWords(rows, i, o) ==
  IF i > Len(rows) THEN <<>>
  ELSE LET r == rows[i].k
           RECURSIVE cw(_)
           cw(j) == IF j > Len(r) THEN <<>> ELSE RInl(r[j].k, {}, o) \o <<Sp>> \o cw(j + 1)
       IN cw(1) \o CellWords(rows, i + 1, o)

RECURSIVE Blk(_, _), FlatBlks(_, _), ItemsBlks(_, _)

FlatBlks(s, o) == IF s = <<>> THEN <<>> ELSE Blk(Head(s), o) \o FlatBlks(Tail(s), o)

BoxToks(a) == CASE a = "open" -> <<T("box0", {}), Sp>> [] a = "done" -> <<T("box1", {}), Sp>> [] OTHER -> <<>>

ItemsBlks(items, o) ==
  IF items = <<>> THEN <<>>
  ELSE LET it == Head(items)
       IN <<[k |-> "li", toks |-> BoxToks(it.a) \o RInl(it.k[1].k, {}, o)]>>
          \o FlatBlks(Tail(it.k), o)
          \o ItemsBlks(Tail(items), o)

Blk(b, o) ==
  CASE b.t = "h"    -> <<[k |-> "h", lvl |-> b.n, toks |-> RInl(b.k, {}, o)]>>
    [] b.t = "p"    -> <<[k |-> "p", toks |-> RInl(b.k, {}, o)]>>
    [] b.t = "q"    -> FlatBlks(b.k, o)
    [] b.t \in ListKinds -> ItemsBlks(b.k, o)
    [] b.t = "fence" -> [i \in 1..Len(b.k) |-> [k |-> "cl", toks |-> FenceLineToks(b.k[i], b.n)]]
    [] b.t = "icode" -> [i \in 1..Len(b.k) |-> [k |-> "cl", toks |-> LineToks(b.k[i])]]
    [] b.t = "hr"   -> <<[k |-> "hr"]>>
    [] b.t = "mathb" -> IF o.math THEN <<[k |-> "math", toks |-> RMath(b.k, {})]>>
                        ELSE <<[k |-> "p", toks |-> <<Ch("$", {}), Ch("$", {}), Sp>> \o RMath(b.k, {})
                                                     \o <<Sp, Ch("$", {}), Ch("$", {})>>]>>
    [] b.t = "tbl"  -> IF ~o.gfm THEN <<[k |-> "p", toks |-> TblLit(b.k, 1, o)]>>
                       ELSE IF ~o.tables THEN <<[k |-> "weak", toks |-> CellWords(b.k, 1, o)]>>
                       ELSE <<[k |-> "tbl",
                               rows |-> [i \in 1..Len(b.k) |-> [j \in 1..Len(b.k[i].k) |-> RInl(b.k[i].k[j].k, {}, o)]],
                               al |-> [j \in 1..Len(b.k[1].k) |-> b.k[1].k[j].a]]>>
    [] OTHER        -> <<[k |-> "?"]>>

ExpOf(ast, o) == [i \in 1..Len(ast) |-> Blk(ast[i], o)]
ToWord(ast, o) == FlatBlks(ast, o)
Ret(c, op) == IF op.op = "conv" THEN ToWord(op.ast, c.opts) ELSE <<>>

\* ---- what a block contains (names of construct classes) ----------------------
\* host = the kind of leaf the library treats the inline content as: "p" paragraph (runs are kept),
\* "h" heading, "li" anything inside a top-level list, "q" anything inside a top-level quote, "cell".
RECURSIVE CI(_, _, _, _), CIn(_, _, _, _)
CI(s, host, par, o) == UNION {CIn(s[i], host, par, o) : i \in 1..Len(s)}
CIn(x, host, par, o) ==
  LET pre == IF host = "p" THEN "" ELSE host \o "/" IN
  CASE x.t = "txt" -> LET c == AtomClass(x.x)
                      IN IF c = "w" \/ (c = "bare" /\ ~o.gfm) THEN {} ELSE {c}
    [] x.t = "sb"  -> IF host # "p" THEN {pre \o "sb"} ELSE IF par = "" THEN {"sb"} ELSE {par \o ">sb", "inl>sb"}
    [] OTHER       -> (IF host # "p" THEN {pre \o x.t} \cup (IF x.t \in FmtKinds THEN {pre \o "fmt"} ELSE {})
                       ELSE IF par = "" THEN {x.t} ELSE {x.t, par \o ">" \o x.t, "inl>inl"})
                      \cup (IF x.t = "del" /\ ~o.gfm THEN {"opt:gfm-off"} ELSE {})
                      \cup (IF x.t = "math" /\ ~o.math THEN {"opt:math-off"} ELSE {})
                      \cup CI(x.k, host, x.t, o)

RECURSIVE CB(_, _, _, _), CItem(_, _, _)
CItem(it, host, o) ==
  LET lists == {i \in 1..Len(it.k) : it.k[i].t \in ListKinds}
  IN (IF it.a # "none" THEN {"li:task"} \cup (IF ~o.gfm THEN {"opt:gfm-off"} ELSE {})
                                         \cup (IF ~o.tasks THEN {"opt:tasks-off"} ELSE {}) ELSE {})
     \cup (IF lists # {} THEN {"li:nest"} ELSE {})
     \* the item is more than one Word block (nested list, second paragraph, code)
     \cup (IF Len(ItemsBlks(<<it>>, o)) > 1 THEN {"li:multi"} ELSE {})
     \cup UNION {CB(it.k[i], "li", host, o) : i \in 1..Len(it.k)}

CB(b, par, host, o) ==
  LET me == IF par = "" THEN {b.t} ELSE {b.t, par \o ">" \o b.t}
      inner(h) == IF host = "" THEN h ELSE host
  IN
  CASE b.t = "h" -> me \cup (IF b.a = "setext" THEN {"h:setext"} ELSE {}) \cup CI(b.k, inner("h"), "", o)
    [] b.t = "p" -> me \cup CI(b.k, inner("p"), "", o)
    [] b.t = "q" -> me \cup (IF Len(Blk(b, o)) > 1 THEN {"q:multi"} ELSE {})     \* the quote is more than one Word block
                       \cup UNION {CB(b.k[i], "q", inner("q"), o) : i \in 1..Len(b.k)}
    [] b.t \in ListKinds -> me \cup UNION {CItem(b.k[i], inner("li"), o) : i \in 1..Len(b.k)}
    [] b.t \in {"fence", "icode"} ->
         me \cup (IF host # "" THEN {host \o ">code"} ELSE {})
            \cup (IF b.a # "" THEN {"code:info"} ELSE {})
            \cup (IF b.t = "fence" /\ b.n > 0 THEN {"code:fence-ind"} ELSE {})
            \cup (IF \E i \in 1..Len(b.k) : b.k[i].k = <<>> THEN {"code:blank"} ELSE {})
            \cup (IF \E i \in 1..Len(b.k) : b.k[i].a = "2" THEN {"code:ind"} ELSE {})
            \cup (IF \E i \in 1..Len(b.k) : b.k[i].a = "t" THEN {"code:tab"} ELSE {})
            \cup UNION {CI(b.k[i].k, "code", "", o) : i \in 1..Len(b.k)}
    [] b.t = "hr" -> me
    [] b.t = "mathb" -> me \cup (IF ~o.math THEN {"opt:math-off"} ELSE {}) \cup CI(b.k, "mathb", "", o)
    [] b.t = "tbl" -> me \cup (IF ~o.gfm THEN {"opt:gfm-off"} ELSE {}) \cup (IF ~o.tables THEN {"opt:tables-off"} ELSE {})
                         \cup (IF \E j \in 1..Len(b.k[1].k) : b.k[1].k[j].a # "n" THEN {"tbl:al"} ELSE {})
                         \cup (IF Len(b.k) = 1 THEN {"tbl:head"} ELSE {})
                         \cup UNION {UNION {CI(b.k[i].k[j].k, IF o.gfm THEN "cell" ELSE "p", "", o) : j \in 1..Len(b.k[i].k)} : i \in 1..Len(b.k)}
    [] OTHER -> {"?"}

Classes(b, o) == CB(b, "", "", o)

\* ---- judging an observed body against the expected one ----------------------
\* Observed block (projection of the saved document, or of the reference renderer's output):
\*   [k |-> "p" | "h" | "tbl", lvl |-> Nat, toks |-> Seq([t |-> STRING, f |-> Seq(STRING)]),
\*    rows |-> Seq(Seq([toks |-> .., al |-> STRING]))]
Ws == {"sp", "nl", "tab"}
Marks == {"bul", "num"}
JFlags == {"b", "i", "s", "c"}

Strs(ts) == [i \in 1..Len(ts) |-> ts[i].t]
NonWs(ts) == SelectSeq(ts, LAMBDA x : x.t \notin Ws)
WordsOf(s) == SelectSeq(s, LAMBDA x : x \notin Ws)
ObsF(x) == {x.f[i] : i \in 1..Len(x.f)} \cap JFlags

RECURSIVE NormAcc(_, _, _)
NormAcc(s, i, acc) ==
  IF i > Len(s) THEN acc
  ELSE IF s[i] \in Ws THEN (IF acc = <<>> \/ acc[Len(acc)] = "sp" THEN NormAcc(s, i + 1, acc)
                            ELSE NormAcc(s, i + 1, Append(acc, "sp")))
  ELSE NormAcc(s, i + 1, Append(acc, s[i]))
\* white space collapsed to single spaces, none at the ends
NormT(s) == LET r == NormAcc(s, 1, <<>>)
            IN IF r # <<>> /\ r[Len(r)] = "sp" THEN SubSeq(r, 1, Len(r) - 1) ELSE r

RECURSIVE TrimWsR(_)
TrimWsR(s) == IF s # <<>> /\ s[Len(s)] \in Ws THEN TrimWsR(SubSeq(s, 1, Len(s) - 1)) ELSE s

\* a list marker the implementation chose is not part of the text
StripMark(s) ==
  IF s # <<>> /\ s[1] \in Marks
  THEN (IF Len(s) >= 2 /\ s[2] = "sp" THEN SubSeq(s, 3, Len(s)) ELSE SubSeq(s, 2, Len(s)))
  ELSE s

Count(s, x) == Cardinality({i \in 1..Len(s) : s[i] = x})
Elems(s) == {s[i] : i \in 1..Len(s)}
Lost(we, wo) == \E x \in Elems(we) : Count(we, x) > Count(wo, x)

\* how two sequences of visible words differ
WordDiff(we, wo) ==
  IF we = wo THEN {}
  ELSE (IF Lost(we, wo) THEN {"text-lost"} ELSE {})
       \cup (IF Lost(wo, we) THEN {"text-invented"} ELSE {})
       \cup (IF ~Lost(we, wo) /\ ~Lost(wo, we) THEN {"text-order"} ELSE {})

\* e, o: sequences of token strings
TextDiff(e, o) ==
  LET ne == NormT(e)
      no == NormT(o)
  IN IF ne = no THEN {}
     ELSE IF WordsOf(ne) = WordsOf(no) THEN {"text-space"}
     ELSE WordDiff(WordsOf(ne), WordsOf(no))

FlagDiff(e, o) ==
  LET we == NonWs(e)
      wo == NonWs(o)
  IN IF Strs(we) # Strs(wo) THEN {}
     ELSE IF \E i \in 1..Len(we) : (we[i].f \cap JFlags) # ObsF(wo[i]) THEN {"flags"} ELSE {}

CodeDiff(e, o) ==
  LET oo == TrimWsR(o)
  IN IF e = oo THEN {}
     ELSE IF WordsOf(e) = WordsOf(oo) THEN {"code-indent"}
     ELSE {"code-text"}

AlignOK(a, got) ==
  CASE a = "l" -> got \in {"left", "start"}
    [] a = "c" -> got = "center"
    [] a = "r" -> got \in {"right", "end"}
    [] OTHER   -> got \in {"", "left", "start"}

TblDiff(E, O) ==
  IF O.k # "tbl" THEN {"kind"}
  ELSE IF Len(O.rows) # Len(E.rows) \/ \E i \in 1..Len(E.rows) : Len(O.rows[i]) # Len(E.rows[i]) THEN {"dims"}
  ELSE (IF \E i \in 1..Len(E.rows) : \E j \in 1..Len(E.rows[i]) :
              TextDiff(Strs(E.rows[i][j]), Strs(O.rows[i][j].toks)) # {} THEN {"cells"} ELSE {})
       \cup (IF \E i \in 1..Len(E.rows) : \E j \in 1..Len(E.rows[i]) :
              ~AlignOK(E.al[j], O.rows[i][j].al) THEN {"align"} ELSE {})

\* the fields in which observed block O deviates from expected block E
Match(E, O) ==
  CASE E.k = "tbl"  -> TblDiff(E, O)
    [] E.k = "weak" -> {"weak"}
    [] O.k = "tbl"  -> {"kind"}
    [] E.k = "h"    -> (IF O.k # "h" \/ O.lvl # E.lvl THEN {"style"} ELSE {}) \cup TextDiff(Strs(E.toks), Strs(O.toks))
    [] E.k = "p"    -> TextDiff(Strs(E.toks), Strs(O.toks)) \cup FlagDiff(E.toks, O.toks)
    [] E.k = "li"   -> TextDiff(Strs(E.toks), StripMark(NormT(Strs(O.toks))))
    [] E.k = "cl"   -> CodeDiff(Strs(E.toks), Strs(O.toks))
    [] E.k = "hr"   -> TextDiff(<<>>, Strs(O.toks))
    [] E.k = "math" -> TextDiff(Strs(E.toks), Strs(O.toks))
    [] OTHER        -> {"?"}

\* visible words of expected / observed blocks (for regions whose block structure differs)
RECURSIVE CatSeqs(_)
CatSeqs(ss) == IF ss = <<>> THEN <<>> ELSE Head(ss) \o CatSeqs(Tail(ss))

EWords(E) ==
  IF E.k = "tbl" THEN CatSeqs([i \in 1..Len(E.rows) |-> CatSeqs([j \in 1..Len(E.rows[i]) |-> WordsOf(Strs(E.rows[i][j]))])])
  ELSE IF E.k = "hr" THEN <<>>
  ELSE WordsOf(Strs(E.toks))
OWords(O) ==
  SelectSeq(IF O.k = "tbl"
            THEN CatSeqs([i \in 1..Len(O.rows) |-> CatSeqs([j \in 1..Len(O.rows[i]) |-> WordsOf(Strs(O.rows[i][j].toks))])])
            ELSE WordsOf(Strs(O.toks)),
            LAMBDA x : x \notin Marks)

RECURSIVE SumLen(_, _)
SumLen(exp, i) == IF i = 0 THEN 0 ELSE Len(exp[i]) + SumLen(exp, i - 1)
HasWeak(ws) == \E j \in 1..Len(ws) : ws[j].k = "weak"
SliceOK(ws, body, off) ==
  /\ ~HasWeak(ws)
  /\ off + Len(ws) <= Len(body)
  /\ \A j \in 1..Len(ws) : Match(ws[j], body[off + j]) = {}

\* number of leading AST blocks whose expected Word blocks are found one after the other at the start
RECURSIVE PreN(_, _, _, _)
PreN(exp, body, i, off) ==
  IF i > Len(exp) \/ ~SliceOK(exp[i], body, off) THEN i - 1
  ELSE PreN(exp, body, i + 1, off + Len(exp[i]))
\* number of trailing AST blocks (after the first lo) found at the end of the body (not before position offlo)
RECURSIVE SufN(_, _, _, _, _, _)
SufN(exp, body, lo, offlo, i, end) ==
  IF i <= lo \/ HasWeak(exp[i]) \/ end - Len(exp[i]) < offlo \/ ~SliceOK(exp[i], body, end - Len(exp[i])) THEN Len(exp) - i
  ELSE SufN(exp, body, lo, offlo, i - 1, end - Len(exp[i]))

\* Witnesses of a conversion: set of [fld, ks]
JudgeFid(ast, o, body) ==
  LET exp == ExpOf(ast, o)
      n == Len(ast)
      weak == \E i \in 1..n : HasWeak(exp[i])
  IN
  IF ~weak /\ Len(body) = SumLen(exp, n) THEN
    UNION {LET off == SumLen(exp, i - 1)
               flds == UNION {Match(exp[i][j], body[off + j]) : j \in 1..Len(exp[i])}
           IN {[fld |-> f, ks |-> Classes(ast[i], o)] : f \in flds} : i \in 1..n}
  ELSE
    \* the block structure differs: find the AST blocks whose expected Word blocks are found at the start and at
    \* the end of the body; the deviation lies in between.  Both orders of matching are tried (a shortened
    \* region may match its neighbour's blocks by coincidence) and the union of the two regions is blamed.
    LET pre1 == PreN(exp, body, 1, 0)
        suf1 == SufN(exp, body, pre1, SumLen(exp, pre1), n, Len(body))
        suf2 == SufN(exp, body, 0, 0, n, Len(body))
        pre2 == PreN([i \in 1..(n - suf2) |-> exp[i]],
                     SubSeq(body, 1, Len(body) - (SumLen(exp, n) - SumLen(exp, n - suf2))), 1, 0)
        pre == IF pre1 < pre2 THEN pre1 ELSE pre2
        suf == IF suf1 < suf2 THEN suf1 ELSE suf2
        mid == (pre + 1)..(n - suf)
        offlo == SumLen(exp, pre)
        sufLen == SumLen(exp, n) - SumLen(exp, n - suf)
        obsMid == SubSeq(body, offlo + 1, Len(body) - sufLen)
        ew == CatSeqs([i \in 1..(n - suf - pre) |-> CatSeqs([j \in 1..Len(exp[pre + i]) |-> EWords(exp[pre + i][j])])])
        ow == CatSeqs([j \in 1..Len(obsMid) |-> OWords(obsMid[j])])
        allweak == mid # {} /\ \A i \in mid : \A j \in 1..Len(exp[i]) : exp[i][j].k = "weak"
        flds == (IF allweak THEN {} ELSE {"blocks"}) \cup WordDiff(ew, ow)
        ks == UNION {Classes(ast[i], o) : i \in mid}
    IN {[fld |-> f, ks |-> ks] : f \in flds}

\* ConvertFile of a file that does not exist reports an error (it neither panics nor succeeds)
ViolMissing(ret) == IF ret = "err" THEN {} ELSE {<<"missing-file", ret>>}

\* ---- totality: what a conversion must not do ---------------------------------
\* pk = facts about the saved package read by the independent reader:
\*   [zip, ct : STRING (error text class, "" = fine), xml : Seq(part) ill-formed XML parts,
\*    noct : Seq(part) parts without content type, dangling : Seq(target) internal relationship
\*    targets that do not exist, main : BOOLEAN main document part present with a body]
ViolTotal(ret, saveret, pk) ==
  IF ret \in {"panic", "fatal", "timeout"} THEN {<<ret>>}
  ELSE IF ret # "ok" THEN {<<"error">>}
  ELSE IF saveret # "ok" THEN {<<"save", saveret>>}
  ELSE (IF pk.zip # "" THEN {<<"pkg", "zip">>} ELSE {})
       \cup (IF pk.zip = "" /\ pk.ct # "" THEN {<<"pkg", "content-types">>} ELSE {})
       \cup {<<"pkg", "xml", pk.xml[i]>> : i \in 1..Len(pk.xml)}
       \cup {<<"pkg", "no-content-type", pk.noct[i]>> : i \in 1..Len(pk.noct)}
       \cup (IF Len(pk.dangling) > 0 THEN {<<"pkg", "dangling-relationship">>} ELSE {})
       \cup (IF pk.zip = "" /\ ~pk.main THEN {<<"pkg", "no-main-document">>} ELSE {})
=============================================================================
