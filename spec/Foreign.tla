------------------------------ MODULE Foreign ------------------------------
(***************************************************************************)
(* Pure (variable-free) specification of "open a package written by        *)
(* another application, edit it, save it" (property C04).                  *)
(*                                                                         *)
(* A *shape* is a set of deviations D from a base package (rich or         *)
(* minimal); PkgOf(D) is the abstract foreign package:                     *)
(*   parts : set of [n name, k kind, via "default"|"override"|"none",      *)
(*                   cls label, h content token, ct content-type token,    *)
(*                   b byte class of the content]                          *)
(*   rels  : set of [src rels-part, id, ty, tg raw target, rt resolved     *)
(*                   part name, mode "Internal"|"External", k kind, ref]   *)
(*   body  : sequence of blocks [blk, rel, sty style id of the paragraph,  *)
(*                   runs : Seq([c label, w wrapping inline container,     *)
(*                   its : Seq([k, v]) run content in document order,      *)
(*                   ts : Seq(token) the tokens of its w:t items])]        *)
(*   ns, pkgns : how namespaces are spelled in the main part / OPC parts   *)
(*   styles : [sp spelling of word/styles.xml, defs style ids it defines]  *)
(*   zip : set of container forms (how the producer wrote the ZIP archive) *)
(* The harness writes the concrete ZIP + XML from exactly this value.      *)
(*                                                                         *)
(* The reference machine state is                                          *)
(*   s = [o the foreign package as opened, m model package as it evolves,  *)
(*        paras : Seq(SUBSET token) the                                     *)
(*        token sets of the body's top-level paragraphs, loose : tokens    *)
(*        not in a top-level paragraph, regen : part names outside the     *)
(*        byte-identity claim, xrels : <<src, id>> of relationships an     *)
(*        edit replaced by design]                                         *)
(* An operation is a record [op |-> name, ...]; ch are the library's free  *)
(* choices (fresh relationship id, fresh media name, which paragraph an    *)
(* index denotes).                                                         *)
(***************************************************************************)
EXTENDS Integers, Sequences, FiniteSets, TLC

DocPart    == "word/document.xml"
DocRels    == "word/_rels/document.xml.rels"
PkgRels    == "_rels/.rels"
CTPart     == "[Content_Types].xml"
StylesPart == "word/styles.xml"
\* parts the library regenerates on every save (outside the byte-identity claim of C04)
AlwaysRegen == {DocPart, DocRels, PkgRels, CTPart}

SetOf(s) == {s[i] : i \in 1..Len(s)}
SeqFilter(s, T(_)) == SelectSeq(s, T)

\* ---- shape alphabet -------------------------------------------------------
ExtraOrder == <<"stylesFx", "theme", "fontTable", "settings", "webSettings", "numbering", "footnotes", "endnotes",
                "comments", "customXml", "header", "header1", "footer1", "docProps", "custProps",
                "thumbnail", "unkext", "ovronly", "glossary", "people", "commentsExt">>
\* part kinds whose relationship type merely RESEMBLES one the library treats specially (dimension "xrel"):
\* stylesWithEffects (Word 2010 writes it next to the styles relationship; with scheme noStyles it stands
\* alone), the glossary document (a second .../document.xml with its own relationship part and its own
\* styles relationship), people, commentsExtended
XrelKinds  == {"stylesFx", "glossary", "people", "commentsExt"}
ExtraKinds == SetOf(ExtraOrder) \ XrelKinds
Schemes    == {"dense", "sparse", "nonrid", "stylesLast", "noStyles", "collide"}
ExtOrder   == <<"hyperlink", "extimage">>
MediaOrder == <<"image1.png", "image10.jpeg", "Image2.PNG", "picture.png", "image5", "img-3.png",
                "image0.png", "image0", "image2.jpeg", "photo.jpg">>
NsPrefixes == {"w", "ns0", "default"}
PkgNs      == {"default", "prefixed"}
\* "absolute": the main part's relationships spell internal targets from the package root (/word/...);
\* "pkgabs": the package's own relationships do (/word/document.xml, /docProps/core.xml - System.IO.Packaging)
TgStyles   == {"relative", "absolute", "pkgabs"}
\* BYTE CLASSES (dimension "bytes"): what the content of a part the library only passes through looks like.
\* A class applies to the part kinds for which it is well-formed (BytesKinds): parts whose format no standard
\* constrains (embedded objects, custom data) may be EMPTY or one byte long; XML parts may start with a byte
\* order mark, be encoded in UTF-16, be larger than any buffer. A shape that deviates in this dimension always
\* carries parts of those kinds (ExtrasOf).
ByteClasses == {"empty", "onebyte", "big", "bom", "utf16"}
OpaqueKinds == {"unknown-ext", "override-only"}
BytesKinds(c) ==
  CASE c \in {"empty", "onebyte"} -> OpaqueKinds
    [] c = "big"   -> OpaqueKinds \cup {"customXml", "theme"}
    [] c = "bom"   -> {"theme", "fontTable", "webSettings", "customXml", "customXml-props", "docProps-custom",
                       "people", "commentsExtended"}
    [] c = "utf16" -> {"customXml", "theme"}
    [] OTHER       -> {}
BytesCarriers == {"unkext", "ovronly", "customXml"}
\* CONTAINER FORMS (dimension "zip"): directory placeholder entries (word/, _rels/ ...) next to the parts,
\* entries stored without compression, [Content_Types].xml as the last entry. None of them is a part.
ZipForms   == {"dirs", "stored", "ctlast"}
\* PLACEMENT (dimension "place"): a part the library knows by a conventional NAME lives under another name -
\* only the relationship type gives it its role (OPC: part names are the producer's choice). Core properties
\* under /package/services/metadata/core-properties/<id>.psmdcp is what System.IO.Packaging writes.
PlaceOrder == <<"core", "app", "numbering", "footnotes", "endnotes", "settings", "styles">>
PlaceFrom(k) == CASE k = "core" -> "docProps/core.xml" [] k = "app" -> "docProps/app.xml"
                  [] k = "numbering" -> "word/numbering.xml" [] k = "footnotes" -> "word/footnotes.xml"
                  [] k = "endnotes" -> "word/endnotes.xml" [] k = "settings" -> "word/settings.xml"
                  [] k = "styles" -> "word/styles.xml"
PlaceTo(k)   == CASE k = "core" -> "package/services/metadata/core-properties/0a1b2c3d4e5f.psmdcp"
                  [] k = "app" -> "docProps/extended.xml"
                  [] k = "numbering" -> "word/lists/numbering2.xml" [] k = "footnotes" -> "word/footnotes1.xml"
                  [] k = "endnotes" -> "word/notes/endnotes.xml" [] k = "settings" -> "word/settings2.xml"
                  [] k = "styles" -> "word/styles2.xml"
\* the raw target as the relationship part of the source spells it (package root resp. word/)
PlaceTg(k)   == CASE k = "core" -> PlaceTo(k) [] k = "app" -> PlaceTo(k)
                  [] k = "numbering" -> "lists/numbering2.xml" [] k = "footnotes" -> "footnotes1.xml"
                  [] k = "endnotes" -> "notes/endnotes.xml" [] k = "settings" -> "settings2.xml"
                  [] k = "styles" -> "styles2.xml"
PlaceVia(k)  == IF k = "core" THEN "default" ELSE "override"
\* the extra kind(s) that carry the placed part (the styles part belongs to the scheme, not to an extra)
PlaceExtras(k) == IF k \in {"core", "app"} THEN {"docProps"} ELSE IF k = "styles" THEN {} ELSE {k}
PkgIds     == {"odFirst", "odLast"}
ContOrder  == <<"plain", "hyperlink", "smartTag", "ins", "sdt", "fldSimple", "customXml", "hl-ins",
                "sdt-hl", "st-st", "multiT",
                "t+drawing", "fld+t", "t+br+t", "tab+t", "t+fnref", "t+t">>
\* MIXED RUNS: one w:r that holds text together with other run content. Dimension "mix": such a run in a
\* plain paragraph (one value per pattern), in a table cell (tblmix), in a block-level content control
\* (sdtblkmix). Dimension "mixin" (one pattern at most): every run that sits inside an inline container
\* (hyperlink, smartTag, ins, sdt, fldSimple, customXml and the nested ones) is a mixed run of that pattern.
MixConts   == {"t+drawing", "fld+t", "t+br+t", "tab+t", "t+fnref", "t+t"}
MixBlks    == {"tblmix", "sdtblkmix"}
PlainConts == SetOf(ContOrder) \ MixConts
BlkOrder   == <<"tbl", "tblhl", "sdtblk", "tblmix", "sdtblkmix">>
\* STYLES PART (dimensions "sty" spelling, "sdef" ids defined, "sref" ids referenced by body paragraphs)
StySpellings == {"w", "ns0", "default", "squote", "reorder"}
SdefIds    == {"Heading1", "Title", "Quote"}          \* ids the library also knows; toggled in the part
SrefOrder  == <<"Heading1", "Normal", "Title", "Quote", "ForeignStyle", "Ghost">>   \* Ghost is defined nowhere
AlwaysDefs == {"Normal", "ForeignStyle"}              \* ForeignStyle is defined only in the foreign part

BaseExtras == {"theme", "settings", "fontTable", "header", "docProps"}
BaseMedia  == {"image1.png"}
BaseExt    == {"hyperlink"}
BaseConts  == {"plain", "hyperlink"}
BaseSdef   == {"Heading1", "Title"}
BaseSref   == {"Heading1"}

Dev(d, v) == [dim |-> d, val |-> v]
AllDevs ==
     {Dev("base", "min")}
  \cup {Dev("extra", k) : k \in ExtraKinds}
  \cup {Dev("scheme", x) : x \in Schemes \ {"dense"}}
  \cup {Dev("ext", x) : x \in SetOf(ExtOrder)}
  \cup {Dev("media", x) : x \in SetOf(MediaOrder)}
  \cup {Dev("ns", x) : x \in NsPrefixes \ {"w"}}
  \cup {Dev("pkgns", "prefixed"), Dev("pkgids", "odLast")}
  \cup {Dev("tgstyle", x) : x \in TgStyles \ {"relative"}}
  \cup {Dev("bytes", x) : x \in ByteClasses}
  \cup {Dev("zip", x) : x \in ZipForms}
  \cup {Dev("place", x) : x \in SetOf(PlaceOrder)}
  \cup {Dev("cont", x) : x \in PlainConts}
  \cup {Dev("blk", x) : x \in SetOf(BlkOrder) \ MixBlks}
  \cup {Dev("xrel", k) : k \in XrelKinds}
  \cup {Dev("mix", x) : x \in MixConts \cup MixBlks}
  \cup {Dev("mixin", x) : x \in MixConts}
  \cup {Dev("sty", x) : x \in StySpellings \ {"w"}}
  \cup {Dev("sdef", x) : x \in SdefIds}
  \cup {Dev("sref", x) : x \in SetOf(SrefOrder)}
ExclusiveDims == {"base", "scheme", "ns", "pkgns", "tgstyle", "pkgids", "sty", "mixin", "bytes"}
\* a deviation set is a shape iff exclusive dimensions carry at most one value
ShapeOK(D) == \A x, y \in D : (x.dim = y.dim /\ x.dim \in ExclusiveDims) => x = y

Vals(D, dim) == {x.val : x \in {y \in D : y.dim = dim}}
One(D, dim, dflt) == IF Vals(D, dim) = {} THEN dflt ELSE CHOOSE v \in Vals(D, dim) : TRUE
Toggle(base, T) == (base \ T) \cup (T \ base)
IsMin(D) == One(D, "base", "rich") = "min"
MediaOf(D)  == Toggle(IF IsMin(D) THEN {} ELSE BaseMedia, Vals(D, "media"))
ExtOf(D)    == Toggle(IF IsMin(D) THEN {} ELSE BaseExt, Vals(D, "ext"))
ContsOf(D)  == Toggle(IF IsMin(D) THEN {"plain"} ELSE BaseConts, Vals(D, "cont")) \cup (Vals(D, "mix") \cap MixConts)
BlksOf(D)   == Vals(D, "blk") \cup (Vals(D, "mix") \cap MixBlks)
MixinOf(D)  == One(D, "mixin", "t")
\* a run with a footnote reference is well-formed only in a package that has the footnotes part
ExtrasOf(D) == Toggle(IF IsMin(D) THEN {} ELSE BaseExtras, Vals(D, "extra")) \cup Vals(D, "xrel")
               \cup (IF "t+fnref" \in ContsOf(D) \/ MixinOf(D) = "t+fnref" THEN {"footnotes"} ELSE {})
               \* a byte class needs parts it applies to, a placement the part it places
               \cup (IF Vals(D, "bytes") # {} THEN BytesCarriers ELSE {})
               \cup UNION {PlaceExtras(k) : k \in Vals(D, "place")}
BytesOf(D)  == One(D, "bytes", "typical")
\* the name a shape gives to the part conventionally called n, and how its relationship spells it
Placed(D, n) == {k \in Vals(D, "place") : PlaceFrom(k) = n}
Ren(D, n)    == IF Placed(D, n) = {} THEN n ELSE PlaceTo(CHOOSE k \in Placed(D, n) : TRUE)
RenTg(D, n, tg) == IF Placed(D, n) = {} THEN tg ELSE PlaceTg(CHOOSE k \in Placed(D, n) : TRUE)
RenVia(D, n, via) == IF Placed(D, n) = {} THEN via ELSE PlaceVia(CHOOSE k \in Placed(D, n) : TRUE)
SchemeOf(D) == One(D, "scheme", "dense")
DefsOf(D)   == AlwaysDefs \cup Toggle(IF IsMin(D) THEN {} ELSE BaseSdef, Vals(D, "sdef"))
SrefsOf(D)  == Toggle(IF IsMin(D) THEN {} ELSE BaseSref, Vals(D, "sref"))

\* ---- media name classes (labels used in witnesses) ------------------------
MediaCls(nm) ==
  CASE nm = "image1.png"   -> "imageN.png"
    [] nm = "image10.jpeg" -> "imageNN.jpeg"
    [] nm = "image2.jpeg"  -> "imageN.jpeg"
    [] nm = "Image2.PNG"   -> "upper-case-name"
    [] nm = "picture.png"  -> "other-name"
    [] nm = "image5"       -> "noext-name"
    [] nm = "image0"       -> "noext-image0"
    [] nm = "img-3.png"    -> "dash-name"
    [] nm = "image0.png"   -> "image0.png"
    [] nm = "photo.jpg"    -> "jpg-name"
    [] OTHER               -> "media"
HasExt(nm) == nm \notin {"image5", "image0"}

\* ---- parts and relationships contributed by each extra kind ---------------
MkPart(n, k, via, cls) == [n |-> n, k |-> k, via |-> via, cls |-> cls, h |-> n, ct |-> k, b |-> "typical"]
\* slot = a relationship before its id is assigned
Slot(k, ty, rt, tg, mode, ref) == [k |-> k, ty |-> ty, rt |-> rt, tg |-> tg, mode |-> mode, ref |-> ref]
ISlot(k, ty, rt, tg) == Slot(k, ty, rt, tg, "Internal", "")

KParts(k) ==
  CASE k = "theme"       -> {MkPart("word/theme/theme1.xml", "theme", "override", "")}
    [] k = "fontTable"   -> {MkPart("word/fontTable.xml", "fontTable", "override", "")}
    [] k = "settings"    -> {MkPart("word/settings.xml", "settings", "override", "")}
    [] k = "webSettings" -> {MkPart("word/webSettings.xml", "webSettings", "override", "")}
    [] k = "numbering"   -> {MkPart("word/numbering.xml", "numbering", "override", "")}
    [] k = "footnotes"   -> {MkPart("word/footnotes.xml", "footnotes", "override", "")}
    [] k = "endnotes"    -> {MkPart("word/endnotes.xml", "endnotes", "override", "")}
    [] k = "comments"    -> {MkPart("word/comments.xml", "comments", "override", "")}
    [] k = "customXml"   -> {MkPart("customXml/item1.xml", "customXml", "default", ""),
                             MkPart("customXml/itemProps1.xml", "customXml-props", "override", ""),
                             MkPart("customXml/_rels/item1.xml.rels", "customXml-rels", "default", "")}
    [] k = "header"      -> {MkPart("word/header2.xml", "header", "override", ""),
                             MkPart("word/_rels/header2.xml.rels", "header-rels", "default", ""),
                             MkPart("word/media/image2.png", "media", "default", "header-media")}
    [] k = "header1"     -> {MkPart("word/header1.xml", "header1", "override", ""),
                             MkPart("word/_rels/header1.xml.rels", "header1-rels", "default", ""),
                             MkPart("word/media/hdr1logo.png", "media", "default", "header1-media")}
    [] k = "footer1"     -> {MkPart("word/footer1.xml", "footer1", "override", "")}
    [] k = "docProps"    -> {MkPart("docProps/core.xml", "docProps-core", "override", ""),
                             MkPart("docProps/app.xml", "docProps-app", "override", "")}
    [] k = "custProps"   -> {MkPart("docProps/custom.xml", "docProps-custom", "override", "")}
    [] k = "thumbnail"   -> {MkPart("docProps/thumbnail.jpeg", "thumbnail", "default", "")}
    [] k = "unkext"      -> {MkPart("word/embeddings/oleObject1.bin", "unknown-ext", "default", "")}
    [] k = "ovronly"     -> {MkPart("word/custom/item.data", "override-only", "override", "")}
    [] k = "stylesFx"    -> {MkPart("word/stylesWithEffects.xml", "stylesWithEffects", "override", "")}
    [] k = "glossary"    -> {MkPart("word/glossary/document.xml", "glossary", "override", ""),
                             MkPart("word/glossary/_rels/document.xml.rels", "glossary-rels", "default", ""),
                             MkPart("word/glossary/styles.xml", "glossary-styles", "override", "")}
    [] k = "people"      -> {MkPart("word/people.xml", "people", "override", "")}
    [] k = "commentsExt" -> {MkPart("word/commentsExtended.xml", "commentsExtended", "override", "")}

\* relationships of the main document part contributed by an extra kind (sequence)
KDocSlots(k) ==
  CASE k = "theme"       -> <<ISlot("theme", "od/theme", "word/theme/theme1.xml", "theme/theme1.xml")>>
    [] k = "fontTable"   -> <<ISlot("fontTable", "od/fontTable", "word/fontTable.xml", "fontTable.xml")>>
    [] k = "settings"    -> <<ISlot("settings", "od/settings", "word/settings.xml", "settings.xml")>>
    [] k = "webSettings" -> <<ISlot("webSettings", "od/webSettings", "word/webSettings.xml", "webSettings.xml")>>
    [] k = "numbering"   -> <<ISlot("numbering", "od/numbering", "word/numbering.xml", "numbering.xml")>>
    [] k = "footnotes"   -> <<ISlot("footnotes", "od/footnotes", "word/footnotes.xml", "footnotes.xml")>>
    [] k = "endnotes"    -> <<ISlot("endnotes", "od/endnotes", "word/endnotes.xml", "endnotes.xml")>>
    [] k = "comments"    -> <<ISlot("comments", "od/comments", "word/comments.xml", "comments.xml")>>
    [] k = "customXml"   -> <<ISlot("customXml", "od/customXml", "customXml/item1.xml", "../customXml/item1.xml")>>
    [] k = "header"      -> <<Slot("header", "od/header", "word/header2.xml", "header2.xml", "Internal", "default")>>
    [] k = "header1"     -> <<Slot("header1", "od/header", "word/header1.xml", "header1.xml", "Internal", "first")>>
    [] k = "footer1"     -> <<Slot("footer1", "od/footer", "word/footer1.xml", "footer1.xml", "Internal", "default")>>
    [] k = "unkext"      -> <<ISlot("unknown-ext", "od/oleObject", "word/embeddings/oleObject1.bin", "embeddings/oleObject1.bin")>>
    [] k = "ovronly"     -> <<ISlot("override-only", "http://example.com/relationships/custom", "word/custom/item.data", "custom/item.data")>>
    [] k = "stylesFx"    -> <<ISlot("stylesWithEffects", "ms07/stylesWithEffects", "word/stylesWithEffects.xml", "stylesWithEffects.xml")>>
    [] k = "glossary"    -> <<ISlot("glossary", "od/glossaryDocument", "word/glossary/document.xml", "glossary/document.xml")>>
    [] k = "people"      -> <<ISlot("people", "ms11/people", "word/people.xml", "people.xml")>>
    [] k = "commentsExt" -> <<ISlot("commentsExtended", "ms11/commentsExtended", "word/commentsExtended.xml", "commentsExtended.xml")>>
    [] OTHER             -> <<>>

\* relationships of the package root contributed by an extra kind
KPkgSlots(k) ==
  CASE k = "docProps"  -> <<ISlot("docProps-core", "pk/metadata/core-properties", "docProps/core.xml", "docProps/core.xml"),
                            ISlot("docProps-app", "od/extended-properties", "docProps/app.xml", "docProps/app.xml")>>
    [] k = "custProps" -> <<ISlot("docProps-custom", "od/custom-properties", "docProps/custom.xml", "docProps/custom.xml")>>
    [] k = "thumbnail" -> <<ISlot("thumbnail", "pk/metadata/thumbnail", "docProps/thumbnail.jpeg", "docProps/thumbnail.jpeg")>>
    [] OTHER           -> <<>>

MkRel(src, id, s) == [src |-> src, id |-> id, k |-> s.k, ty |-> s.ty, rt |-> s.rt, tg |-> s.tg, mode |-> s.mode, ref |-> s.ref]

\* relationships that live in the relationship part of a part other than the main one
KOwnRels(k) ==
  CASE k = "customXml" -> {MkRel("customXml/_rels/item1.xml.rels", "rId1",
                             ISlot("customXml-props", "od/customXmlProps", "customXml/itemProps1.xml", "itemProps1.xml"))}
    [] k = "header"    -> {MkRel("word/_rels/header2.xml.rels", "rId1",
                             ISlot("header-image", "od/image", "word/media/image2.png", "media/image2.png")),
                           MkRel("word/_rels/header2.xml.rels", "rId2",
                             Slot("header-hyperlink", "od/hyperlink", "", "https://example.com/from-header", "External", ""))}
    [] k = "header1"   -> {MkRel("word/_rels/header1.xml.rels", "rId1",
                             ISlot("header1-image", "od/image", "word/media/hdr1logo.png", "media/hdr1logo.png"))}
    [] k = "glossary"  -> {MkRel("word/glossary/_rels/document.xml.rels", "rId1",
                             ISlot("glossary-styles", "od/styles", "word/glossary/styles.xml", "styles.xml"))}
    [] OTHER           -> {}

RECURSIVE Flat(_)
Flat(ss) == IF ss = <<>> THEN <<>> ELSE Head(ss) \o Flat(Tail(ss))

MediaSeq(D) == SeqFilter(MediaOrder, LAMBDA nm : nm \in MediaOf(D))
ExtraSeq(D) == SeqFilter(ExtraOrder, LAMBDA k : k \in ExtrasOf(D))

\* a slot whose part the shape places under another name: target re-spelt, kind marked in witnesses
RenSlot(D, s) == IF s.mode = "Internal" /\ Placed(D, s.rt) # {}
                 THEN [s EXCEPT !.rt = Ren(D, s.rt), !.tg = RenTg(D, s.rt, s.tg), !.k = s.k \o "@renamed"] ELSE s

DocSlots(D) ==
  LET abs == One(D, "tgstyle", "relative") = "absolute"
      fix(s0) == LET s == RenSlot(D, s0) IN IF abs /\ s.mode = "Internal" THEN [s EXCEPT !.tg = "/" \o s.rt] ELSE s
      sty == IF SchemeOf(D) = "noStyles" THEN <<>>
             ELSE <<ISlot("styles", "od/styles", StylesPart, "styles.xml")>>
      ex  == Flat([i \in 1..Len(ExtraSeq(D)) |-> KDocSlots(ExtraSeq(D)[i])])
      med == [i \in 1..Len(MediaSeq(D)) |->
                ISlot("media", "od/image", "word/media/" \o MediaSeq(D)[i], "media/" \o MediaSeq(D)[i])]
      ext == (IF "hyperlink" \in ExtOf(D)
                THEN <<Slot("hyperlink", "od/hyperlink", "", "https://example.com/a?b=1&c=2", "External", "")>> ELSE <<>>)
             \o (IF "extimage" \in ExtOf(D)
                THEN <<Slot("extimage", "od/image", "", "https://example.com/pic.png", "External", "")>> ELSE <<>>)
      all == sty \o ex \o med \o ext
  IN [i \in 1..Len(all) |-> fix(all[i])]

\* relationship id of slot j of n under a scheme (slot 1 is the styles relationship unless noStyles)
DocId(scheme, j, n) ==
  CASE scheme = "dense"      -> "rId" \o ToString(j)
    [] scheme = "noStyles"   -> "rId" \o ToString(j)
    [] scheme = "sparse"     -> "rId" \o ToString(3 * j + 4)
    [] scheme = "nonrid"     -> "R" \o ToString(j) \o "x"
    [] scheme = "stylesLast" -> IF j = 1 THEN "rId" \o ToString(n) ELSE "rId" \o ToString(j - 1)
    [] scheme = "collide"    -> IF j = 1 THEN "rId1" ELSE "rId" \o ToString(n + j - 1)

DocRelSet(D) ==
  LET sl == DocSlots(D) IN {MkRel(DocRels, DocId(SchemeOf(D), j, Len(sl)), sl[j]) : j \in 1..Len(sl)}

PkgRelSet(D) ==
  LET od == ISlot("main", "od/officeDocument", DocPart, "word/document.xml")
      ex == Flat([i \in 1..Len(ExtraSeq(D)) |-> KPkgSlots(ExtraSeq(D)[i])])
      all == IF One(D, "pkgids", "odFirst") = "odFirst" THEN <<od>> \o ex ELSE ex \o <<od>>
      abs == One(D, "tgstyle", "relative") = "pkgabs"
      fix(s0) == LET s == RenSlot(D, s0) IN IF abs THEN [s EXCEPT !.tg = "/" \o s.rt] ELSE s
  IN {MkRel(PkgRels, "rId" \o ToString(j), fix(all[j])) : j \in 1..Len(all)}

RelsOf(D) == DocRelSet(D) \cup PkgRelSet(D) \cup UNION {KOwnRels(k) : k \in ExtrasOf(D)}

\* a part as the shape places and fills it: name (and how its content type is declared) by placement,
\* byte class by the "bytes" deviation where it applies to the kind
Shaped(D, p) ==
  LET q == IF Placed(D, p.n) = {} THEN p
           ELSE [p EXCEPT !.n = Ren(D, p.n), !.h = Ren(D, p.n), !.via = RenVia(D, p.n, p.via), !.cls = "renamed"]
  IN IF p.k \in BytesKinds(BytesOf(D)) THEN [q EXCEPT !.b = BytesOf(D)] ELSE q

PartsOf(D) ==
     {MkPart(CTPart, "content-types", "none", ""), MkPart(PkgRels, "pkg-rels", "default", ""),
      MkPart(DocPart, "main", "override", ""), MkPart(DocRels, "doc-rels", "default", "")}
  \cup (IF SchemeOf(D) = "noStyles" THEN {} ELSE {Shaped(D, MkPart(StylesPart, "styles", "override", ""))})
  \cup {Shaped(D, p) : p \in UNION {KParts(k) : k \in ExtrasOf(D)}}
  \cup {MkPart("word/media/" \o nm, "media", IF HasExt(nm) THEN "default" ELSE "override", MediaCls(nm)) : nm \in MediaOf(D)}

\* ---- body ------------------------------------------------------------------
Tok(b, j, m) == "qT" \o ToString(b) \o "x" \o ToString(j) \o "y" \o ToString(m) \o "q"

\* the inline container(s) a run of container class c is wrapped in, and what the run itself holds
WrapOf(c) == IF c \in MixConts \cup {"multiT"} THEN "plain" ELSE c
\* what a run of container class c holds; mixin = the pattern of runs inside inline containers
MixOf(c, mixin) == IF c \in MixConts \cup {"multiT"} THEN c ELSE IF c = "plain" THEN "t" ELSE mixin
\* the label of such a run in witnesses
ContLabel(c, mixin) == IF WrapOf(c) # "plain" /\ mixin # "t" THEN c \o ">" \o mixin ELSE c

\* run content in document order: [k |-> element, v |-> its text / attribute]; pic = relationship id of
\* the picture a drawing in a mixed run shows ("" = the package holds no picture: a drawing without blip)
It(k, v) == [k |-> k, v |-> v]
ItemsFor(b, j, c, mixin, pic) ==
  LET x == MixOf(c, mixin) t1 == It("t", Tok(b, j, 1)) t2 == It("t", Tok(b, j, 2)) IN
  CASE x = "t"         -> <<t1>>
    [] x = "multiT"    -> <<t1, It("tab", ""), t2>>
    [] x = "t+drawing" -> <<t1, It("drawing", pic)>>
    [] x = "fld+t"     -> <<It("fldChar", "begin"), It("instrText", " PAGE "), It("fldChar", "separate"), t1, It("fldChar", "end")>>
    [] x = "t+br+t"    -> <<t1, It("br", ""), t2>>
    [] x = "tab+t"     -> <<It("tab", ""), t1>>
    [] x = "t+fnref"   -> <<t1, It("fnref", "1")>>
    [] x = "t+t"       -> <<t1, t2>>
ToksOfItems(its) == LET ts == SeqFilter(its, LAMBDA i : i.k = "t") IN [n \in 1..Len(ts) |-> ts[n].v]
\* a run is mixed iff it holds anything but exactly one w:t
IsMixedRun(r) == Len(r.its) # 1

BlkKind(x) == IF x \in {"sdtblk", "sdtblkmix"} THEN "sdtblk" ELSE "tbl"
BlkConts(x) == CASE x = "tblhl"     -> <<"plain", "hyperlink">>
                 [] x = "tblmix"    -> <<"plain", "t+drawing", "t+br+t", "fld+t">>
                 [] x = "sdtblkmix" -> <<"plain", "t+t", "t+drawing">>
                 [] OTHER           -> <<"plain">>

IdOfKind(rels, k) == IF \E r \in rels : r.src = DocRels /\ r.k = k
                     THEN (CHOOSE r \in rels : r.src = DocRels /\ r.k = k).id ELSE ""

BodyOf(D) ==
  LET cs == SeqFilter(ContOrder, LAMBDA c : c \in ContsOf(D))
      bs == SeqFilter(BlkOrder, LAMBDA b : b \in BlksOf(D))
      ss == SeqFilter(SrefOrder, LAMBDA x : x \in SrefsOf(D))
      rels == DocRelSet(D)
      med == MediaSeq(D)
      pic == IF med = <<>> THEN "" ELSE (CHOOSE r \in rels : r.rt = "word/media/" \o med[1]).id
      \* the first paragraph has always referred to the style only the foreign part defines
      tb == [i \in 1..Len(cs) |-> [blk |-> "p", sty |-> IF i = 1 THEN "ForeignStyle" ELSE "",
                                   cs |-> IF cs[i] = "plain" THEN <<"plain">> ELSE <<"plain", cs[i], "plain">>]]
            \o [i \in 1..Len(bs) |-> [blk |-> BlkKind(bs[i]), sty |-> "", cs |-> BlkConts(bs[i])]]
            \o [i \in 1..Len(ss) |-> [blk |-> "p", sty |-> ss[i], cs |-> <<"plain">>]]
      text == [b \in 1..Len(tb) |->
                 [blk |-> tb[b].blk, rel |-> "", link |-> FALSE, sty |-> tb[b].sty,
                  runs |-> [j \in 1..Len(tb[b].cs) |->
                              LET its == ItemsFor(b, j, tb[b].cs[j], MixinOf(D), pic)
                              IN [c |-> ContLabel(tb[b].cs[j], MixinOf(D)), w |-> WrapOf(tb[b].cs[j]),
                                  its |-> its, ts |-> ToksOfItems(its)]]]]
      pics == [i \in 1..Len(med) |->
                 [blk |-> "pic", link |-> FALSE, runs |-> <<>>, sty |-> "",
                  rel |-> (CHOOSE r \in rels : r.rt = "word/media/" \o med[i]).id]]
      xpic == IF "extimage" \in ExtOf(D)
              THEN <<[blk |-> "pic", link |-> TRUE, runs |-> <<>>, sty |-> "", rel |-> IdOfKind(rels, "extimage")]>> ELSE <<>>
  IN text \o pics \o xpic

PkgOf(D) == [parts |-> PartsOf(D), rels |-> RelsOf(D), body |-> BodyOf(D),
             ns |-> One(D, "ns", "w"), pkgns |-> One(D, "pkgns", "default"),
             hlink |-> IdOfKind(DocRelSet(D), "hyperlink"),
             styles |-> [sp |-> One(D, "sty", "w"), defs |-> DefsOf(D)],
             zip |-> Vals(D, "zip")]

\* ---- reading the model -------------------------------------------------------
HasPart(ps, n) == \E p \in ps : p.n = n
PartOf(ps, n) == CHOOSE p \in ps : p.n = n
KindOfPart(m, n) == IF HasPart(m.parts, n) THEN PartOf(m.parts, n).k ELSE "unknown"
\* label of a part in witnesses: media by name class; other parts by kind, byte class and placement
LabelOfPart(m, n) == IF ~HasPart(m.parts, n) THEN "unknown"
                     ELSE LET p == PartOf(m.parts, n) IN
                          IF p.k = "media" THEN p.cls
                          ELSE p.k \o (IF p.b # "typical" THEN ":" \o p.b ELSE "")
                                   \o (IF p.cls = "renamed" THEN "@renamed" ELSE "")
IsMedia(m, n) == KindOfPart(m, n) = "media"
KindOfRel(m, src, id) == IF \E r \in m.rels : r.src = src /\ r.id = id
                         THEN (CHOOSE r \in m.rels : r.src = src /\ r.id = id).k ELSE "unknown"

RunLabel(blk, c) == IF blk = "p" THEN c ELSE blk \o ">" \o c
BlockToks(bl) == UNION {SetOf(bl.runs[j].ts) : j \in 1..Len(bl.runs)}
BodyToks(body) == UNION {BlockToks(body[b]) : b \in 1..Len(body)}
LabelOfTok(body, t) ==
  LET hits == {<<b, j>> \in (1..Len(body)) \X (1..8) : j <= Len(body[b].runs) /\ t \in SetOf(body[b].runs[j].ts)}
  IN IF hits = {} THEN "unknown"
     ELSE LET x == CHOOSE x \in hits : TRUE IN RunLabel(body[x[1]].blk, body[x[1]].runs[x[2]].c)

\* Paragraphs an index-based removal may hit: the body's own paragraphs and - depending on whether a
\* reader flattens block-level content controls - the paragraphs inside them. Which paragraph carries
\* which index is the library's business (C08 decides index arithmetic); C04 only demands that a removal
\* takes away at most one paragraph. Table cells are never reachable by a body-level removal.
IsParaBlk(bl) == bl.blk \in {"p", "pic", "sdtblk"}
ParasOf(body) == LET ps == SeqFilter(body, IsParaBlk) IN [i \in 1..Len(ps) |-> BlockToks(ps[i])]
LooseOf(body) == UNION {BlockToks(body[b]) : b \in {x \in 1..Len(body) : ~IsParaBlk(body[x])}}

\* the part(s) that play a role in package model o: targets of the relationships of the role's type, and
\* the part under the conventional name
RoleTargets(o, src, ty) == {r.rt : r \in {x \in o.rels : x.src = src /\ x.ty = ty /\ x.mode = "Internal"}}
RoleParts(o, src, ty, conv) == {conv} \cup RoleTargets(o, src, ty)

\* ---- the styles part ------------------------------------------------------------
\* The library keeps word/styles.xml of an opened package verbatim (document.go serializeStyles) and
\* only EXTENDS it on save (appendMissingStyles): a style the saved body refers to that the part does not
\* define is appended if the library has a definition of its own (after Open its style manager holds
\* exactly its predefined styles - the foreign definitions are never loaded, style.ParseStylesFromXML
\* rejects the namespaced root element). C04 therefore claims the part byte-for-byte exactly when every
\* style the body uses is already defined in it, however the part spells its XML; otherwise the part
\* counts as regenerated (the library may legitimately append the missing definition, or leave the part
\* alone when it has none - C04 demands neither).
StyleRefs(body) == {body[b].sty : b \in 1..Len(body)} \ {""}
StylesClaimed(m) == StyleRefs(m.body) \subseteq m.styles.defs
StylesRegen(m) == IF StylesClaimed(m) THEN {} ELSE RoleParts(m, DocRels, "od/styles", StylesPart)

\* ---- the machine --------------------------------------------------------------
InitOf(m) == [m |-> m, o |-> m, paras |-> ParasOf(m.body), loose |-> LooseOf(m.body),
              regen |-> AlwaysRegen \cup StylesRegen(m), xrels |-> {}]
NoPkg == [parts |-> {}, rels |-> {}, body |-> <<>>, ns |-> "w", pkgns |-> "default", hlink |-> "",
          styles |-> [sp |-> "w", defs |-> {}], zip |-> {}]
Closed == [m |-> NoPkg, o |-> NoPkg, paras |-> <<>>, loose |-> {}, regen |-> AlwaysRegen, xrels |-> {}]

ParaAppenders == {"AddParagraph", "AddHeading", "AddFormattedParagraph", "AddImage", "AddListItem",
                  "AddFootnote", "AddEndnote", "AddPageBreak"}
\* DOCUMENT PROPERTIES: every setter goes through SetDocumentProperties and rewrites both properties parts;
\* reading them (GetDocumentProperties) rewrites nothing
PropOps == {"SetTitle", "SetAuthor", "SetSubject", "SetKeywords", "SetDescription", "SetCategory",
            "UpdateStatistics", "SetDocumentProperties"}
Neutral == {"Save", "SaveFile", "Reopen", "Render", "SetPageMargins", "AddTable",
            "SetFootnoteConfig", "AddHeader", "AddFooter", "GetDocumentProperties"} \cup PropOps
EditNames == ParaAppenders \cup Neutral \cup {"RemoveParagraphAt"}

\* Headers and footers. The section refers to at most one definition per kind (default, first, even);
\* AddHeader/AddFooter of kind t REPLACES that definition (C11). Which part then carries the new
\* definition is the library's choice: it may rewrite the part the kind already refers to or write a
\* part under an unused name - it may never write over a part that belongs to something else.
HFOps == {"AddHeader", "AddFooter"}
HFTy(e) == IF e.op = "AddHeader" THEN "od/header" ELSE "od/footer"
\* the definition(s) of kind e.t that package model m refers to from its main part
CurHF(m, e) == {r \in m.rels : r.src = DocRels /\ r.ty = HFTy(e) /\ r.ref = e.t}
\* the part(s) carrying them and their relationship parts (label of the part + "-rels")
HFParts(m, e) ==
  LET tgt == {r.rt : r \in CurHF(m, e)}
      lbl == {q.k : q \in {x \in m.parts : x.n \in tgt}}
  IN tgt \cup {q.n : q \in {x \in m.parts : \E l \in lbl : x.k = l \o "-rels"}}

\* parts an edit (re)writes by design: outside the byte-identity claim from then on. Each entry was
\* confirmed against the code (header_footer.go, numbering.go updateNumberingFile, footnotes.go
\* updateFootnotesFile/updateEndnotesFile/saveSettings, properties.go generateCore/AppProperties,
\* document.go appendMissingStyles) and is necessary: without it the unchanged library is reported.
\* The relationship part of a replaced header/footer is included because a correct implementation may
\* discard it together with the part it belonged to.
\* ROLES. The part an edit rewrites is the one that plays the role in the opened package - the target of
\* the relationship of the role's type, whatever its name - and/or the part under the conventional name
\* (which the unchanged library writes). The RELATIONSHIPS stay claimed: a writer that re-targets the
\* role's relationship to its own conventional name breaks C04 (Lossy_Conventional).
\* the roles the library knows by name: <<source, relationship type, conventional part name>>
Roles == {<<PkgRels, "pk/metadata/core-properties", "docProps/core.xml">>,
          <<PkgRels, "od/extended-properties", "docProps/app.xml">>,
          <<DocRels, "od/numbering", "word/numbering.xml">>, <<DocRels, "od/footnotes", "word/footnotes.xml">>,
          <<DocRels, "od/endnotes", "word/endnotes.xml">>, <<DocRels, "od/settings", "word/settings.xml">>,
          <<DocRels, "od/styles", StylesPart>>}
Touches(o, e) ==
  CASE e.op \in HFOps            -> HFParts(o, e)   \* the replaced definition of that kind in the opened package, if any
    [] e.op = "AddListItem"       -> RoleParts(o, DocRels, "od/numbering", "word/numbering.xml")
    [] e.op = "AddFootnote"       -> RoleParts(o, DocRels, "od/footnotes", "word/footnotes.xml")
    [] e.op = "AddEndnote"        -> RoleParts(o, DocRels, "od/endnotes", "word/endnotes.xml")
    [] e.op = "SetFootnoteConfig" -> RoleParts(o, DocRels, "od/settings", "word/settings.xml")
    [] e.op \in PropOps           -> RoleParts(o, PkgRels, "pk/metadata/core-properties", "docProps/core.xml")
                                     \cup RoleParts(o, PkgRels, "od/extended-properties", "docProps/app.xml")
    \* the new paragraph refers to Heading1: the part is extended unless it defines that id already
    [] e.op = "AddHeading"        -> IF "Heading1" \in o.styles.defs THEN {} ELSE RoleParts(o, DocRels, "od/styles", StylesPart)
    [] OTHER                      -> {}

\* relationships an edit replaces by design: AddHeader/AddFooter of kind t replaces the section's
\* reference of kind t, and with it the relationship that reference used
TouchesRels(o, e) ==
  IF e.op \in {"AddHeader", "AddFooter"}
  THEN {<<r.src, r.id>> : r \in {x \in o.rels : x.src = DocRels /\ x.ref = e.t
                                     /\ x.ty = (IF e.op = "AddHeader" THEN "od/header" ELSE "od/footer")}}
  ELSE {}

\* what an edit adds to the package: [part name, kind, rel type, rel target] or none
HFPartName(m, e, ch) == IF CurHF(m, e) # {} THEN (CHOOSE r \in CurHF(m, e) : TRUE).rt ELSE "word/" \o ch.name
NewPart(m, e, ch) ==
  CASE e.op = "AddImage"    -> <<"word/media/" \o ch.name, "media", "od/image", "media/" \o ch.name>>
    [] e.op = "AddHeader"   -> <<HFPartName(m, e, ch), "new-header", "od/header", "x">>
    [] e.op = "AddFooter"   -> <<HFPartName(m, e, ch), "new-footer", "od/footer", "x">>
    [] e.op = "AddListItem" -> <<"word/numbering.xml", "numbering", "od/numbering", "numbering.xml">>
    [] e.op = "AddFootnote" -> <<"word/footnotes.xml", "footnotes", "od/footnotes", "footnotes.xml">>
    [] e.op = "AddEndnote"  -> <<"word/endnotes.xml", "endnotes", "od/endnotes", "endnotes.xml">>
    [] OTHER                -> <<>>

DocIds(m) == {r.id : r \in {x \in m.rels : x.src = DocRels}}
PartNames(m) == {p.n : p \in m.parts}

\* the library's choices must be fresh
ChoiceOK(s, e, ch) ==
  /\ NewPart(s.m, e, ch) # <<>> => ch.id \notin DocIds(s.m)
  /\ e.op = "AddImage" => ("word/media/" \o ch.name) \notin PartNames(s.m)
  \* a kind that is not defined yet gets a part under an unused name
  /\ (e.op \in HFOps /\ CurHF(s.m, e) = {}) => ("word/" \o ch.name) \notin PartNames(s.m)

RemoveIdx(q, i) == [j \in 1..(Len(q) - 1) |-> IF j < i THEN q[j] ELSE q[j + 1]]

ApplyPkg(m, e, ch) ==
  LET np == NewPart(m, e, ch) IN
  IF np = <<>> THEN m
  ELSE LET exists == HasPart(m.parts, np[1])
           hasrel == \E r \in m.rels : r.src = DocRels /\ r.rt = np[1]
           part == [n |-> np[1], k |-> np[2], via |-> "override", cls |-> "new", h |-> "new", ct |-> np[2]]
           rel == [src |-> DocRels, id |-> ch.id, k |-> "new", ty |-> np[3], rt |-> np[1], tg |-> np[4],
                   mode |-> "Internal", ref |-> IF e.op \in HFOps THEN e.t ELSE ""]
       IN [m EXCEPT !.parts = {p \in m.parts : p.n # np[1]}
                               \cup {IF exists THEN [PartOf(m.parts, np[1]) EXCEPT !.h = "new"] ELSE part},
                    !.rels = IF hasrel /\ e.op \notin {"AddHeader", "AddFooter", "AddImage"} THEN m.rels
                             ELSE m.rels \cup {rel}]

Apply(s, e, ch) ==
  IF e.op = "Open" THEN InitOf(e.pkg)
  ELSE LET s1 == [s EXCEPT !.regen = s.regen \cup Touches(s.o, e), !.xrels = s.xrels \cup TouchesRels(s.o, e),
                           !.m = ApplyPkg(s.m, e, ch)] IN
       IF e.op \in ParaAppenders THEN [s1 EXCEPT !.paras = Append(s.paras, {})]
       ELSE IF e.op = "RemoveParagraphAt" THEN
            \* ch.rm = which paragraph the library removed (0 = none)
            IF ch.rm >= 1 /\ ch.rm <= Len(s.paras) THEN [s1 EXCEPT !.paras = RemoveIdx(s.paras, ch.rm)] ELSE s1
       ELSE s1

NoChoice == [id |-> "", name |-> "", rm |-> 0]
ExpToks(s) == s.loose \cup UNION {s.paras[i] : i \in 1..Len(s.paras)}

\* ---- observed package (what the independent reader projects) ------------------
\*   [parts : set of [n, h, ct], rels : set of [src, id, ty, tg, rt, mode, ix], toks : set of token, zip, body,
\*    mem : tokens carried by the runs of the document in memory (paragraphs and table cells at any depth)]
ObsOfModel(m, toks) ==
  [parts |-> {[n |-> p.n, h |-> p.h, ct |-> p.ct] : p \in m.parts},
   rels  |-> {[src |-> r.src, id |-> r.id, ty |-> r.ty, tg |-> r.tg, rt |-> r.rt, mode |-> r.mode, ix |-> 0] : r \in m.rels},
   toks  |-> toks, mem |-> toks, zip |-> "ok", body |-> "ok"]

\* ---- the property as witness sets (empty = holds) -------------------------------
\* b = observed foreign package, m = its model (labels only), regen = names outside the
\* byte-identity claim, exp = tokens that must still be carried by runs, a = observed saved package
Viol_Parts(b, m, regen, a) ==
  LET keep == {p \in b.parts : p.n \notin regen}
      gone == {p \in keep : ~HasPart(a.parts, p.n)}
      here == keep \ gone
  IN   {<<IF IsMedia(m, p.n) THEN "media-dropped" ELSE "part-dropped", LabelOfPart(m, p.n)>> : p \in gone}
  \cup {<<IF IsMedia(m, p.n) THEN "media-overwritten" ELSE "part-changed", LabelOfPart(m, p.n)>> :
           p \in {q \in here : PartOf(a.parts, q.n).h # q.h}}
  \cup {<<"content-type-changed", LabelOfPart(m, p.n)>> : p \in {q \in here : PartOf(a.parts, q.n).ct # q.ct}}

SameTarget(x, r) == IF r.mode = "External" THEN x.tg = r.tg ELSE x.rt = r.rt

\* the tag says whose relationships are concerned: the package's, the main part's, another part's
RelTag(src, t) == IF src = PkgRels THEN "pkg-" \o t ELSE IF src = DocRels THEN t ELSE "part-" \o t

Viol_Rel(r, k, a) ==
  LET hit == {x \in a.rels : x.src = r.src /\ x.id = r.id}
      T(t) == RelTag(r.src, t)
  IN
  IF hit = {} THEN
       IF \E x \in a.rels : x.src = r.src /\ x.ty = r.ty /\ x.mode = r.mode /\ SameTarget(x, r)
       THEN {<<T("rel-id-changed"), k>>} ELSE {<<T("rel-dropped"), k>>}
  ELSE IF Cardinality(hit) > 1 THEN {<<T("rel-id-reused"), k>>}
  ELSE LET x == CHOOSE x \in hit : TRUE IN
         (IF x.ty # r.ty THEN {<<T("rel-type-changed"), k>>} ELSE {})
    \cup (IF x.mode # r.mode
            THEN {<<T(IF r.mode = "External" THEN "rel-mode-lost" ELSE "rel-mode-changed"), k>>}
          ELSE IF ~SameTarget(x, r) THEN {<<T("rel-target-changed"), k>>} ELSE {})

\* relationships of a part that an edit replaced by design, and relationships an edit replaced, are not claimed
Viol_Rels(b, m, regen, xrels, a) ==
  UNION {Viol_Rel(r, KindOfRel(m, r.src, r.id), a) :
           r \in {x \in b.rels : x.src \notin (regen \ AlwaysRegen) /\ <<x.src, x.id>> \notin xrels}}

\* text-unread: a w:t of the foreign body is not carried by any run of the opened document in memory;
\* text-lost: it is not carried by any run of the saved main part
Viol_Text(m, exp, a) ==
  {<<"text-unread", LabelOfTok(m.body, t)>> : t \in exp \ a.mem}
  \cup (IF a.body # "ok" THEN {<<"text-lost", "body-" \o a.body>>}
        ELSE {<<"text-lost", LabelOfTok(m.body, t)>> : t \in exp \ a.toks})

\* raw witnesses <<tag, label>>; the judge prefixes the property id and the operation
Viol_C04(b, s, a) ==
  IF a.zip # "ok" THEN {<<"saved-unreadable", a.zip>>}
  ELSE Viol_Parts(b, s.o, s.regen, a) \cup Viol_Rels(b, s.o, s.regen, s.xrels, a) \cup Viol_Text(s.o, ExpToks(s), a)

\* ---- lossy variants (what an implementation with a suspected defect would write);
\*      used by Foreign_MC to show each detector fires exactly when it should -------
Lossy_DropModes(a) == [a EXCEPT !.rels = {[r EXCEPT !.mode = "Internal", !.rt = "?"] : r \in a.rels}]
Lossy_PlainOnly(m, a) == [a EXCEPT !.toks = {t \in a.toks : LabelOfTok(m.body, t) = "plain"}]
\* a reader that keeps one w:t per run and no text of a run that holds other content
MixedToks(body) == UNION {UNION {SetOf(body[b].runs[j].ts) : j \in {x \in 1..Len(body[b].runs) : IsMixedRun(body[b].runs[x])}} : b \in 1..Len(body)}
Lossy_PureRunsOnly(m, a) == [a EXCEPT !.toks = a.toks \ MixedToks(m.body), !.mem = a.mem \ MixedToks(m.body)]
\* a writer that drops the text of mixed runs although the reader kept it
Lossy_WriterPureOnly(m, a) == [a EXCEPT !.toks = a.toks \ MixedToks(m.body)]
\* a reader that takes every relationship whose type contains "styles" for the styles relationship:
\* the look-alike is filtered out; without a genuine styles relationship its id is reused for styles.xml
Lossy_StylesLookalike(a) ==
  LET fx == {r \in a.rels : r.src = DocRels /\ r.ty = "ms07/stylesWithEffects"}
      hasSty == \E r \in a.rels : r.src = DocRels /\ r.ty = "od/styles" /\ r.rt = StylesPart
  IN [a EXCEPT !.rels = (a.rels \ fx) \cup (IF hasSty THEN {} ELSE
                           {[r EXCEPT !.ty = "od/styles", !.tg = "styles.xml", !.rt = StylesPart] : r \in fx})]
\* a reader that takes every entry without content for a directory placeholder and skips it
Lossy_SkipEmpty(m, a) == [a EXCEPT !.parts = {p \in a.parts : ~(HasPart(m.parts, p.n) /\ PartOf(m.parts, p.n).b = "empty")}]
\* a writer that points the relationship of every role it knows at its own conventional part name
Lossy_Conventional(a) ==
  LET conv(r) == IF \E ro \in Roles : ro[1] = r.src /\ ro[2] = r.ty
                 THEN (CHOOSE ro \in Roles : ro[1] = r.src /\ ro[2] = r.ty)[3] ELSE r.rt
  IN [a EXCEPT !.rels = {IF r.mode = "Internal" /\ conv(r) # r.rt THEN [r EXCEPT !.rt = conv(r), !.tg = conv(r)] ELSE r : r \in a.rels}]
\* a writer that regenerates or extends the styles part although nothing is missing from it
Lossy_StylesRewritten(a) == [a EXCEPT !.parts = {IF p.n = StylesPart THEN [p EXCEPT !.h = "rewritten"] ELSE p : p \in a.parts}]
Lossy_StylesRId1(a) == [a EXCEPT !.rels = {IF r.src = DocRels /\ r.ty = "od/styles" THEN [r EXCEPT !.id = "rId1"] ELSE r : r \in a.rels}]
Lossy_DefaultPkgRels(a) ==
  [a EXCEPT !.rels = {r \in a.rels : r.src # PkgRels}
                     \cup {[src |-> PkgRels, id |-> "rId1", ty |-> "od/officeDocument", tg |-> "word/document.xml",
                            rt |-> DocPart, mode |-> "Internal", ix |-> 0]}]
=============================================================================
