SPECIFICATION SpecMC
CONSTANTS
  MaxEnt = 2
  MinDat = 1
  MaxDat = 2
  DirSizes = {1}
  BufSizes = {2, 3}
  MCVariants = {"asbuilt"}
  MCTargets = {"newdir", "existing", "device", "rodir", "rofile", "parentfile", "isdir"}
  GroupNames = {}
INVARIANTS Inv_C05_AsBuilt
CHECK_DEADLOCK FALSE
