SPECIFICATION SpecMC
CONSTANTS
  Plans <- PlanMCThorough
  Depth = 0
INVARIANTS Inv_ParaLaws Inv_Loop Inv_JudgeSound Inv_JudgeSharp Inv_PartsSharp Inv_PartsKept
PROPERTIES Act_Pure
CHECK_DEADLOCK FALSE
