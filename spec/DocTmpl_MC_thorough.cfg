SPECIFICATION SpecMC
CONSTANTS
  Plans <- PlanMCThorough
  Depth = 0
INVARIANTS Inv_ParaLaws Inv_Loop Inv_JudgeSound Inv_JudgeSharp
PROPERTIES Act_Pure
CHECK_DEADLOCK FALSE
