SPECIFICATION SpecMC
CONSTANTS
  MaxSteps = 4
  Depth = 0
  OpNames = {"AddHeading", "SetStyle", "AddStyle", "ModifyStyle", "RemoveStyle", "GenerateTOC", "AutoGenerateTOC", "UpdateTOC", "TOCEntry", "ApplyTableStyle", "CreateCustomTableStyle", "AddListItem", "AddNote", "RemoveNote", "Save", "Reopen", "OpenForeign", "Markdown", "Switch", "Look", "AddParagraph"}
  Lv = {2, 9}
  Maxes = {3}
  StyIds = {"Quote", "C1", "Zz9"}
  AddIds = {"C1"}
  ModIds = {"Heading2", "C1"}
  RmIds = {"Heading2", "C1"}
  Tpls = {"TableGrid"}
  TblIds = {"ab", "TS1"}
  ListTypes = {"bullet", "number"}
  Shapes = {"lists", "toc"}
  Kinds = {"all"}
  ViasC = {"AddStyle", "CreateQuickStyle"}
  HowsC = {"mutate", "replace"}
  OnIds = {"Normal", "Heading2"}
  NoteKinds = {"fn", "en"}
  Looks = {"styles"}
  FreshC = {TRUE, FALSE}
INVARIANTS Inv_Defined Inv_Wf Inv_Pending
PROPERTIES Act_Save Act_Keep Act_Remove Act_Isolated
CHECK_DEADLOCK FALSE
