SPECIFICATION SpecMC
CONSTANTS
  Starts = {"2x2","3x3","h3","v3","r3","n2"}
  OpNames = {"InsertRow","AppendRow","DeleteRow","DeleteRows","InsertColumn","AppendColumn","DeleteColumn","DeleteColumns","SetCellText","ClearCellParagraphs","AddCellParagraph","AddNestedTable","MergeCellsHorizontal","MergeCellsVertical","MergeCellsRange","UnmergeCells","ClearTable","CopyTable","ReadAll"}
  Creates = "core"
  Depth = 0
  Slack = 0
  PairMode = "core"
  CellMode = "core"
  MaxR = 4
  MaxC = 4
  MaxP = 3
  MaxTok = 99999
  MaxLevel = 3
INVARIANTS Inv_WF Inv_Uniq Inv_Read Inv_Relation
CONSTRAINTS LevelBound
VIEW MCView
CHECK_DEADLOCK FALSE
