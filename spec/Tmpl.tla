------------------------------- MODULE Tmpl -------------------------------
(***************************************************************************)
(* Reference semantics of wordZero's *text* templates (property C16).      *)
(*                                                                         *)
(* A template is  tpl = [body |-> Seq(node), ext |-> BOOLEAN,              *)
(*                       ovr |-> Seq(block node), bn |-> name token]       *)
(*   body  the (base) template, loaded under the name bn; ext = TRUE: a    *)
(*         child template `{{extends "<bn>"}}` + the blocks in ovr is      *)
(*         loaded after it and the child is rendered.                      *)
(* Names written as quoted strings (block names, the name of the extended  *)
(* template) are tokens of two classes: identifiers (b1 b2 / t1) and free  *)
(* text that is not an identifier - hyphen, space, dot, non-ASCII letters  *)
(* (h1 h2 / t2). A name is only ever compared for equality.                *)
(* Every node is the record [t, n, a, b] (one JSON shape):                 *)
(*   t = "lit"   n = literal token (p1 p2 nl br1 br2 x1)                   *)
(*       "var"   n = global variable name           {{n}}                  *)
(*       "if"    n = condition, a = body            {{#if n}}a{{/if}}      *)
(*       "ife"   n = condition, a / b = branches    ...{{else}}b{{/if}}    *)
(*       "each"  n = list, a = body                 {{#each n}}a{{/each}}  *)
(*       "this" "idx" "first" "last"                {{this}} {{@index}} .. *)
(*       "fld"   n = item field                     {{n}} inside each      *)
(*       "block" n = block name, a = default body   {{#block "n"}}a{{/block}} *)
(*       "img"   n = image name                     {{#image n}}           *)
(* Outside a loop a condition is looked up in data.conds (absent = false); *)
(* inside a loop over map items it is the truthiness of the item's field   *)
(* (absent / false / "" / 0 = false).                                      *)
(*                                                                         *)
(* Data  d = [vars |-> [name -> value token], conds |-> [name -> BOOLEAN], *)
(*            lists |-> [name -> Seq(item)], imgs |-> set of names]        *)
(*   absent entry = name not in the DOMAIN.                                *)
(*   item = [k |-> "s", v |-> value token]                (scalar)         *)
(*        | [k |-> "m", f |-> [field -> fieldvalue]]      (map)            *)
(*   fieldvalue = [k |-> "v", v |-> value token] | [k |-> "l", l |-> Seq(item)] *)
(*                                                                         *)
(* Value tokens (the harness owns several concrete Go values per token):   *)
(*   p1 p2 plain text; n0 the number 0; n1 n2 non-zero numbers; bT bF      *)
(*   booleans; e1 the empty string; d1..d4 text that looks like template   *)
(*   syntax ({{v2}}, {{#if c1}}X{{/if}}, {{/each}}, {{this}} ...); s1 text *)
(*   with `$1`-like regexp replacement syntax; w1 text with a newline; x1  *)
(*   text equal to the engine's internal image marker; rv1 rv2 rf1 rf2     *)
(*   text that contains the placeholder {{<name>}} of the variable / item  *)
(*   field <name> = RefName(token) (otherwise plain).  Whether that name is *)
(*   supplied where the value is inserted only names the class of the case *)
(*   (RefClass); the result is the same: the value, verbatim.              *)
(*                                                                         *)
(* Render(tpl, d) is the sequence of output tokens                         *)
(*   "L:<lit>"  literal copied        "V:<val>"  value inserted verbatim   *)
(*   "U:<name>" unknown variable / field left in place as {{name}}         *)
(*   "I:<i>"    loop index (0-based)  "B:T" "B:F" first / last flag        *)
(*   "IMG:<n>"  a picture paragraph for image n                            *)
(* whose concatenation (split at newlines, one paragraph per line) is the  *)
(* documented result.                                                      *)
(***************************************************************************)
EXTENDS Integers, Sequences, FiniteSets, TLC

\* ---- node constructors ---------------------------------------------------
Nd(t, n, a, b) == [t |-> t, n |-> n, a |-> a, b |-> b]
Leaf(t, n) == Nd(t, n, <<>>, <<>>)

CondKinds == {"if", "ife"}
OpenKinds == {"if", "ife", "each", "block"}

\* ---- value tokens --------------------------------------------------------
PlainVals == {"p1", "p2"}
NumVals   == {"n0", "n1", "n2"}
BoolVals  == {"bT", "bF"}
DirVals   == {"d1", "d2", "d3", "d4"}
VRefVals  == {"rv1", "rv2"}          \* text containing the placeholder of a global variable
FRefVals  == {"rf1", "rf2"}          \* text containing the placeholder of an item field
RefVals   == VRefVals \cup FRefVals
AllVals   == PlainVals \cup NumVals \cup BoolVals \cup DirVals \cup RefVals \cup {"e1", "s1", "w1", "x1"}

\* the name whose placeholder a reference value contains
RefName(v) ==
  CASE v = "rv1" -> "v1" [] v = "rv2" -> "v2" [] v = "rf1" -> "f1" [] v = "rf2" -> "f2" [] OTHER -> ""

\* quoted names that are not identifiers
QuotedNames == {"h1", "h2", "t2"}

\* class of a value token, used only to name what a case contains
ValClass(v) ==
  CASE v \in PlainVals -> "p"
    [] v \in NumVals   -> "n"
    [] v \in BoolVals  -> "b"
    [] v \in DirVals   -> "d"
    [] v \in RefVals   -> "r"
    [] v = "e1"        -> "e"
    [] v = "s1"        -> "s"
    [] v = "w1"        -> "w"
    [] v = "x1"        -> "x"
    [] OTHER           -> "?"

LitClass(c) ==
  CASE c \in {"p1", "p2"}   -> "p"
    [] c = "nl"             -> "nl"
    [] c \in {"br1", "br2"} -> "br"
    [] c = "x1"             -> "x"
    [] OTHER                -> "?"

\* documented truthiness of an item field used as a loop-inner condition
Truthy(v) == v \notin {"bF", "e1", "n0"}

\* ---- data access ---------------------------------------------------------
HasVar(d, n)  == n \in DOMAIN d.vars
HasCond(d, n) == n \in DOMAIN d.conds
HasList(d, n) == n \in DOMAIN d.lists

\* loop stack: Seq([item, i, n]);  innermost last
Inner(ls) == ls[Len(ls)]

ItemHas(it, f) == it.k = "m" /\ f \in DOMAIN it.f

\* a field is looked up in the innermost enclosing item that has it
\* ("inner loops can access the variables of outer loops")
RECURSIVE FindFld(_, _)
FindFld(ls, f) ==
  IF ls = <<>> THEN [k |-> "none"]
  ELSE IF ItemHas(Inner(ls).item, f) THEN Inner(ls).item.f[f]
  ELSE FindFld(SubSeq(ls, 1, Len(ls) - 1), f)

CondHolds(n, d, ls) ==
  IF ls = <<>> THEN HasCond(d, n) /\ d.conds[n]
  ELSE LET it == Inner(ls).item
       IN ItemHas(it, n) /\ it.f[n].k = "v" /\ Truthy(it.f[n].v)

ListOf(n, d, ls) ==
  IF ls = <<>> THEN (IF HasList(d, n) THEN d.lists[n] ELSE <<>>)
  ELSE LET it == Inner(ls).item
       IN IF ItemHas(it, n) /\ it.f[n].k = "l" THEN it.f[n].l ELSE <<>>

\* ---- the reference interpreter -------------------------------------------
RECURSIVE RSeq(_, _, _), RNode(_, _, _), RLoop(_, _, _, _, _)

RSeq(s, d, ls) == IF s = <<>> THEN <<>> ELSE RNode(Head(s), d, ls) \o RSeq(Tail(s), d, ls)

\* body once per item, in order, items i..Len(list)
RLoop(body, list, i, d, ls) ==
  IF i > Len(list) THEN <<>>
  ELSE RSeq(body, d, Append(ls, [item |-> list[i], i |-> i - 1, n |-> Len(list)]))
       \o RLoop(body, list, i + 1, d, ls)

RNode(x, d, ls) ==
  CASE x.t = "lit"   -> <<"L:" \o x.n>>
    [] x.t = "var"   -> IF HasVar(d, x.n) THEN <<"V:" \o d.vars[x.n]>> ELSE <<"U:" \o x.n>>
    [] x.t = "if"    -> IF CondHolds(x.n, d, ls) THEN RSeq(x.a, d, ls) ELSE <<>>
    [] x.t = "ife"   -> IF CondHolds(x.n, d, ls) THEN RSeq(x.a, d, ls) ELSE RSeq(x.b, d, ls)
    [] x.t = "each"  -> RLoop(x.a, ListOf(x.n, d, ls), 1, d, ls)
    [] x.t = "this"  -> <<"V:" \o Inner(ls).item.v>>
    [] x.t = "idx"   -> <<"I:" \o ToString(Inner(ls).i)>>
    [] x.t = "first" -> <<IF Inner(ls).i = 0 THEN "B:T" ELSE "B:F">>
    [] x.t = "last"  -> <<IF Inner(ls).i = Inner(ls).n - 1 THEN "B:T" ELSE "B:F">>
    [] x.t = "fld"   -> LET fv == FindFld(ls, x.n)
                        IN IF fv.k = "v" THEN <<"V:" \o fv.v>> ELSE <<"U:" \o x.n>>
    [] x.t = "block" -> RSeq(x.a, d, ls)
    [] x.t = "img"   -> <<"IMG:" \o x.n>>
    [] OTHER         -> <<"?">>

\* ---- inheritance: an overridden block is replaced completely, the others keep their default
OvrNames(tpl) == {tpl.ovr[i].n : i \in 1..Len(tpl.ovr)}
OvrOf(tpl, n) == tpl.ovr[CHOOSE i \in 1..Len(tpl.ovr) : tpl.ovr[i].n = n]

Resolve(tpl) ==
  IF ~tpl.ext THEN tpl.body
  ELSE [i \in 1..Len(tpl.body) |->
          LET x == tpl.body[i]
          IN IF x.t = "block" /\ x.n \in OvrNames(tpl) THEN OvrOf(tpl, x.n) ELSE x]

\* the paragraph splitter's documented behaviour: one paragraph per line; content that is
\* blank as a whole produces no paragraph
BlankTok(t) == t \in {"L:nl", "V:e1"}
Norm(out) == IF \A i \in 1..Len(out) : BlankTok(out[i]) THEN <<>> ELSE out

RenderRaw(tpl, d) == RSeq(Resolve(tpl), d, <<>>)
Render(tpl, d) == Norm(RenderRaw(tpl, d))

\* ---- what a case contains (names of construct / data classes) ------------
\* Used by the judge to attribute a deviation to the smallest set of classes.
\* A construct contributes its structural class, plus a marker class when it is in its
\* non-default state (condition false: "if:F" / "ife:F"; list absent ":A" or empty ":0").
\* An if-else also is an "if".
\*   prefix  ""  outside loops, "e/" in a loop body, "ee/" in a nested loop body (loops, loop
\*   variables and content); conditionals only distinguish outside / inside a loop
Pfx(ls) == IF Len(ls) = 0 THEN "" ELSE IF Len(ls) = 1 THEN "e/" ELSE "ee/"
PfxC(ls) == IF Len(ls) = 0 THEN "" ELSE "e/"

\* a reference value is classed by whether the name it mentions is supplied in the scope in which
\* the value is inserted (d = the data, ls = the loop stack at the place of insertion):
\*   "ref"   a global variable that the data supply
\*   "fref"  a value field of an enclosing loop item
\*   "ref0"  a name nobody supplies there (it then is just text in braces)
RefClass(v, d, ls) ==
  IF v \in VRefVals THEN (IF HasVar(d, RefName(v)) THEN "ref" ELSE "ref0")
  ELSE IF FindFld(ls, RefName(v)).k = "v" THEN "fref" ELSE "ref0"

\* non-plain literal and value classes are named without position: one class per kind of text
SpecialVal(d, ls, v) ==
  IF ValClass(v) = "p" THEN {}
  ELSE IF ValClass(v) = "r" THEN {"val:" \o RefClass(v, d, ls)}
  ELSE {"val:" \o ValClass(v)}

RECURSIVE CSeq(_, _, _, _), CNode(_, _, _, _), CLoop(_, _, _, _, _, _)

\* par = kind of the enclosing construct ("" at the top of a template / loop body)
Multi(s, p) ==
  LET cnt(K) == Cardinality({i \in 1..Len(s) : s[i].t \in K})
  IN  (IF cnt(CondKinds) >= 2 THEN {p \o "multi:if"} ELSE {})
      \cup (IF cnt({"each"}) >= 2 THEN {p \o "multi:each"} ELSE {})
      \cup (IF cnt({"block"}) >= 2 THEN {p \o "multi:block"} ELSE {})
      \cup (IF cnt({"img"}) >= 2 THEN {p \o "multi:img"} ELSE {})

CSeq(s, d, ls, par) ==
  Multi(s, PfxC(ls)) \cup UNION {CNode(s[i], d, ls, par) : i \in 1..Len(s)}

CLoop(body, list, i, d, ls, acc) ==
  IF i > Len(list) THEN acc
  ELSE CLoop(body, list, i + 1, d, ls,
             acc \cup CSeq(body, d, Append(ls, [item |-> list[i], i |-> i - 1, n |-> Len(list)]), ""))

NoItem == [item |-> [k |-> "none"], i |-> 0, n |-> 0]

CNode(x, d, ls, par) ==
  LET p == Pfx(ls)
      pc == PfxC(ls)
      nest(k) == IF par = "" THEN {} ELSE {pc \o "nest:" \o par \o ">" \o k}
      live == ls = <<>> \/ Inner(ls).item.k # "none"
  IN
  CASE x.t = "lit" -> {p \o "lit"} \cup (IF LitClass(x.n) = "p" THEN {} ELSE {"lit:" \o LitClass(x.n)})
    [] x.t = "var" -> IF HasVar(d, x.n) THEN {p \o "var"} \cup SpecialVal(d, ls, d.vars[x.n])
                      ELSE {p \o "var:missing"}
    [] x.t = "if"  -> {pc \o "if"} \cup (IF live /\ ~CondHolds(x.n, d, ls) THEN {pc \o "if:F"} ELSE {})
                      \cup nest("if") \cup CSeq(x.a, d, ls, "if")
    [] x.t = "ife" -> {pc \o "if", pc \o "ife"} \cup (IF live /\ ~CondHolds(x.n, d, ls) THEN {pc \o "ife:F"} ELSE {})
                      \cup nest("if") \cup CSeq(x.a, d, ls, "if") \cup CSeq(x.b, d, ls, "if")
    [] x.t = "each" ->
         LET absent == IF ~live THEN TRUE
                       ELSE IF ls = <<>> THEN ~HasList(d, x.n)
                       ELSE ~(ItemHas(Inner(ls).item, x.n) /\ Inner(ls).item.f[x.n].k = "l")
             list == IF live THEN ListOf(x.n, d, ls) ELSE <<>>
         IN {p \o "each:" \o x.n}
            \cup (IF ~live THEN {} ELSE IF absent THEN {p \o "each:" \o x.n \o ":A"}
                  ELSE IF list = <<>> THEN {p \o "each:" \o x.n \o ":0"} ELSE {})
            \cup nest("each")
            \cup (IF list = <<>> THEN CSeq(x.a, d, Append(ls, NoItem), "")
                  ELSE CLoop(x.a, list, 1, d, ls, {}))
    [] x.t = "this" -> {p \o "this"} \cup (IF live THEN SpecialVal(d, ls, Inner(ls).item.v) ELSE {})
    [] x.t = "idx"   -> {p \o "idx"}
    [] x.t = "first" -> {p \o "first"}
    [] x.t = "last"  -> {p \o "last"}
    [] x.t = "fld" -> IF ~live THEN {p \o "fld"}
                      ELSE LET fv == FindFld(ls, x.n)
                           IN IF fv.k = "v" THEN {p \o "fld"} \cup SpecialVal(d, ls, fv.v)
                              ELSE {p \o "fld:missing"}
    [] x.t = "block" -> {p \o "block"} \cup (IF x.n \in QuotedNames THEN {"block:qname"} ELSE {})
                        \cup nest("block") \cup CSeq(x.a, d, ls, "block")
    [] x.t = "img" -> {p \o "img"}
    [] OTHER -> {"?"}

Classes(tpl, d) ==
  CSeq(Resolve(tpl), d, <<>>, "")
  \cup (IF tpl.ext THEN {"ext"}
                        \cup (IF tpl.bn \in QuotedNames THEN {"ext:qname"} ELSE {})
                        \cup (IF tpl.ovr # <<>> THEN {"ext:ovr"} ELSE {})
                        \cup (IF \E i \in 1..Len(tpl.body) : tpl.body[i].t = "block" /\ tpl.body[i].n \notin OvrNames(tpl)
                              THEN {"ext:default"} ELSE {})
        ELSE {})
  \cup (IF d.noise THEN {"noise"} ELSE {})

\* plain content: literal text and plain substitutions. They fill the branches and bodies of the
\* constructs; a deviation is attributed to them only when the case contains nothing else.
ContentClasses == {p \o c : p \in {"", "e/", "ee/"}, c \in {"lit", "var", "var:missing", "fld", "fld:missing", "this"}}

\* ---- names a template uses (to choose the data that matters) -------------
RECURSIVE NamesIn(_)
NamesIn(s) ==
  IF s = <<>> THEN {}
  ELSE LET h == Head(s) IN {<<h.t, h.n>>} \cup NamesIn(h.a) \cup NamesIn(h.b) \cup NamesIn(Tail(s))

TplNames(tpl) ==
  NamesIn(tpl.body) \cup NamesIn(tpl.ovr)

Used(tpl, kinds, pool) == {q[2] : q \in {r \in TplNames(tpl) : r[1] \in kinds}} \cap pool
=============================================================================
