SPECIFICATION SpecMC
CONSTANTS
  MaxEnt = 2
  MinDat = 0
  MaxDat = 2
  DirSizes = {1}
  BufSizes = {2, 3}
  MCVariants = {"intended", "asbuilt", "cleaned", "uncollected"}
  MCTargets = {"newdir", "existing", "device", "rodir", "rofile", "parentfile", "isdir", "relative", "dotdot", "unclean", "vialink", "linkdotdot", "linktofile", "danglinglink"}
  GroupNames = {}
INVARIANTS Inv_C05 Inv_C05_Cleaned Inv_CleanedElsewhere Inv_PathForms Inv_Uncollected Inv_UncollectedLoses Inv_FaultReported Inv_NoSpurious Inv_Oracle Inv_Conservation Inv_Limit Inv_EarlySurfaces Inv_Run Inv_AsBuiltNil
PROPERTIES Act_ErrSticky Act_WerrSticky Act_FileGrows Live_Returns
CHECK_DEADLOCK FALSE
