-------------------------------- MODULE Pkg --------------------------------
(***************************************************************************)
(* Pure (variable-free) specification of the whole-package machine         *)
(* (property C01): whatever sequence of successful calls built a document  *)
(* and whatever text / names / data they were given, the saved bytes are   *)
(* a readable ZIP without duplicate entries in which the content-types     *)
(* stream and the package relationship part exist and locate exactly one   *)
(* main document part, every XML part is well-formed XML 1.0 (syntax, the  *)
(* Char production, UTF-8) and every part has a content type (extension    *)
(* default or override).                                                   *)
(*                                                                         *)
(* The package, as the independent reader sees it and as the reference     *)
(* machine builds it:                                                      *)
(*   P = [zip   : "ok" | "unreadable" | "save-error" | "save-panic",       *)
(*        dups  : Seq(kind)      entry names occurring more than once,     *)
(*        ct    : "ok" | "missing" | "ill-formed" | "foreign"              *)
(*                               [Content_Types].xml ("foreign": its root  *)
(*                               is not the Types element of the OPC       *)
(*                               content-types namespace),                 *)
(*        prels : "ok" | "missing" | "ill-formed" | "foreign" _rels/.rels, *)
(*        odoc  : Seq(BOOLEAN)   one per officeDocument relationship:      *)
(*                               does its (internal) target exist?,        *)
(*        parts : Seq([k, x, xml, wf, ct])]                                *)
(*   k   part kind (by the role of its name)       x   extension           *)
(*   xml is it an XML part (extension xml/rels or +xml content type)       *)
(*   wf  "ok" | "syntax" | "char" | "utf8" | "-" (not XML)                 *)
(*   ct  "ovr" | "def" | "none" | "self" (the content-types stream)        *)
(*                                                                         *)
(* Abstract state  st = [pkg, hdr, ftr, tpl, org, by, taint]               *)
(*   pkg    the package                                                    *)
(*   org    origin of the document object: "new" (generated from scratch), *)
(*          "opened" (read from a package: its parts are preserved and     *)
(*          edits are spliced into them), "rendered" (document template),  *)
(*          "text" (text template), "md" (Markdown)                        *)
(*   hdr, ftr   header / footer kinds (default, first, even) defined       *)
(*   tpl    the body holds an unfilled picture placeholder                 *)
(*   by     part kind -> [op, a1, a2]: the call that last wrote it         *)
(*   taint  a call failed or panicked (the premise "successful calls" no   *)
(*          longer holds for this document)                                *)
(* An operation is a record [op |-> name, ...argument classes].            *)
(***************************************************************************)
EXTENDS Integers, Sequences, FiniteSets, TLC

TextClasses == {"plain", "xmlmeta", "cdataend", "ctrl", "nonchar", "astral", "cjk", "empty", "ws", "edgews", "braces", "long"}
ImgDeclared == {"png", "jpeg", "gif"}                 \* the ImageFormat constants
FmtClasses  == ImgDeclared \cup {"other", "unset"}    \* + a value outside the constants, + the zero value
NameClasses == {"png", "jpg", "jpeg", "JPG", "gif", "noext", "dot", "multi", "cjk", "space", "meta", "mislead", "empty", "path", "ctrl"}
HfKinds     == {"default", "first", "even"}
\* how the package that Reopen reads was written by the producer between the save and the open (same package, other spelling):
\*   asis   the bytes the library saved
\*   abs    every internal relationship target as an absolute part name (/word/document.xml)
\*   dot    ... with a leading dot segment (./word/document.xml)
\*   updir  ... with a redundant parent segment (word/../word/document.xml, ../word/styles.xml)
\*   qual   relationship parts and the content-types stream with a namespace prefix, single quotes, other attribute order
\*   ovr    every part typed by an Override of the content-types stream (no extension default but the one of rels)
\*   xmlser every XML part written by another serialiser (single quotes, > and " raw in attribute values, CDATA, other
\*          empty-element form, white space in end tags, comments around the root's end tag): the same documents
\*   min    the least a producer must write: no style definitions part, no document properties, parts typed by Override
\*   order  archive entries stored uncompressed in another order, the content-types stream last
\*   dirs   with explicit directory entries (word/, _rels/, ...), which are not parts
\*   extra  with parts the library has no model of (thumbnail, custom properties, custom XML item with its own
\*          relationship part, theme, font table), declared and related as Word does
SpellClasses == {"asis", "abs", "dot", "updir", "qual", "ovr", "xmlser", "min", "order", "dirs", "extra"}
\* how a style that the style manager already holds is edited in place:
\*   name / run / para  its name / run properties / paragraph properties set from the text class (the definition grows)
\*   strip  its properties dropped (the definition shrinks)     rebase  its basedOn / next chain re-pointed
\*   readd  a new definition with the same id handed to AddStyle (replaces the old one)
StyleEdits  == {"name", "run", "para", "strip", "rebase", "readd"}
Origins     == {"new", "opened", "rendered", "text", "md"}

\* ---- operation alphabet (by shape of the argument record) --------------------
BodyTextOps == {"AddParagraph", "AddHeading", "AddFormattedParagraph", "AddFormattedText", "SetParaStyle", "SetParaFormat",
                "AddMathFormula", "AddMathOMML", "AddInlineMath", "GenerateTOC", "AutoGenerateTOC", "SetTOCStyle", "TOCSDT",
                "AddTable", "SetCellText", "AddCellParagraph", "AddCellList", "AddNestedTable", "TableRows", "TableStyle"}
ListOps     == {"AddListItem", "AddBulletList", "AddNumberedList", "CreateMultiLevelList"}
FnOps       == {"AddFootnote", "AddFootnoteToRun"}
EnOps       == {"AddEndnote"}
PropOps     == {"SetTitle", "SetAuthor", "SetSubject", "SetKeywords", "SetDescription", "SetCategory", "SetDocumentProperties"}
TextOps     == BodyTextOps \cup ListOps \cup FnOps \cup EnOps \cup PropOps \cup {"AddImageText", "SetFootnoteFormat"}      \* [op, tc]
HeaderOps   == {"AddHeader", "AddHeaderWithPageNumber", "AddFormattedHeader"}
FooterOps   == {"AddFooter", "AddFooterWithPageNumber", "AddFormattedFooter"}
HfOps       == HeaderOps \cup FooterOps                                                              \* [op, kind, tc]
ImageOps    == {"AddImage", "AddCellImage"}                                                          \* [op, fmt, nm, via]
PlainOps    == {"AddPageBreak", "RestartNumbering", "RemoveFootnote", "SetFootnoteConfig", "UpdateTOC", "TableMerge",
                "RemoveParagraphAt", "SetDifferentFirstPage", "UpdateStatistics", "GetDocumentProperties", "RemoveStyle",
                "AddTemplateBits"}                                                                   \* [op]
SaveOps     == {"Save", "ToBytes"}                                                                   \* [op]
\* "AddStyle" [op, tc, via]; "EditStyle" [op, tc, ed]; "PageSet" [op, which]; "Reopen" [op, via, sp];
\* "Render" [op, tc, via, img, prep]; "RenderText" [op, tk, tc]; "ConvertMd" [op, mk, tc, via]
\* Render.prep = TRUE: the template document is first given the placeholder content of AddTemplateBits (one step)
\* Render.via: doc | legacy (template loaded from the document object) | file (the document is saved and the template is
\*             loaded from that file: the renderer's own open)
OtherOps    == {"AddStyle", "EditStyle", "PageSet", "Reopen", "Render", "RenderText", "ConvertMd"}
AllOps      == TextOps \cup HfOps \cup ImageOps \cup PlainOps \cup SaveOps \cup OtherOps

\* ---- helpers ------------------------------------------------------------------
ToSet(s) == {s[i] : i \in 1..Len(s)}
Has(op, f) == f \in DOMAIN op
Count(s, T(_)) == Cardinality({i \in 1..Len(s) : T(s[i])})
KindsIn(P) == {p.k : p \in ToSet(P.parts)}
Bag(s) == [x \in ToSet(s) |-> Cardinality({j \in 1..Len(s) : s[j] = x})]

\* argument classes of a call as they appear in witness signatures
A1(op) == IF Has(op, "tc") THEN op.tc ELSE IF Has(op, "fmt") THEN op.fmt ELSE IF Has(op, "which") THEN op.which ELSE "-"
A2(op) == IF Has(op, "nm") THEN op.nm ELSE IF Has(op, "mk") THEN op.mk ELSE IF Has(op, "tk") THEN op.tk
          ELSE IF Has(op, "kind") THEN op.kind ELSE IF Has(op, "ed") THEN op.ed ELSE IF Has(op, "sp") THEN op.sp ELSE "-"
Writer(op) == [op |-> op.op, a1 |-> A1(op), a2 |-> A2(op)]
NoWriter == [op |-> "New", a1 |-> "-", a2 |-> "-"]

\* ---- the property as witness sets: <<what, part kind, detail>> ------------------
Viol_C01(P) ==
  IF P.zip # "ok" THEN {<<"zip", "-", P.zip>>}
  ELSE {<<"duplicate-entry", P.dups[i], "-">> : i \in 1..Len(P.dups)}
       \cup (IF P.ct # "ok" THEN {<<"content-types", "ctypes", P.ct>>} ELSE {})
       \cup (IF P.prels # "ok" THEN {<<"package-rels", "pkgrels", P.prels>>} ELSE {})
       \cup (IF P.prels = "ok" /\ Len(P.odoc) = 0 THEN {<<"officeDocument", "pkgrels", "none">>} ELSE {})
       \cup (IF Len(P.odoc) > 1 THEN {<<"officeDocument", "pkgrels", "several">>} ELSE {})
       \cup (IF \E i \in 1..Len(P.odoc) : ~P.odoc[i] THEN {<<"officeDocument", "document", "target-missing">>} ELSE {})
       \cup {<<"ill-formed", p.k, p.wf>> : p \in {q \in ToSet(P.parts) : q.xml /\ q.wf # "ok"}}
       \cup {<<"no-content-type", p.k, p.x>> : p \in {q \in ToSet(P.parts) : q.ct = "none"}}

\* ---- the reference machine -------------------------------------------------------
XmlPart(k, ct) == [k |-> k, x |-> "xml", xml |-> TRUE, wf |-> "ok", ct |-> ct]
RelsPart(k)    == [k |-> k, x |-> "rels", xml |-> TRUE, wf |-> "ok", ct |-> "def"]
MediaPart(x)   == [k |-> "media", x |-> x, xml |-> FALSE, wf |-> "-", ct |-> "def"]

InitPkg == [zip |-> "ok", dups |-> <<>>, ct |-> "ok", prels |-> "ok", odoc |-> <<TRUE>>,
            parts |-> <<XmlPart("ctypes", "self"), RelsPart("pkgrels"), RelsPart("docrels"),
                        XmlPart("document", "ovr"), XmlPart("styles", "ovr")>>]
PartKinds == {"ctypes", "pkgrels", "docrels", "rels", "document", "styles", "header", "footer", "footnotes", "endnotes",
              "numbering", "settings", "core", "app", "media", "other"}
InitSt == [pkg |-> InitPkg, hdr |-> {}, ftr |-> {}, tpl |-> FALSE, org |-> "new", by |-> [k \in PartKinds |-> NoWriter], taint |-> FALSE]

\* a singleton part is created once and then rewritten in place
Ensure(P, k) == IF k \in KindsIn(P) THEN P ELSE [P EXCEPT !.parts = Append(@, XmlPart(k, "ovr"))]
AddPart(P, p) == [P EXCEPT !.parts = Append(@, p)]
EnsureAll(P, ks) == LET RECURSIVE F(_, _)
                        F(Q, S) == IF S = {} THEN Q ELSE LET k == CHOOSE x \in S : TRUE IN F(Ensure(Q, k), S \ {k})
                    IN F(P, ks)

\* the extension the reference machine gives a media part: the canonical one of the declared format;
\* for a value outside the declared formats any extension will do as long as it gets a content type
ExtOf(fmt) == IF fmt \in ImgDeclared THEN fmt ELSE "bin"
\* Design = "byformat" (required): part named by format, whose extension default is registered with it.
\* Design = "byname" (the pinned tree): part named by the extension of the ORIGINAL file name while the default
\* registered is the format's - kept only to show that the invariant is not vacuous (Pkg_MC_byname_cex.cfg)
NameExt(nm) == CASE nm \in {"png", "jpg", "jpeg", "JPG", "gif"} -> nm
                 [] nm \in {"noext", "dot", "empty"} -> "png"
                 [] OTHER -> "jpg"
ImgPart(op, design) ==
  IF design = "byname" /\ Has(op, "nm")
  THEN [k |-> "media", x |-> NameExt(op.nm), xml |-> FALSE, wf |-> "-", ct |-> IF NameExt(op.nm) = op.fmt THEN "def" ELSE "none"]
  ELSE MediaPart(ExtOf(op.fmt))

\* the parts of spelling "extra": a thumbnail (by extension default), custom properties, theme, font table, the property part
\* of a custom XML item (by override), the custom XML item itself (default xml) and its relationship part
OtherPart(x, isxml, ct) == [k |-> "other", x |-> x, xml |-> isxml, wf |-> IF isxml THEN "ok" ELSE "-", ct |-> ct]
ExtraParts == <<OtherPart("jpeg", FALSE, "def"), OtherPart("xml", TRUE, "ovr"), OtherPart("xml", TRUE, "ovr"), OtherPart("xml", TRUE, "ovr"),
                OtherPart("xml", TRUE, "ovr"), OtherPart("xml", TRUE, "def"), RelsPart("rels")>>
\* another producer's spelling of a package never changes which parts it has, except that "extra" adds its parts (once)
\* and "min" leaves the document properties out (the style definitions it leaves out as well are written again with the
\* document: the package of the state is what a save of the document object gives)
NotProps(q) == q.k \notin {"core", "app"}
Respelt(P, sp) == IF sp = "extra" /\ "other" \notin KindsIn(P) THEN [P EXCEPT !.parts = @ \o ExtraParts]
                  ELSE IF sp = "min" THEN [P EXCEPT !.parts = SelectSeq(@, NotProps)] ELSE P

\* singleton XML parts a call creates if absent (besides the main part, which every call may rewrite)
Creates(op) ==
  CASE op.op \in ListOps -> {"numbering"}
    [] op.op \in FnOps -> {"footnotes"}
    [] op.op \in EnOps -> {"endnotes"}
    [] op.op \in PropOps \cup {"UpdateStatistics"} -> {"core", "app"}
    [] op.op \in {"SetFootnoteConfig", "SetFootnoteFormat"} -> {"settings"}
    [] OTHER -> {}

\* part kinds a call writes (for attribution): created parts + what it edits in place
Writes(st, op) ==
  Creates(op)
  \cup (IF op.op \in HeaderOps THEN {"header", "docrels", "ctypes"} ELSE {})
  \cup (IF op.op \in FooterOps THEN {"footer", "docrels", "ctypes"} ELSE {})
  \cup (IF op.op \in ImageOps \cup {"AddImageText"} THEN {"media", "document", "docrels", "ctypes"} ELSE {})
  \cup (IF op.op \in {"AddStyle", "RemoveStyle", "SetTOCStyle", "TableStyle"} THEN {"styles", "document"} ELSE {})
  \cup (IF op.op = "EditStyle" THEN {"styles"} ELSE {})
  \cup (IF op.op = "Reopen" /\ op.sp = "extra" THEN {"other", "rels"} ELSE {})
  \cup (IF op.op \in {"Render", "Reopen"} THEN KindsIn(st.pkg) \cup {"media"} ELSE {})
  \cup (IF op.op = "Render" /\ op.prep THEN {"header", "footer", "document", "docrels", "ctypes"} ELSE {})
  \cup (IF op.op \in {"RenderText", "ConvertMd"} THEN PartKinds ELSE {})
  \cup (IF op.op = "AddTemplateBits" THEN {"header", "footer", "document", "docrels", "ctypes"} ELSE {})
  \cup (IF op.op \in SaveOps \cup {"GetDocumentProperties"} THEN {} ELSE {"document"})
  \cup (IF Creates(op) # {} THEN {"docrels", "ctypes"} ELSE {})

\* text-template rendering and Markdown conversion build a fresh document
FreshDoc == InitPkg

ApplyPkg(st, op, design) ==
  LET P == st.pkg IN
  CASE op.op \in HeaderOps ->
         IF op.kind \in st.hdr THEN P ELSE AddPart(P, XmlPart("header", "ovr"))
    [] op.op \in FooterOps ->
         IF op.kind \in st.ftr THEN P ELSE AddPart(P, XmlPart("footer", "ovr"))
    [] op.op \in ImageOps -> AddPart(P, ImgPart(op, design))
    [] op.op = "AddImageText" -> AddPart(P, MediaPart("png"))
    [] op.op = "AddTemplateBits" ->
         LET Q == IF "default" \in st.hdr THEN P ELSE AddPart(P, XmlPart("header", "ovr"))
         IN IF "default" \in st.ftr THEN Q ELSE AddPart(Q, XmlPart("footer", "ovr"))
    [] op.op = "Render" ->
         \* one media part per filled picture placeholder (the legacy entry point stores the picture twice:
         \* an implementation choice the property does not fix)
         IF op.img \in ImgDeclared /\ st.tpl
         THEN (IF op.via = "legacy" THEN AddPart(AddPart(P, MediaPart(op.img)), MediaPart(op.img)) ELSE AddPart(P, MediaPart(op.img)))
         ELSE P
    [] op.op = "RenderText" ->
         IF op.tk \in {"image", "all"} THEN AddPart(FreshDoc, MediaPart("png")) ELSE FreshDoc
    [] op.op = "ConvertMd" -> FreshDoc
    [] op.op = "Reopen" -> Respelt(P, op.sp)
    [] OTHER -> EnsureAll(P, Creates(op))

\* does the call, given the state, count as successful according to its documentation?
\* (pictures: a declared format whose bytes the library can decode; the cell variants decode the bytes themselves)
Ret(st, op) ==
  IF op.op = "AddCellImage" /\ op.fmt = "other" THEN "err"
  ELSE IF op.op = "AddImage" /\ op.via = "file" /\ op.fmt = "other" THEN "err"
  ELSE "ok"

\* the origin of the document object after a successful call (ConvertFile writes a file, which the behaviour continues on
\* by opening it; rendering a template loaded from a file opens it as well but hands out a rendered clone)
OrgAfter(st, op) ==
  CASE op.op = "Reopen" -> "opened"
    [] op.op = "Render" -> "rendered"
    [] op.op = "RenderText" -> "text"
    [] op.op = "ConvertMd" -> IF op.via = "file" THEN "opened" ELSE "md"
    [] OTHER -> st.org

ApplyD1(st, op, design) ==
  IF Ret(st, op) # "ok" THEN [st EXCEPT !.taint = TRUE]
  ELSE [pkg |-> ApplyPkg(st, op, design),
        hdr |-> IF op.op \in HeaderOps THEN st.hdr \cup {op.kind}
                ELSE IF op.op = "AddTemplateBits" THEN st.hdr \cup {"default"}
                ELSE IF op.op \in {"RenderText", "ConvertMd"} THEN {} ELSE st.hdr,
        ftr |-> IF op.op \in FooterOps THEN st.ftr \cup {op.kind}
                ELSE IF op.op = "AddTemplateBits" THEN st.ftr \cup {"default"}
                ELSE IF op.op \in {"RenderText", "ConvertMd"} THEN {} ELSE st.ftr,
        tpl |-> IF op.op = "AddTemplateBits" THEN TRUE
                ELSE IF op.op \in {"RenderText", "ConvertMd"} \/ (op.op = "Render" /\ op.img \in ImgDeclared) THEN FALSE ELSE st.tpl,
        org |-> OrgAfter(st, op),
        by  |-> [k \in PartKinds |-> IF k \in Writes(st, op) THEN Writer(op) ELSE st.by[k]],
        taint |-> st.taint]

ApplyD(st, op, design) ==
  IF op.op = "Render" /\ op.prep
  THEN LET mid == ApplyD1(st, [op |-> "AddTemplateBits"], design)
           res == ApplyD1(mid, op, design)
       IN [res EXCEPT !.by = [k \in PartKinds |-> IF mid.by[k] # st.by[k] \/ res.by[k] # mid.by[k] THEN Writer(op) ELSE st.by[k]]]
  ELSE ApplyD1(st, op, design)
Apply(st, op) == ApplyD(st, op, "byformat")

\* comparison of the observable part of two packages, up to part order (no verdict: binding notes)
PartBag(P) == Bag([i \in 1..Len(P.parts) |-> <<P.parts[i].k, P.parts[i].xml, P.parts[i].ct # "none">>])
=============================================================================
