SPECIFICATION SpecMC
CONSTANTS
  NStyles = 4
  TwoSlots = FALSE
  YModes = {}
  Kinds = {}
  Plans = {}
  CloneReads = {}
  Depth = 0
  OpNames = {"AddStyle", "RemoveStyle", "Edit", "Resolve"}
INVARIANTS Inv_Terminates Inv_Nearest Inv_StepLaw Inv_Owner Inv_Found Inv_Undef Inv_ReadOnly
PROPERTIES Act_Frame Act_OwnWins Act_ReadOnly
VIEW MCView
CHECK_DEADLOCK FALSE
