----------------------------- MODULE Body_Trace -----------------------------
(***************************************************************************)
(* Judge of observed behaviours of the real library against Body.          *)
(* Each line of the trace is                                                *)
(*   [ev |-> "reset", case |-> n]                                          *)
(*   [ev |-> "step",  case |-> n, op |-> <op record>, ret |-> STRING,      *)
(*    mem |-> Seq([u,k,t]), saved |-> Seq([k,t]), saveret |-> STRING,      *)
(*    read |-> Seq(uid)]   (what a Read step returned; <<>> otherwise)     *)
(* The judge never blocks: deviations become witnesses and the spec state   *)
(* is resynchronised on the observed one.                                   *)
(***************************************************************************)
EXTENDS Body, Json, IOUtils

Trace == ndJsonDeserialize(IOEnv.WZ_OBS)

VARIABLES l, cur, wit
tvars == <<l, cur, wit>>

Strip(mem) == [i \in 1..Len(mem) |-> [u |-> mem[i].u, k |-> mem[i].k]]
MaxU(mem) == IF Len(mem) = 0 THEN 0 ELSE CHOOSE m \in {mem[i].u : i \in 1..Len(mem)} : \A j \in 1..Len(mem) : mem[j].u <= m

\* add witness signatures (first case that shows each one is remembered)
AddWit(w, sigs, c) == w \cup {[sig |-> s, case |-> c] : s \in {x \in sigs : ~\E r \in w : r.sig = x}}

Judge(e) ==
  LET exp  == Apply(cur, e.op)
      expr == Ret(cur, e.op)
      name == e.op.op
  IN  (IF e.ret = "panic" THEN {<<"C08", name, "panic">>} ELSE {})
      \cup (IF e.ret # "panic" /\ e.ret # expr THEN {<<"C08", name, "ret">>} ELSE {})
      \cup (IF e.ret # "panic" /\ Strip(e.mem) # exp.els THEN {<<"C08", name, "els">>} ELSE {})
      \cup (IF name \in Readers /\ e.ret # "panic" /\ e.read # ReadResult(cur, e.op)
            THEN {<<"C08", "Read:" \o e.op.what, "result">>} ELSE {})
      \cup (IF e.saveret # "ok" THEN {<<"C08", "save", e.saveret>>}
            ELSE {<<"C08">> \o v : v \in Viol_Save(e.mem, e.saved)})

TInit == l = 1 /\ cur = InitSt /\ wit = {}

TReset == /\ l <= Len(Trace) /\ Trace[l].ev = "reset"
          /\ cur' = InitSt /\ wit' = wit /\ l' = l + 1

TStep == /\ l <= Len(Trace) /\ Trace[l].ev = "step"
         /\ LET e == Trace[l] IN
              /\ wit' = AddWit(wit, Judge(e), e.case)
              \* resynchronise on what the implementation really did
              /\ cur' = [els |-> Strip(e.mem),
                         nxt |-> LET a == Apply(cur, e.op).nxt
                                     m == MaxU(e.mem) + 1
                                 IN IF a > m THEN a ELSE m]
         /\ l' = l + 1

TDone == /\ l = Len(Trace) + 1
         /\ PrintT(<<"WZDONE", l - 1, ToJson(wit)>>)
         /\ l' = l + 1 /\ UNCHANGED <<cur, wit>>

TNext == TReset \/ TStep \/ TDone
TSpec == TInit /\ [][TNext]_tvars
=============================================================================
