SPECIFICATION SpecMC
CONSTANTS
  MaxSteps = 2
  Depth = 0
  OpNames = {"AddHeader", "AddFooterWithPageNumber", "AddFormattedHeader", "SetDifferentFirstPage", "AddImage", "ToBytes", "Reopen", "Render"}
  HfC = {"h", "f"}
  KindsC = {"default", "first"}
  TextC = {"plain", "var"}
  ShowC = {TRUE}
  FmtC = {"bold"}
  AlignC = {"center"}
  CfgNilC = {TRUE}
  PageC = {"SetPageMargins"}
  ViaC = {"mem"}
  RViaC = {"doc"}
  DataC = {"def"}
  LastC = {}
  Design = "append"
INVARIANTS Inv_C11 Inv_Wf
PROPERTIES Act_Current Act_Frame Act_Flags Act_Survive Act_Names
CHECK_DEADLOCK FALSE
