SPECIFICATION SpecMC
CONSTANTS
  Cycles = 2
  Lost = {}
  LostKinds = {}
  Alias = {}
  MCCtors = {"c.para", "c.headingbm", "c.tbl.2x2", "c.ntbl.d1.2x2"}
  MCFeats = {"p.keepNext.on", "p.bold.on", "p.format.full", "t.nested.d1", "t.merge.h", "p.addbreak", "t.cellimage"}
  MCSect = {"s.titlepg.on", "s.header.default", "s.header.first"}
  MCSectMax = 2
  MinF = 0
  MaxF = 0
  SingleCtors = {}
  PairCtors = {}
  PairFeats = {}
  FocusKinds = {}
  CtxMode = "one"
  PreSaves = {FALSE}
INVARIANTS Inv_Identity Inv_Silent Inv_Exact Inv_NothingEarly Inv_AliasKeepsShape
PROPERTIES Act_SavePure Act_OpenReads
CHECK_DEADLOCK FALSE
