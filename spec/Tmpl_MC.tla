------------------------------ MODULE Tmpl_MC ------------------------------
(***************************************************************************)
(* Generator of templates + data (a state machine that builds the AST left *)
(* to right with a stack of open constructs, so that BFS reaches every     *)
(* template within the bounds exactly once and -simulate samples big ones) *)
(* and the design-level laws of the reference interpreter Tmpl!Render that  *)
(* TLC checks on every generated (template, data) pair.                    *)
(*                                                                         *)
(* Never generated (meaning not fixed by the documentation): a global      *)
(* variable and an item field of the same name, {{else}} outside an if,    *)
(* unbalanced directives, whitespace-only lines, conditions inside loops   *)
(* over scalars, {{this}} of a map item, lists mixing scalars and maps,    *)
(* loop variables outside loops, blocks inside other constructs, text of a *)
(* child template outside its blocks, overriding an undefined block, an    *)
(* image placeholder that shares its line with text or has no image data.  *)
(***************************************************************************)
EXTENDS Tmpl, Json, SequencesExt

CONSTANTS MaxNodes,   \* bound on the number of AST nodes (base + overrides)
          MinNodes,   \* templates smaller than this are not finished (simulation)
          MaxDepth,   \* bound on nesting (1 = flat)
          Lits,       \* literal tokens
          Vars,       \* global variable names
          Conds,      \* global condition names
          SLists,     \* global lists of scalars
          MLists,     \* global lists of maps
          Flds,       \* value fields of the items of a global list of maps
          QFlds,      \* fields of those items used as loop-inner conditions
          SubS,       \* fields holding a nested list of scalars
          SubM,       \* fields holding a nested list of maps
          GFlds,      \* value fields of nested map items
          RFlds,      \* condition fields of nested map items
          Blocks,     \* block names (a child overrides them in the order b1 < b2 < h1 < h2)
          TNames,     \* names under which the extended (base) template is loaded
          Imgs,       \* image names
          LoopLeafs,  \* subset of {"this","idx","first","last"}
          CondOpens,  \* subset of {"if","ife"}
          AllowExt,   \* generate child templates
          VarVals, ThisVals, FldVals, CondVals,   \* value tokens per position
          NoiseOpts,  \* {FALSE} or {FALSE, TRUE}: also add data the template does not use
          Full2       \* two-item lists of maps: all pairs (TRUE) or item + its alternate

VARIABLES g
vars == <<g>>

\* ---- generator state -----------------------------------------------------
Frame(t, n) == [t |-> t, n |-> n, a |-> <<>>, b |-> <<>>, el |-> FALSE]
NoData == [vars |-> <<>>, conds |-> <<>>, lists |-> <<>>, imgs |-> {}, noise |-> FALSE]
NoTpl == [body |-> <<>>, ext |-> FALSE, ovr |-> <<>>, bn |-> "t1"]

Init == g = [ph |-> "base", st |-> <<Frame("top", "")>>, sz |-> 0, base |-> <<>>, bn |-> "t1", tpl |-> NoTpl, d |-> NoData, todo |-> <<>>]

Top == g.st[Len(g.st)]
Cur == IF Top.el THEN Top.b ELSE Top.a
LastT == IF Cur = <<>> THEN "" ELSE Cur[Len(Cur)].t
LastN == IF Cur = <<>> THEN "" ELSE Cur[Len(Cur)].n

LoopStack == SelectSeq(g.st, LAMBDA f : f.t = "each")
LoopDepth == Len(LoopStack)
InnerLoop == LoopStack[LoopDepth].n

\* context: "top" outside loops, "s" body of a loop over scalars, "m" over maps, "ss"/"mm" nested
Ctx == IF LoopDepth = 0 THEN "top"
       ELSE IF LoopDepth = 1 THEN (IF InnerLoop \in SLists THEN "s" ELSE "m")
       ELSE (IF InnerLoop \in SubS THEN "ss" ELSE "mm")

BlockIdx(n) == CASE n = "b1" -> 1 [] n = "b2" -> 2 [] n = "h1" -> 3 [] OTHER -> 4
BaseBlocks(s) == {s[i].n : i \in {j \in 1..Len(s) : s[j].t = "block"}}

\* leaves that may be appended now
LeafSet ==
  LET afterImg == LastT = "img"
      lits == {Leaf("lit", c) : c \in {c \in Lits : (c = "nl" \/ ~(LastT = "lit" /\ LitClass(LastN) = LitClass(c)))
                                                  /\ (afterImg => c = "nl")}}
      gvars == IF afterImg THEN {} ELSE {Leaf("var", v) : v \in Vars}
      loopl(K) == {Leaf(k, "") : k \in LoopLeafs \cap K}
      imgs == IF g.ph = "base" /\ Len(g.st) = 1 /\ (Cur = <<>> \/ (LastT = "lit" /\ LastN = "nl"))
              THEN {Leaf("img", i) : i \in Imgs} ELSE {}
      inOvrTop == g.ph = "ovr" /\ Len(g.st) = 1
  IN IF inOvrTop THEN {}
     ELSE lits \cup gvars \cup imgs \cup
       (CASE Ctx = "top" -> {}
          [] Ctx = "s"   -> loopl({"this", "idx", "first", "last"})
          [] Ctx = "m"   -> loopl({"idx", "first", "last"}) \cup {Leaf("fld", f) : f \in Flds}
          [] Ctx = "ss"  -> loopl({"this", "idx", "first", "last"}) \cup {Leaf("fld", f) : f \in Flds}
          [] Ctx = "mm"  -> loopl({"idx", "first", "last"}) \cup {Leaf("fld", f) : f \in GFlds \cup Flds})

\* constructs that may be opened now: <<kind, name>>
OpenSet ==
  IF LastT = "img" \/ Len(g.st) > MaxDepth THEN {}
  ELSE IF g.ph = "ovr" /\ Len(g.st) = 1 THEN
         {<<"block", n>> : n \in {n \in BaseBlocks(g.base) :
                                    \A i \in 1..Len(Top.a) : BlockIdx(Top.a[i].n) < BlockIdx(n)}}
  ELSE (CASE Ctx = "top" -> (CondOpens \X Conds) \cup ({"each"} \X (SLists \cup MLists))
                              \cup (IF g.ph = "base" /\ Len(g.st) = 1
                                    THEN {<<"block", n>> : n \in Blocks \ BaseBlocks(Top.a)}
                                    ELSE {})
          [] Ctx = "m"   -> (CondOpens \X QFlds) \cup ({"each"} \X (SubS \cup SubM))
          [] Ctx = "mm"  -> (CondOpens \X RFlds)
          [] OTHER       -> {})

AddLeaf == /\ g.ph \in {"base", "ovr"} /\ g.sz < MaxNodes
           /\ \E x \in LeafSet :
                g' = [g EXCEPT !.st[Len(g.st)] = IF Top.el THEN [Top EXCEPT !.b = Append(@, x)]
                                                             ELSE [Top EXCEPT !.a = Append(@, x)],
                               !.sz = @ + 1]

OpenC == /\ g.ph \in {"base", "ovr"} /\ g.sz < MaxNodes
         /\ \E o \in OpenSet :
              g' = [g EXCEPT !.st = Append(@, Frame(o[1], o[2])), !.sz = @ + 1]

ElseC == /\ g.ph \in {"base", "ovr"} /\ Top.t = "ife" /\ ~Top.el
         /\ g' = [g EXCEPT !.st[Len(g.st)].el = TRUE]

CloseC == /\ g.ph \in {"base", "ovr"} /\ Len(g.st) > 1
          /\ Top.t = "ife" => Top.el
          /\ Top.t = "each" => Top.a # <<>>
          /\ LET x == Nd(Top.t, Top.n, Top.a, Top.b)
                 rest == SubSeq(g.st, 1, Len(g.st) - 1)
                 par == rest[Len(rest)]
                 par2 == IF par.el THEN [par EXCEPT !.b = Append(@, x)] ELSE [par EXCEPT !.a = Append(@, x)]
             IN g' = [g EXCEPT !.st = [rest EXCEPT ![Len(rest)] = par2]]

StartOvr == /\ AllowExt /\ g.ph = "base" /\ Len(g.st) = 1
            /\ BaseBlocks(Top.a) # {}
            /\ \E bn \in TNames :
                 g' = [g EXCEPT !.ph = "ovr", !.base = Top.a, !.bn = bn, !.st = <<Frame("top", "")>>]

\* ---- data that matters for a template --------------------------------------
S(a) == [k |-> "s", v |-> a]
V(a) == [k |-> "v", v |-> a]
L(l) == [k |-> "l", l |-> l]
M(f) == [k |-> "m", f |-> f]

\* partial functions from S whose value at n is in Opt(n)
PFun(Sn, Opt(_)) ==
  UNION {{f \in [T -> UNION {Opt(n) : n \in T}] : \A n \in T : f[n] \in Opt(n)} : T \in SUBSET Sn}

AltVal(v) ==
  CASE v = "p1" -> "p2" [] v = "p2" -> "p1" [] v = "bT" -> "bF" [] v = "bF" -> "bT"
    [] v = "e1" -> "p1" [] v = "n0" -> "n1" [] v = "n1" -> "n0" [] OTHER -> "p2"

ScalarLists(vals) == {<<>>} \cup {<<S(a)>> : a \in vals} \cup {<<S(a), S("p2")>> : a \in vals}
NestedScalarLists == {<<>>, <<S("p1")>>, <<S("p1"), S("p2")>>} \cup {<<S(a)>> : a \in ThisVals}

AltInner(m) == M([n \in DOMAIN m.f |-> V(AltVal(m.f[n].v))])

MapLists(items, Alt(_)) ==
  {<<>>} \cup {<<m>> : m \in items}
  \cup (IF Full2 THEN {<<m, m2>> : m \in items, m2 \in items} ELSE {<<m, Alt(m)>> : m \in items})

InnerItems(tpl) ==
  LET ug == Used(tpl, {"fld"}, GFlds)
      ur == Used(tpl, CondKinds, RFlds)
      Opt(n) == IF n \in ug THEN {V(a) : a \in FldVals} ELSE {V(a) : a \in CondVals}
  IN {M(f) : f \in PFun(ug \cup ur, Opt)}

AltField(n, fv) ==
  IF fv.k = "v" THEN V(AltVal(fv.v))
  ELSE IF fv.l = <<>> THEN (IF n \in SubS THEN L(<<S("p1")>>) ELSE L(<<M(<<>>)>>))
  ELSE IF fv.l[1].k = "s" THEN L(<<>>)
  ELSE L(<<AltInner(fv.l[1])>>)

AltOuter(m) == M([n \in DOMAIN m.f |-> AltField(n, m.f[n])])

OuterItems(tpl) ==
  LET uf == Used(tpl, {"fld"}, Flds)
      uq == Used(tpl, CondKinds, QFlds)
      us == Used(tpl, {"each"}, SubS)
      um == Used(tpl, {"each"}, SubM)
      inner == MapLists(InnerItems(tpl), AltInner)
      Opt(n) == IF n \in uf THEN {V(a) : a \in FldVals}
                ELSE IF n \in uq THEN {V(a) : a \in CondVals}
                ELSE IF n \in us THEN {L(l) : l \in NestedScalarLists}
                ELSE {L(l) : l \in inner}
  IN {M(f) : f \in PFun(uf \cup uq \cup us \cup um, Opt)}

\* ---- data the template does not use (must not change anything) ------------
\* names the template mentions keep their (present or absent) state; all other names get a value
NoiseInner(m, tpl) ==
  LET used == Used(tpl, {"fld"}, GFlds) \cup Used(tpl, CondKinds, RFlds)
      dom == DOMAIN m.f \cup ((GFlds \cup RFlds) \ used)
  IN M([n \in dom |-> IF n \in DOMAIN m.f THEN m.f[n] ELSE V(IF n \in GFlds THEN "p2" ELSE "bT")])

NoiseOuter(m, tpl) ==
  LET used == Used(tpl, {"fld"}, Flds) \cup Used(tpl, CondKinds, QFlds) \cup Used(tpl, {"each"}, SubS \cup SubM)
      dom == DOMAIN m.f \cup ((Flds \cup QFlds \cup SubS \cup SubM) \ used)
      def(n) == IF n \in Flds THEN V("p2") ELSE IF n \in QFlds THEN V("bT")
                ELSE IF n \in SubS THEN L(<<S("p2")>>)
                ELSE L(<<M([x \in GFlds |-> V("p2")])>>)
      nf(n) == IF n \notin DOMAIN m.f THEN def(n)
               ELSE IF n \in SubM THEN L([i \in 1..Len(m.f[n].l) |-> NoiseInner(m.f[n].l[i], tpl)])
               ELSE m.f[n]
  IN M([n \in dom |-> nf(n)])

AddNoise(d, tpl) ==
  LET uv == Used(tpl, {"var"}, Vars)
      uc == Used(tpl, CondKinds, Conds)
      ul == Used(tpl, {"each"}, SLists \cup MLists)
  IN
  [vars  |-> [n \in DOMAIN d.vars \cup (Vars \ uv) |-> IF n \in DOMAIN d.vars THEN d.vars[n] ELSE "p2"],
   conds |-> [n \in DOMAIN d.conds \cup (Conds \ uc) |-> IF n \in DOMAIN d.conds THEN d.conds[n] ELSE TRUE],
   lists |-> [n \in DOMAIN d.lists \cup ((SLists \cup MLists) \ ul) |->
                IF n \in DOMAIN d.lists
                THEN (IF n \in MLists THEN [i \in 1..Len(d.lists[n]) |-> NoiseOuter(d.lists[n][i], tpl)] ELSE d.lists[n])
                ELSE IF n \in SLists THEN <<S("p2")>> ELSE <<M([x \in Flds |-> V("p2")])>>],
   imgs  |-> Imgs,
   noise |-> TRUE]

DataFor(tpl) ==
  LET uv == Used(tpl, {"var"}, Vars)
      uc == Used(tpl, CondKinds, Conds)
      ul == Used(tpl, {"each"}, SLists \cup MLists)
      ui == Used(tpl, {"img"}, Imgs)
      mls == MapLists(OuterItems(tpl), AltOuter)
      LOpt(n) == IF n \in SLists THEN ScalarLists(ThisVals) ELSE mls
      VOpt(n) == VarVals
      COpt(n) == BOOLEAN
      plain == {[vars |-> v, conds |-> c, lists |-> l, imgs |-> ui, noise |-> FALSE] :
                   v \in PFun(uv, VOpt), c \in PFun(uc, COpt), l \in PFun(ul, LOpt)}
  IN plain \cup (IF TRUE \in NoiseOpts THEN {AddNoise(d, tpl) : d \in plain} ELSE {})

\* The data are chosen one name at a time (phase "data"): g.todo is the list of open choices
\*   <<"var", n>>  <<"cond", n>>  <<"list", n>>  <<"fld", list, i, field>>  <<"alt", list>>  <<"noise">>
\* so that BFS reaches every element of DataFor(tpl) exactly once and a random walk samples one
\* without enumerating the product.
ItemFields(tpl) == Used(tpl, {"fld"}, Flds) \cup Used(tpl, CondKinds, QFlds) \cup Used(tpl, {"each"}, SubS \cup SubM)

FieldOpts(tpl, f) ==
  IF f \in Flds THEN {V(a) : a \in FldVals}
  ELSE IF f \in QFlds THEN {V(a) : a \in CondVals}
  ELSE IF f \in SubS THEN {L(l) : l \in NestedScalarLists}
  ELSE {L(l) : l \in MapLists(InnerItems(tpl), AltInner)}

Slots(tpl) ==
  SetToSeq({<<"var", n>> : n \in Used(tpl, {"var"}, Vars)})
  \o SetToSeq({<<"cond", n>> : n \in Used(tpl, CondKinds, Conds)})
  \o SetToSeq({<<"list", n>> : n \in Used(tpl, {"each"}, SLists \cup MLists)})
  \o (IF TRUE \in NoiseOpts THEN << <<"noise">> >> ELSE <<>>)

FldSlots(tpl, n, i) == SetToSeq({<<"fld", n, i, f>> : f \in ItemFields(tpl)})

\* an option is [a |-> absent?, v |-> value]
Opt(a, v) == [a |-> a, v |-> v]
SlotOpts(tpl, s) ==
  CASE s[1] = "var"   -> {Opt(TRUE, "")} \cup {Opt(FALSE, v) : v \in VarVals}
    [] s[1] = "cond"  -> {Opt(TRUE, FALSE), Opt(FALSE, FALSE), Opt(FALSE, TRUE)}
    [] s[1] = "list" /\ s[2] \in SLists -> {Opt(TRUE, <<>>)} \cup {Opt(FALSE, l) : l \in ScalarLists(ThisVals)}
    [] s[1] = "list" /\ s[2] \in MLists -> {Opt(TRUE, 0), Opt(FALSE, 0), Opt(FALSE, 1), Opt(FALSE, 2)}
    [] s[1] = "fld"   -> {Opt(TRUE, IF s[4] \in Flds \cup QFlds THEN V("") ELSE L(<<>>))}
                          \cup {Opt(FALSE, fv) : fv \in FieldOpts(tpl, s[4])}
    [] s[1] = "alt"   -> {Opt(FALSE, 0)}
    [] s[1] = "noise" -> {Opt(FALSE, FALSE), Opt(FALSE, TRUE)}

\* the state after choosing option o for slot s (rest = the remaining slots)
Choose(s, o, rest) ==
  LET d == g.d
      tpl == g.tpl
      d2 == CASE s[1] = "var"  -> IF o.a THEN d ELSE [d EXCEPT !.vars = (s[2] :> o.v) @@ @]
              [] s[1] = "cond" -> IF o.a THEN d ELSE [d EXCEPT !.conds = (s[2] :> o.v) @@ @]
              [] s[1] = "list" /\ s[2] \in SLists -> IF o.a THEN d ELSE [d EXCEPT !.lists = (s[2] :> o.v) @@ @]
              [] s[1] = "list" /\ s[2] \in MLists ->
                   IF o.a THEN d ELSE [d EXCEPT !.lists = (s[2] :> [i \in 1..o.v |-> M(<<>>)]) @@ @]
              [] s[1] = "fld"  -> IF o.a THEN d
                                  ELSE [d EXCEPT !.lists[s[2]][s[3]] = M((s[4] :> o.v) @@ @.f)]
              [] s[1] = "alt"  -> [d EXCEPT !.lists[s[2]] = <<@[1], AltOuter(@[1])>>]
              [] s[1] = "noise" -> IF o.v THEN AddNoise(d, tpl) ELSE d
      more == IF s[1] = "list" /\ s[2] \in MLists /\ ~o.a
              THEN (IF o.v = 0 THEN <<>>
                    ELSE IF o.v = 1 THEN FldSlots(tpl, s[2], 1)
                    ELSE IF Full2 THEN FldSlots(tpl, s[2], 1) \o FldSlots(tpl, s[2], 2)
                    ELSE FldSlots(tpl, s[2], 1) \o << <<"alt", s[2]>> >>)
              ELSE <<>>
      todo == more \o rest
  IN [g EXCEPT !.d = d2, !.todo = todo, !.ph = IF todo = <<>> THEN "done" ELSE "data"]

Finish == /\ g.ph \in {"base", "ovr"} /\ Len(g.st) = 1
          /\ g.sz >= 1 /\ g.sz >= MinNodes
          /\ LET tpl == IF g.ph = "base" THEN [body |-> Top.a, ext |-> FALSE, ovr |-> <<>>, bn |-> "t1"]
                        ELSE [body |-> g.base, ext |-> TRUE, ovr |-> Top.a, bn |-> g.bn]
                 todo == Slots(tpl)
             IN g' = [g EXCEPT !.ph = IF todo = <<>> THEN "done" ELSE "data", !.tpl = tpl,
                               !.d = [NoData EXCEPT !.imgs = Used(tpl, {"img"}, Imgs)],
                               !.todo = todo, !.st = <<Frame("top", "")>>, !.base = <<>>, !.bn = "t1"]

Fill == /\ g.ph = "data"
        /\ \E o \in SlotOpts(g.tpl, Head(g.todo)) : g' = Choose(Head(g.todo), o, Tail(g.todo))

Next == AddLeaf \/ OpenC \/ ElseC \/ CloseC \/ StartOvr \/ Finish \/ Fill
Spec == Init /\ [][Next]_vars

Done == g.ph = "done"

\* ---- generation: print each complete case once ----------------------------
Emit == ~Done \/ PrintT(<<"WZCASE", ToJson([tpl |-> g.tpl, data |-> g.d, exp |-> Render(g.tpl, g.d)])>>)

\* ---- design-level laws of the reference interpreter (C16 on the model) ----
T == g.tpl
D == g.d

\* every inserted value is a value of the data, inserted as one unit: nothing is interpreted
RECURSIVE ItemVals(_), ListVals(_)
ListVals(l) == UNION {ItemVals(l[i]) : i \in 1..Len(l)}
ItemVals(it) == IF it.k = "s" THEN {it.v}
                ELSE UNION {IF it.f[n].k = "v" THEN {it.f[n].v} ELSE ListVals(it.f[n].l) : n \in DOMAIN it.f}
DataVals(d) == {d.vars[n] : n \in DOMAIN d.vars} \cup UNION {ListVals(d.lists[n]) : n \in DOMAIN d.lists}

RECURSIVE LitsIn(_)
LitsIn(s) == IF s = <<>> THEN {} ELSE LET h == Head(s) IN (IF h.t = "lit" THEN {h.n} ELSE {}) \cup LitsIn(h.a) \cup LitsIn(h.b) \cup LitsIn(Tail(s))

Inv_Verbatim ==
  Done => LET out == RenderRaw(T, D) IN
            \A i \in 1..Len(out) :
               \/ \E v \in DataVals(D) : out[i] = "V:" \o v
               \/ \E c \in LitsIn(Resolve(T)) : out[i] = "L:" \o c
               \/ \E q \in TplNames(T) : q[1] \in {"var", "fld"} /\ out[i] = "U:" \o q[2]
               \/ \E q \in TplNames(T) : q[1] = "img" /\ out[i] = "IMG:" \o q[2]
               \/ out[i] \in {"B:T", "B:F"} \cup {"I:" \o ToString(k) : k \in 0..3}

\* data the template does not mention never changes the result
Inv_Unused == Done => RenderRaw(T, D) = RenderRaw(T, AddNoise(D, T))

\* an absent condition is a false one, an absent list an empty one
Inv_AbsentFalse ==
  Done => RenderRaw(T, D) =
          RenderRaw(T, [D EXCEPT !.conds = [n \in Conds |-> IF n \in DOMAIN D.conds THEN D.conds[n] ELSE FALSE],
                                 !.lists = [n \in SLists \cup MLists |-> IF n \in DOMAIN D.lists THEN D.lists[n] ELSE <<>>]])

\* if / if-else are duals: negating every global condition and swapping the branches changes nothing
RECURSIVE SwapSeq(_, _)
SwapSeq(s, inLoop) ==
  [i \in 1..Len(s) |->
     LET x == s[i] IN
     IF x.t = "ife" /\ ~inLoop THEN Nd("ife", x.n, SwapSeq(x.b, inLoop), SwapSeq(x.a, inLoop))
     ELSE IF x.t = "if" /\ ~inLoop THEN Nd("ife", x.n, <<>>, SwapSeq(x.a, inLoop))
     ELSE Nd(x.t, x.n, SwapSeq(x.a, inLoop \/ x.t = "each"), SwapSeq(x.b, inLoop \/ x.t = "each"))]
Inv_Dual ==
  Done => RenderRaw(T, D) =
          RenderRaw([body |-> SwapSeq(T.body, FALSE), ext |-> T.ext, ovr |-> SwapSeq(T.ovr, FALSE), bn |-> T.bn],
                    [D EXCEPT !.conds = [n \in Conds |-> ~(n \in DOMAIN D.conds /\ D.conds[n])]])

\* a block without inheritance is transparent; a child without overrides renders as its base;
\* a child with overrides renders as the base with the overriding content pasted in
RECURSIVE Flat(_)
Flat(s) == IF s = <<>> THEN <<>>
           ELSE LET h == Head(s) IN (IF h.t = "block" THEN Flat(h.a) ELSE <<Nd(h.t, h.n, Flat(h.a), Flat(h.b))>>) \o Flat(Tail(s))
Inv_Blocks ==
  Done => /\ RenderRaw(T, D) = RenderRaw([body |-> Flat(Resolve(T)), ext |-> FALSE, ovr |-> <<>>, bn |-> "t1"], D)
          /\ (T.ext /\ T.ovr = <<>>) => RenderRaw(T, D) = RenderRaw([T EXCEPT !.ext = FALSE], D)

\* a loop renders as the concatenation of the loops over the one-item lists (index and flags aside),
\* in particular an empty list renders nothing and n items give n copies of the body
NoPos(out) == SelectSeq(out, LAMBDA t : t \notin {"B:T", "B:F"} \cup {"I:" \o ToString(k) : k \in 0..3})
RECURSIVE ConcatOver(_, _, _, _)
ConcatOver(x, l, i, d) ==
  IF i > Len(l) THEN <<>>
  ELSE NoPos(RNode(x, [d EXCEPT !.lists = (x.n :> <<l[i]>>) @@ d.lists], <<>>)) \o ConcatOver(x, l, i + 1, d)
Inv_LoopHom ==
  Done => \A i \in 1..Len(Resolve(T)) :
            LET x == Resolve(T)[i] IN
            (x.t = "each") =>
               NoPos(RNode(x, D, <<>>)) = ConcatOver(x, ListOf(x.n, D, <<>>), 1, D)

\* text outside directives is copied unchanged and rendering is compositional:
\* appending a node at the top of a template appends exactly that node's rendering
Act_Compositional ==
  [][(g.ph = "base" /\ g'.ph = "base" /\ Len(g'.st) = 1 /\ Len(g'.st[1].a) = Len(g.st[1].a) + 1) =>
       LET x == g'.st[1].a[Len(g'.st[1].a)]
           t0 == [body |-> g.st[1].a, ext |-> FALSE, ovr |-> <<>>, bn |-> "t1"]
           t1 == [body |-> g'.st[1].a, ext |-> FALSE, ovr |-> <<>>, bn |-> "t1"]
       IN \A d \in DataFor(t1) :
            /\ RenderRaw(t1, d) = RenderRaw(t0, d) \o RNode(x, d, <<>>)
            /\ x.t = "lit" => RNode(x, d, <<>>) = <<"L:" \o x.n>>]_vars

\* values are opaque: a value acts on the result only as the token inserted for it and, where it is
\* used as a condition, through its truthiness. Replacing every truthy value of the data by the plain
\* text p1 changes exactly the inserted tokens - whatever a value looks like (directive text, the
\* placeholder of another supplied variable or field), nothing inside it is interpreted.
Opq(v) == IF Truthy(v) THEN "p1" ELSE v
RECURSIVE OpqItem(_), OpqList(_)
OpqList(l) == [i \in 1..Len(l) |-> OpqItem(l[i])]
OpqItem(it) ==
  IF it.k = "s" THEN S(Opq(it.v))
  ELSE M([n \in DOMAIN it.f |-> IF it.f[n].k = "v" THEN V(Opq(it.f[n].v)) ELSE L(OpqList(it.f[n].l))])
OpqData(d) == [d EXCEPT !.vars = [n \in DOMAIN d.vars |-> Opq(d.vars[n])],
                        !.lists = [n \in DOMAIN d.lists |-> OpqList(d.lists[n])]]
OpqTok(t) == IF \E v \in AllVals : Truthy(v) /\ t = "V:" \o v THEN "V:p1" ELSE t
Inv_Opaque ==
  Done => LET out == RenderRaw(T, D)
          IN RenderRaw(T, OpqData(D)) = [i \in 1..Len(out) |-> OpqTok(out[i])]

\* quoted names are opaque as well: they are only compared for equality, so renaming the blocks and
\* the extended template (injectively, here: identifiers <-> free text) changes nothing
RenName(n) == CASE n = "b1" -> "h2" [] n = "h1" -> "b1" [] n = "h2" -> "h1" [] n = "t1" -> "t2" [] n = "t2" -> "t1" [] OTHER -> n
RenBlocks(s) == [i \in 1..Len(s) |-> IF s[i].t = "block" THEN [s[i] EXCEPT !.n = RenName(@)] ELSE s[i]]
Inv_Names ==
  Done => RenderRaw(T, D) = RenderRaw([body |-> RenBlocks(T.body), ext |-> T.ext, ovr |-> RenBlocks(T.ovr), bn |-> RenName(T.bn)], D)

\* the data built one name at a time are exactly elements of the set DataFor(tpl)
Inv_Data == Done => D \in DataFor(T)

\* the normal form only ever removes an all-blank output
Inv_Norm == Done => LET r == RenderRaw(T, D) IN Render(T, D) = r \/ (Render(T, D) = <<>> /\ \A i \in 1..Len(r) : BlankTok(r[i]))
=============================================================================
