SPECIFICATION SpecMC
CONSTANTS
  MaxSteps = 2
  Depth = 0
  OpNames = {"AddParagraph", "AddMathFormula", "AddListItem", "AddFootnote", "AddEndnote", "SetTitle", "AddHeader", "AddFooterWithPageNumber", "AddImage", "AddCellImage", "SetFootnoteConfig", "UpdateStatistics", "AddTemplateBits", "Save", "ToBytes", "AddStyle", "EditStyle", "Reopen", "Render", "RenderText", "ConvertMd"}
  TextC = {"xmlmeta", "ctrl"}
  KindC = {"default", "first"}
  FmtC = {"png", "jpeg", "other"}
  NameC = {"jpg", "noext"}
  ImgViaC = {"data", "file"}
  CellViaC = {"cfg"}
  StyleViaC = {"custom"}
  PageC = {"SetPageMargins"}
  ReopenC = {"mem"}
  SpellC = {"asis", "abs", "extra", "min"}
  StyleEdC = {"name", "readd"}
  RenderViaC = {"doc", "legacy"}
  RenderImgC = {"none", "png"}
  PrepC = {TRUE, FALSE}
  TkC = {"var", "image"}
  MkC = {"all"}
  MdViaC = {"file"}
  FirstC = {}
  LastC = {}
  Design = "byname"
INVARIANTS Inv_C01 Inv_Shape Inv_By Inv_Org
PROPERTIES Act_Grow Act_Fail Act_Save Act_Frame Act_New Act_CT Act_Reopen Act_Style Act_Org
CHECK_DEADLOCK FALSE
