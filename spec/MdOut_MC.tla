------------------------------ MODULE MdOut_MC ------------------------------
(***************************************************************************)
(* Generator and design-level laws for MdOut (property C20).               *)
(*                                                                         *)
(* A state machine builds a Word body block by block and run by run, then  *)
(* chooses the export options and the way the exporter is called.  BFS     *)
(* reaches every body within the bounds exactly once (so every interleaving*)
(* of paragraphs and tables); -simulate samples larger ones.  The laws     *)
(* below state C20 on the reference function and are checked on all of     *)
(* them.                                                                   *)
(***************************************************************************)
EXTENDS MdOut, Json, SequencesExt

CONSTANTS MaxBlocks, MinBlocks, MaxRuns,
          Kinds,                  \* block kinds that may be generated
          HLevels, LiTypes, LiLevels,
          FlagNames,              \* run flag sets, by name: "" "b" "bi" ... "bisc"
          FirstCls, MoreCls,      \* text classes of the first / of the further runs of a paragraph
          PosText,                \* TRUE: the first run of the i-th block holds the i-th plain class (distinct texts, no blow-up)
          TblOffs,                \* offsets into CellCls at which a table starts cycling
          EmptyCls,               \* what an "empty" paragraph holds: "none" (no run) or a text class without words
          BlankKinds,             \* the kinds of styled paragraph ("h" "q" "code" "li") that are also generated blank (holding EmptyCls)
          BlankOnly,              \* the positions in the body at which blank paragraphs, and only they, are generated ({} = anywhere)
          NumPrs,                 \* numbering properties of a heading / quote / code paragraph: "" (none) "bul" "num"
          TblShapes,              \* "1x1" .. "3x3"  (rows x columns)
          CellCls,                \* sequence of text classes cycled through the cells
          Gfms, Setexts, Metas, Bullets, Emphs, Langs, Wraps, Miscs,   \* option values
          OptArity,               \* an option set differs from the defaults in at most this many fields
          Apis, Cos, Origins, Warms,
          UOpts                   \* names of option sets over which the laws quantify

VARIABLES g
vars == <<g>>

\* presets for CellCls (a cfg file cannot spell a sequence)
CS_plain == <<"w1", "w2", "w3", "two">>
CS_mix   == <<"w1", "pipe", "w2", "empty", "star", "w3", "nl", "lead", "cjk">>
CS_meta  == <<"pipe", "star", "us", "tick", "bs", "lt", "amp", "brk", "link", "tilde", "hash", "numdot", "dash", "gt", "nl", "tab", "dbl", "trail", "w1",
             "plus", "numpar", "num2", "m-dash", "m-plus", "m-star", "m-num", "m-par", "m-hash", "m-gt", "m-rule", "m-eq", "dashw", "decimal">>

FlagsOf(nm) == CHOOSE f \in SUBSET AllFlags : FlagName(f) = nm
ShapeR(s) == CASE s \in {"1x1", "1x2", "1x3"} -> 1 [] s \in {"2x1", "2x2", "2x3"} -> 2 [] OTHER -> 3
ShapeC(s) == CASE s \in {"1x1", "2x1", "3x1"} -> 1 [] s \in {"1x2", "2x2", "3x2"} -> 2 [] OTHER -> 3

OptProduct == {[gfm |-> a, setext |-> b, meta |-> c, bullet |-> d, emph |-> e, lang |-> f, wrap |-> w, misc |-> m] :
                 a \in Gfms, b \in Setexts, c \in Metas, d \in Bullets, e \in Emphs, f \in Langs, w \in Wraps, m \in Miscs}
NDiff(o) == Cardinality({x \in DOMAIN o : o[x] # DefaultOpts[x]})
OptSet == {o \in OptProduct : NDiff(o) <= OptArity}

\* how the exporter is called
\*   api    "string" ExportToString, "bytes" ExportToBytes, "file" ExportToFile, "batch" BatchExport,
\*          "auto" BidirectionalConverter.AutoConvert
\*   co     "ctor" options given to NewExporter, nil to the call; "call" NewExporter(nil), options given to the call;
\*          "both"; "none" nil at both places (the documented defaults)
\*   origin "mem" the document as built, "open" the document opened from its saved bytes
\*          (file, batch and auto open the saved file themselves)
ViaOK(o, v) == /\ v.co = "none" => o = DefaultOpts
               /\ v.api \in {"file", "batch", "auto"} => v.origin = "open"
               /\ v.api = "auto" => v.co \in {"ctor", "none"}
ViaSet(o) == {v \in [api : Apis, co : Cos, origin : Origins, warm : Warms] : ViaOK(o, v)}

Init == g = [ph |-> "body", body |-> <<>>, o |-> DefaultOpts, via |-> <<>>]

LastB == g.body[Len(g.body)]
Building == g.ph = "body" /\ Len(g.body) < MaxBlocks

TblBlock(s, off) ==
  Blk("tbl", 0, "", <<>>,
      [r \in 1..ShapeR(s) |-> [c \in 1..ShapeC(s) |-> CellCls[(((r - 1) * ShapeC(s) + c - 1 + off) % Len(CellCls)) + 1]]])

FirstAt == IF PosText THEN {CS_plain[(Len(g.body) % Len(CS_plain)) + 1]} ELSE FirstCls

\* at a position of BlankOnly nothing but a blank paragraph is added
Content == Building /\ (Len(g.body) + 1) \notin BlankOnly
Blanking == Building /\ (BlankOnly = {} \/ (Len(g.body) + 1) \in BlankOnly)
NumPrOf(k) == IF k = "p" THEN {""} ELSE NumPrs

AddPara ==
  /\ Content
  /\ \E k \in Kinds \cap {"p", "q", "code"}, fn \in FlagNames, c \in FirstAt : \E a \in NumPrOf(k) :
        g' = [g EXCEPT !.body = Append(@, Blk(k, 0, a, <<Run(FlagsOf(fn), c)>>, <<>>))]
AddHeading ==
  /\ Content /\ "h" \in Kinds
  /\ \E n \in HLevels, fn \in FlagNames, c \in FirstAt, a \in NumPrs :
        g' = [g EXCEPT !.body = Append(@, Blk("h", n, a, <<Run(FlagsOf(fn), c)>>, <<>>))]
AddItem ==
  /\ Content /\ "li" \in Kinds
  /\ \E a \in LiTypes, n \in LiLevels, fn \in FlagNames, c \in FirstAt :
        g' = [g EXCEPT !.body = Append(@, Blk("li", n, a, <<Run(FlagsOf(fn), c)>>, <<>>))]
BlankRuns(e) == IF e = "none" THEN <<>> ELSE <<Run({}, e)>>
AddEmpty ==
  /\ Blanking /\ "empty" \in Kinds
  /\ \E e \in EmptyCls :
        g' = [g EXCEPT !.body = Append(@, Blk("empty", 0, "", BlankRuns(e), <<>>))]
\* a heading / quote / code paragraph / list item without a word
AddBlank ==
  /\ Blanking
  /\ \E k \in BlankKinds, e \in EmptyCls :
        \E n \in (IF k = "h" THEN HLevels ELSE {0}), a \in (IF k = "li" THEN LiTypes ELSE NumPrs) :
           g' = [g EXCEPT !.body = Append(@, Blk(k, n, a, BlankRuns(e), <<>>))]
AddTable ==
  /\ Content /\ "tbl" \in Kinds
  /\ \E s \in TblShapes, off \in TblOffs : g' = [g EXCEPT !.body = Append(@, TblBlock(s, Len(g.body) + off))]
AddRun ==
  /\ g.ph = "body" /\ g.body # <<>> /\ LastB.k \in {"p", "h", "q", "code", "li"} /\ LastB.runs # <<>> /\ Len(LastB.runs) < MaxRuns
  /\ \E fn \in FlagNames, c \in MoreCls :
        g' = [g EXCEPT !.body[Len(g.body)].runs = Append(@, Run(FlagsOf(fn), c))]
Finish ==
  /\ g.ph = "body" /\ Len(g.body) >= MinBlocks /\ g.body # <<>>
  /\ g' = [g EXCEPT !.ph = "opts"]
ChooseOpts ==
  /\ g.ph = "opts"
  /\ \E o \in OptSet : \E v \in ViaSet(o) : g' = [g EXCEPT !.ph = "done", !.o = o, !.via = v]

Next == AddPara \/ AddHeading \/ AddItem \/ AddEmpty \/ AddBlank \/ AddTable \/ AddRun \/ Finish \/ ChooseOpts
Spec == Init /\ [][Next]_vars

Done == g.ph = "done"

\* ---- the emitted case ------------------------------------------------------------------
\* the body with the token sequence of every text class spelled out for the executor
OutRun(r) == [f |-> SetToSeq(r.f), c |-> r.c, t |-> Toks(r.c)]
OutBlk(b) == [k |-> b.k, n |-> b.n, a |-> b.a, runs |-> [i \in 1..Len(b.runs) |-> OutRun(b.runs[i])],
              rows |-> [r \in 1..Len(b.rows) |-> [c \in 1..Len(b.rows[r]) |-> [c |-> b.rows[r][c], t |-> Toks(b.rows[r][c])]]]]
OutBody(B) == [i \in 1..Len(B) |-> OutBlk(B[i])]

WarmBody == <<Blk("h", 1, "", <<Run({"b"}, "w3")>>, <<>>), TblBlock("2x2", 0), Blk("li", 0, "bul", <<Run({}, "w3")>>, <<>>)>>

Case ==
  <<[op |-> "new", opts |-> g.o, co |-> g.via.co]>>
  \o (IF g.via.warm THEN <<[op |-> "export", body |-> OutBody(WarmBody), opts |-> g.o, api |-> "string", co |-> g.via.co, origin |-> "mem"]>> ELSE <<>>)
  \o <<[op |-> "export", body |-> OutBody(g.body), opts |-> g.o, api |-> g.via.api, co |-> g.via.co, origin |-> g.via.origin]>>

Emit == Done => PrintT(<<"WZCASE", ToJson(Case)>>)

\* ======================================================================== design-level laws (C20 on the model)
B == g.body
O == g.o

NamedOpts(n) ==
  CASE n = "default" -> DefaultOpts
    [] n = "simple"  -> [DefaultOpts EXCEPT !.gfm = FALSE]
    [] n = "setext"  -> [DefaultOpts EXCEPT !.setext = TRUE, !.emph = "_", !.bullet = "*"]
    [] n = "wrapmeta" -> [DefaultOpts EXCEPT !.wrap = 10, !.meta = TRUE, !.lang = "go", !.misc = "alltrue"]
    [] OTHER         -> DefaultOpts
OptUniverse == {NamedOpts(n) : n \in UOpts}

\* the expected projection presented as an observation (what a faithful exporter's Markdown shows)
AsObsToks(ts) == [i \in 1..Len(ts) |-> [t |-> ts[i].t, f |-> SetToSeq(ts[i].f)]]
AsObs(E) ==
  IF E.k \in {"tbl", "weak"}
  THEN [k |-> "tbl", lvl |-> 0, toks |-> <<>>,
        rows |-> [i \in 1..Len(E.rows) |-> [j \in 1..Len(E.rows[i]) |-> [toks |-> [x \in 1..Len(E.rows[i][j]) |-> [t |-> E.rows[i][j][x], f |-> <<>>]]]]]]
  ELSE [k |-> E.k, lvl |-> E.lvl, toks |-> AsObsToks(E.toks), rows |-> <<>>]
AsObsSeq(es) == [i \in 1..Len(es) |-> AsObs(es[i])]

\* the abstract inverse: the body a faithful converter builds from a projection
FromObsToks(ts) == [i \in 1..Len(ts) |-> [t |-> ts[i].t, f |-> {ts[i].f[j] : j \in 1..Len(ts[i].f)}]]

\* (1) block order is body order: the kinds of the expected projection are the kinds of the visible body blocks,
\*     in body order, by a traversal that knows nothing of ToMd
RECURSIVE VisKinds(_)
VisKinds(s) == IF s = <<>> THEN <<>> ELSE (IF Visible(Head(s)) THEN <<KC(Head(s).k)>> ELSE <<>>) \o VisKinds(Tail(s))
Inv_Order == Done => \A o \in OptUniverse \cup {O} :
                LET e == ToMd(B, o) IN /\ [i \in 1..Len(e) |-> KC(e[i].k)] = VisKinds(B)
                                       /\ \A i \in 1..(Len(e) - 1) : e[i].src < e[i + 1].src

\* (2) every run's text exactly once: the visible words of the projection are the words of all runs and cells in
\*     document order, whatever the options
RECURSIVE BodyWords(_)
BlockWords(b) ==
  IF b.k = "tbl" THEN CatSeqs([r \in 1..Len(b.rows) |-> CatSeqs([c \in 1..Len(b.rows[r]) |-> WordsOf(Toks(b.rows[r][c]))])])
  ELSE CatSeqs([i \in 1..Len(b.runs) |-> WordsOf(Toks(b.runs[i].c))])
BodyWords(s) == IF s = <<>> THEN <<>> ELSE BlockWords(Head(s)) \o BodyWords(Tail(s))
Inv_TextOnce == Done => \A o \in OptUniverse \cup {O} : AllEWords(ToMd(B, o)) = BodyWords(B)

\* (3) flags are expressed: every word of a run carries exactly the run's flags (code blocks carry none)
Inv_Flags ==
  Done => \A i \in 1..Len(B) :
            (Visible(B[i]) /\ B[i].k \notin {"tbl", "code"}) =>
               LET e == EBlk(B[i], i, O)
                   ws == NonWs(e.toks)
                   fs == CatSeqs([r \in 1..Len(B[i].runs) |-> [x \in 1..Len(WordsOf(Toks(B[i].runs[r].c))) |-> B[i].runs[r].f]])
               IN [x \in 1..Len(ws) |-> ws[x].f] = fs

\* (4) options change the projection only through the table layout
Inv_Options ==
  Done => \A o1, o2 \in OptUniverse \cup {O} :
            (o1.gfm = o2.gfm \/ \A i \in 1..Len(B) : B[i].k # "tbl") => ToMd(B, o1) = ToMd(B, o2)

\* (5) the judge accepts the reference projection in both phases, and the fixpoint holds on the model: the body
\*     a faithful converter rebuilds has the same projection, so its export is the same Markdown
Rebuild(es) == [i \in 1..Len(es) |->
                  IF es[i].k = "tbl" THEN Blk("tbl", 0, "", <<>>, es[i].rows)
                  ELSE Blk(es[i].k, es[i].lvl, "", es[i].toks, <<>>)]
ProjOfRebuilt(bs) == [i \in 1..Len(bs) |-> IF bs[i].k = "tbl" THEN [k |-> "tbl", lvl |-> 0, toks |-> <<>>, rows |-> bs[i].rows, src |-> i]
                                           ELSE [k |-> bs[i].k, lvl |-> bs[i].n, toks |-> bs[i].runs, rows |-> <<>>, src |-> i]]
Inv_Reflexive ==
  Done => LET e == ToMd(B, O)
          IN /\ Judge(B, O, AsObsSeq(e), "exp") = {}
             /\ Judge(B, O, AsObsSeq(e), "fix") = {}
             /\ O.gfm => [i \in 1..Len(e) |-> [e[i] EXCEPT !.src = i]] = ProjOfRebuilt(Rebuild(e))

\* (6) ... and rejects a damaged one: last block missing, first word missing, first two blocks exchanged,
\*     the flags of the first word changed
DropFirstWord(b) ==
  IF b.k = "tbl" THEN [b EXCEPT !.rows[1][1].toks = <<>>]
  ELSE [b EXCEPT !.toks = SelectSeq(@, LAMBDA x : x.t \in Ws)]
FlipFirst(b) == [b EXCEPT !.toks[1].f = IF @ = <<>> THEN <<"b">> ELSE <<>>]
FirstHasWord(b) == IF b.k = "tbl" THEN HasWord(Strs(b.rows[1][1].toks)) ELSE OWords(b) # <<>>
Inv_Sensitive ==
  Done => LET e == ToMd(B, O)
              obs == AsObsSeq(e)
              swapped == [obs EXCEPT ![1] = obs[2], ![2] = obs[1]]
          IN /\ (obs # <<>> /\ (O.gfm \/ OWords(obs[Len(obs)]) # <<>>)) => Judge(B, O, SubSeq(obs, 1, Len(obs) - 1), "exp") # {}
             /\ (obs # <<>> /\ FirstHasWord(obs[1])) =>
                   \E w \in Judge(B, O, [obs EXCEPT ![1] = DropFirstWord(@)], "fix") : w.fld \in {"text-lost", "cells", "blocks"}
             /\ (O.gfm /\ Len(obs) >= 2 /\ (obs[1].k # obs[2].k \/ OWords(obs[1]) # OWords(obs[2]))) =>
                   Judge(B, O, swapped, "fix") # {}
             /\ (O.gfm /\ Len(obs) >= 2 /\ IsT(obs[1].k) /\ ~IsT(obs[2].k)) =>
                   \E w \in Judge(B, O, swapped, "exp") : w.fld = "order" /\ "tbl<par" \in w.ks
             /\ (O.gfm /\ obs # <<>> /\ obs[1].k \notin {"tbl", "code"} /\ obs[1].toks # <<>> /\ obs[1].toks[1].t \notin Ws) =>
                   \E w \in Judge(B, O, [obs EXCEPT ![1] = FlipFirst(@)], "exp") : w.fld = "flags"

\* (8) the style decides what a paragraph is: numbering properties on a heading / quote / code paragraph change nothing
StripNum(bs) == [i \in 1..Len(bs) |-> IF bs[i].k \in {"h", "q", "code"} THEN [bs[i] EXCEPT !.a = ""] ELSE bs[i]]
Inv_StyleWins == Done => \A o \in OptUniverse \cup {O} : ToMd(StripNum(B), o) = ToMd(B, o)

\* (9) a block that shows nothing (an empty paragraph, a blank heading / quote / code paragraph / list item) leaves no
\*     trace: without it the other blocks look the same and stand in the same order
NoSrc(es) == [i \in 1..Len(es) |-> [es[i] EXCEPT !.src = 0]]
Inv_BlankNoTrace == Done => \A o \in OptUniverse \cup {O} : NoSrc(ToMd(SelectSeq(B, Visible), o)) = NoSrc(ToMd(B, o))

\* (7) export is compositional over blocks and changes nothing a later export can see
Act_Compositional ==
  [][(g.ph = "body" /\ g'.ph = "body" /\ Len(g'.body) = Len(g.body) + 1) =>
       \A o \in OptUniverse :
          /\ LET nb == g'.body[Len(g'.body)]
             IN ToMd(g'.body, o) = ToMd(g.body, o) \o (IF Visible(nb) THEN <<EBlk(nb, Len(g'.body), o)>> ELSE <<>>)
          /\ Apply(NewExp(o), [op |-> "export", co |-> "ctor", opts |-> o, body |-> g'.body]) = NewExp(o)]_vars
=============================================================================
