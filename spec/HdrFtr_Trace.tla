---------------------------- MODULE HdrFtr_Trace ----------------------------
(***************************************************************************)
(* Judge of observed behaviours of the real library against HdrFtr (C11).  *)
(* Each line of the trace is                                                *)
(*   [ev |-> "reset", case |-> n]                                          *)
(*   [ev |-> "step", case |-> n, i |-> 0-based step, op |-> <op record>,   *)
(*    ret |-> STRING, lazy |-> BOOLEAN, seen |-> BOOLEAN,                  *)
(*    pkg |-> [ok, refs, rels, parts, titlePg, evenOdd]]                   *)
(* seen = the package was written and read at this step (always in the     *)
(* eager variant; only at Save/ToBytes and at the last step in the lazy    *)
(* variant, where nothing serialises the document in between).             *)
(* The judge never blocks: deviations become witnesses and the spec state  *)
(* is resynchronised on the observed one.                                   *)
(* "C11" signatures are property witnesses <<"C11", op, class, field>>:     *)
(*   class  define | redefine : the slot the constructor call is for       *)
(*          other             : another slot than the call's               *)
(*          -                 : not attributable to a slot                 *)
(*          lazy              : seen only when finally saved (lazy variant)*)
(*          .../foreign-names : the document went through a package whose   *)
(*                              header/footer parts are numbered as Word does*)
(* "M11" signatures only record where the library differs from the          *)
(* reference machine in ways the property does not fix (no verdict).        *)
(***************************************************************************)
EXTENDS HdrFtr, Json, IOUtils

Trace == ndJsonDeserialize(IOEnv.WZ_OBS)

VARIABLES l, cur, wit
tvars == <<l, cur, wit>>

AddWit(w, sigs, c) == w \cup {[sig |-> s, case |-> c] : s \in {x \in sigs : ~\E r \in w : r.sig = x}}

ObsPkg(p) == [refs |-> p.refs, rels |-> p.rels, parts |-> p.parts, titlePg |-> p.titlePg, evenOdd |-> p.evenOdd]

\* the implementation's choices, read off the observed package
ChoiceOf(e) ==
  IF e.op.op \in HfOps /\ e.seen /\ e.pkg.ok = "ok" THEN
       LET r == RefsOf(ObsPkg(e.pkg), SlotOf(e.op))
       IN IF Len(r) = 0 THEN [rid |-> "?", part |-> "?"]
          ELSE [rid |-> r[Len(r)].rid, part |-> TargetOf(ObsPkg(e.pkg), r[Len(r)])]
  ELSE [rid |-> "", part |-> ""]

Bag(s) == [x \in ToSet(s) |-> Cardinality({j \in 1..Len(s) : s[j] = x})]
HfParts(P) == {[name |-> p.name, ok |-> p.ok, root |-> p.root, ct |-> p.ct, c |-> Norm(p.c)] :
                 p \in {x \in ToSet(P.parts) : \E r \in ToSet(HfRels(P)) : r.tgt = x.name}}

Judge(e) ==
  LET opn  == e.op.op
      \* in the lazy variant a deviation is seen when the package is finally written, whatever call that is
      name == IF e.lazy THEN "(saved later)" ELSE opn
      ch   == ChoiceOf(e)
      exp  == Apply(cur, e.op, ch)
      obs  == ObsPkg(e.pkg)
      own  == IF opn \in HfOps THEN SlotOf(e.op) ELSE [hf |-> "-", kind |-> "-"]
      Base(hf, kind) == IF e.lazy THEN "lazy"
                        ELSE IF kind = "-" \/ opn \notin HfOps THEN "-"
                        ELSE IF own.hf = hf /\ own.kind = kind THEN (IF cur.def[own].on THEN "redefine" ELSE "define")
                        ELSE "other"
      \* abstract state class: has the document been through a package with foreign part names?
      Cls(hf, kind) == IF exp.names = "foreign" THEN Base(hf, kind) \o "/foreign-names" ELSE Base(hf, kind)
  IN  (IF e.ret = "panic" THEN {<<"C11", opn, "-", "panic">>} ELSE {})
      \cup (IF e.ret \notin {"panic", "ok"} THEN {<<"C11", opn, "-", e.ret>>} ELSE {})
      \cup (IF ~e.seen THEN {}
            ELSE IF e.pkg.ok # "ok" THEN {<<"C11", name, "-", "unreadable-" \o e.pkg.ok>>}
            ELSE \* structure: only what this step introduced
                 {<<"C11", name, Cls(v[2], v[3]), v[1]>> : v \in Viol_Struct(obs) \ Viol_Struct(cur.pkg)}
                 \* every slot shows its latest definition (own slot: this call; others: unchanged)
                 \cup UNION {{<<"C11", name, Cls(s.hf, s.kind), w>> : w \in SlotDiff(obs, s, exp.def[s])} : s \in Slots}
                 \cup (IF obs.titlePg # exp.pkg.titlePg THEN {<<"C11", name, IF e.lazy THEN "lazy" ELSE "-", "titlePg">>} ELSE {})
                 \* ---- binding notes (no verdict) ----
                 \cup (IF e.lazy \/ e.ret # "ok" \/ opn \notin HfOps THEN {}
                       ELSE (IF ~ChoiceOK(cur.pkg, e.op, ch) THEN {<<"M11", name, "choice-not-fresh">>} ELSE {})
                            \cup (IF Bag(obs.refs) # Bag(exp.pkg.refs) THEN {<<"M11", name, "refs">>} ELSE {})
                            \cup (IF Bag(HfRels(obs)) # Bag(HfRels(exp.pkg)) THEN {<<"M11", name, "rels">>} ELSE {})
                            \cup (IF HfParts(obs) # HfParts(exp.pkg) THEN {<<"M11", name, "parts">>} ELSE {}))
                 \cup (IF e.lazy \/ e.ret # "ok" \/ opn \in HfOps \/ (opn = "Reopen" /\ e.op.via \in {"word", "wordabs", "worddot"}) THEN {}
                       ELSE (IF Bag(obs.refs) # Bag(exp.pkg.refs) THEN {<<"M11", name, "refs">>} ELSE {})
                            \cup (IF Bag(HfRels(obs)) # Bag(HfRels(exp.pkg)) THEN {<<"M11", name, "rels">>} ELSE {})
                            \cup (IF obs.evenOdd # exp.pkg.evenOdd THEN {<<"M11", name, "evenOdd">>} ELSE {})))

Resync(e) ==
  LET exp == Apply(cur, e.op, ChoiceOf(e))
  IN IF e.seen /\ e.pkg.ok = "ok"
     THEN [pkg |-> ObsPkg(e.pkg), def |-> [s \in Slots |-> SlotContent(ObsPkg(e.pkg), s)], clk |-> e.i + 1, names |-> exp.names]
     \* nothing was written: the ghost definitions and the flag follow the specification
     ELSE [pkg |-> [cur.pkg EXCEPT !.titlePg = exp.pkg.titlePg], def |-> exp.def, clk |-> e.i + 1, names |-> exp.names]

TInit == l = 1 /\ cur = InitSt /\ wit = {}

TReset == /\ l <= Len(Trace) /\ Trace[l].ev = "reset"
          /\ cur' = InitSt /\ wit' = wit /\ l' = l + 1

TStep == /\ l <= Len(Trace) /\ Trace[l].ev = "step"
         /\ LET e == Trace[l] IN
              /\ wit' = AddWit(wit, Judge(e), e.case)
              /\ cur' = Resync(e)
         /\ l' = l + 1

TDone == /\ l = Len(Trace) + 1
         /\ PrintT(<<"WZDONE", l - 1, ToJson(wit)>>)
         /\ l' = l + 1 /\ UNCHANGED <<cur, wit>>

TNext == TReset \/ TStep \/ TDone
TSpec == TInit /\ [][TNext]_tvars
=============================================================================
