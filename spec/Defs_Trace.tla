----------------------------- MODULE Defs_Trace -----------------------------
(***************************************************************************)
(* Judge of observed behaviours of the real library against Defs (C13).     *)
(* Each line of the trace is                                                 *)
(*   [ev |-> "reset", case |-> n]                                           *)
(*   [ev |-> "step", case |-> n, op |-> <op record>, ret |-> STRING,        *)
(*    reg |-> Seq(id), ver |-> Seq([id,v]),            in-memory registry   *)
(*    based |-> Seq([id,on])      basedOn of the custom styles in it         *)
(*    mrefs |-> Seq(id), mnums |-> Seq(Int), mnotes |-> Seq([k,id]),        *)
(*    nsdt |-> Int,                                    in-memory body       *)
(*    saved |-> BOOLEAN,                                                     *)
(*    pkg |-> [ok, hasStyles, styles, sver, sbased, refs, numrefs, nums, abss, *)
(*             noterefs, notes]]      the package written by this step      *)
(* A behaviour is executed in several variants (saving as generated, saving  *)
(* after every step, and "blind": without any read access to the document    *)
(* between the operations - the in-memory fields of a blind step are those   *)
(* observed at the same step of the first variant). With "Switch" the         *)
(* in-memory fields describe the document that is current after the step.   *)
(* The judge never blocks: deviations become witnesses and the spec state   *)
(* is resynchronised on the observed one.                                    *)
(* Signatures starting with "C13" are property witnesses; signatures         *)
(* starting with "M13" only record where the library's in-memory behaviour   *)
(* differs from the reference machine (no verdict).                          *)
(***************************************************************************)
EXTENDS Defs, Json, IOUtils

Trace == ndJsonDeserialize(IOEnv.WZ_OBS)

VARIABLES l, cur, wit
tvars == <<l, cur, wit>>

AddWit(w, sigs, c) == w \cup {[sig |-> s, case |-> c] : s \in {x \in sigs : ~\E r \in w : r.sig = x}}

\* the observed package in the form Viol_C13 expects
Obs(p) == [styles |-> SeqSet(p.styles), sver |-> SeqSet(p.sver), sbased |-> SeqSet(p.sbased), refs |-> SeqSet(p.refs),
           numrefs |-> SeqSet(p.numrefs), nums |-> SeqSet(p.nums), abss |-> SeqSet(p.abss),
           noterefs |-> SeqSet(p.noterefs), notes |-> SeqSet(p.notes)]

Origins == {"OpenForeign", "Markdown", "Reopen"}

Judge(e) ==
  LET name == e.op.op
      exp  == Apply(cur, e.op)
      newIds == SeqSet(e.mrefs) \ RefIds(cur)
  IN  (IF e.ret = "panic" THEN {<<"C13", "panic", name>>} ELSE {})
      \cup (IF ~e.saved THEN {}
            ELSE IF e.pkg.ok # "ok" THEN {<<"C13", "unreadable", e.pkg.ok>>}
            ELSE {<<"C13">> \o v : v \in Viol_C13(cur, Obs(e.pkg))})
      \* ---- binding notes (no verdict) ----
      \cup (IF e.ret # "panic" /\ e.ret # Ret(cur, e.op) THEN {<<"M13", name, "ret">>} ELSE {})
      \cup (IF e.ret # "panic" /\ name \in StyleApi \cup {"Switch", "Look"} /\ (SeqSet(e.reg) # exp.reg \/ SeqSet(e.ver) # exp.ver)
            THEN {<<"M13", name, "registry">>} ELSE {})
      \cup (IF e.ret # "panic" /\ name \in StyleApi /\ ~(exp.based \subseteq SeqSet(e.based))
            THEN {<<"M13", name, "based">>} ELSE {})
      \cup (IF e.ret # "panic" /\ name \notin Origins /\ newIds # Emits(cur, e.op) \ RefIds(cur)
            THEN {<<"M13", name, "emits">>} ELSE {})

Resync(e) ==
  LET a    == Apply(cur, e.op)
      ids  == SeqSet(e.mrefs)
      ns   == SeqSet(e.mnums)
      nts  == SeqSet(e.mnotes)
      by   == IF e.op.op \in Origins THEN e.op.op ELSE "?"
      b    == [a EXCEPT
                 !.reg = SeqSet(e.reg), !.ver = SeqSet(e.ver),
                 !.removed = @ \ SeqSet(e.reg),
                 !.sdt = e.nsdt > 0,
                 !.refs = {r \in @ : r.id \in ids}
                          \cup {[id |-> i, by |-> IF by = "?" THEN ByOf(cur, e.op, i) ELSE by] : i \in ids \ {r.id : r \in a.refs}},
                 !.nrefs = {r \in @ : r.n \in ns}
                          \cup {[n |-> m, by |-> e.op.op] : m \in ns \ {r.n : r \in a.nrefs}},
                 !.noterefs = {r \in @ : [k |-> r.k, id |-> r.id] \in nts}
                          \cup {[k |-> x.k, id |-> x.id, by |-> e.op.op] :
                                   x \in {y \in nts : ~\E r \in a.noterefs : r.k = y.k /\ r.id = y.id}}]
  IN IF e.saved /\ e.pkg.ok = "ok"
     THEN [b EXCEPT !.hasPart = e.pkg.hasStyles, !.part = SeqSet(e.pkg.styles), !.pver = SeqSet(e.pkg.sver),
                    !.nums = SeqSet(e.pkg.nums), !.abss = SeqSet(e.pkg.abss), !.notes = SeqSet(e.pkg.notes)]
     ELSE b

TInit == l = 1 /\ cur = InitSt /\ wit = {}

TReset == /\ l <= Len(Trace) /\ Trace[l].ev = "reset"
          /\ cur' = InitSt /\ wit' = wit /\ l' = l + 1

TStep == /\ l <= Len(Trace) /\ Trace[l].ev = "step"
         /\ LET e == Trace[l] IN
              /\ wit' = AddWit(wit, Judge(e), e.case)
              /\ cur' = Resync(e)
         /\ l' = l + 1

TDone == /\ l = Len(Trace) + 1
         /\ PrintT(<<"WZDONE", l - 1, ToJson(wit)>>)
         /\ l' = l + 1 /\ UNCHANGED <<cur, wit>>

TNext == TReset \/ TStep \/ TDone
TSpec == TInit /\ [][TNext]_tvars
=============================================================================
