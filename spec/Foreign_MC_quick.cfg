SPECIFICATION SpecMC
CONSTANTS
  MaxDev = 1
  Depth = 2
  EditOps = {"AddParagraph", "AddHeading", "AddImage", "AddHeader", "AddFooter", "AddListItem", "AddFootnote", "AddEndnote", "SetFootnoteConfig", "SetTitle", "GetDocumentProperties", "AddTable", "RemoveParagraphAt", "Save", "Reopen", "Render"}
  Dims = {"base", "extra", "scheme", "ext", "media", "ns", "pkgns", "tgstyle", "pkgids", "cont", "blk", "xrel", "mix", "mixin", "sty", "sdef", "sref", "bytes", "zip", "place"}
  ImgFmts = {"png"}
  ImgNames = {"ext"}
  IdPool = {"rId1", "rId3", "rId40"}
  NamePool = {"image0.png", "image2.png"}
  SlimDims = {"xrel", "mix", "mixin", "sty", "sdef", "sref", "bytes", "zip"}
  SlimOps = {"AddHeading", "AddImage", "AddFootnote", "RemoveParagraphAt", "Reopen"}
  DimGroups = {}
INVARIANTS Inv_All Inv_DetectParts Inv_DetectRels Inv_ShapeWellFormed
PROPERTIES Act_Frame
CHECK_DEADLOCK FALSE
