----------------------------- MODULE Iso_Trace -----------------------------
(***************************************************************************)
(* Judge of observed behaviours of the real library against Iso (C07).     *)
(*                                                                         *)
(* Per behaviour (case) the harness logs, in this order:                    *)
(*  [ev "reset", case]                                                      *)
(*  [ev "solo", case, d, ops, rets, views]   the program `ops` of document  *)
(*        d run ALONE after the registries were reset; views[1] is the      *)
(*        fresh document, views[k+1] / rets[k] the state after / the result *)
(*        of its k-th call (position k)                                     *)
(*  [ev "step", case, d, op, fin, ret, busy, views]   one step of the       *)
(*        TLC schedule executed with all documents alive in one process;    *)
(*        views = the view of EVERY document after the step; fin = the call *)
(*        of d returned in this step; busy = documents inside a call        *)
(*  [ev "race", case, sites, fatal, views, rets]   the programs run free on *)
(*        separate goroutines under the race detector                       *)
(* view = [fnCount, enCount, body, styles, aux, parts, saved] (canonical    *)
(* projection; parts/saved are sequences of [k kind, n name, h digest]).    *)
(* Views are logged by reference ("v12"); every event carries `defs`, the   *)
(* views it mentions for the first time in this case.                       *)
(*                                                                         *)
(* Oracle:  view of d in the shared run  =  view of d after the same number *)
(* of its own calls when run alone  (obs[d] = solo[d] = F(history of d)).   *)
(* A field that starts to differ at a step of ANOTHER document is witness   *)
(* <<"C07","leaked",field,op>>; at a step of d itself                       *)
(* <<"C07","depends",field,op>>.  Already-diverged fields are not reported  *)
(* again (resynchronisation); a field that is a function of an already     *)
(* differing one (saved part of in-memory part, main part of body) is no    *)
(* news; the judge never blocks.                                            *)
(* The solo runs are also compared with the intended specification F        *)
(* (note counts, return values): signatures <<"MODEL",...>> are diagnostics *)
(* of the model's fidelity, never verdicts on the property.                 *)
(***************************************************************************)
EXTENDS Iso, Json, IOUtils

Trace == ndJsonDeserialize(IOEnv.WZ_OBS)

VARIABLES l, vt, sv, pos, div, der, wit
tvars == <<l, vt, sv, pos, div, der, wit>>

AddWit(w, sigs, c) == w \cup {[sig |-> s, case |-> c] : s \in {x \in sigs : ~\E r \in w : r.sig = x}}
SetOf(s) == {s[i] : i \in DOMAIN s}
Get(f, k, dflt) == IF k \in DOMAIN f THEN f[k] ELSE dflt
Nil == <<>>

PartDiff(x, y) == LET X == SetOf(x)  Y == SetOf(y) IN {r.k : r \in (X \ Y) \cup (Y \ X)}
Scalars == {"fnCount", "enCount", "body", "styles", "aux"}
\* a differing field is <<"f", name>>, <<"part", kind>> (in-memory part) or <<"saved", kind>> (part of the
\* package last obtained from ToBytes/Save)
Diff(v, w) == {<<"f", f>> : f \in {g \in Scalars : v[g] # w[g]}}
              \cup {<<"part", k>> : k \in PartDiff(v.parts, w.parts)}
              \cup {<<"saved", k>> : k \in PartDiff(v.saved, w.saved)}
FName(x) == IF x[1] = "f" THEN x[2] ELSE x[1] \o ":" \o x[2]
\* no news: the main part is the serialisation of the body, a saved part is the in-memory part
Derived(x, S) == \/ x = <<"part", "word/document.xml">> /\ <<"f", "body">> \in S
                 \/ x[1] = "saved" /\ (<<"part", x[2]>> \in S \/ (x[2] = "word/document.xml" /\ <<"f", "body">> \in S))
\* views are logged by reference: e.defs introduces the views first seen in event e (dictionary
\* compression by the harness; equal references are equal views)
NoViews == [none |-> 0]
DiffId(T, a, b) == IF a = b THEN {} ELSE Diff(T[a], T[b])
News(now, old) == {FName(x) : x \in {y \in now \ old : ~Derived(y, now)}}

LastPos(d) == LET P == {k[2] : k \in {x \in DOMAIN sv : x[1] = d}}
              IN IF P = {} THEN -1 ELSE CHOOSE p \in P : \A q \in P : q <= p

TInit == l = 1 /\ vt = NoViews /\ sv = Nil /\ pos = Nil /\ div = Nil /\ der = {} /\ wit = {}

TReset == /\ l <= Len(Trace) /\ Trace[l].ev = "reset"
          /\ vt' = NoViews /\ sv' = Nil /\ pos' = Nil /\ div' = Nil /\ der' = {} /\ wit' = wit /\ l' = l + 1

\* a document run alone: remember its views; check the model against them
RECURSIVE ModelSigs(_, _, _, _, _)
ModelSigs(T, e, s, R0, i) ==
  LET mv == View(s.L, s.R, e.d)
      v  == T[e.views[i + 1]]
      nm == IF i = 0 THEN "New" ELSE e.ops[i].op
      here == (IF mv.fnCount # v.fnCount THEN {<<"MODEL", "fnCount", nm>>} ELSE {})
              \cup (IF mv.enCount # v.enCount THEN {<<"MODEL", "enCount", nm>>} ELSE {})
              \cup (IF i > 0 /\ Ret(R0, e.ops[i]) # e.rets[i] THEN {<<"MODEL", "ret", nm>>} ELSE {})
  IN IF i >= Len(e.ops) THEN here
     ELSE here \cup ModelSigs(T, e, ApplyDoc(s, e.d, e.ops[i + 1]), s.R, i + 1)

TSolo == /\ l <= Len(Trace) /\ Trace[l].ev = "solo"
         /\ LET e == Trace[l]
                T == e.defs @@ vt
                K == {<<e.d, p>> : p \in 0..Len(e.ops)}
            IN /\ vt' = T
               /\ sv' = [k \in K |-> [view |-> e.views[k[2] + 1], ret |-> IF k[2] = 0 THEN "ok" ELSE e.rets[k[2]]]] @@ sv
               /\ wit' = AddWit(wit, ModelSigs(T, e, InitDoc, InitReg, 0), e.case)
         /\ UNCHANGED <<pos, div, der>> /\ l' = l + 1

TStep == /\ l <= Len(Trace) /\ Trace[l].ev = "step"
         /\ LET e    == Trace[l]
                D    == DOMAIN e.views
                T    == e.defs @@ vt
                busy == SetOf(e.busy)
                np   == [d \in D |-> Get(pos, d, 0) + (IF e.fin /\ e.d = d THEN 1 ELSE 0)]
                J    == {d \in D : d \notin busy /\ d \notin der /\ <<d, np[d]>> \in DOMAIN sv}
                now(d) == DiffId(T, e.views[d], sv[<<d, np[d]>>].view)
                kind(d) == IF d = e.d THEN "depends" ELSE "leaked"
                \* a call of d that returned something else than when d ran alone: from here on the two
                \* histories of d are no longer the same calls with the same results; d is not judged further
                badret == e.fin /\ e.d \in J /\ e.ret # sv[<<e.d, np[e.d]>>].ret
                sigs == UNION {{<<"C07", kind(d), f, e.op.op>> : f \in News(now(d), Get(div, d, {}))} : d \in J}
                        \cup (IF badret THEN {<<"C07", "depends", "ret", e.op.op>>} ELSE {})
            IN /\ vt' = T
               /\ wit' = AddWit(wit, sigs, e.case)
               /\ div' = [d \in D |-> IF d \in J THEN now(d) ELSE Get(div, d, {})]
               /\ der' = IF badret THEN der \cup {e.d} ELSE der
               /\ pos' = np
         /\ UNCHANGED sv /\ l' = l + 1

TRace == /\ l <= Len(Trace) /\ Trace[l].ev = "race"
         /\ LET e == Trace[l]
                D == {d \in DOMAIN e.views : LastPos(d) >= 0}
                T == e.defs @@ vt
                \* documents one of whose calls returned something else than when run alone are not compared further
                B == {d \in D : \E k \in DOMAIN e.rets[d] : <<d, k>> \in DOMAIN sv /\ e.rets[d][k] # sv[<<d, k>>].ret}
                sigs == {<<"C07", "race", s>> : s \in SetOf(e.sites)}
                        \cup (IF e.fatal # "" THEN {<<"C07", "race", "fatal:" \o e.fatal>>} ELSE {})
                        \cup (IF B # {} THEN {<<"C07", "concurrent", "ret">>} ELSE {})
                        \cup UNION {{<<"C07", "concurrent", f>> : f \in News(DiffId(T, e.views[d], sv[<<d, LastPos(d)>>].view), {})} : d \in D \ B}
            IN /\ vt' = T
               /\ wit' = AddWit(wit, sigs, e.case)
         /\ UNCHANGED <<sv, pos, div, der>> /\ l' = l + 1

TDone == /\ l = Len(Trace) + 1
         /\ PrintT(<<"WZDONE", l - 1, ToJson(wit)>>)
         /\ l' = l + 1 /\ UNCHANGED <<vt, sv, pos, div, der, wit>>

TNext == TReset \/ TSolo \/ TStep \/ TRace \/ TDone
TSpec == TInit /\ [][TNext]_tvars
=============================================================================
