------------------------------- MODULE Engine -------------------------------
(***************************************************************************)
(* Pure (variable-free) specification of the template engine: a cache of   *)
(* named, immutable template VALUES and rendering as a pure function of     *)
(* the value captured when the template was loaded (property C17).          *)
(*                                                                         *)
(* A template DEFINITION (what the caller passes to a load call) is         *)
(*   [k    |-> "str" | "doc" | "file", loaded from a string / a document /     *)
(*                               a .docx file (TemplateRenderer.Load-       *)
(*                               TemplateFromFile); "doc" and "file" are    *)
(*                               DOCUMENT templates                         *)
(*    tag  |-> STRING,           makes every text of the definition unique *)
(*    ext  |-> STRING,           name of the template it extends, "" none   *)
(*    blk  |-> SUBSET {"b1","b2"}, the blocks it defines                    *)
(*    rich |-> BOOLEAN]          source also has each / if / image lines    *)
(*                               (and, for a document, a third table)       *)
(* A template VALUE is [id, def, parent] with parent a VALUE or None: the   *)
(* parent is resolved once, when the child is loaded, and is part of the    *)
(* value from then on (later reloads / removals of the parent's name do     *)
(* not reach it).                                                           *)
(*                                                                         *)
(* Reference state    s = [cache |-> name :> value ..., nid |-> next id]    *)
(* Operations         [op |-> "Load",   n, def]    LoadTemplate /           *)
(*                                                 LoadTemplateFromDocument *)
(*                    [op |-> "Render", n, e, data] e = "doc": RenderTo-    *)
(*                                                 Document, "tpl": Render- *)
(*                                                 TemplateToDocument,      *)
(*                                                 "rnd": TemplateRenderer. *)
(*                                                 RenderTemplate           *)
(*                    [op |-> "Get", n] [op |-> "Validate", n]              *)
(*                    [op |-> "Analyze", n]        TemplateRenderer.Analyze-*)
(*                                                 Template + GetRequired-  *)
(*                                                 Data (a reader)          *)
(*                    [op |-> "Remove", n] [op |-> "Clear"]                 *)
(*                    [op |-> "SetBasePath"]                                *)
(*                                                                         *)
(* The second half of the module is the AS-BUILT machine (objects on a heap *)
(* whose block tables are overwritten when a descendant is loaded); it is   *)
(* used for the non-vacuity self-test and for schedule generation only,     *)
(* never as an oracle.                                                      *)
(***************************************************************************)
EXTENDS Integers, Sequences, FiniteSets, TLC

BlockOrder == <<"b1", "b2">>          \* order in which block lines appear in a source
None == [id |-> 0]

\* ---- concrete template source -------------------------------------------
Tok(def, b) == def.tag \o "." \o b
ExtRaw(p)   == "{{extends \"" \o p \o "\"}}"
BlkRaw(b, t) == "{{#block \"" \o b \o "\"}}" \o t \o "{{/block}}"

Line(t, b, raw, tok) == [t |-> t, b |-> b, raw |-> raw, tok |-> tok]

BlkLines(def) ==
  LET bs == SelectSeq(BlockOrder, LAMBDA b : b \in def.blk)
  IN  [i \in 1..Len(bs) |-> Line("blk", bs[i], BlkRaw(bs[i], Tok(def, bs[i])), Tok(def, bs[i]))]

RichLines == << Line("each", "", "{{#each items}}{{name}};{{/each}}", ""),
                Line("if",   "", "{{#if c}}yes{{/if}}", ""),
                Line("img",  "", "{{#image img}}", "") >>

\* the source lines of a definition (one paragraph each for a document template)
Src(def) ==
     (IF def.ext # "" THEN <<Line("ext", "", ExtRaw(def.ext), "")>> ELSE <<>>)
  \o <<Line("lit", "", def.tag \o ".head", def.tag \o ".head")>>
  \o BlkLines(def)
  \o <<Line("var", "", "{{v}}", "")>>
  \o (IF def.rich THEN RichLines ELSE <<>>)

IsDoc(def) == def.k \in {"doc", "file"}   \* a document template (its base document is cloned by a render)

HdrRaw == "HDR {{v}}{{#if c}} ON{{/if}}"   \* every document template carries this page header (a variable and a conditional)
HdrOut(d) == "HDR " \o d.v \o (IF d.c THEN " ON" ELSE "")
\* the text a load call extracts: a document contributes its paragraphs, its header text
\* and a final newline (hence one empty last line); tables contribute nothing
ContentSrc(def) ==
  IF IsDoc(def) THEN Src(def) \o <<Line("hdr", "", HdrRaw, ""), Line("lit", "", "", "")>>
  ELSE Src(def)

\* ---- tables of a document template ---------------------------------------------
\* A table is a sequence of rows, a row a sequence of cells, a cell
\*   [t |-> kind, x |-> literal text, l |-> list name, nest |-> NoCell or the only cell of a nested 1x1 table]
\*   "lit"   x                                   literal
\*   "var"   x{{v}}                              a variable
\*   "vs1"   {{v}}x   in two runs  "{" "{v}}x"     the opening braces split between runs
\*   "vs2"   x{{v}}   in three runs x"{{" "v" "}}"  the name in a run of its own
\*   "open"  {{#each l}}{{name}}                 first cell of a row loop
\*   "close" x{{/each}}                          last cell of a row loop
\*   "name"  x{{name}}                           a field of the loop item (nested table of a loop row)
\*   "sum"   {{#if c}}x{{/if}}{{#each l}}[{{name}}]{{/each}} end    a whole loop inside one cell paragraph
\* The row loop of a table is its first row that holds an {{#each}} ("open" or "sum" cell). Only the shapes
\* whose rendering the library defines are given a meaning: WellFormedTbl.
NoCell == [t |-> ""]
Cell(t, x, l) == [t |-> t, x |-> x, l |-> l, nest |-> NoCell]
CellN(t, x, l, nt, nx) == [t |-> t, x |-> x, l |-> l, nest |-> [t |-> nt, x |-> nx, l |-> "", nest |-> NoCell]]

CellRuns(c) ==
  CASE c.t = "lit"   -> <<c.x>>
    [] c.t = "var"   -> <<c.x \o "{{v}}">>
    [] c.t = "vs1"   -> <<"{", "{v}}" \o c.x>>
    [] c.t = "vs2"   -> <<c.x \o "{{", "v", "}}">>
    [] c.t = "open"  -> <<"{{#each " \o c.l \o "}}{{name}}">>
    [] c.t = "close" -> <<c.x \o "{{/each}}">>
    [] c.t = "name"  -> <<c.x \o "{{name}}">>
    [] c.t = "sum"   -> <<"{{#if c}}" \o c.x \o "{{/if}}{{#each " \o c.l \o "}}[{{name}}]{{/each}} end">>
    [] OTHER         -> <<"?">>
RECURSIVE Cat(_)
Cat(ss) == IF ss = <<>> THEN "" ELSE ss[1] \o Cat(Tail(ss))
CellRaw(c) == Cat(CellRuns(c))

\* data = [v |-> STRING, items |-> Seq(STRING), c |-> BOOLEAN, ik |-> kind of the items of list "items"]; an image "img" is
\* always supplied.  Item kinds:  "map"   map[string]interface{} with field "name"   (the documented form)
\*                                "nokey" map[string]interface{} without that field
\*                                "smap"  map[string]string,  "str"  a plain string   (not maps for the engine)
\* Loops only expand over items that are map[string]interface{}; a field the item lacks stays as written.
\* Only the "map" kind is documented: what the other kinds render to is the reference machine's choice (it needs one to be
\* a function) and is NOT demanded of the library - the judge demands of them only what C17 states: the same result every
\* time and for every thread, nothing modified (Documented, Engine_Trace).
Documented(d) == d.ik = "map"
ItemsAreMaps(d) == d.ik \in {"map", "nokey"}
NameOf(d, j) == IF d.ik = "map" THEN d.items[j] ELSE "{{name}}"       \* what {{name}} shows for item j
ListLen(d, l) == IF l = "items" THEN Len(d.items) ELSE 0               \* every other list is not in the data
MapLen(d, l) == IF ItemsAreMaps(d) THEN ListLen(d, l) ELSE 0
RECURSIVE SumItems(_, _)
SumItems(d, j) == IF j = 0 THEN "" ELSE SumItems(d, j - 1) \o "[" \o NameOf(d, j) \o "]"

\* a cell paragraph outside the row loop: variables, conditionals and whole in-cell loops
CellPlain(c, d) ==
  CASE c.t \in {"var", "vs2"} -> c.x \o d.v
    [] c.t = "vs1"            -> d.v \o c.x
    [] c.t = "sum"            -> (IF d.c THEN c.x ELSE "") \o SumItems(d, MapLen(d, c.l)) \o " end"
    [] OTHER                  -> CellRaw(c)
\* a cell paragraph of the row loop for item j (markers removed, fields of the item substituted)
CellItem(c, d, j) ==
  CASE c.t = "open"  -> NameOf(d, j)
    [] c.t = "close" -> c.x
    [] c.t = "name"  -> c.x \o NameOf(d, j)
    [] OTHER         -> CellRaw(c)

Nest(c, txt) == IF c.nest.t = "" THEN "" ELSE "[" \o txt \o "]"
RECURSIVE JoinCells(_)
JoinCells(ss) == IF ss = <<>> THEN "" ELSE IF Len(ss) = 1 THEN ss[1] ELSE ss[1] \o "|" \o JoinCells(Tail(ss))
\* projection of a row: cell texts joined by "|", a nested table in brackets after the text of its cell
RowRaw(r)        == JoinCells([i \in 1..Len(r) |-> CellRaw(r[i]) \o Nest(r[i], CellRaw(r[i].nest))])
RowPlain(r, d)   == JoinCells([i \in 1..Len(r) |-> CellPlain(r[i], d) \o Nest(r[i], CellPlain(r[i].nest, d))])
RowItem(r, d, j) == JoinCells([i \in 1..Len(r) |-> CellItem(r[i], d, j) \o Nest(r[i], CellItem(r[i].nest, d, j))])

HasEach(r) == \E i \in 1..Len(r) : r[i].t \in {"open", "sum"}
LoopRow(tb) == IF \E k \in 1..Len(tb) : HasEach(tb[k]) THEN CHOOSE k \in 1..Len(tb) : HasEach(tb[k]) /\ \A m \in 1..(k - 1) : ~HasEach(tb[m]) ELSE 0
LoopList(r) == LET i == CHOOSE i \in 1..Len(r) : r[i].t \in {"open", "sum"} /\ \A m \in 1..(i - 1) : r[m].t \notin {"open", "sum"} IN r[i].l

\* the row loop consists of open/close/lit cells (nested: name/lit); no other row opens a loop it does not close;
\* an in-cell loop always comes with a conditional (the "sum" shape)
WellFormedTbl(tb) ==
  LET k == LoopRow(tb) IN
    /\ \A m \in 1..Len(tb) : \A i \in 1..Len(tb[m]) :
         /\ tb[m][i].t \in (IF m = k THEN {"open", "close", "lit"} ELSE {"lit", "var", "vs1", "vs2", "sum"})
         /\ tb[m][i].nest.t \in (IF m = k THEN {"", "name", "lit"} ELSE {"", "lit", "var"})
    /\ k # 0 => tb[k][1].t = "open" /\ tb[k][Len(tb[k])].t = "close"

\* rows of a table as RenderTemplateToDocument leaves them
TableOut(tb, d) ==
  LET k == LoopRow(tb)
      plain(a, b) == [m \in 1..(b - a + 1) |-> RowPlain(tb[a + m - 1], d)]
  IN IF k = 0 THEN plain(1, Len(tb))
     ELSE plain(1, k - 1)
          \o [j \in 1..ListLen(d, LoopList(tb[k])) |-> IF ItemsAreMaps(d) THEN RowItem(tb[k], d, j) ELSE RowRaw(tb[k])]
          \o plain(k + 1, Len(tb))

TblSplit == << <<Cell("vs1", " tail", ""), Cell("lit", "static", "")>>,                 \* row 1: no complete "{{" in any single run
               <<CellN("var", "cell ", "", "var", "nested "), Cell("vs2", "head ", "")>> >>
TblLoop  == << <<Cell("lit", "Name", ""), Cell("lit", "Detail", "")>>,
               <<Cell("open", "", "items"), CellN("close", "d ", "", "name", "of ")>>,    \* the row loop, a nested table in it
               <<Cell("sum", "S: ", "items"), Cell("var", "tot ", "")>> >>                \* summary row after the row loop
TblNone  == << <<Cell("open", "", "none"), Cell("close", "x", "")>>,                     \* a row loop over a list nobody supplies
               <<Cell("sum", "T: ", "items"), Cell("lit", "static", "")>> >>

Tbls(def) == IF ~IsDoc(def) THEN <<>> ELSE IF def.rich THEN <<TblSplit, TblLoop, TblNone>> ELSE <<TblSplit, TblLoop>>

\* projection of all tables of a document: "=" opens a table, then one string per row
RECURSIVE Flat(_)
Flat(ss) == IF ss = <<>> THEN <<>> ELSE ss[1] \o Flat(Tail(ss))
TblsRaw(def)    == LET ts == Tbls(def) IN Flat([i \in 1..Len(ts) |-> <<"=">> \o [m \in 1..Len(ts[i]) |-> RowRaw(ts[i][m])]])
TblsOut(def, d) == LET ts == Tbls(def) IN Flat([i \in 1..Len(ts) |-> <<"=">> \o TableOut(ts[i], d)])

\* an operation as handed to the executor: load calls carry the concrete source lines and tables
\* (table -> row -> cell -> [runs, nest]: the runs of the cell paragraph, the runs of the nested 1x1 table's cell or <<>>)
ConcTbls(def) ==
  LET ts == Tbls(def) IN
    [i \in 1..Len(ts) |-> [m \in 1..Len(ts[i]) |-> [c \in 1..Len(ts[i][m]) |->
        [runs |-> CellRuns(ts[i][m][c]),
         nest |-> IF ts[i][m][c].nest.t = "" THEN <<>> ELSE CellRuns(ts[i][m][c].nest)]]]]
Conc(op) == IF op.op = "Load"
            THEN [op |-> "Load", n |-> op.n, def |-> op.def,
                  src |-> [i \in 1..Len(Src(op.def)) |-> Src(op.def)[i].raw],
                  tbls |-> ConcTbls(op.def)]
            ELSE op

\* ---- values ---------------------------------------------------------------
RECURSIVE RootOf(_)
RootOf(v) == IF v.parent.id = 0 THEN v ELSE RootOf(v.parent)

RECURSIVE ChainLen(_)
ChainLen(v) == IF v.id = 0 THEN 0 ELSE 1 + ChainLen(v.parent)

RECURSIVE ChainIds(_)
ChainIds(v) == IF v.id = 0 THEN {} ELSE {v.id} \cup ChainIds(v.parent)

\* the most derived definition of block b along the chain (b is defined by the root)
RECURSIVE Resolve(_, _)
Resolve(v, b) == IF b \in v.def.blk THEN Tok(v.def, b)
                 ELSE IF v.parent.id = 0 THEN "?" ELSE Resolve(v.parent, b)

PureRes(v) == [b \in RootOf(v).def.blk |-> Resolve(v, b)]

\* ---- rendering as a pure function ------------------------------------------
\* a loop of a string template emits its body once per item, whatever the item is
RECURSIVE EachOut(_, _)
EachOut(d, j) == IF j = 0 THEN "" ELSE EachOut(d, j - 1) \o NameOf(d, j) \o ";"

ImgOut == "<img>"                      \* projection of a paragraph that holds a drawing

\* text rendering of one source line of the root; res = block name -> content shown
TextLine(ln, res, d) ==
  CASE ln.t = "ext"  -> ln.raw
    [] ln.t = "lit"  -> ln.tok
    [] ln.t = "blk"  -> res[ln.b]
    [] ln.t = "var"  -> d.v
    [] ln.t = "each" -> EachOut(d, Len(d.items))
    [] ln.t = "if"   -> (IF d.c THEN "yes" ELSE "")
    [] ln.t = "img"  -> ImgOut
    [] ln.t = "hdr"  -> HdrOut(d)
    [] OTHER         -> "?"

TextLines(rootdef, res, d) ==
  LET src == ContentSrc(rootdef) IN [i \in 1..Len(src) |-> TextLine(src[i], res, d)]

\* copy of the base document's paragraphs as RenderToDocument leaves them
BaseLines(def) ==
  LET src == Src(def) IN [i \in 1..Len(src) |-> IF src[i].t = "img" THEN ImgOut ELSE src[i].raw]

\* in-place substitution done by RenderTemplateToDocument on a copy of the base document
\* (a loop paragraph is repeated once per item that is a map)
InPlaceLine(ln, d) ==
  CASE ln.t = "var"  -> <<d.v>>
    [] ln.t = "each" -> [j \in 1..MapLen(d, "items") |-> NameOf(d, j) \o ";"]
    [] ln.t = "if"   -> <<IF d.c THEN "yes" ELSE "">>
    [] ln.t = "img"  -> <<ImgOut>>
    [] OTHER         -> <<ln.raw>>
InPlace(def, d) == LET src == Src(def) IN Flat([i \in 1..Len(src) |-> InPlaceLine(src[i], d)])

\* projection of a rendered document: top-level paragraphs, header text, table rows
Rendered(paras, hdr, tbl) == [st |-> "ok", paras |-> paras, hdr |-> hdr, tbl |-> tbl]
RenderErr == [st |-> "err", paras |-> <<>>, hdr |-> "", tbl |-> <<>>]

\* the code path behind an entry point: TemplateRenderer.RenderTemplate checks the data and calls RenderTemplateToDocument
EntryCode(e) == IF e = "rnd" THEN "tpl" ELSE e

\* def: definition of the rendered template; rootdef/res: root of its chain and the block
\* contents shown; e: entry point
RenderWith(def, rootdef, res, d, e) ==
  IF ~IsDoc(def) THEN Rendered(TextLines(rootdef, res, d), "", <<>>)
  ELSE IF EntryCode(e) = "doc" THEN Rendered(BaseLines(def) \o TextLines(rootdef, res, d), HdrRaw, TblsRaw(def))
  ELSE Rendered(InPlace(def, d), HdrOut(d), TblsOut(def, d))

PureRender(v, d, e) ==
  IF v.id = 0 THEN RenderErr ELSE RenderWith(v.def, RootOf(v).def, PureRes(v), d, e)

\* ---- the reference machine ---------------------------------------------------
InitSt == [cache |-> <<>>, nid |-> 1]

Lookup(c, n) == IF n \in DOMAIN c THEN c[n] ELSE None
Drop(c, n) == [x \in (DOMAIN c) \ {n} |-> c[x]]

Mutators == {"Load", "Remove", "Clear"}
Readers  == {"Render", "Get", "Validate", "SetBasePath", "Analyze"}

NewValue(s, op) ==
  [id |-> s.nid, def |-> op.def,
   parent |-> IF op.def.ext # "" THEN Lookup(s.cache, op.def.ext) ELSE None]

Apply(s, op) ==
  CASE op.op = "Load"   -> [cache |-> (op.n :> NewValue(s, op)) @@ s.cache, nid |-> s.nid + 1]
    [] op.op = "Remove" -> [s EXCEPT !.cache = Drop(s.cache, op.n)]
    [] op.op = "Clear"  -> [s EXCEPT !.cache = <<>>]
    [] OTHER            -> s

\* status returned ("ok" / "err"); the document a render returns is RenderRet
Ret(s, op) ==
  CASE op.op \in {"Get", "Validate", "Render", "Analyze"} -> (IF op.n \in DOMAIN s.cache THEN "ok" ELSE "err")
    [] OTHER -> "ok"

RenderRet(s, op) == PureRender(Lookup(s.cache, op.n), op.data, op.e)

\* what the names in N show when rendered with data d (the observable state of an engine)
Shows(s, N, d) == [n \in N |-> [doc |-> PureRender(Lookup(s.cache, n), d, "doc"),
                                 tpl |-> PureRender(Lookup(s.cache, n), d, "tpl")]]
CacheIds(s, N) == [n \in N |-> Lookup(s.cache, n).id]

\* names and data the executors observe with after every step / run
NamePool == {"base", "A", "B", "G"}
ProbeData == [v |-> "val1", items |-> <<"n1", "n2">>, c |-> TRUE, ik |-> "map"]

\* ---- witness sets ------------------------------------------------------------
\* class of a value by its depth in the inheritance chain
ChainClass(v) == CASE ChainLen(v) = 0 -> "absent" [] ChainLen(v) = 1 -> (IF v.def.ext = "" THEN "root" ELSE "orphan")
                   [] ChainLen(v) = 2 -> "child" [] OTHER -> "grandchild"

\* in which kind of source line an observed render differs from the expected one
LineKinds(v, e) ==
  LET rs == ContentSrc(RootOf(v).def)
      tk == [i \in 1..Len(rs) |-> rs[i].t]
      bk == [i \in 1..Len(Src(v.def)) |-> "base"]
  IN IF ~IsDoc(v.def) THEN tk ELSE IF EntryCode(e) = "doc" THEN bk \o tk ELSE <<>>

DiffKind(v, e, exp, obs) ==
  IF obs.st # exp.st THEN "status"
  ELSE IF obs.hdr # exp.hdr THEN "hdr"
  ELSE IF obs.tbl # exp.tbl THEN "tbl"
  ELSE IF Len(obs.paras) # Len(exp.paras) THEN "length"
  ELSE LET ks == LineKinds(v, e)
           D  == {i \in 1..Len(exp.paras) : obs.paras[i] # exp.paras[i]}
           i0 == CHOOSE i \in D : \A j \in D : i <= j
       IN IF Len(ks) = Len(exp.paras) THEN ks[i0] ELSE "text"

\* a render of value v (entry e) that is not the pure function of the value
Viol_Render(v, d, e, obs) ==
  LET exp == PureRender(v, d, e)
  IN IF obs = exp THEN {} ELSE {<<"render-wrong", e, ChainClass(v), DiffKind(v, e, exp, obs)>>}

\* how an operation relates to a cached value w whose render must not change
OpClass(s, op, w) ==
  CASE op.op = "Load" ->
         LET nv == NewValue(s, op)
         IN IF w.id \in ChainIds(nv.parent) THEN "load-descendant"
            ELSE IF ChainIds(w) \cap ChainIds(nv.parent) # {} THEN "load-relative"
            ELSE "load-unrelated"
    [] op.op = "Remove" -> "remove"
    [] op.op = "Clear"  -> "clear"
    [] op.op = "Render" -> "render"
    [] op.op = "Analyze" -> "analyze"
    [] OTHER            -> "read"

\* ---- the as-built machine (self-test and schedule generation only) --------------
\* hs = [cache |-> name :> id, heap |-> id :> [def, parent (id), cur (block -> content)], nid]
InitHs == [cache |-> <<>>, heap |-> <<>>, nid |-> 1]

RECURSIVE AncIds(_, _)
AncIds(heap, i) == IF i = 0 THEN {} ELSE {i} \cup AncIds(heap, heap[i].parent)
RECURSIVE RootId(_, _)
RootId(heap, i) == IF heap[i].parent = 0 THEN i ELSE RootId(heap, heap[i].parent)

ParentIdB(hs, def) == IF def.ext # "" /\ def.ext \in DOMAIN hs.cache THEN hs.cache[def.ext] ELSE 0
NewObjB(hs, def) == [def |-> def, parent |-> ParentIdB(hs, def), cur |-> [b \in def.blk |-> Tok(def, b)]]

\* the writes into ancestors that loading def performs: set of <<ancestor id, block>>
RealWritesB(hs, def) ==
  {w \in AncIds(hs.heap, ParentIdB(hs, def)) \X def.blk : w[2] \in hs.heap[w[1]].def.blk}

WriteB(heap, w, def) == [heap EXCEPT ![w[1]].cur[w[2]] = Tok(def, w[2])]

ApplyB(hs, op) ==
  CASE op.op = "Load" ->
         LET ws == RealWritesB(hs, op.def)
             h1 == [i \in DOMAIN hs.heap |->
                      [hs.heap[i] EXCEPT !.cur = [b \in DOMAIN @ |-> IF <<i, b>> \in ws THEN Tok(op.def, b) ELSE @[b]]]]
         IN [cache |-> (op.n :> hs.nid) @@ hs.cache,
             heap  |-> (hs.nid :> NewObjB(hs, op.def)) @@ h1,
             nid   |-> hs.nid + 1]
    [] op.op = "Remove" -> [hs EXCEPT !.cache = Drop(hs.cache, op.n)]
    [] op.op = "Clear"  -> [hs EXCEPT !.cache = <<>>]
    [] OTHER            -> hs

RenderObjB(heap, i, d, e) ==
  LET r == RootId(heap, i) IN RenderWith(heap[i].def, heap[r].def, heap[r].cur, d, e)
RenderB(hs, n, d, e) == IF n \in DOMAIN hs.cache THEN RenderObjB(hs.heap, hs.cache[n], d, e) ELSE RenderErr
ShowsB(hs, N, d) == [n \in N |-> [doc |-> RenderB(hs, n, d, "doc"), tpl |-> RenderB(hs, n, d, "tpl")]]
=============================================================================
