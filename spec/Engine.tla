------------------------------- MODULE Engine -------------------------------
(***************************************************************************)
(* Pure (variable-free) specification of the template engine: a cache of   *)
(* named, immutable template VALUES and rendering as a pure function of     *)
(* the value captured when the template was loaded (property C17).          *)
(*                                                                         *)
(* A template DEFINITION (what the caller passes to a load call) is         *)
(*   [k    |-> "str" | "doc",    loaded from a string / from a document    *)
(*    tag  |-> STRING,           makes every text of the definition unique *)
(*    ext  |-> STRING,           name of the template it extends, "" none   *)
(*    blk  |-> SUBSET {"b1","b2"}, the blocks it defines                    *)
(*    rich |-> BOOLEAN]          source also has each / if / image lines    *)
(* A template VALUE is [id, def, parent] with parent a VALUE or None: the   *)
(* parent is resolved once, when the child is loaded, and is part of the    *)
(* value from then on (later reloads / removals of the parent's name do     *)
(* not reach it).                                                           *)
(*                                                                         *)
(* Reference state    s = [cache |-> name :> value ..., nid |-> next id]    *)
(* Operations         [op |-> "Load",   n, def]    LoadTemplate /           *)
(*                                                 LoadTemplateFromDocument *)
(*                    [op |-> "Render", n, e, data] e = "doc": RenderTo-    *)
(*                                                 Document, "tpl": Render- *)
(*                                                 TemplateToDocument       *)
(*                    [op |-> "Get", n] [op |-> "Validate", n]              *)
(*                    [op |-> "Remove", n] [op |-> "Clear"]                 *)
(*                    [op |-> "SetBasePath"]                                *)
(*                                                                         *)
(* The second half of the module is the AS-BUILT machine (objects on a heap *)
(* whose block tables are overwritten when a descendant is loaded); it is   *)
(* used for the non-vacuity self-test and for schedule generation only,     *)
(* never as an oracle.                                                      *)
(***************************************************************************)
EXTENDS Integers, Sequences, FiniteSets, TLC

BlockOrder == <<"b1", "b2">>          \* order in which block lines appear in a source
None == [id |-> 0]

\* ---- concrete template source -------------------------------------------
Tok(def, b) == def.tag \o "." \o b
ExtRaw(p)   == "{{extends \"" \o p \o "\"}}"
BlkRaw(b, t) == "{{#block \"" \o b \o "\"}}" \o t \o "{{/block}}"

Line(t, b, raw, tok) == [t |-> t, b |-> b, raw |-> raw, tok |-> tok]

BlkLines(def) ==
  LET bs == SelectSeq(BlockOrder, LAMBDA b : b \in def.blk)
  IN  [i \in 1..Len(bs) |-> Line("blk", bs[i], BlkRaw(bs[i], Tok(def, bs[i])), Tok(def, bs[i]))]

RichLines == << Line("each", "", "{{#each items}}{{name}};{{/each}}", ""),
                Line("if",   "", "{{#if c}}yes{{/if}}", ""),
                Line("img",  "", "{{#image img}}", "") >>

\* the source lines of a definition (one paragraph each for a document template)
Src(def) ==
     (IF def.ext # "" THEN <<Line("ext", "", ExtRaw(def.ext), "")>> ELSE <<>>)
  \o <<Line("lit", "", def.tag \o ".head", def.tag \o ".head")>>
  \o BlkLines(def)
  \o <<Line("var", "", "{{v}}", "")>>
  \o (IF def.rich THEN RichLines ELSE <<>>)

HdrRaw == "HDR {{v}}{{#if c}} ON{{/if}}"   \* every document template carries this page header (a variable and a conditional)
HdrOut(d) == "HDR " \o d.v \o (IF d.c THEN " ON" ELSE "")
\* the text a load call extracts: a document contributes its paragraphs, its header text
\* and a final newline (hence one empty last line)
ContentSrc(def) ==
  IF def.k = "doc" THEN Src(def) \o <<Line("hdr", "", HdrRaw, ""), Line("lit", "", "", "")>>
  ELSE Src(def)

\* an operation as handed to the executor: load calls carry the concrete source lines
Conc(op) == IF op.op = "Load"
            THEN [op |-> "Load", n |-> op.n, def |-> op.def,
                  src |-> [i \in 1..Len(Src(op.def)) |-> Src(op.def)[i].raw]]
            ELSE op

\* ---- values ---------------------------------------------------------------
RECURSIVE RootOf(_)
RootOf(v) == IF v.parent.id = 0 THEN v ELSE RootOf(v.parent)

RECURSIVE ChainLen(_)
ChainLen(v) == IF v.id = 0 THEN 0 ELSE 1 + ChainLen(v.parent)

RECURSIVE ChainIds(_)
ChainIds(v) == IF v.id = 0 THEN {} ELSE {v.id} \cup ChainIds(v.parent)

\* the most derived definition of block b along the chain (b is defined by the root)
RECURSIVE Resolve(_, _)
Resolve(v, b) == IF b \in v.def.blk THEN Tok(v.def, b)
                 ELSE IF v.parent.id = 0 THEN "?" ELSE Resolve(v.parent, b)

PureRes(v) == [b \in RootOf(v).def.blk |-> Resolve(v, b)]

\* ---- rendering as a pure function ------------------------------------------
\* data = [v |-> STRING, items |-> Seq(STRING), c |-> BOOLEAN]; an image "img" is always supplied
RECURSIVE EachOut(_)
EachOut(items) == IF items = <<>> THEN "" ELSE items[1] \o ";" \o EachOut(Tail(items))

ImgOut == "<img>"                      \* projection of a paragraph that holds a drawing

\* text rendering of one source line of the root; res = block name -> content shown
TextLine(ln, res, d) ==
  CASE ln.t = "ext"  -> ln.raw
    [] ln.t = "lit"  -> ln.tok
    [] ln.t = "blk"  -> res[ln.b]
    [] ln.t = "var"  -> d.v
    [] ln.t = "each" -> EachOut(d.items)
    [] ln.t = "if"   -> (IF d.c THEN "yes" ELSE "")
    [] ln.t = "img"  -> ImgOut
    [] ln.t = "hdr"  -> HdrOut(d)
    [] OTHER         -> "?"

TextLines(rootdef, res, d) ==
  LET src == ContentSrc(rootdef) IN [i \in 1..Len(src) |-> TextLine(src[i], res, d)]

\* copy of the base document's paragraphs as RenderToDocument leaves them
BaseLines(def) ==
  LET src == Src(def) IN [i \in 1..Len(src) |-> IF src[i].t = "img" THEN ImgOut ELSE src[i].raw]

\* in-place substitution done by RenderTemplateToDocument on a copy of the base document
RECURSIVE Flat(_)
Flat(ss) == IF ss = <<>> THEN <<>> ELSE ss[1] \o Flat(Tail(ss))
InPlaceLine(ln, d) ==
  CASE ln.t = "var"  -> <<d.v>>
    [] ln.t = "each" -> [j \in 1..Len(d.items) |-> d.items[j] \o ";"]
    [] ln.t = "if"   -> <<IF d.c THEN "yes" ELSE "">>
    [] ln.t = "img"  -> <<ImgOut>>
    [] OTHER         -> <<ln.raw>>
InPlace(def, d) == LET src == Src(def) IN Flat([i \in 1..Len(src) |-> InPlaceLine(src[i], d)])

Rendered(paras, hdr) == [st |-> "ok", paras |-> paras, hdr |-> hdr]
RenderErr == [st |-> "err", paras |-> <<>>, hdr |-> ""]

\* def: definition of the rendered template; rootdef/res: root of its chain and the block
\* contents shown; e: entry point
RenderWith(def, rootdef, res, d, e) ==
  IF def.k = "str" THEN Rendered(TextLines(rootdef, res, d), "")
  ELSE IF e = "doc" THEN Rendered(BaseLines(def) \o TextLines(rootdef, res, d), HdrRaw)
  ELSE Rendered(InPlace(def, d), HdrOut(d))

PureRender(v, d, e) ==
  IF v.id = 0 THEN RenderErr ELSE RenderWith(v.def, RootOf(v).def, PureRes(v), d, e)

\* ---- the reference machine ---------------------------------------------------
InitSt == [cache |-> <<>>, nid |-> 1]

Lookup(c, n) == IF n \in DOMAIN c THEN c[n] ELSE None
Drop(c, n) == [x \in (DOMAIN c) \ {n} |-> c[x]]

Mutators == {"Load", "Remove", "Clear"}
Readers  == {"Render", "Get", "Validate", "SetBasePath"}

NewValue(s, op) ==
  [id |-> s.nid, def |-> op.def,
   parent |-> IF op.def.ext # "" THEN Lookup(s.cache, op.def.ext) ELSE None]

Apply(s, op) ==
  CASE op.op = "Load"   -> [cache |-> (op.n :> NewValue(s, op)) @@ s.cache, nid |-> s.nid + 1]
    [] op.op = "Remove" -> [s EXCEPT !.cache = Drop(s.cache, op.n)]
    [] op.op = "Clear"  -> [s EXCEPT !.cache = <<>>]
    [] OTHER            -> s

\* status returned ("ok" / "err"); the document a render returns is RenderRet
Ret(s, op) ==
  CASE op.op \in {"Get", "Validate", "Render"} -> (IF op.n \in DOMAIN s.cache THEN "ok" ELSE "err")
    [] OTHER -> "ok"

RenderRet(s, op) == PureRender(Lookup(s.cache, op.n), op.data, op.e)

\* what the names in N show when rendered with data d (the observable state of an engine)
Shows(s, N, d) == [n \in N |-> [doc |-> PureRender(Lookup(s.cache, n), d, "doc"),
                                 tpl |-> PureRender(Lookup(s.cache, n), d, "tpl")]]
CacheIds(s, N) == [n \in N |-> Lookup(s.cache, n).id]

\* names and data the executors observe with after every step / run
NamePool == {"base", "A", "B", "G"}
ProbeData == [v |-> "val1", items |-> <<"n1", "n2">>, c |-> TRUE]

\* ---- witness sets ------------------------------------------------------------
\* class of a value by its depth in the inheritance chain
ChainClass(v) == CASE ChainLen(v) = 0 -> "absent" [] ChainLen(v) = 1 -> (IF v.def.ext = "" THEN "root" ELSE "orphan")
                   [] ChainLen(v) = 2 -> "child" [] OTHER -> "grandchild"

\* in which kind of source line an observed render differs from the expected one
LineKinds(v, e) ==
  LET rs == ContentSrc(RootOf(v).def)
      tk == [i \in 1..Len(rs) |-> rs[i].t]
      bk == [i \in 1..Len(Src(v.def)) |-> "base"]
  IN IF v.def.k = "str" THEN tk ELSE IF e = "doc" THEN bk \o tk ELSE <<>>

DiffKind(v, e, exp, obs) ==
  IF obs.st # exp.st THEN "status"
  ELSE IF obs.hdr # exp.hdr THEN "hdr"
  ELSE IF Len(obs.paras) # Len(exp.paras) THEN "length"
  ELSE LET ks == LineKinds(v, e)
           D  == {i \in 1..Len(exp.paras) : obs.paras[i] # exp.paras[i]}
           i0 == CHOOSE i \in D : \A j \in D : i <= j
       IN IF Len(ks) = Len(exp.paras) THEN ks[i0] ELSE "text"

\* a render of value v (entry e) that is not the pure function of the value
Viol_Render(v, d, e, obs) ==
  LET exp == PureRender(v, d, e)
  IN IF obs = exp THEN {} ELSE {<<"render-wrong", e, ChainClass(v), DiffKind(v, e, exp, obs)>>}

\* how an operation relates to a cached value w whose render must not change
OpClass(s, op, w) ==
  CASE op.op = "Load" ->
         LET nv == NewValue(s, op)
         IN IF w.id \in ChainIds(nv.parent) THEN "load-descendant"
            ELSE IF ChainIds(w) \cap ChainIds(nv.parent) # {} THEN "load-relative"
            ELSE "load-unrelated"
    [] op.op = "Remove" -> "remove"
    [] op.op = "Clear"  -> "clear"
    [] op.op = "Render" -> "render"
    [] OTHER            -> "read"

\* ---- the as-built machine (self-test and schedule generation only) --------------
\* hs = [cache |-> name :> id, heap |-> id :> [def, parent (id), cur (block -> content)], nid]
InitHs == [cache |-> <<>>, heap |-> <<>>, nid |-> 1]

RECURSIVE AncIds(_, _)
AncIds(heap, i) == IF i = 0 THEN {} ELSE {i} \cup AncIds(heap, heap[i].parent)
RECURSIVE RootId(_, _)
RootId(heap, i) == IF heap[i].parent = 0 THEN i ELSE RootId(heap, heap[i].parent)

ParentIdB(hs, def) == IF def.ext # "" /\ def.ext \in DOMAIN hs.cache THEN hs.cache[def.ext] ELSE 0
NewObjB(hs, def) == [def |-> def, parent |-> ParentIdB(hs, def), cur |-> [b \in def.blk |-> Tok(def, b)]]

\* the writes into ancestors that loading def performs: set of <<ancestor id, block>>
RealWritesB(hs, def) ==
  {w \in AncIds(hs.heap, ParentIdB(hs, def)) \X def.blk : w[2] \in hs.heap[w[1]].def.blk}

WriteB(heap, w, def) == [heap EXCEPT ![w[1]].cur[w[2]] = Tok(def, w[2])]

ApplyB(hs, op) ==
  CASE op.op = "Load" ->
         LET ws == RealWritesB(hs, op.def)
             h1 == [i \in DOMAIN hs.heap |->
                      [hs.heap[i] EXCEPT !.cur = [b \in DOMAIN @ |-> IF <<i, b>> \in ws THEN Tok(op.def, b) ELSE @[b]]]]
         IN [cache |-> (op.n :> hs.nid) @@ hs.cache,
             heap  |-> (hs.nid :> NewObjB(hs, op.def)) @@ h1,
             nid   |-> hs.nid + 1]
    [] op.op = "Remove" -> [hs EXCEPT !.cache = Drop(hs.cache, op.n)]
    [] op.op = "Clear"  -> [hs EXCEPT !.cache = <<>>]
    [] OTHER            -> hs

RenderObjB(heap, i, d, e) ==
  LET r == RootId(heap, i) IN RenderWith(heap[i].def, heap[r].def, heap[r].cur, d, e)
RenderB(hs, n, d, e) == IF n \in DOMAIN hs.cache THEN RenderObjB(hs.heap, hs.cache[n], d, e) ELSE RenderErr
ShowsB(hs, N, d) == [n \in N |-> [doc |-> RenderB(hs, n, d, "doc"), tpl |-> RenderB(hs, n, d, "tpl")]]
=============================================================================
