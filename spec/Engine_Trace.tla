---------------------------- MODULE Engine_Trace ----------------------------
(***************************************************************************)
(* Judge of observed behaviours of the real template engine against        *)
(* Engine.tla.  Lines of the trace:                                        *)
(*  [ev |-> "reset", case]                                                 *)
(*  [ev |-> "step", case, op, ret, res, again, saved,   sequential step    *)
(*   (res/again/saved: [st, paras, hdr, tbl] projections of documents)     *)
(*   (ret = "fatal" | "timeout": the step killed the executing process)    *)
(*   tmod, bmod, dmod, ptmod, pbmod, pdmod, atmod, abmod, cache, probe]    *)
(*  [ev |-> "conc", case, mode, setup, calls, final,    one concurrent run *)
(*   races, fatal, gates, pre]   (pre: [n, e, data, res] renders with       *)
(*                                undocumented data done alone after setup) *)
(* The judge never blocks: deviations become witnesses and the reference   *)
(* state is resynchronised on what was observed.                           *)
(***************************************************************************)
EXTENDS Engine, Json, IOUtils

Trace == ndJsonDeserialize(IOEnv.WZ_OBS)

VARIABLES l,     \* next line
          cur,   \* reference state
          np,    \* names observed after every step
          pd,    \* data of the observation renders
          pp,    \* observation renders of the previous step
          hp,    \* TRUE iff pp holds a previous step of this behaviour
          memo,  \* <<value id, entry, data>> -> the first render of that value with that data in this behaviour
          wit
tvars == <<l, cur, np, pd, pp, hp, memo, wit>>

SeqToSet(s) == {s[i] : i \in 1..Len(s)}
\* JSON has no sets: the block set of a definition arrives as an array
Norm(op) == IF op.op = "Load" THEN [op EXCEPT !.def.blk = SeqToSet(@)] ELSE op

AddWit(w, sigs, c) == w \cup {[sig |-> s, case |-> c] : s \in {x \in sigs : ~\E r \in w : r.sig = x}}
Tag(S) == {<<"C17">> \o x : x \in S}
Each(kind, fields) == {<<kind, fields[i]>> : i \in 1..Len(fields)}

Entries == {"doc", "tpl"}
Probed(r) == r.st # ""

Crashed(e) == e.ret \in {"fatal", "timeout"}     \* the step killed (or hung) the executing process

MemoKey(v, op) == <<v.id, op.e, op.data>>

JudgeStep(e) ==
  IF Crashed(e) THEN {<<"crash", e.ret, e.op.op>>} ELSE
  LET op   == Norm(e.op)
      name == op.op
      exp  == Apply(cur, op)
      isR  == name = "Render"
      v    == IF isR THEN Lookup(cur.cache, op.n) ELSE None
  IN  (IF e.ret = "panic" THEN {<<"panic", name>>} ELSE {})
      \cup (IF e.ret # "panic" /\ e.ret # Ret(cur, op) THEN {<<"ret", name>>} ELSE {})
      \cup (IF \E n \in np : e.cache[n] # Lookup(exp.cache, n).id THEN {<<"cache", name>>} ELSE {})
      \* the render the behaviour asked for: result in memory, result as saved, and the same call repeated
      \* (the text is demanded for documented data only; of every render: the same result as the same value gave for
      \* the same data earlier in this behaviour, whatever happened in between)
      \cup (IF isR /\ e.ret # "panic" THEN
                 (IF Documented(op.data) THEN Viol_Render(v, op.data, op.e, e.res) ELSE {})
                 \cup (IF Probed(e.saved) /\ e.saved.st = "ok"
                       THEN (IF Documented(op.data) THEN Viol_Render(v, op.data, op.e, e.saved) ELSE {})
                       ELSE IF Probed(e.saved) THEN {<<"render-unsavable", op.e, e.saved.st>>} ELSE {})
                 \cup (IF e.again # e.res THEN {<<"nondeterministic", op.e>>} ELSE {})
                 \cup (IF v.id # 0 /\ MemoKey(v, op) \in DOMAIN memo /\ memo[MemoKey(v, op)] # e.res
                       THEN {<<"render-depends-on-history", "same-value-same-data">>} ELSE {})
            ELSE {})
      \* analysis: the template rendered twice with the data the analysis asks for (res, again)
      \cup (IF name = "Analyze" /\ e.again # e.res THEN {<<"nondeterministic", "required-data">>} ELSE {})
      \* ... and the analysis itself only reads (atmod / abmod: what changed between its call and its return)
      \cup Each("template-modified-by-analysis", e.atmod) \cup Each("basedoc-modified-by-analysis", e.abmod)
      \* rendering must leave the templates, their base documents and the data alone
      \cup Each("template-modified", e.tmod) \cup Each("template-modified", e.ptmod)
      \cup Each("basedoc-modified", e.bmod) \cup Each("basedoc-modified", e.pbmod)
      \cup Each("data-modified", e.dmod) \cup Each("data-modified", e.pdmod)
      \* what every name shows after the step is the pure function of the value cached under it
      \cup UNION {IF Probed(e.probe[n][en])
                  THEN Viol_Render(Lookup(exp.cache, n), pd, en, e.probe[n][en]) ELSE {} : n \in np, en \in Entries}
      \* ... and did not change unless the step replaced or removed that name
      \cup UNION {LET w == Lookup(cur.cache, n)
                  IN IF w.id # 0 /\ Lookup(exp.cache, n).id = w.id /\ hp /\ pp[n] # e.probe[n]
                     THEN {<<"render-depends-on-history", OpClass(cur, op, w)>>} ELSE {} : n \in np}

MaxId(e) == LET S == {e.cache[n] : n \in np} IN CHOOSE m \in S \cup {0} : \A x \in S \cup {0} : x <= m

\* resynchronise: trust the reference machine except for names the engine reports absent
Resync(e) ==
  LET exp == Apply(cur, Norm(e.op))
      keep == {n \in DOMAIN exp.cache : ~(n \in np /\ e.cache[n] = 0)}
  IN [cache |-> [n \in keep |-> exp.cache[n]],
      nid |-> IF exp.nid > MaxId(e) THEN exp.nid ELSE MaxId(e) + 1]

TInit == /\ l = 1 /\ cur = InitSt /\ wit = {} /\ pp = <<>> /\ hp = FALSE /\ memo = <<>>
         /\ np = NamePool
         /\ pd = ProbeData

TReset == /\ l <= Len(Trace) /\ Trace[l].ev = "reset"
          /\ cur' = InitSt /\ pp' = <<>> /\ hp' = FALSE /\ memo' = <<>> /\ l' = l + 1
          /\ UNCHANGED <<wit, np, pd>>

TStep == /\ l <= Len(Trace) /\ Trace[l].ev = "step"
         /\ LET e == Trace[l] IN
              IF e.op.op = "Config"
              THEN /\ np' = SeqToSet(e.op.names) /\ pd' = e.op.data
                   /\ UNCHANGED <<cur, pp, hp, memo, wit>>
              ELSE /\ wit' = AddWit(wit, Tag(JudgeStep(e)), e.case)
                   /\ memo' = LET v == IF e.op.op = "Render" THEN Lookup(cur.cache, e.op.n) ELSE None
                              IN IF e.op.op = "Render" /\ ~Crashed(e) /\ e.ret = "ok" /\ v.id # 0 /\ MemoKey(v, e.op) \notin DOMAIN memo
                                 THEN (MemoKey(v, e.op) :> e.res) @@ memo ELSE memo
                   /\ IF Crashed(e) THEN cur' = Apply(cur, Norm(e.op)) /\ pp' = pp /\ hp' = FALSE
                      ELSE cur' = Resync(e) /\ pp' = e.probe /\ hp' = TRUE
                   /\ UNCHANGED <<np, pd>>
         /\ l' = l + 1

\* ---- concurrent runs: linearisability against the reference machine ---------------------
NormSeq(ops) == [i \in 1..Len(ops) |-> Norm(ops[i])]
RECURSIVE RunAll(_, _)
RunAll(s, ops) == IF ops = <<>> THEN s ELSE RunAll(Apply(s, ops[1]), Tail(ops))

\* call c explained by the reference machine in state s
\* A render with documented data returns what the reference machine returns. Of a render with undocumented data only
\* what C17 states is demanded: its status, and the result the same value gave for the same data alone before the
\* threads started (e.pre) or to another call of this run (m: <<value id, entry, data>> -> result).
RefKey(s, op) == <<Lookup(s.cache, op.n).id, op.e, op.data>>
CallOK(s, c, m) ==
  LET op == Norm(c.op) IN
    /\ c.ret = Ret(s, op)
    /\ (op.op = "Render" =>
          IF Documented(op.data) THEN c.res = RenderRet(s, op)
          ELSE /\ c.res.st = RenderRet(s, op).st
               /\ (RefKey(s, op) \in DOMAIN m => c.res = m[RefKey(s, op)]))
Noted(s, c, m) ==
  LET op == Norm(c.op) IN
    IF op.op = "Render" /\ ~Documented(op.data) /\ Lookup(s.cache, op.n).id # 0 /\ RefKey(s, op) \notin DOMAIN m
    THEN (RefKey(s, op) :> c.res) @@ m ELSE m
RECURSIVE PreMemo(_, _, _)
PreMemo(s, pre, k) ==
  IF k = 0 THEN <<>>
  ELSE LET m == PreMemo(s, pre, k - 1)
           key == <<Lookup(s.cache, pre[k].n).id, pre[k].e, pre[k].data>>
       IN IF key[1] # 0 /\ pre[k].res.st = "ok" /\ key \notin DOMAIN m THEN (key :> pre[k].res) @@ m ELSE m

FinalOK(s, e) ==
  \A n \in SeqToSet(e.names), en \in Entries :
     Probed(e.final[n][en]) => e.final[n][en] = PureRender(Lookup(s.cache, n), e.pdata, en)

\* some order of the remaining calls that respects real time (a call that ended before another
\* began comes first) is a run of the reference machine producing exactly what was observed
RECURSIVE Lin(_, _, _, _)
Lin(s, rem, e, m) ==
  IF rem = {} THEN FinalOK(s, e)
  ELSE \E i \in rem :
         /\ ~\E j \in rem : j # i /\ e.calls[j].e < e.calls[i].b
         /\ CallOK(s, e.calls[i], m)
         /\ Lin(Apply(s, Norm(e.calls[i].op)), rem \ {i}, e, Noted(s, e.calls[i], m))

ConcOps(e) == SeqToSet(e.setup) \cup {e.calls[i].op : i \in 1..Len(e.calls)}
ConcClass(e) == IF \E o \in ConcOps(e) : o.op = "Load" /\ o.def.ext # "" THEN "inherit" ELSE "flat"

\* which kinds of calls of different threads overlapped in real time ("sequential" if none did)
Desc(c) == IF c.op.op = "Load" THEN "Load:" \o c.op.def.k
           ELSE IF c.op.op = "Render" THEN "Render:" \o c.op.e ELSE c.op.op
Vocab == <<"Load:str", "Load:doc", "Load:file", "Render:doc", "Render:tpl", "Render:rnd", "Remove", "Clear", "Get", "Validate",
           "SetBasePath", "Analyze">>
Overlapped(e) ==
  {Desc(e.calls[i]) : i \in {k \in 1..Len(e.calls) :
      \E j \in 1..Len(e.calls) : /\ e.calls[j].t # e.calls[k].t
                                  /\ ~(e.calls[j].e < e.calls[k].b \/ e.calls[k].e < e.calls[j].b)}}
RECURSIVE JoinBar(_)
JoinBar(ss) == IF ss = <<>> THEN "" ELSE IF Len(ss) = 1 THEN ss[1] ELSE ss[1] \o "|" \o JoinBar(Tail(ss))
OverlapClass(e) == LET S == Overlapped(e) IN
                   IF S = {} THEN "sequential" ELSE JoinBar(SelectSeq(Vocab, LAMBDA x : x \in S))

JudgeConc(e) ==
  LET s0 == RunAll(InitSt, NormSeq(e.setup)) IN
      {<<"race", ConcClass(e), e.races[i]>> : i \in 1..Len(e.races)}
      \cup (IF e.fatal # "" THEN {<<"race", ConcClass(e), "fatal: " \o e.fatal>>} ELSE {})
      \cup (IF e.stuck THEN {<<"deadlock", e.mode>>} ELSE {})
      \cup {<<"panic", "concurrent", e.calls[i].op.op>> : i \in {j \in 1..Len(e.calls) : e.calls[j].ret = "panic"}}
      \cup (IF ~e.stuck /\ e.fatal = "" /\ ~Lin(s0, 1..Len(e.calls), e, PreMemo(s0, e.pre, Len(e.pre)))
            THEN {<<"not-linearizable", e.mode, ConcClass(e), OverlapClass(e)>>} ELSE {})

TConc == /\ l <= Len(Trace) /\ Trace[l].ev = "conc"
         /\ wit' = AddWit(wit, Tag(JudgeConc(Trace[l])), Trace[l].case)
         /\ l' = l + 1
         /\ UNCHANGED <<cur, np, pd, pp, hp, memo>>

TDone == /\ l = Len(Trace) + 1
         /\ PrintT(<<"WZDONE", l - 1, ToJson(wit)>>)
         /\ l' = l + 1 /\ UNCHANGED <<cur, np, pd, pp, hp, memo, wit>>

TNext == TReset \/ TStep \/ TConc \/ TDone
TSpec == TInit /\ [][TNext]_tvars
=============================================================================
