----------------------------- MODULE Lists_Trace -----------------------------
(***************************************************************************)
(* Judge of observed behaviours of the real library against Lists.         *)
(* Each line of the trace is                                                *)
(*   [ev |-> "reset", case |-> n, nd |-> documents alive]                  *)
(*   [ev |-> "step",  case |-> n, op |-> <op record>, ret |-> STRING,      *)
(*    ch |-> [id |-> STRING, toks |-> Seq(STRING)],                        *)
(*    docs |-> Seq(view)]        (views as described in Lists.tla)         *)
(* The judge never blocks: deviations become witnesses and the spec state   *)
(* is resynchronised on the observed one.                                   *)
(***************************************************************************)
EXTENDS Lists, Json, IOUtils

Trace == ndJsonDeserialize(IOEnv.WZ_OBS)

VARIABLES l, cur, wit
tvars == <<l, cur, wit>>

\* add witness signatures (first case that shows each one is remembered)
AddWit(w, sigs, c) == w \cup {[sig |-> s, case |-> c] : s \in {x \in sigs : ~\E r \in w : r.sig = x}}

TInit == l = 1 /\ cur = InitSt(1) /\ wit = {}

TReset == /\ l <= Len(Trace) /\ Trace[l].ev = "reset"
          /\ cur' = InitSt(Trace[l].nd) /\ wit' = wit /\ l' = l + 1

TStep == /\ l <= Len(Trace) /\ Trace[l].ev = "step"
         /\ LET e == Trace[l] IN
              /\ wit' = AddWit(wit, Judge(cur, e), e.case)
              /\ cur' = Sync(cur, e)
         /\ l' = l + 1

TDone == /\ l = Len(Trace) + 1
         /\ PrintT(<<"WZDONE", l - 1, ToJson(wit)>>)
         /\ l' = l + 1 /\ UNCHANGED <<cur, wit>>

TNext == TReset \/ TStep \/ TDone
TSpec == TInit /\ [][TNext]_tvars
=============================================================================
