------------------------------- MODULE Lists -------------------------------
(***************************************************************************)
(* Pure (variable-free) specification of the list / note / heading / table *)
(* of contents subsystem of a document (property C15).                     *)
(*                                                                         *)
(* The abstract state of ONE document is exactly what can be read from the *)
(* saved package and the public accessors (the "view"):                    *)
(*   items   Seq [tok, num, abs, ilvl, ok, fmt, sym, start]                *)
(*           the list paragraphs of the body in document order, each with  *)
(*           the numbering instance it names (num), the abstract           *)
(*           definition that instance names (abs) and the definition found *)
(*           at the paragraph's own level (ok = such a level exists)       *)
(*   fn, en  Seq [id, text]   the notes parts (separators excluded)        *)
(*   fnc,enc GetFootnoteCount / GetEndnoteCount                            *)
(*   cfgf, cfge  [fmt, start, restart, pos]  w:footnotePr / w:endnotePr    *)
(*   heads   Seq [lvl, text, nb, ta]  heading paragraphs in document order *)
(*           nb = bookmark starts directly in front, ta = one of them is a *)
(*           TOC anchor (_Toc<digits>)                                     *)
(*   lheads  ListHeadings(), hcnt GetHeadingCount()                        *)
(*   tocs    Seq [ents: Seq [lvl, text]]  TOC content controls in order    *)
(*   sv      whether the package could be written and read                 *)
(* The machine state adds what only the caller knows:                      *)
(*   reqs[d]  the request (type, symbol, level, start) behind every list   *)
(*            paragraph, keyed by the paragraph's text token               *)
(*   tml[d]   the level every TOC was last generated with (0 = unknown)    *)
(*   gone[d]  note ids removed from document d                             *)
(*   past[d]  every list request ever made on document d (never shrinks)   *)
(*   touched, opened, last, lastok, n (allocation counter of the reference)*)
(*                                                                         *)
(* An operation is a record [op |-> name, d |-> document, ...arguments];   *)
(* ch are the implementation's free choices (fresh ids, text tokens) -     *)
(* computed by RefChoice for the reference machine, read off the log by    *)
(* the trace judge (TraceChoice).                                          *)
(*                                                                         *)
(* KeyHasStart / ClampLevel = TRUE is the reference design. FALSE models   *)
(* the library as built (definition cache keyed without the start number;  *)
(* levels outside 0..8 written as given) and is used only to show that     *)
(* TLC finds the corresponding violations in the model.                    *)
(***************************************************************************)
EXTENDS Integers, Sequences, FiniteSets, TLC

CONSTANTS KeyHasStart, ClampLevel

\* ---- helpers ------------------------------------------------------------
ElemsOf(s) == {s[i] : i \in 1..Len(s)}
DropAt(s, k) == [j \in 1..(Len(s) - 1) |-> IF j < k THEN s[j] ELSE s[j + 1]]
PutAt(s, k, x) == [j \in 1..Len(s) |-> IF j = k THEN x ELSE s[j]]
Other(d) == 3 - d
MinOf(S) == CHOOSE x \in S : \A y \in S : x <= y

\* ---- vocabulary ---------------------------------------------------------
ListTypes == {"bullet", "number", "decimal", "lowerLetter", "upperLetter", "lowerRoman", "upperRoman"}
FmtOf(t) == IF t \in {"number", "decimal"} THEN "decimal" ELSE t
IsBullet(r) == r.type = "bullet"
LevelsOK == 0..8

StyleLvl(s) ==
  CASE s = "Heading1" -> 1 [] s = "Heading2" -> 2 [] s = "Heading3" -> 3
    [] s = "Heading4" -> 4 [] s = "Heading5" -> 5 [] s = "Heading6" -> 6
    [] s = "Heading7" -> 7 [] s = "Heading8" -> 8 [] s = "Heading9" -> 9
    [] OTHER -> 0

DefaultTOCLevel == 3
NoCfg == [fmt |-> "", start |-> "", restart |-> "", pos |-> ""]
DefaultCfg == [fmt |-> "decimal", start |-> "1", restart |-> "continuous", pos |-> "pageBottom"]
\* a start number that is not positive is "not set" (the element is not written)
CfgOf(op) == IF op.nil THEN DefaultCfg
             ELSE [fmt |-> op.fmt, start |-> IF op.start > 0 THEN ToString(op.start) ELSE "",
                   restart |-> op.restart, pos |-> op.pos]

InitDoc == [items |-> <<>>, fn |-> <<>>, en |-> <<>>, fnc |-> 0, enc |-> 0, cfgf |-> NoCfg, cfge |-> NoCfg,
            heads |-> <<>>, lheads |-> <<>>, hcnt |-> [l \in 1..9 |-> 0], tocs |-> <<>>, sv |-> "ok"]

NoOp == [op |-> "none", d |-> 0]
NoGone == [f |-> {}, e |-> {}]

InitSt(nd) == [docs |-> [d \in 1..nd |-> InitDoc], reqs |-> [d \in 1..nd |-> {}], tml |-> [d \in 1..nd |-> <<>>],
               gone |-> [d \in 1..nd |-> NoGone], past |-> [d \in 1..nd |-> {}], touched |-> [d \in 1..nd |-> FALSE], opened |-> [d \in 1..nd |-> FALSE],
               last |-> NoOp, lastok |-> FALSE, n |-> 0]

NDocs(s) == Len(s.docs)

\* ---- the accessors, as functions of the saved state ------------------------
PlainHeads(hs) == [i \in 1..Len(hs) |-> [lvl |-> hs[i].lvl, text |-> hs[i].text]]
Listed(hs) == SelectSeq(PlainHeads(hs), LAMBDA h : h.text # "")
CountOf(hs) == [l \in 1..9 |-> Cardinality({i \in 1..Len(hs) : hs[i].lvl = l})]
\* what a table of contents generated with level ml lists: the headings up to that level that have a text
Qualifies(h, ml) == h.lvl <= ml /\ h.text # ""
Ents(hs, ml) == SelectSeq(PlainHeads(hs), LAMBDA h : Qualifies(h, ml))

\* the derived parts of a view (reference machine only; the judge reads them from the log)
Norm(v) == [v EXCEPT !.fnc = Len(v.fn), !.enc = Len(v.en), !.lheads = Listed(v.heads), !.hcnt = CountOf(v.heads)]

\* ---- lists ----------------------------------------------------------------
ListOps == {"AddListItem", "AddListItemNil", "AddBulletList", "AddNumberedList", "CreateMultiLevelList"}
\* the requests (type, symbol, level, start) an operation makes, in order
Reqs(op) ==
  CASE op.op = "AddListItem"          -> <<[type |-> op.type, sym |-> op.sym, lvl |-> op.lvl, start |-> op.start]>>
    [] op.op = "AddListItemNil"       -> <<[type |-> "bullet", sym |-> "dot", lvl |-> 0, start |-> 0]>>
    [] op.op = "AddBulletList"        -> <<[type |-> "bullet", sym |-> op.sym, lvl |-> op.lvl, start |-> 0]>>
    [] op.op = "AddNumberedList"      -> <<[type |-> op.type, sym |-> "empty", lvl |-> op.lvl, start |-> 1]>>
    [] op.op = "CreateMultiLevelList" -> op.items
    [] OTHER                          -> <<>>

Tagged(r, tok) == [tok |-> tok, type |-> r.type, sym |-> r.sym, lvl |-> r.lvl, start |-> r.start]
CacheKey(r) == IF KeyHasStart THEN <<r.type, r.sym, r.lvl, r.start>> ELSE <<r.type, r.sym, r.lvl>>
DefOf(r) == [fmt |-> FmtOf(r.type), sym |-> IF IsBullet(r) THEN r.sym ELSE "num", start |-> r.start]
WrittenLvl(r) == IF ~ClampLevel THEN r.lvl ELSE IF r.lvl < 0 THEN 0 ELSE IF r.lvl > 8 THEN 8 ELSE r.lvl

\* One list paragraph is appended for request r. abs = "" asks the reference definition cache:
\* reuse the abstract definition of an earlier paragraph of this document made with the same key.
AddOne(v, rq, r, tok, num, abs, fresh) ==
  LET same == {i \in 1..Len(v.items) : \E q \in rq : q.tok = v.items[i].tok /\ CacheKey(q) = CacheKey(r)}
      a    == IF abs # "" THEN abs ELSE IF same # {} THEN v.items[MinOf(same)].abs ELSE fresh
      old  == {i \in 1..Len(v.items) : v.items[i].abs = a}
      \* an abstract definition has ONE definition per level: a reused one keeps what it had
      def  == IF old # {} THEN LET o == v.items[MinOf(old)] IN [fmt |-> o.fmt, sym |-> o.sym, start |-> o.start]
              ELSE DefOf(r)
      it   == [tok |-> tok, num |-> num, abs |-> a, ilvl |-> WrittenLvl(r), ok |-> WrittenLvl(r) \in LevelsOK,
               fmt |-> def.fmt, sym |-> def.sym, start |-> def.start]
  IN [v |-> [v EXCEPT !.items = Append(v.items, it)], rq |-> rq \cup {Tagged(r, tok)}]

RECURSIVE AddAll(_, _, _, _, _)
AddAll(v, rq, rs, ch, j) ==
  IF j > Len(rs) THEN [v |-> v, rq |-> rq]
  ELSE LET one == AddOne(v, rq, rs[j], ch.toks[j], ch.nums[j], ch.abss[j], ch.fresh[j])
       IN AddAll(one.v, one.rq, rs, ch, j + 1)

\* what is wrong with list paragraph it, given the request r behind it (the list clause of C15)
ItemViol(r, it) ==
     (IF r.lvl \in LevelsOK /\ it.ilvl # r.lvl THEN {"ilvl"} ELSE {})
  \cup (IF ~it.ok THEN {"nodef"}
        ELSE (IF it.fmt # FmtOf(r.type) THEN {"fmt"} ELSE {})
          \cup (IF IsBullet(r) /\ it.sym # r.sym THEN {"symbol"} ELSE {})
          \cup (IF ~IsBullet(r) /\ it.start # r.start THEN {"start"} ELSE {}))
KindOf(r) == IF IsBullet(r) THEN "bullet" ELSE "numbered"
LvlClass(r) == IF r.lvl \in LevelsOK THEN "lvl-in" ELSE "lvl-out"
Toks(its) == [i \in 1..Len(its) |-> its[i].tok]

\* ---- the property on ONE document state (witness set; empty = holds) ----------
Untag(r) == [type |-> r.type, sym |-> r.sym, lvl |-> r.lvl, start |-> r.start]
\* state class of a wrong start value: was the same type / symbol / level requested with ANOTHER start before?
StartClass(r, past) ==
  IF \E q \in past : q.type = r.type /\ q.sym = r.sym /\ q.lvl = r.lvl /\ q.start # r.start THEN "after-other-start" ELSE "plain"
ItemWits(v, rq, past) ==
  UNION {{<<"item", p[1].tok, KindOf(p[1]), LvlClass(p[1]), f, IF f = "start" THEN StartClass(p[1], past) ELSE "plain">> :
            f \in ItemViol(p[1], v.items[p[2]])} :
           p \in {q \in rq \X (1..Len(v.items)) : q[1].tok = v.items[q[2]].tok}}
Ids(part) == {part[i].id : i \in 1..Len(part)}
NoteWits(v) ==
     (IF v.fnc # Len(v.fn) THEN {<<"fnCount">>} ELSE {})
  \cup (IF v.enc # Len(v.en) THEN {<<"enCount">>} ELSE {})
  \cup (IF Cardinality(Ids(v.fn)) # Len(v.fn) THEN {<<"fn-dup-id">>} ELSE {})
  \cup (IF Cardinality(Ids(v.en)) # Len(v.en) THEN {<<"en-dup-id">>} ELSE {})
HeadWits(v) ==
     (IF v.lheads # Listed(v.heads) THEN {<<"ListHeadings">>} ELSE {})
  \cup (IF v.hcnt # CountOf(v.heads) THEN {<<"GetHeadingCount">>} ELSE {})
InvDoc(v, rq, past) == ItemWits(v, rq, past) \cup NoteWits(v) \cup HeadWits(v)

\* ---- one operation on one document ----------------------------------------
NoteAdds == {"AddFootnote", "AddFootnoteToRun", "AddEndnote"}
TocLvl(op) == IF op.nil THEN DefaultTOCLevel ELSE op.ml
PosOfId(part, id) == LET S == {i \in 1..Len(part) : part[i].id = id} IN IF S = {} THEN 0 ELSE MinOf(S)
NewHead(lvl, text, nb) == [lvl |-> lvl, text |-> text, nb |-> nb, ta |-> FALSE]
\* a regenerated TOC anchors every heading it lists exactly once
Anchor(hs, ml) == [i \in 1..Len(hs) |->
                     IF Qualifies(hs[i], ml) THEN [hs[i] EXCEPT !.nb = IF hs[i].ta THEN hs[i].nb ELSE hs[i].nb + 1, !.ta = TRUE]
                     ELSE hs[i]]

Ret(v, op, ch) ==
  CASE op.op = "RemoveListItem"  -> IF op.k \in 1..Len(v.items) THEN "true" ELSE "false"
    [] op.op = "RemoveHeading"   -> IF op.k \in 1..Len(v.heads) THEN "true" ELSE "false"
    [] op.op = "RemoveFootnote"  -> IF PosOfId(v.fn, ch.id) # 0 THEN "ok" ELSE "err"
    [] op.op = "RemoveEndnote"   -> IF PosOfId(v.en, ch.id) # 0 THEN "ok" ELSE "err"
    [] op.op = "UpdateTOC"       -> IF v.tocs # <<>> THEN "ok" ELSE "err"
    [] op.op = "AutoGenerateTOC" -> IF Ents(v.heads, TocLvl(op)) # <<>> THEN "ok" ELSE "err"
    [] op.op = "SetTOCStyle"     -> IF op.lvl \in 1..9 THEN "ok" ELSE "err"
    [] OTHER -> "ok"

\* r = [v, rq, tm, gn]
XDoc(r, op, ch) ==
  LET v == r.v IN
  CASE op.op \in ListOps ->
         LET a == AddAll(v, r.rq, Reqs(op), ch, 1) IN [r EXCEPT !.v = a.v, !.rq = a.rq]
    [] op.op = "RemoveListItem" ->
         IF op.k \in 1..Len(v.items)
         THEN [r EXCEPT !.v.items = DropAt(v.items, op.k), !.rq = {q \in r.rq : q.tok # v.items[op.k].tok}]
         ELSE r
    [] op.op = "AddFootnote" -> [r EXCEPT !.v.fn = Append(v.fn, [id |-> ch.id, text |-> op.text])]
    [] op.op = "AddFootnoteToRun" ->
         \* the reference marker "[id]" is appended to the run: a run of a heading changes the heading's text
         IF op.run = "heading" /\ v.heads # <<>>
         THEN [r EXCEPT !.v.fn = Append(v.fn, [id |-> ch.id, text |-> op.text]),
                        !.v.heads = PutAt(v.heads, 1, [v.heads[1] EXCEPT !.text = @ \o "[" \o ch.id \o "]"])]
         ELSE [r EXCEPT !.v.fn = Append(v.fn, [id |-> ch.id, text |-> op.text])]
    [] op.op = "AddEndnote" -> [r EXCEPT !.v.en = Append(v.en, [id |-> ch.id, text |-> op.text])]
    [] op.op = "RemoveFootnote" ->
         IF PosOfId(v.fn, ch.id) # 0
         THEN [r EXCEPT !.v.fn = DropAt(v.fn, PosOfId(v.fn, ch.id)), !.gn.f = @ \cup {ch.id}] ELSE r
    [] op.op = "RemoveEndnote" ->
         IF PosOfId(v.en, ch.id) # 0
         THEN [r EXCEPT !.v.en = DropAt(v.en, PosOfId(v.en, ch.id)), !.gn.e = @ \cup {ch.id}] ELSE r
    [] op.op = "SetFootnoteConfig" -> [r EXCEPT !.v.cfgf = CfgOf(op), !.v.cfge = CfgOf(op)]
    [] op.op = "AddHeading" ->
         [r EXCEPT !.v.heads = Append(v.heads, NewHead(op.lvl, op.text, IF op.api = "parabm" THEN 1 ELSE 0))]
    [] op.op = "AddStyledParagraph" ->
         IF StyleLvl(op.style) > 0 THEN [r EXCEPT !.v.heads = Append(v.heads, NewHead(StyleLvl(op.style), op.text, 0))] ELSE r
    [] op.op = "RemoveHeading" ->
         IF op.k \in 1..Len(v.heads) THEN [r EXCEPT !.v.heads = DropAt(v.heads, op.k)] ELSE r
    [] op.op = "GenerateTOC" ->
         \* a further call is a further table of contents (not a regeneration)
         [r EXCEPT !.v.tocs = Append(v.tocs, [ents |-> Ents(v.heads, TocLvl(op))]), !.tm = Append(r.tm, TocLvl(op))]
    [] op.op = "UpdateTOC" ->
         \* takes no level: the first table of contents is rebuilt with the default level
         IF v.tocs = <<>> THEN r
         ELSE [r EXCEPT !.v.tocs = PutAt(v.tocs, 1, [ents |-> Ents(v.heads, DefaultTOCLevel)]),
                        !.tm = PutAt(r.tm, 1, IF r.tm[1] = DefaultTOCLevel THEN DefaultTOCLevel ELSE 0)]
    [] op.op = "AutoGenerateTOC" ->
         \* (re)generation: replaces the table of contents if there is one, else creates it
         LET ml == TocLvl(op)  t == [ents |-> Ents(v.heads, ml)] IN
         IF t.ents = <<>> THEN r
         ELSE [r EXCEPT !.v.tocs = IF v.tocs = <<>> THEN <<t>> ELSE PutAt(v.tocs, 1, t),
                        !.tm = IF r.tm = <<>> THEN <<ml>> ELSE PutAt(r.tm, 1, ml),
                        !.v.heads = Anchor(v.heads, ml)]
    [] OTHER -> r    \* RestartNumbering, SetTOCStyle, BuildTOCSDT, Reopen: nothing observable changes

Alloc(op) == IF op.op \in ListOps THEN Len(Reqs(op)) ELSE IF op.op \in NoteAdds THEN 1 ELSE 0
IsOk(ret) == ret \in {"ok", "true"}

X(s, op, ch) ==
  LET d == op.d
      r == XDoc([v |-> s.docs[d], rq |-> s.reqs[d], tm |-> s.tml[d], gn |-> s.gone[d]], op, ch)
  IN [s EXCEPT !.docs[d] = Norm(r.v), !.reqs[d] = r.rq, !.tml[d] = r.tm, !.gone[d] = r.gn,
               !.past[d] = @ \cup {Untag(q) : q \in r.rq},
               !.touched[d] = TRUE, !.opened[d] = @ \/ op.op = "Reopen",
               !.last = op, !.lastok = IsOk(Ret(s.docs[d], op, ch)), !.n = s.n + Alloc(op)]

\* ---- the choices of the reference machine -------------------------------------
ResolveRef(s, op) ==
  LET d == op.d
      foot == op.op = "RemoveFootnote"
      part == IF foot THEN s.docs[d].fn ELSE s.docs[d].en
      gn   == IF foot THEN s.gone[d].f ELSE s.gone[d].e
      oth  == IF NDocs(s) < 2 THEN <<>> ELSE IF foot THEN s.docs[Other(d)].fn ELSE s.docs[Other(d)].en
  IN CASE op.ref = "kth"   -> IF op.k \in 1..Len(part) THEN part[op.k].id ELSE "999"
       [] op.ref = "gone"  -> IF gn # {} THEN CHOOSE x \in gn : TRUE ELSE "998"
       [] op.ref = "other" -> IF oth # <<>> THEN oth[1].id ELSE "997"
       [] op.ref = "sep"   -> "-1"
       [] op.ref = "empty" -> ""
       [] OTHER            -> "999"

RefChoice(s, op) ==
  LET m == Len(Reqs(op)) IN
  [toks  |-> [j \in 1..m |-> "t" \o ToString(s.n + j)],
   nums  |-> [j \in 1..m |-> ToString(s.n + j)],
   abss  |-> [j \in 1..m |-> ""],
   fresh |-> [j \in 1..m |-> "a" \o ToString(s.n + j)],
   id    |-> IF op.op \in NoteAdds THEN ToString(s.n + 1)
             ELSE IF op.op \in {"RemoveFootnote", "RemoveEndnote"} THEN ResolveRef(s, op) ELSE ""]

RefX(s, op) == X(s, op, RefChoice(s, op))
RefRet(s, op) == Ret(s.docs[op.d], op, RefChoice(s, op))

\* ---- judging one observed step ----------------------------------------------------
\* e = [op, ret, ch |-> [id, toks], docs |-> observed views of all documents after the step]
TraceChoice(s, e) ==
  LET d == e.op.d  m == Len(Reqs(e.op))  its == e.docs[d].items  n0 == Len(s.docs[d].items)
      num(j) == IF n0 + j <= Len(its) THEN its[n0 + j].num ELSE "?"
      abs(j) == IF n0 + j <= Len(its) THEN its[n0 + j].abs ELSE "?"
  IN [toks |-> [j \in 1..m |-> IF j <= Len(e.ch.toks) THEN e.ch.toks[j] ELSE "?"],
      nums |-> [j \in 1..m |-> num(j)], abss |-> [j \in 1..m |-> abs(j)], fresh |-> [j \in 1..m |-> abs(j)],
      id |-> e.ch.id]

\* state class of a signature: <<new | reopened, solo | two>> (two = the other document of the process is in use)
DocClass(s, d) ==
  <<IF s.opened[d] THEN "reopened" ELSE "new", IF NDocs(s) = 2 /\ s.touched[Other(d)] THEN "two" ELSE "solo">>

\* what the step is NOT judged on:
\*  Reopen      - which body elements the reader keeps (content controls, bookmarks) is property C03's subject
\*  UpdateTOC   - has no level argument; the entries are judged only for a TOC known to be of the default level
Exempt(s, op) ==
  IF op.op = "Reopen" THEN {"tocs", "bookmarks"}
  ELSE IF op.op = "UpdateTOC" /\ s.tml[op.d] # <<>> /\ s.tml[op.d][1] # DefaultTOCLevel THEN {"toc1"}
  ELSE {}

TocClass(v) == IF v.tocs = <<>> THEN "no-toc" ELSE "has-toc"
TocDiff(pv, x, o, ex) ==
  IF "tocs" \in ex \/ x.tocs = o.tocs THEN {}
  ELSE IF Len(x.tocs) # Len(o.tocs) THEN {<<"toc-count", TocClass(pv)>>}
  ELSE IF "toc1" \in ex /\ \A i \in 2..Len(x.tocs) : x.tocs[i] = o.tocs[i] THEN {}
  ELSE {<<"toc-entries", TocClass(pv)>>}

\* pv = view before, x = specified view after, o = observed view after
Diff(pv, x, o, ex) ==
     (IF Toks(x.items) # Toks(o.items) THEN {<<"items">>} ELSE {})
  \cup (IF ElemsOf(x.fn) \ ElemsOf(o.fn) # {} THEN {<<"fn-missing">>} ELSE {})
  \cup (IF ElemsOf(o.fn) \ ElemsOf(x.fn) # {} THEN {<<"fn-extra">>} ELSE {})
  \cup (IF ElemsOf(x.en) \ ElemsOf(o.en) # {} THEN {<<"en-missing">>} ELSE {})
  \cup (IF ElemsOf(o.en) \ ElemsOf(x.en) # {} THEN {<<"en-extra">>} ELSE {})
  \cup (IF x.cfgf # o.cfgf THEN {<<"cfg-footnote">>} ELSE {})
  \cup (IF x.cfge # o.cfge THEN {<<"cfg-endnote">>} ELSE {})
  \cup (IF PlainHeads(x.heads) # PlainHeads(o.heads) THEN {<<"heads">>}
        ELSE IF "bookmarks" \notin ex /\ x.heads # o.heads THEN {<<"bookmarks", TocClass(pv)>>} ELSE {})
  \cup TocDiff(pv, x, o, ex)

Regen == {"UpdateTOC", "AutoGenerateTOC"}

\* signature tail of an invariant witness (the text token is replaced by old/new)
SigOf(w, pv) == IF w[1] = "item" THEN <<"item", IF w[2] \in ElemsOf(Toks(pv.items)) THEN "old" ELSE "new", w[3], w[4], w[5], w[6]>> ELSE w

Judge(s, e) ==
  LET op  == e.op
      d   == op.d
      ch  == TraceChoice(s, e)
      x   == X(s, op, ch)
      pre == <<"C15", op.op>> \o DocClass(s, d)
      pv  == s.docs[d]
      o   == e.docs[d]
  IN  (IF e.ret = "panic" THEN {pre \o <<"panic">>}
       ELSE (IF e.ret # Ret(pv, op, ch) THEN {pre \o <<"ret">>} ELSE {}))
   \cup (IF o.sv # "ok" THEN {pre \o <<"save", o.sv>>}
         ELSE IF e.ret = "panic" THEN {}
         ELSE {pre \o w : w \in Diff(pv, x.docs[d], o, Exempt(s, op))}
           \cup (IF op.op \in NoteAdds /\ ch.id \in Ids(IF op.op = "AddEndnote" THEN pv.en ELSE pv.fn)
                 THEN {pre \o <<"id-not-fresh">>} ELSE {})
           \cup (IF op.op \in Regen /\ op = s.last /\ s.lastok /\ IsOk(e.ret) /\ o # pv
                 THEN {pre \o <<"not-idempotent">>} ELSE {}))
   \cup UNION {{(IF dd = d THEN pre ELSE <<"C15", op.op, IF s.opened[dd] THEN "reopened" ELSE "new", "other-doc">>) \o SigOf(w, s.docs[dd]) :
                   w \in IF e.docs[dd].sv # "ok" THEN {} ELSE InvDoc(e.docs[dd], x.reqs[dd], x.past[dd]) \ InvDoc(s.docs[dd], s.reqs[dd], x.past[dd])} :
                 dd \in 1..NDocs(s)}

\* the judge continues from what the implementation really did
Sync(s, e) ==
  LET x == X(s, e.op, TraceChoice(s, e)) IN
  [x EXCEPT !.docs = e.docs,
            !.tml = [d \in 1..NDocs(s) |-> IF Len(x.tml[d]) = Len(e.docs[d].tocs) THEN x.tml[d]
                                             ELSE [i \in 1..Len(e.docs[d].tocs) |-> 0]],
            !.lastok = IsOk(e.ret)]

\* ---- design-level statements of C15 (checked on the reference machine by Lists_MC) ----
\* ents lists exactly the headings of hs up to level ml, in document order, with their text
TOCExact(hs, ml, ents) ==
  LET Q == {i \in 1..Len(hs) : hs[i].lvl <= ml /\ hs[i].text # ""} IN
  /\ Len(ents) = Cardinality(Q)
  /\ \A k \in 1..Len(ents) :
       \E i \in Q : /\ Cardinality({j \in Q : j < i}) = k - 1
                    /\ ents[k].lvl = hs[i].lvl /\ ents[k].text = hs[i].text
=============================================================================
