------------------------------ MODULE Lists_MC ------------------------------
(* Exhaustive exploration (SpecMC) and behaviour generation (SpecGen) for Lists. *)
EXTENDS Lists, Json, SequencesExt

CONSTANTS ND,         \* documents alive in the process (1 or 2)
          OpNames,    \* operation names explored
          Types, Syms, NumSyms, LvlCodes, Starts,   \* AddListItem / AddBulletList / AddNumberedList argument pools
                                                 \* (level = code - 1: a cfg file cannot hold a negative number)
          MLTypes, MLLvls, MLStarts, MLLen,      \* CreateMultiLevelList: items over these pools, 0..MLLen items
          NTexts, Runs, Refs,                    \* note texts, AddFootnoteToRun targets, removal reference classes
          CfgFmts, CfgStarts,                    \* SetFootnoteConfig pools
          Apis, HLvls, HTexts, Styles,           \* heading constructors
          MLs,                                   \* TOC levels
          TSLvls,                                \* SetTOCStyle levels
          Files,                                 \* Reopen through ToBytes/OpenFromMemory (FALSE) or Save/Open of a file (TRUE)
          MaxK,                                  \* largest index offered to the removal operations
          Depth,                                 \* behaviour length for generation
          MaxItems, MaxNotes, MaxHeads, MaxTocs, MaxAlloc   \* bounds of the exhaustive exploration

VARIABLES st, hist
vars == <<st, hist>>

Has(n) == n \in OpNames
Lvls == {c - 1 : c \in LvlCodes}
MLPool == {[type |-> t, sym |-> IF t = "bullet" THEN "dot" ELSE "empty", lvl |-> l, start |-> IF t = "bullet" THEN 0 ELSE b] :
             t \in MLTypes, l \in MLLvls, b \in MLStarts}
MLSeqs == UNION {[1..k -> MLPool] : k \in 0..MLLen}
KRange(len) == 1..(IF len + 1 < MaxK THEN len + 1 ELSE MaxK)

OpsFor(s, d) ==
  LET v == s.docs[d] IN
     (IF Has("AddListItem") THEN
        {[op |-> "AddListItem", d |-> d, type |-> t, sym |-> y, lvl |-> l, start |-> b] :
           t \in Types \ {"bullet"}, y \in NumSyms, l \in Lvls, b \in Starts}
        \cup {[op |-> "AddListItem", d |-> d, type |-> "bullet", sym |-> y, lvl |-> l, start |-> 0] :
           y \in (IF "bullet" \in Types THEN Syms ELSE {}), l \in Lvls}
      ELSE {})
  \cup (IF Has("AddListItemNil") THEN {[op |-> "AddListItemNil", d |-> d]} ELSE {})
  \cup (IF Has("AddBulletList") THEN {[op |-> "AddBulletList", d |-> d, sym |-> y, lvl |-> l] : y \in Syms, l \in Lvls} ELSE {})
  \cup (IF Has("AddNumberedList") THEN {[op |-> "AddNumberedList", d |-> d, type |-> t, lvl |-> l] : t \in Types \ {"bullet"}, l \in Lvls} ELSE {})
  \cup (IF Has("CreateMultiLevelList") THEN {[op |-> "CreateMultiLevelList", d |-> d, items |-> q] : q \in MLSeqs} ELSE {})
  \cup (IF Has("RestartNumbering") THEN {[op |-> "RestartNumbering", d |-> d, ref |-> r] : r \in {"first", "last", "bogus", "other"}} ELSE {})
  \cup (IF Has("RemoveListItem") THEN {[op |-> "RemoveListItem", d |-> d, k |-> k] : k \in KRange(Len(v.items))} ELSE {})
  \cup (IF Has("AddFootnote") THEN {[op |-> "AddFootnote", d |-> d, text |-> t] : t \in NTexts} ELSE {})
  \cup (IF Has("AddEndnote") THEN {[op |-> "AddEndnote", d |-> d, text |-> t] : t \in NTexts} ELSE {})
  \cup (IF Has("AddFootnoteToRun") THEN {[op |-> "AddFootnoteToRun", d |-> d, run |-> r, text |-> t] : r \in Runs, t \in NTexts} ELSE {})
  \cup (IF Has("RemoveFootnote") THEN
          {[op |-> "RemoveFootnote", d |-> d, ref |-> "kth", k |-> k] : k \in 1..(IF Len(v.fn) < MaxK THEN Len(v.fn) ELSE MaxK)}
          \cup {[op |-> "RemoveFootnote", d |-> d, ref |-> r, k |-> 0] : r \in Refs}
        ELSE {})
  \cup (IF Has("RemoveEndnote") THEN
          {[op |-> "RemoveEndnote", d |-> d, ref |-> "kth", k |-> k] : k \in 1..(IF Len(v.en) < MaxK THEN Len(v.en) ELSE MaxK)}
          \cup {[op |-> "RemoveEndnote", d |-> d, ref |-> r, k |-> 0] : r \in Refs}
        ELSE {})
  \cup (IF Has("SetFootnoteConfig") THEN
          {[op |-> "SetFootnoteConfig", d |-> d, nil |-> TRUE, fmt |-> "", start |-> 0, restart |-> "", pos |-> ""]}
          \cup {[op |-> "SetFootnoteConfig", d |-> d, nil |-> FALSE, fmt |-> f, start |-> b,
                 restart |-> IF b = 5 THEN "eachPage" ELSE "eachSect", pos |-> IF f = "decimal" THEN "beneathText" ELSE "docEnd"] :
                  f \in CfgFmts, b \in CfgStarts}
        ELSE {})
  \cup (IF Has("AddHeading") THEN {[op |-> "AddHeading", d |-> d, api |-> a, lvl |-> l, text |-> t] : a \in Apis, l \in HLvls, t \in HTexts} ELSE {})
  \cup (IF Has("AddStyledParagraph") THEN {[op |-> "AddStyledParagraph", d |-> d, style |-> y, text |-> "S"] : y \in Styles} ELSE {})
  \cup (IF Has("RemoveHeading") THEN {[op |-> "RemoveHeading", d |-> d, k |-> k] : k \in KRange(Len(v.heads))} ELSE {})
  \cup (IF Has("GenerateTOC") THEN
          {[op |-> "GenerateTOC", d |-> d, nil |-> FALSE, ml |-> m] : m \in MLs} \cup {[op |-> "GenerateTOC", d |-> d, nil |-> TRUE, ml |-> 0]}
        ELSE {})
  \cup (IF Has("AutoGenerateTOC") THEN
          {[op |-> "AutoGenerateTOC", d |-> d, nil |-> FALSE, ml |-> m] : m \in MLs} \cup {[op |-> "AutoGenerateTOC", d |-> d, nil |-> TRUE, ml |-> 0]}
        ELSE {})
  \cup (IF Has("UpdateTOC") THEN {[op |-> "UpdateTOC", d |-> d]} ELSE {})
  \cup (IF Has("SetTOCStyle") THEN {[op |-> "SetTOCStyle", d |-> d, lvl |-> l] : l \in TSLvls} ELSE {})
  \cup (IF Has("BuildTOCSDT") THEN {[op |-> "BuildTOCSDT", d |-> d]} ELSE {})
  \* a reopen in a NEW process is only meaningful while no other document of this process is in use
  \cup (IF Has("Reopen") THEN {[op |-> "Reopen", d |-> d, fresh |-> f, file |-> g] :
                                     f \in {FALSE} \cup (IF ND = 1 \/ ~s.touched[Other(d)] THEN {TRUE} ELSE {}), g \in Files} ELSE {})

OpsOf(s) == UNION {OpsFor(s, d) : d \in 1..ND}

Bounded(s) == /\ s.n <= MaxAlloc
              /\ \A d \in 1..ND : /\ Len(s.docs[d].items) <= MaxItems
                                  /\ Len(s.docs[d].fn) + Len(s.docs[d].en) <= MaxNotes
                                  /\ Len(s.docs[d].heads) <= MaxHeads
                                  /\ Len(s.docs[d].tocs) <= MaxTocs

Init == st = InitSt(ND) /\ hist = <<>>

NextMC == \E op \in OpsOf(st) :
            /\ Bounded(RefX(st, op))
            /\ st' = RefX(st, op)
            /\ hist' = <<op>>          \* the operation just taken (for the action properties); not part of the view
SpecMC == Init /\ [][NextMC]_vars
\* the last operation is bookkeeping of the judge, not part of the document state
\* (nor is the set of past requests, which only names the state class of a witness)
MCView == [st EXCEPT !.last = NoOp, !.lastok = FALSE, !.past = [d \in 1..ND |-> {}]]

NextGen == /\ Len(hist) < Depth
           /\ \E op \in OpsOf(st) :
                /\ st' = RefX(st, op)
                /\ hist' = Append(hist, op)
SpecGen == Init /\ [][NextGen]_vars

\* ---- properties of the reference machine (C15 at design level) -------------------
\* every list paragraph has the requested definition; counts agree with the parts; accessors agree with the body
Inv_C15 == \A d \in 1..ND : InvDoc(st.docs[d], st.reqs[d], st.past[d]) = {}
\* note ids are unique per part, across kinds nothing is shared
Inv_Ids == \A d \in 1..ND : /\ Cardinality(Ids(st.docs[d].fn)) = Len(st.docs[d].fn)
                            /\ Cardinality(Ids(st.docs[d].en)) = Len(st.docs[d].en)
                            /\ Ids(st.docs[d].fn) \cap st.gone[d].f = {}
\* regenerating is idempotent: doing it again changes nothing (evaluated in every reachable state)
Inv_Idem == \A op \in {o \in OpsOf(st) : o.op \in Regen} :
              LET s1 == RefX(st, op) IN RefX(s1, op).docs = s1.docs

\* a generated / updated / regenerated table of contents lists exactly the headings up to the level, in order
Act_TOC ==
  [][LET op == hist'[1] IN
       RefRet(st, op) = "ok" =>
          LET d == op.d  hs == st'.docs[d].heads  ts == st'.docs[d].tocs IN
          /\ op.op = "GenerateTOC" => TOCExact(hs, TocLvl(op), ts[Len(ts)].ents) /\ Len(ts) = Len(st.docs[d].tocs) + 1
          /\ op.op = "UpdateTOC" => TOCExact(hs, DefaultTOCLevel, ts[1].ents) /\ Len(ts) = Len(st.docs[d].tocs)
          /\ op.op = "AutoGenerateTOC" => TOCExact(hs, TocLvl(op), ts[1].ents) /\ Len(ts) = (IF st.docs[d].tocs = <<>> THEN 1 ELSE Len(st.docs[d].tocs))
          /\ op.op \in {"GenerateTOC", "UpdateTOC", "AutoGenerateTOC"} => PlainHeads(hs) = PlainHeads(st.docs[d].heads)]_vars

\* an added note appears exactly once with its text and nothing else changes; a removal removes exactly that note
Act_Notes ==
  [][LET op == hist'[1] IN
          LET d == op.d  a == st.docs[d]  b == st'.docs[d]  id == RefChoice(st, op).id IN
          /\ op.op \in {"AddFootnote", "AddFootnoteToRun"} =>
               /\ Cardinality({i \in 1..Len(b.fn) : b.fn[i] = [id |-> id, text |-> op.text]}) = 1
               /\ ElemsOf(b.fn) = ElemsOf(a.fn) \cup {[id |-> id, text |-> op.text]} /\ b.fnc = a.fnc + 1 /\ b.en = a.en
          /\ op.op = "AddEndnote" =>
               /\ ElemsOf(b.en) = ElemsOf(a.en) \cup {[id |-> id, text |-> op.text]} /\ b.enc = a.enc + 1 /\ b.fn = a.fn
          /\ op.op = "RemoveFootnote" =>
               \/ (RefRet(st, op) = "err" /\ b = a)
               \/ (RefRet(st, op) = "ok" /\ id \in Ids(a.fn) /\ Ids(b.fn) = Ids(a.fn) \ {id} /\ b.fnc = a.fnc - 1 /\ b.en = a.en)
          /\ op.op = "RemoveEndnote" =>
               \/ (RefRet(st, op) = "err" /\ b = a)
               \/ (RefRet(st, op) = "ok" /\ id \in Ids(a.en) /\ Ids(b.en) = Ids(a.en) \ {id} /\ b.enc = a.enc - 1 /\ b.fn = a.fn)]_vars

\* frame: the other document never changes; each family leaves the other families alone;
\* list paragraphs that exist keep the definition they resolve to
Fam(v) == [lists |-> v.items, notes |-> <<v.fn, v.en, v.fnc, v.enc, v.cfgf, v.cfge>>, toc |-> <<v.heads, v.lheads, v.hcnt, v.tocs>>]
FamOf(op) ==
  IF op.op \in ListOps \cup {"RestartNumbering", "RemoveListItem"} THEN "lists"
  ELSE IF op.op \in NoteAdds \cup {"RemoveFootnote", "RemoveEndnote", "SetFootnoteConfig"} THEN "notes"
  ELSE IF op.op \in {"AddHeading", "AddStyledParagraph", "RemoveHeading", "GenerateTOC", "UpdateTOC", "AutoGenerateTOC"} THEN "toc"
  ELSE "none"
Act_Frame ==
  [][LET op == hist'[1] IN
          /\ \A d \in 1..ND : d # op.d => st'.docs[d] = st.docs[d]
          /\ \A f \in {"lists", "notes", "toc"} :
               (f # FamOf(op) /\ ~(f = "toc" /\ op.op = "AddFootnoteToRun" /\ op.run = "heading")) =>
                  Fam(st'.docs[op.d])[f] = Fam(st.docs[op.d])[f]
          /\ op.op \in ListOps => IsPrefix(st.docs[op.d].items, st'.docs[op.d].items)]_vars

\* ---- generation: print each complete behaviour once ----------------------------------
Emit == Len(hist) < Depth \/ PrintT(<<"WZCASE", ToJson(hist)>>)
=============================================================================
