----------------------------- MODULE HdrFtr_MC -----------------------------
(* Exhaustive exploration (SpecMC) of the reference machine of HdrFtr and    *)
(* behaviour generation (SpecGen).                                           *)
EXTENDS HdrFtr, Json

CONSTANTS MaxSteps,   \* bound on behaviour length for the exhaustive check
          Depth,      \* behaviour length for generation
          OpNames,    \* operation names explored
          HfC,        \* subset of {"h","f"}: header and/or footer constructors
          KindsC,     \* kinds passed to the constructors
          TextC,      \* text classes
          ShowC,      \* showPageNum values
          FmtC,       \* names of format arguments (FmtPool)
          AlignC,     \* alignment arguments
          CfgNilC,    \* whether the formatted constructors are also called with a nil config
          PageC,      \* page-setting calls
          ViaC,       \* Reopen: "mem" | "file" | "word" (through a package with Word-style part names);   Render: "doc" | "legacy"
          RViaC,
          DataC,      \* Render: "def" | "undef" (is the placeholder's variable set?)
          LastC,      \* generation: op names allowed as the last step of a behaviour ({} = all); keeps -simulate
                      \* from emitting one behaviour per successor of the last state
          Design      \* "replace" (required) | "append" (defect of the pinned tree, counterexample cfg only)

VARIABLES st, hist, last
vars == <<st, hist, last>>

On(x) == x \in OpNames
IsH(x) == x \in HeaderOps
HfOn(x) == On(x) /\ ((IsH(x) /\ "h" \in HfC) \/ (~IsH(x) /\ "f" \in HfC))

Ops ==
     {[op |-> o, kind |-> k, tc |-> t] : o \in {x \in PlainOps : HfOn(x)}, k \in KindsC, t \in TextC}
  \cup {[op |-> o, kind |-> k, tc |-> t, show |-> s] : o \in {x \in PnOps : HfOn(x)}, k \in KindsC, t \in TextC, s \in ShowC}
  \cup {[op |-> o, kind |-> k, tc |-> t, cfgnil |-> FALSE, fmt |-> FmtPool[f], align |-> a] :
          o \in {x \in FmtOps : HfOn(x)}, k \in KindsC, t \in TextC, f \in FmtC, a \in AlignC}
  \cup {[op |-> o, kind |-> k, tc |-> "empty", cfgnil |-> TRUE, fmt |-> FmtPool["nil"], align |-> ""] :
          o \in {x \in FmtOps : HfOn(x) /\ TRUE \in CfgNilC}, k \in KindsC}
  \cup (IF On("SetDifferentFirstPage") THEN {[op |-> "SetDifferentFirstPage", b |-> b] : b \in BOOLEAN} ELSE {})
  \cup (IF On("PageSet") THEN {[op |-> "PageSet", which |-> w] : w \in PageC} ELSE {})
  \cup {[op |-> o] : o \in OpNames \cap (BodyOps \cup SaveOps)}
  \cup (IF On("Reopen") THEN {[op |-> "Reopen", via |-> v] : v \in ViaC} ELSE {})
  \cup (IF On("Render") THEN {[op |-> "Render", via |-> v, data |-> d] : v \in RViaC, d \in DataC} ELSE {})

\* choices of the reference machine: one of the two smallest unused relationship ids, as-built part names
RidPool == <<"rId2", "rId3", "rId4", "rId5", "rId6", "rId7", "rId8", "rId9", "rId10", "rId11", "rId12", "rId13",
             "rId14", "rId15", "rId16", "rId17", "rId18", "rId19", "rId20", "rId21", "rId22", "rId23", "rId24",
             "rId25", "rId26", "rId27", "rId28", "rId29", "rId30", "rId31", "rId32", "rId33", "rId34", "rId35",
             "rId36", "rId37", "rId38", "rId39", "rId40", "rId41", "rId42", "rId43", "rId44", "rId45">>
Unused(P) == {i \in 1..Len(RidPool) : RidPool[i] \notin {r.id : r \in ToSet(P.rels)}}
Fresh1(P) == RidPool[MinI(Unused(P))]
Fresh2(P) == RidPool[MinI(Unused(P) \ {MinI(Unused(P))})]
HasNumbering(P) == \E r \in ToSet(P.rels) : r.tgt = "word/numbering.xml"
HasNotes(P) == \E r \in ToSet(P.rels) : r.tgt = "word/footnotes.xml"

ChoicesOf(P, op, rids) ==
  IF op.op \in HfOps THEN {[rid |-> r, part |-> CanonPart(SlotOf(op))] : r \in rids}
  ELSE IF op.op = "AddImage" THEN {[rid |-> r, part |-> r] : r \in rids}
  ELSE IF op.op = "AddListItem" THEN
       (IF HasNumbering(P) THEN {[rid |-> "", part |-> ""]} ELSE {[rid |-> r, part |-> "word/numbering.xml"] : r \in rids})
  ELSE IF op.op = "AddFootnote" THEN
       (IF HasNotes(P) THEN {[rid |-> "", part |-> ""]} ELSE {[rid |-> r, part |-> "word/footnotes.xml"] : r \in rids})
  ELSE {[rid |-> "", part |-> ""]}

Init == st = InitSt /\ hist = <<>> /\ last = [op |-> "New"]

NextMC == /\ st.clk < MaxSteps
          /\ \E op \in Ops : \E ch \in ChoicesOf(st.pkg, op, {Fresh1(st.pkg), Fresh2(st.pkg)}) :
                /\ ChoiceOK(st.pkg, op, ch)
                /\ st' = ApplyD(st, op, ch, Design)
                /\ last' = op
          /\ hist' = hist
SpecMC == Init /\ [][NextMC]_vars

NextGen == /\ Len(hist) < Depth
           /\ \E op \in Ops : \E ch \in ChoicesOf(st.pkg, op, {Fresh1(st.pkg)}) :
                /\ (Len(hist) = Depth - 1 /\ LastC # {}) => op.op \in LastC
                /\ st' = Apply(st, op, ch)
                /\ hist' = Append(hist, op)
           /\ last' = last
SpecGen == Init /\ [][NextGen]_vars

\* ---- properties of the reference machine (C11 at design level) -----------
\* at most one resolvable reference per slot, no stale relationship, and every slot shows its latest definition
Inv_C11 == Viol_C11(st) = {}
\* relationship ids of the main part are unique; serials never run ahead of the clock
Inv_Wf == /\ \A i, j \in 1..Len(st.pkg.rels) : i # j => st.pkg.rels[i].id # st.pkg.rels[j].id
          /\ \A s \in Slots : \A j \in 1..Len(st.def[s].items) : st.def[s].items[j].n <= st.clk
          /\ \A s \in Slots : st.def[s].on <=> Len(RefsOf(st.pkg, s)) = 1
\* a constructor call makes its slot show exactly this call (serial = the step just taken)
Act_Current ==
  [][last'.op \in HfOps => SlotContents(st'.pkg, SlotOf(last')) = {Def(last', st'.clk)}]_vars
\* what a slot shows changes only by a call for that slot (or by substitution when rendering)
Act_Frame ==
  [][\A s \in Slots : SlotContents(st'.pkg, s) # SlotContents(st.pkg, s)
        => (last'.op \in HfOps /\ SlotOf(last') = s) \/ (last'.op = "Render" /\ Subst(last'))]_vars
\* the flags change only by their setter; nothing but a constructor adds or removes a reference
Act_Flags ==
  [][/\ st'.pkg.titlePg # st.pkg.titlePg => last'.op = "SetDifferentFirstPage"
     /\ st'.pkg.evenOdd = st.pkg.evenOdd
     /\ st'.pkg.refs # st.pkg.refs => last'.op \in HfOps]_vars
\* Save / Reopen / Render keep every definition (Render up to substitution)
Act_Survive ==
  [][last'.op \in SaveOps \cup {"Reopen"} => (st'.pkg = st.pkg /\ st'.def = st.def)]_vars
\* only a trip through a foreign-named package changes the naming class, and never back
Act_Names ==
  [][st'.names # st.names => (last'.op = "Reopen" /\ last'.via \in {"word", "wordabs", "worddot"} /\ st'.names = "foreign")]_vars

\* ---- generation: print each complete behaviour once ----------------------
Emit == Len(hist) < Depth \/ PrintT(<<"WZCASE", ToJson(hist)>>)
=============================================================================
