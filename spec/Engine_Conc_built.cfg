SPECIFICATION Spec
CONSTANTS
  Variant = "built"
  Setup <- SetupBaseA
  ProgChoices <- ProgsTiny
INVARIANTS Inv_NoRace Inv_NotStuck Inv_CacheAgree
CHECK_DEADLOCK FALSE
\* expected result of this configuration: Invariant Inv_NoRace is violated (non-vacuity self-test, asserted by props/C17.py)
