SPECIFICATION Spec
CONSTANTS
  Variant = "built"
  Setup <- SetupBaseA
  ProgChoices <- ProgsTiny
INVARIANTS Inv_NoRace Inv_NotStuck Inv_CacheAgree
CHECK_DEADLOCK FALSE
