------------------------------ MODULE Rels_MC ------------------------------
(* Exhaustive exploration (SpecMC) of the reference machine of Rels and      *)
(* behaviour generation (SpecGen).                                           *)
EXTENDS Rels, Json

CONSTANTS MaxSteps,   \* bound on the number of calls after the start for the exhaustive check
          Depth,      \* number of calls after the start for generation
          OpNames,    \* operation names explored (without the start operations)
          KindsC,     \* header/footer kinds
          WhereC,     \* AddImage: "body" | "cell" | "resource";  Placeholder: "body" | "cell"
          ViaC,       \* AddImage: "data" | "file";  AddListItem: "item" | "bullet" | "numbered" | "multi";
                      \* AddFootnote: "text" | "run";  SetProps: "props" | "title";  Reopen / OpenForeign: "mem" | "file";
                      \* Render: "doc" | "legacy" | "renderer"   (each call takes the values that apply to it)
          StartNew,   \* behaviours may start from document.New()
          SchemesC,   \* relationship-id schemes of the foreign packages behaviours may start from
          ContentsC,  \* named contents of those packages
          FlagsC,     \* subset of BOOLEAN: header with its own relationship part + package-level property relationships
          AbsC,       \* subset of BOOLEAN: internal targets written as absolute paths
          PicC,       \* AddImage: the picture handed over - "png" (PNG named x.png) | "jpg" (JPEG named x.jpg: the extension of
                      \* the name is not the canonical one of the format) | "gifcap" (GIF named X.GIF); free choices stay free
          KeepC,      \* Render: which document of the engine is kept - "only" (one rendering), "first" (a second document is
                      \* rendered from the same template and data afterwards), "second" (the engine rendered one before);
                      \* rendering is a function of template and data, so the model is the same for all three
          LastC,      \* generation: op names allowed as the last step ({} = all)
          Design      \* "unused" (required) | "asbuilt" (allocation of the pinned tree; counterexample cfg only)

VARIABLES st, hist, last, n
vars == <<st, hist, last, n>>

On(x) == x \in OpNames
Pick(S) == S \cap ViaC

ContentSet(c) ==
  CASE c = "min"   -> {}
    [] c = "one"   -> {"img1"}
    [] c = "pics"  -> {"img1", "img2", "limg"}
    [] c = "hf"    -> {"img1", "hdr", "ftr"}
    [] c = "hf2"   -> {"hdr", "hdrE", "ftr", "img2"}
    [] c = "notes" -> {"num", "fn", "en", "set"}
    [] c = "mix"   -> {"img1", "hdr", "num", "hl", "theme"}
    [] OTHER       -> ToSet(ItemSeq)

Starts ==
  (IF StartNew THEN {[op |-> "New"]} ELSE {})
  \cup {[op |-> "OpenForeign", scheme |-> s, content |-> c, flags |-> f, abs |-> a, via |-> v,
         pkg |-> ForeignPkg(s, ContentSet(c), f, f)] :
          s \in SchemesC, c \in ContentsC, f \in FlagsC, a \in AbsC, v \in Pick({"mem", "file"})}

Ops ==
     (IF On("AddImage") THEN {[op |-> "AddImage", where |-> w, via |-> v, pic |-> p] : w \in WhereC \ {"resource"}, v \in Pick({"data", "file"}), p \in PicC}
                             \cup {[op |-> "AddImage", where |-> w, via |-> "data", pic |-> p] : w \in WhereC \cap {"resource"}, p \in PicC} ELSE {})
  \cup {[op |-> o, kind |-> k] : o \in HfOps \cap OpNames, k \in KindsC}
  \cup (IF On("AddListItem") THEN {[op |-> "AddListItem", via |-> v] : v \in Pick({"item", "bullet", "numbered", "multi"})} ELSE {})
  \cup (IF On("AddFootnote") THEN {[op |-> "AddFootnote", via |-> v] : v \in Pick({"text", "run"})} ELSE {})
  \cup (IF On("SetProps") THEN {[op |-> "SetProps", via |-> v] : v \in Pick({"props", "title"})} ELSE {})
  \cup (IF On("Placeholder") THEN {[op |-> "Placeholder", where |-> w] : w \in WhereC \cap {"body", "cell"}} ELSE {})
  \cup (IF On("Render") THEN {[op |-> "Render", via |-> v, keep |-> k] : v \in Pick({"doc", "legacy", "renderer"}), k \in KeepC} ELSE {})
  \cup {[op |-> o, all |-> a] : o \in RemoveOps \cap OpNames, a \in BOOLEAN}
  \cup (IF On("Reopen") THEN {[op |-> "Reopen", via |-> v] : v \in Pick({"mem", "file"})} ELSE {})
  \cup {[op |-> o] : o \in OpNames \cap {"AddEndnote", "SetFootnoteConfig", "AddStyle", "AddParagraph", "AddTable", "Save", "ToBytes"}}

\* ---- choices of the reference machine: the smallest unused rIdN (or the ones after it), as-built part names
NumPool == 1..90
UnusedNums(b) == {k \in NumPool : RId(k) \notin IdsOf(b, b.main)}
NthOf(U, j) == CHOOSE k \in U : Cardinality({m \in U : m < k}) = j - 1
FreshIds(b, cnt, skip) == [j \in 1..cnt |-> RId(NthOf(UnusedNums(b), j + skip))]

MediaName(k) == "word/media/image" \o ToString(k) \o ".png"
FreeMedia(s) == {k \in 0..60 : MediaName(k) \notin s.parts}
FreshMedia(s, cnt) == [j \in 1..cnt |-> MediaName(NthOf(FreeMedia(s), j))]

CanonPart(op) ==
  LET p == IF op.op \in HeaderOps THEN "header" ELSE "footer"
  IN "word/" \o p \o (IF op.kind = "default" THEN "1" ELSE op.kind) \o ".xml"
NumPart(op, k) == "word/" \o (IF op.op \in HeaderOps THEN "header" ELSE "footer") \o ToString(k) \o ".xml"
HfPart(s, op) ==
  LET old == AllowedGone(s, op)
  IN IF old # {} THEN (CHOOSE r \in old : TRUE).tgt
     ELSE IF CanonPart(op) \notin s.parts THEN CanonPart(op)
     ELSE NumPart(op, MinI({k \in 1..40 : NumPart(op, k) \notin s.parts}))

ChoiceFor(s, op, skip) ==
  LET b == IF op.op = "OpenForeign" THEN op.pkg ELSE s
  IN [ids   |-> FreshIds(b, NeedIds(s, op), skip),
      parts |-> IF op.op \in HfOps THEN <<HfPart(s, op)>>
                ELSE IF op.op \in {"AddImage", "Render"} THEN FreshMedia(s, NeedParts(s, op)) ELSE <<>>]

Started == st.rels # <<>>
Cands == IF Started THEN Ops ELSE Starts

Init == st = EmptySt /\ hist = <<>> /\ last = [op |-> "Init"] /\ n = 0

NextMC == /\ n < MaxSteps + 1
          /\ \E op \in Cands : \E skip \in {0, 1} :
                LET ch == ChoiceFor(st, op, skip) IN
                /\ ChoiceOK(st, op, ch)
                /\ st' = IF Design = "asbuilt" THEN ApplyAsBuilt(st, op, ch) ELSE Apply(st, op, ch)
                /\ last' = op
          /\ n' = n + 1
          /\ hist' = hist
SpecMC == Init /\ [][NextMC]_vars

NextGen == /\ Len(hist) < Depth + 1
           /\ \E op \in Cands :
                /\ (Len(hist) = Depth /\ LastC # {}) => op.op \in LastC
                /\ st' = Apply(st, op, ChoiceFor(st, op, 0))
                /\ hist' = Append(hist, op)
           /\ UNCHANGED <<last, n>>
SpecGen == Init /\ [][NextGen]_vars

\* ---- properties of the reference machine (C02 at design level) ------------
Inv_C02 == Viol_C02(st) = {}
\* targets of internal relationships are parts; the main part always has a styles relationship once started
Inv_Wf == /\ \A r \in ToSet(st.rels) : r.mode # "External" => r.tgt \in st.parts
          /\ Started => HasTy(st, "styles")
          /\ st.ph >= 0

\* the package a step starts from (the foreign package itself for OpenForeign)
BaseOf(s, op) == IF op.op = "OpenForeign" THEN op.pkg ELSE IF op.op = "New" THEN EmptySt ELSE s
NewRels(s, t, op) == ToSet(t.rels) \ ToSet(BaseOf(s, op).rels)

\* existing relationships (id, type, target, mode) survive every call, except the one a header/footer redefinition replaces
Act_Existing ==
  [][\A r \in ToSet(BaseOf(st, last').rels) : r \in ToSet(st'.rels) \/ r \in AllowedGone(st, last')]_vars
\* a relationship-creating call creates exactly its relationships, attached to the part that uses them, with unused ids
Act_New ==
  [][last'.op # "New" =>
        /\ Cardinality(NewRels(st, st', last')) = NewCount(st, last')
        /\ \A r \in NewRels(st, st', last') : NewOK(st, last', r) /\ r.id \notin IdsOf(BaseOf(st, last'), r.src)]_vars
\* references are only added, or replaced by a redefinition of their kind
Act_Refs ==
  [][\A f \in ToSet(BaseOf(st, last').refs) :
        f \in ToSet(st'.refs) \/ (last'.op \in HfOps /\ f.part = st.main /\ f.kind = HfKind(last'.op) /\ f.slot = last'.kind)]_vars
\* Save / ToBytes / Reopen and everything that creates no relationship change nothing
Act_Frame ==
  [][(last'.op \in PlainOps \ {"SetProps", "Placeholder"}) => st' = st]_vars

\* ---- generation: print each complete behaviour once ----------------------
Emit == Len(hist) < Depth + 1 \/ PrintT(<<"WZCASE", ToJson(hist)>>)
=============================================================================
