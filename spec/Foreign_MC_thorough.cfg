SPECIFICATION SpecMC
CONSTANTS
  MaxDev = 2
  Depth = 2
  EditOps = {"AddParagraph", "AddHeading", "AddImage", "AddHeader", "AddFooter", "AddListItem", "AddFootnote", "AddEndnote", "SetFootnoteConfig", "SetTitle", "SetAuthor", "UpdateStatistics", "GetDocumentProperties", "AddTable", "RemoveParagraphAt", "Save", "Reopen", "Render"}
  Dims = {"base", "extra", "scheme", "ext", "media", "ns", "pkgns", "tgstyle", "pkgids", "cont", "blk", "xrel", "mix", "mixin", "sty", "sdef", "sref", "bytes", "zip", "place"}
  ImgFmts = {"png"}
  ImgNames = {"ext"}
  IdPool = {"rId1", "rId40"}
  NamePool = {"image0.png", "image2.png"}
  SlimDims = {"xrel", "mix", "mixin", "sty", "sdef", "sref", "bytes", "zip"}
  SlimOps = {"AddHeading", "AddFootnote", "Reopen"}
  DimGroups = {{"base", "extra", "scheme", "ext", "media", "ns", "pkgns", "tgstyle", "pkgids", "cont", "blk"}, {"base", "extra", "scheme", "ext", "media", "tgstyle", "pkgids", "xrel"}, {"ns", "pkgns", "cont", "blk", "mix", "mixin"}, {"base", "scheme", "sty", "sdef", "sref"}, {"base", "bytes", "zip", "place", "tgstyle", "pkgids"}}
INVARIANTS Inv_All Inv_DetectParts Inv_DetectRels Inv_ShapeWellFormed
PROPERTIES Act_Frame
CHECK_DEADLOCK FALSE
