---------------------------- MODULE SaveIO_Trace ----------------------------
(***************************************************************************)
(* Judge of observed saves of the real library against SaveIO (C05).       *)
(* Each line of the trace is one of                                         *)
(*   [ev |-> "reset", case |-> n]                                          *)
(*   [ev |-> "edit",  case |-> n, op |-> STRING, ret |-> STRING]           *)
(*   [ev |-> "skip",  case |-> n, target |-> STRING, why |-> STRING]       *)
(*   [ev |-> "save",  case |-> n, via, target, k, ret, tb, tbwhen, complete,*)
(*                    before, disk, size, n0, dirstart, cmax, conc]        *)
(* One "save" line is one call of a save entry point (see SaveIO.tla for    *)
(* the fields).  The judge never blocks: every call is judged on its own.   *)
(* For every call the reference protocol is also run (Run) on the observed   *)
(* layout, so the closed-form oracle and the protocol are compared on real   *)
(* sizes as well (a disagreement is a machinery witness, not a verdict).     *)
(***************************************************************************)
EXTENDS SaveIO, Json, IOUtils

Trace == ndJsonDeserialize(IOEnv.WZ_OBS)

VARIABLES l, wit, cnt
tvars == <<l, wit, cnt>>

AddWit(w, sigs, c) == w \cup {[sig |-> s, case |-> c] : s \in {x \in sigs : ~\E r \in w : r.sig = x}}

\* the observed call as a configuration of the reference protocol: one entry standing for
\* everything before the central directory, the compressor holding back what it may
RefCfg(e) ==
  LET body == e.dirstart
      held == Smaller(Smaller(e.cmax, FlateMax), body)
  IN [variant |-> "intended", target |-> e.target, hdr |-> <<0>>, dat |-> <<body>>, pass |-> <<body - held>>,
      dir |-> e.n0 - e.dirstart, B |-> BufSize, faultAt |-> e.k, closeFault |-> FALSE, serFault |-> FALSE, staged |-> FALSE]

\* outside the uncertainty band the protocol run on the observed sizes and the closed form agree
OracleAgrees(e) ==
  \/ ObsExpRet(e) = "any"
  \/ e.tb # "ok"
  \/ e.n0 = 0           \* no layout known (the unfaulted reference save of this document gave no complete file)
  \/ Run(RefCfg(e)).ret = (IF ObsExpRet(e) = "nil" THEN "nil" ELSE "err")

Judge(e) ==
       {<<"C05">> \o v : v \in Viol_Save(e)}
  \cup {<<"MACH">> \o v : v \in Mach_Save(e)}
  \cup (IF OracleAgrees(e) THEN {} ELSE {<<"MACH", "oracle-disagrees-with-protocol", e.target>>})

JudgeEdit(e) == IF e.ret = "panic" THEN {<<"C05", "edit", e.op, "panic">>} ELSE {}

TInit == l = 1 /\ wit = {} /\ cnt = 0

TStep == /\ l <= Len(Trace)
         /\ LET e == Trace[l] IN
              CASE e.ev = "save" -> wit' = AddWit(wit, Judge(e), e.case) /\ cnt' = cnt + 1
                [] e.ev = "edit" -> wit' = AddWit(wit, JudgeEdit(e), e.case) /\ cnt' = cnt
                [] OTHER         -> wit' = wit /\ cnt' = cnt
         /\ l' = l + 1

TDone == /\ l = Len(Trace) + 1
         /\ PrintT(<<"WZDONE", l - 1, ToJson(wit)>>)
         /\ l' = l + 1 /\ UNCHANGED <<wit, cnt>>

TNext == TStep \/ TDone
TSpec == TInit /\ [][TNext]_tvars
=============================================================================
