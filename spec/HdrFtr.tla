------------------------------- MODULE HdrFtr -------------------------------
(***************************************************************************)
(* Pure (variable-free) specification of the header/footer subsystem       *)
(* (property C11): per (header|footer, kind) there is at most one          *)
(* reference in the section settings, it resolves - through exactly one    *)
(* relationship of the right type - to a well-formed header/footer part    *)
(* with the right content type, and that part carries the text, run        *)
(* formatting, alignment and page-number field of the MOST RECENT call for *)
(* that slot; other slots and the first-page flag are left alone; all of   *)
(* it survives Save/ToBytes, Reopen and document-template rendering.       *)
(*                                                                         *)
(* Abstract state   st = [pkg, def, clk, names]                            *)
(*   pkg   the package as the independent reader sees it                   *)
(*         refs   Seq([hf, kind, rid])     references of the final sectPr  *)
(*         rels   Seq([id, ty, tgt])       relationships of the main part  *)
(*                                         ty in header|footer|other,      *)
(*                                         tgt = resolved part name        *)
(*         parts  Seq([name, ok, root, ct, c])  header/footer-ish parts    *)
(*                 c = [np, align, items]; item = [k, tc, n, f]            *)
(*         titlePg, evenOdd                flags (sectPr / settings part)  *)
(*   def   [Slots -> content]  ghost: what each slot must show (latest     *)
(*         definition), NoDef where nothing was defined                    *)
(*   clk   number of operations applied so far; the text of the call made  *)
(*         at step n carries serial n, so "most recent" is observable      *)
(*   names "lib" | "foreign": whether the document went through a package  *)
(*         with Word-style part names (abstract state class of witnesses)  *)
(* An operation is a record [op |-> name, ...args]; the implementation's   *)
(* free choices (relationship id, part name) are a record ch.              *)
(***************************************************************************)
EXTENDS Integers, Sequences, FiniteSets, TLC

HFs   == {"h", "f"}
Kinds == {"default", "first", "even"}
Slots == {[hf |-> a, kind |-> k] : a \in HFs, k \in Kinds}

PlainOps  == {"AddHeader", "AddFooter"}
PnOps     == {"AddHeaderWithPageNumber", "AddFooterWithPageNumber"}
FmtOps    == {"AddFormattedHeader", "AddFormattedFooter"}
HeaderOps == {"AddHeader", "AddHeaderWithPageNumber", "AddFormattedHeader"}
FooterOps == {"AddFooter", "AddFooterWithPageNumber", "AddFormattedFooter"}
HfOps     == HeaderOps \cup FooterOps
\* page-setting calls (op "PageSet", argument which): none of them may touch a definition
PageCalls == {"SetPageSettings", "SetPageSize", "SetCustomPageSize", "SetPageOrientation", "SetPageMargins",
              "SetHeaderFooterDistance", "SetGutterWidth", "SetDocGrid", "ClearDocGrid", "GetPageSettings"}
\* body calls; AddImage / AddListItem / AddFootnote create relationships of the main part
BodyOps   == {"AddImage", "AddListItem", "AddFootnote", "AddParagraph", "AddTable"}
SaveOps   == {"Save", "ToBytes"}
OtherOps  == {"SetDifferentFirstPage", "PageSet", "Reopen", "Render"} \cup BodyOps \cup SaveOps
AllOps    == HfOps \cup OtherOps

\* text classes of a call; "varsub" only arises by rendering "var" (text with the placeholder {{v}})
TextClasses == {"plain", "meta", "cjk", "edge", "empty", "var"}

\* ---- helpers ------------------------------------------------------------
ToSet(s) == {s[i] : i \in 1..Len(s)}
Idx(s, T(_)) == {i \in 1..Len(s) : T(s[i])}
MinI(S) == CHOOSE x \in S : \A y \in S : x <= y

\* ---- run formatting -------------------------------------------------------
\* argument of the formatted constructors (document.TextFormat; nil = no format given)
ZeroFmt == [nil |-> FALSE, b |-> FALSE, i |-> FALSE, u |-> FALSE, st |-> FALSE, size |-> 0,
            color |-> "", hash |-> FALSE, ff |-> "", fn |-> "", hl |-> ""]
FmtPool == [
  nil   |-> [ZeroFmt EXCEPT !.nil = TRUE],
  zero  |-> ZeroFmt,
  bold  |-> [ZeroFmt EXCEPT !.b = TRUE, !.size = 10, !.color = "FF0000", !.hash = TRUE, !.ff = "Arial", !.fn = "Courier New"],
  ital  |-> [ZeroFmt EXCEPT !.i = TRUE, !.u = TRUE, !.st = TRUE, !.size = 9, !.color = "8E8E8E", !.fn = "SimSun", !.hl = "yellow"],
  neg   |-> [ZeroFmt EXCEPT !.size = -4, !.ff = "Georgia", !.b = TRUE],
  \* formats that set exactly one attribute
  b1    |-> [ZeroFmt EXCEPT !.b = TRUE],
  i1    |-> [ZeroFmt EXCEPT !.i = TRUE],
  u1    |-> [ZeroFmt EXCEPT !.u = TRUE],
  st1   |-> [ZeroFmt EXCEPT !.st = TRUE],
  size1 |-> [ZeroFmt EXCEPT !.size = 13],
  col1  |-> [ZeroFmt EXCEPT !.color = "00B050"],
  ff1   |-> [ZeroFmt EXCEPT !.ff = "Verdana"],
  fn1   |-> [ZeroFmt EXCEPT !.fn = "Tahoma"],
  hl1   |-> [ZeroFmt EXCEPT !.hl = "green"]
]
FmtSingles == {"b1", "i1", "u1", "st1", "size1", "col1", "ff1", "fn1", "hl1"}
FmtNames == {"nil", "zero", "bold", "ital", "neg"} \cup FmtSingles

\* what a run of the part must show for a format argument (half-points, "#" dropped,
\* FontFamily preferred to its alias FontName, non-positive size = no size)
NoFmt == [b |-> FALSE, i |-> FALSE, u |-> FALSE, st |-> FALSE, color |-> "", sz |-> 0, font |-> "", hl |-> ""]
FmtObs(f) == IF f.nil THEN NoFmt
             ELSE [b |-> f.b, i |-> f.i, u |-> f.u, st |-> f.st, color |-> f.color,
                   sz |-> IF f.size > 0 THEN 2 * f.size ELSE 0,
                   font |-> IF f.ff # "" THEN f.ff ELSE f.fn, hl |-> f.hl]

\* ---- content of a header/footer part --------------------------------------
\* item kinds: "t" text of a call (class tc, serial n, formatting f); "fb" "instr" "fs" "fe"
\* complex-field markers (instr carries the field keyword in tc); "fsimple" simple field;
\* "lit" text that is no call's text (decoration of the page-number variants)
TextItem(tc, n, f) == [k |-> "t", tc |-> tc, n |-> n, f |-> f]
Mark(k, tc) == [k |-> k, tc |-> tc, n |-> 0, f |-> NoFmt]
PageField == <<Mark("fb", ""), Mark("instr", "PAGE"), Mark("fs", ""), Mark("fe", "")>>
FieldKinds == {"fb", "instr", "fs", "fe", "fsimple"}

NonLit(items) == SelectSeq(items, LAMBDA x : x.k # "lit")
FldOf(items)  == LET z == SelectSeq(items, LAMBDA x : x.k \in FieldKinds) IN [j \in 1..Len(z) |-> <<z[j].k, z[j].tc>>]
TxtOf(items)  == LET z == SelectSeq(items, LAMBDA x : x.k = "t") IN [j \in 1..Len(z) |-> <<z[j].tc, z[j].n>>]
FmtOf(items)  == LET z == SelectSeq(items, LAMBDA x : x.k = "t") IN [j \in 1..Len(z) |-> z[j].f]
KindsOf(items) == [j \in 1..Len(items) |-> items[j].k]

\* normalised content: what a slot shows. stray = literal text without a page-number field
NoDef == [on |-> FALSE, np |-> 0, align |-> "", items |-> <<>>, stray |-> FALSE]
Unres == [on |-> TRUE, np |-> -1, align |-> "?", items |-> <<>>, stray |-> FALSE]
Norm(c) == [on |-> TRUE, np |-> c.np, align |-> c.align, items |-> NonLit(c.items),
            stray |-> (\E j \in 1..Len(c.items) : c.items[j].k = "lit") /\ FldOf(c.items) = <<>>]
RawOf(d) == [np |-> d.np, align |-> d.align, items |-> d.items]

TextItems(op, n, f) == IF op.tc = "empty" THEN <<>> ELSE <<TextItem(op.tc, n, f)>>

\* the definition a constructor call makes at step n
Def(op, n) ==
  IF op.op \in PlainOps THEN
       [on |-> TRUE, np |-> 1, align |-> "", items |-> TextItems(op, n, NoFmt), stray |-> FALSE]
  ELSE IF op.op \in PnOps THEN
       [on |-> TRUE, np |-> 1, align |-> "", stray |-> FALSE,
        items |-> TextItems(op, n, NoFmt) \o (IF op.show THEN PageField ELSE <<>>)]
  ELSE IF op.cfgnil THEN
       [on |-> TRUE, np |-> 1, align |-> "", items |-> <<>>, stray |-> FALSE]
  ELSE [on |-> TRUE, np |-> 1, align |-> op.align, items |-> TextItems(op, n, FmtObs(op.fmt)), stray |-> FALSE]

\* fields in which an observed content c differs from the required one d
ContentDiff(c, d) ==
  IF c = d THEN {}
  ELSE IF ~d.on THEN {"unexpected-def"}
  ELSE IF ~c.on THEN {"undefined"}
  ELSE IF c = Unres THEN {"unresolved"}
  ELSE LET fs == (IF TxtOf(c.items) # TxtOf(d.items) THEN {"text"} ELSE {})
                 \cup (IF TxtOf(c.items) = TxtOf(d.items) /\ FmtOf(c.items) # FmtOf(d.items) THEN {"fmt"} ELSE {})
                 \cup (IF c.align # d.align THEN {"align"} ELSE {})
                 \cup (IF FldOf(c.items) # FldOf(d.items) THEN {"field"} ELSE {})
                 \cup (IF c.np # d.np THEN {"paragraphs"} ELSE {})
                 \cup (IF c.stray # d.stray THEN {"stray-text"} ELSE {})
       IN IF fs = {} THEN {"order"} ELSE fs

\* ---- the package ----------------------------------------------------------
StylesRel == [id |-> "rId1", ty |-> "other", tgt |-> "word/styles.xml"]
InitPkg == [refs |-> <<>>, rels |-> <<StylesRel>>, parts |-> <<>>, titlePg |-> FALSE, evenOdd |-> FALSE]
\* names = "lib": every header/footer part was named by the library itself; "foreign": the document went through
\* a package whose parts are numbered the way Word does (header1.xml, header2.xml ... in order of kind first, even,
\* default) - an equivalent package, since part names carry no meaning
InitSt == [pkg |-> InitPkg, def |-> [s \in Slots |-> NoDef], clk |-> 0, names |-> "lib"]

TyOf(hf)   == IF hf = "h" THEN "header" ELSE "footer"
RootOf(hf) == IF hf = "h" THEN "hdr" ELSE "ftr"
SlotOf(op) == [hf |-> IF op.op \in HeaderOps THEN "h" ELSE "f", kind |-> op.kind]

RefsOf(P, s)       == SelectSeq(P.refs, LAMBDA r : r.hf = s.hf /\ r.kind = s.kind)
RelsById(P, rid)   == SelectSeq(P.rels, LAMBDA r : r.id = rid)
PartsByName(P, nm) == SelectSeq(P.parts, LAMBDA p : p.name = nm)
HfRels(P)          == SelectSeq(P.rels, LAMBDA r : r.ty \in {"header", "footer"})
TargetOf(P, ref)   == LET rs == RelsById(P, ref.rid) IN IF Len(rs) = 0 THEN "" ELSE rs[1].tgt

RefContent(P, ref) ==
  LET ps == PartsByName(P, TargetOf(P, ref))
  IN IF TargetOf(P, ref) = "" \/ Len(ps) = 0 THEN Unres
     ELSE IF ~ps[1].ok THEN Unres ELSE Norm(ps[1].c)

\* everything the slot shows (one content per reference; NoDef if it has no reference)
SlotContents(P, s) == IF Len(RefsOf(P, s)) = 0 THEN {NoDef} ELSE {RefContent(P, r) : r \in ToSet(RefsOf(P, s))}
\* the content reached through the last reference of the slot (used to resynchronise)
SlotContent(P, s) == LET r == RefsOf(P, s) IN IF Len(r) = 0 THEN NoDef ELSE RefContent(P, r[Len(r)])

SlotDiff(P, s, d) == UNION {ContentDiff(c, d) : c \in SlotContents(P, s)}

\* structural part of the property: witnesses <<what, hf, kind>>
RefViol(P, r) ==
  LET rs == RelsById(P, r.rid)
      ps == PartsByName(P, TargetOf(P, r))
  IN  (IF r.kind \notin Kinds THEN {"bad-kind"} ELSE {})
      \cup (IF Len(rs) = 0 THEN {"ref-dangling"} ELSE {})
      \cup (IF Len(rs) > 1 THEN {"rid-ambiguous"} ELSE {})
      \cup (IF Len(rs) > 0 /\ rs[1].ty # TyOf(r.hf) THEN {"rel-type"} ELSE {})
      \cup (IF Len(rs) > 0 /\ Len(ps) = 0 THEN {"part-missing"} ELSE {})
      \cup (IF Len(ps) > 0 /\ ~ps[1].ok THEN {"part-malformed"} ELSE {})
      \cup (IF Len(ps) > 0 /\ ps[1].ok /\ ps[1].root # RootOf(r.hf) THEN {"part-root"} ELSE {})
      \cup (IF Len(ps) > 0 /\ ps[1].ct # TyOf(r.hf) THEN {"part-content-type"} ELSE {})

\* the slots whose references reach the part a header/footer relationship points to (for attribution)
SlotsReaching(P, rel) ==
  LET S == {<<r.hf, r.kind>> : r \in {x \in ToSet(P.refs) : TargetOf(P, x) = rel.tgt}}
  IN IF S = {} THEN {<<IF rel.ty = "header" THEN "h" ELSE "f", "-">>} ELSE S

Viol_Struct(P) ==
       {<<"dup-ref", s.hf, s.kind>> : s \in {x \in Slots : Len(RefsOf(P, x)) > 1}}
  \cup UNION {{<<w, r.hf, r.kind>> : w \in RefViol(P, r)} : r \in ToSet(P.refs)}
  \* two references of different slots reach the same part
  \cup {<<"shared-part", r.hf, r.kind>> :
          r \in {x \in ToSet(P.refs) : \E y \in ToSet(P.refs) :
                    (y.hf # x.hf \/ y.kind # x.kind) /\ TargetOf(P, x) # "" /\ TargetOf(P, x) = TargetOf(P, y)}}
  \* a second (stale) header/footer relationship to the same part
  \cup UNION {{<<"dup-target-rel", x[1], x[2]>> : x \in SlotsReaching(P, HfRels(P)[i])} :
          i \in {a \in 1..Len(HfRels(P)) : \E b \in 1..Len(HfRels(P)) : a # b /\ HfRels(P)[a].tgt = HfRels(P)[b].tgt}}

\* C11 on a state: structure + every slot shows exactly its latest definition
Viol_C11(st) ==
  Viol_Struct(st.pkg)
  \cup UNION {{<<w, s.hf, s.kind>> : w \in SlotDiff(st.pkg, s, st.def[s])} : s \in Slots}

\* ---- operations -------------------------------------------------------------
\* Design = "replace": a repeated call replaces reference and relationship of its slot (required);
\* Design = "append" : it appends a second reference and relationship (the defect of the pinned tree,
\*                     kept to show that the invariants are not vacuous: HdrFtr_MC_append_cex.cfg)
ApplyHf(P, op, ch, n, design) ==
  LET s   == SlotOf(op)
      I   == Idx(P.refs, LAMBDA r : r.hf = s.hf /\ r.kind = s.kind)
      rep == I # {} /\ design = "replace"
      i0  == IF I = {} THEN 0 ELSE MinI(I)
      oldrid == IF I = {} THEN "" ELSE P.refs[i0].rid
      nref == [hf |-> s.hf, kind |-> s.kind, rid |-> ch.rid]
      npart == [name |-> ch.part, ok |-> TRUE, root |-> RootOf(s.hf), ct |-> TyOf(s.hf), c |-> RawOf(Def(op, n))]
  IN [P EXCEPT
        !.refs  = IF rep THEN [j \in 1..Len(P.refs) |-> IF j = i0 THEN nref ELSE P.refs[j]] ELSE Append(P.refs, nref),
        !.rels  = Append(SelectSeq(P.rels, LAMBDA r : ~(rep /\ r.id = oldrid)),
                         [id |-> ch.rid, ty |-> TyOf(s.hf), tgt |-> ch.part]),
        !.parts = Append(SelectSeq(P.parts, LAMBDA p : p.name # ch.part), npart)]

\* freshness of the implementation's choices: a new relationship id, and a part that no other slot
\* and no other relationship uses
ChoiceOK(P, op, ch) ==
  IF op.op \in HfOps THEN
       /\ ch.rid \notin {r.id : r \in ToSet(P.rels)}
       /\ ~\E r \in ToSet(P.refs) : (r.hf # SlotOf(op).hf \/ r.kind # SlotOf(op).kind) /\ TargetOf(P, r) = ch.part
       /\ ~\E r \in ToSet(P.rels) : r.ty = "other" /\ r.tgt = ch.part
  ELSE IF op.op \in {"AddImage", "AddListItem", "AddFootnote"} THEN
       ch.rid = "" \/ ch.rid \notin {r.id : r \in ToSet(P.rels)}
  ELSE TRUE

\* rendering substitutes the placeholder of text class "var" (new engine entry point with the variable set)
Subst(op) == op.via = "doc" /\ op.data = "def"
RenderItems(items, on) == [j \in 1..Len(items) |->
                              IF on /\ items[j].k = "t" /\ items[j].tc = "var" THEN [items[j] EXCEPT !.tc = "varsub"] ELSE items[j]]

ApplyD(st, op, ch, design) ==
  LET n == st.clk + 1
      P == st.pkg
  IN IF op.op \in HfOps THEN
          [st EXCEPT !.pkg = ApplyHf(P, op, ch, n, design), !.def = [st.def EXCEPT ![SlotOf(op)] = Def(op, n)], !.clk = n]
     ELSE IF op.op = "SetDifferentFirstPage" THEN
          [st EXCEPT !.pkg.titlePg = op.b, !.clk = n]
     ELSE IF op.op \in {"AddImage", "AddListItem", "AddFootnote"} /\ ch.rid # "" THEN
          [st EXCEPT !.pkg.rels = Append(P.rels, [id |-> ch.rid, ty |-> "other", tgt |-> ch.part]), !.clk = n]
     ELSE IF op.op = "Render" THEN
          [st EXCEPT !.pkg = [P EXCEPT !.parts = [j \in 1..Len(P.parts) |->
                                          [P.parts[j] EXCEPT !.c.items = RenderItems(@, Subst(op))]]],
                     !.def = [s \in Slots |-> [st.def[s] EXCEPT !.items = RenderItems(@, Subst(op))]],
                     !.clk = n]
     \* opening keeps every definition whatever the parts are called
     \* (via "word": Word-style part names; "wordabs" / "worddot": the same with the relationship targets spelt as
     \* absolute part names "/word/header1.xml" or with a dot segment "./header1.xml")
     ELSE IF op.op = "Reopen" /\ op.via \in {"word", "wordabs", "worddot"} THEN
          [st EXCEPT !.names = "foreign", !.clk = n]
     \* page settings, body content without relationships, Save / ToBytes, Reopen: nothing changes
     ELSE [st EXCEPT !.clk = n]

Apply(st, op, ch) == ApplyD(st, op, ch, "replace")

\* every call of the subsystem succeeds (none of them has a failing argument class)
Ret(st, op) == "ok"

\* as-built naming of the parts (a choice of the implementation, used by the reference machine only)
CanonPart(s) ==
  CASE s.hf = "h" /\ s.kind = "default" -> "word/header1.xml"
    [] s.hf = "h" /\ s.kind = "first"   -> "word/headerfirst.xml"
    [] s.hf = "h" /\ s.kind = "even"    -> "word/headereven.xml"
    [] s.hf = "f" /\ s.kind = "default" -> "word/footer1.xml"
    [] s.hf = "f" /\ s.kind = "first"   -> "word/footerfirst.xml"
    [] OTHER                            -> "word/footereven.xml"
=============================================================================
