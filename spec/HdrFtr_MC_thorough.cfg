SPECIFICATION SpecMC
CONSTANTS
  MaxSteps = 3
  Depth = 0
  OpNames = {"AddHeader", "AddFooter", "AddHeaderWithPageNumber", "AddFooterWithPageNumber", "AddFormattedHeader", "AddFormattedFooter", "SetDifferentFirstPage", "PageSet", "AddImage", "AddListItem", "AddFootnote", "AddParagraph", "AddTable", "Save", "ToBytes", "Reopen", "Render"}
  HfC = {"h", "f"}
  KindsC = {"default", "first", "even"}
  TextC = {"plain", "var"}
  ShowC = {TRUE, FALSE}
  FmtC = {"bold"}
  AlignC = {"center"}
  CfgNilC = {TRUE}
  PageC = {"SetPageMargins"}
  ViaC = {"mem", "word"}
  RViaC = {"doc", "legacy"}
  DataC = {"def", "undef"}
  LastC = {}
  Design = "replace"
INVARIANTS Inv_C11 Inv_Wf
PROPERTIES Act_Current Act_Frame Act_Flags Act_Survive Act_Names
CHECK_DEADLOCK FALSE
