SPECIFICATION SpecMC
CONSTANTS
  MaxSteps = 4
  Depth = 0
  OpNames = {"AddHeader", "AddFooter", "AddHeaderWithPageNumber", "AddFooterWithPageNumber", "AddFormattedHeader", "AddFormattedFooter", "SetDifferentFirstPage", "PageSet", "AddImage", "AddListItem", "AddFootnote", "AddParagraph", "Save", "ToBytes", "Reopen", "Render"}
  HfC = {"h", "f"}
  KindsC = {"default", "first", "even"}
  TextC = {"plain", "empty", "var"}
  ShowC = {TRUE, FALSE}
  FmtC = {"nil", "bold"}
  AlignC = {"", "center"}
  CfgNilC = {TRUE}
  PageC = {"SetPageMargins", "SetPageSettings"}
  ViaC = {"mem", "file"}
  RViaC = {"doc", "legacy"}
  DataC = {"def", "undef"}
  LastC = {}
  Design = "replace"
INVARIANTS Inv_C11 Inv_Wf
PROPERTIES Act_Current Act_Frame Act_Flags Act_Survive
CHECK_DEADLOCK FALSE
