---------------------------- MODULE XmlIn_Trace ----------------------------
(***************************************************************************)
(* Judge of observed behaviours of the real library against XmlIn (C06).   *)
(* Each line of the trace is                                                *)
(*   [ev |-> "reset", case |-> n]                                          *)
(*   [ev |-> "step", case |-> n, op |-> the Open operation (without its    *)
(*    tokens), inwf |-> verdict of the independent reader on the           *)
(*    synthesised main part, ntok |-> tokens rendered, size |-> bytes,     *)
(*    calls |-> <<[o, ret, wh, wf]>> every call made, in order (Open      *)
(*    first), retried |-> BOOLEAN, pmsg]                                   *)
(* The calls are folded through the reference relation XmlIn!Allowed.      *)
(* A behaviour is one event, so there is nothing to resynchronise on and   *)
(* the judge never blocks.                                                 *)
(***************************************************************************)
EXTENDS XmlIn, Json, IOUtils

Trace == ndJsonDeserialize(IOEnv.WZ_OBS)

VARIABLES l, wit
tvars == <<l, wit>>

AddWit(w, sigs, c) == w \cup {[sig |-> s, case |-> c] : s \in {x \in sigs : ~\E r \in w : r.sig = x}}

\* state of the reference machine before call i (the relation's state only depends on Open's outcome)
RECURSIVE StateBefore(_, _)
StateBefore(calls, i) == IF i = 1 THEN Closed ELSE NextState(StateBefore(calls, i - 1), calls[i - 1].o, calls[i - 1].ret)

\* the bytes the harness wrote must be what the specification described (machinery self-check)
Mach(e) ==
       (IF e.op.cls \in {"wf", "ill", "absent"} /\ e.inwf # e.op.cls /\ e.inwf # "unknown" THEN {<<"MACH", "synth-class", e.op.mut.kind, e.op.cls, e.inwf>>} ELSE {})
  \cup (IF e.op.mut.kind \notin {"empty", "declonly", "spaceonly", "text", "binary", "missing"} /\ e.inwf # "unknown" /\ e.ntok # e.op.ntoks
        THEN {<<"MACH", "synth-tokens", e.op.mut.kind>>} ELSE {})
  \cup (IF Len(e.calls) = 0 \/ (Len(e.calls) > 0 /\ e.calls[1].o # "Open") THEN {<<"MACH", "no-open">>} ELSE {})

Sigs(e) ==
  UNION {
    LET c == e.calls[i]
        s == StateBefore(e.calls, i)
    IN {IF w[1] = "MACH" THEN w ELSE <<"C06", w[1], w[2], w[3], MutOf(e.op), PkOf(e.op), e.op.con, c.wh>> : w \in Viol_Call(s, c.o, c.ret, c.wf)}
       \cup (IF c.ret = "noise" THEN {<<"INFO-C06", "no-verdict", c.o, MutOf(e.op), PkOf(e.op)>>} ELSE {})
    : i \in 1..Len(e.calls)}
  \cup (IF Len(e.calls) > 0 /\ e.calls[1].ret = "doc" /\ e.inwf = "ill" /\ e.op.pk.zip = "ok"
        THEN {<<"INFO-C06", "lenient-open", MutOf(e.op), e.op.con>>} ELSE {})

\* "noise" is an outcome the relation does not know: it must not become a MACH witness
Clean(ws) == {w \in ws : ~(w[1] = "MACH" /\ Len(w) = 3 /\ w[3] = "ret-noise")}

TInit == l = 1 /\ wit = {}
TReset == /\ l <= Len(Trace) /\ Trace[l].ev = "reset" /\ wit' = wit /\ l' = l + 1
TStep == /\ l <= Len(Trace) /\ Trace[l].ev = "step"
         /\ LET e == Trace[l] IN wit' = AddWit(wit, Clean(Sigs(e)) \cup Mach(e), e.case)
         /\ l' = l + 1
TDone == /\ l = Len(Trace) + 1
         /\ PrintT(<<"WZDONE", l - 1, ToJson(wit)>>)
         /\ l' = l + 1 /\ UNCHANGED wit
TNext == TReset \/ TStep \/ TDone
TSpec == TInit /\ [][TNext]_tvars
=============================================================================
