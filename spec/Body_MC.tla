------------------------------ MODULE Body_MC ------------------------------
(* Exhaustive exploration (SpecMC) and behaviour generation (SpecGen) for Body. *)
EXTENDS Body, Json, SequencesExt

CONSTANTS MaxEls,     \* bound on body length
          MaxUid,     \* bound on allocated uids
          Depth,      \* behaviour length for generation
          OpNames,    \* subset of operation names explored
          TxtC,       \* text classes of the constructors that take a text: subset of {"tok", "empty"}
          IdxC        \* indexes tried by the positional removals ({} = every index in -1..len+1)

VARIABLES st, hist
vars == <<st, hist>>

Idx(s) == IF IdxC = {} THEN -1 .. (Len(s.els) + 1) ELSE IdxC
\* handles: every uid ever allocated (live or removed) and 0 = a paragraph of another document
Handles(s) == 0 .. (s.nxt - 1)

OpsOf(s) ==
     {[op |-> n] : n \in OpNames \cap ((Constructors \ (TextCtors \cup {"AddElement", "CreateMultiLevelList", "AddImage"})) \cup SectTouchers)}
  \cup (IF "AddImage" \in OpNames THEN {[op |-> "AddImage", same |-> b] : b \in BOOLEAN} ELSE {})
  \cup (IF "CreateMultiLevelList" \in OpNames THEN {[op |-> "CreateMultiLevelList", n |-> 3, blank |-> b] : b \in 0..3} ELSE {})
  \cup {[op |-> n, txt |-> t] : n \in OpNames \cap TextCtors, t \in TxtC}
  \cup (IF "AddElement" \in OpNames THEN {[op |-> "AddElement", k |-> k] : k \in {"p", "tbl"}} ELSE {})
  \cup (IF "Read" \in OpNames THEN {[op |-> "Read", what |-> w] : w \in {"paras", "tables"}} ELSE {})
  \cup (IF "RemoveParagraphAt" \in OpNames THEN {[op |-> "RemoveParagraphAt", i |-> i] : i \in Idx(s)} ELSE {})
  \cup (IF "RemoveElementAt" \in OpNames THEN {[op |-> "RemoveElementAt", i |-> i] : i \in Idx(s)} ELSE {})
  \cup (IF "RemoveParagraph" \in OpNames THEN {[op |-> "RemoveParagraph", h |-> h] : h \in Handles(s)} ELSE {})

Bounded(s) == Len(s.els) <= MaxEls /\ s.nxt <= MaxUid + 1

Init == st = InitSt /\ hist = <<>>

NextMC == \E op \in OpsOf(st) :
            /\ Bounded(Apply(st, op))
            /\ st' = Apply(st, op)
            /\ hist' = hist
SpecMC == Init /\ [][NextMC]_vars

NextGen == /\ Len(hist) < Depth
           /\ \E op \in OpsOf(st) :
                /\ st' = Apply(st, op)
                /\ hist' = Append(hist, op)
SpecGen == Init /\ [][NextGen]_vars

\* ---- properties of the reference machine (C08 at design level) -----------
Inv_Sect == SectAtMostOnce(st)
Inv_Uids == UidsDistinct(st)
Inv_Ser  == SerWellFormed(st)

\* appends never disturb what is there; removals remove exactly one element or nothing
Act_AppendOnly ==
  [][\A op \in OpsOf(st) :
        (st' = Apply(st, op) /\ op.op \in Constructors \cup SectTouchers)
           => IsPrefix(st.els, st'.els)]_vars
Act_RemoveExact ==
  [][\A op \in OpsOf(st) :
        (st' = Apply(st, op) /\ op.op \in Removers) =>
           \/ (Ret(st, op) = "false" /\ st'.els = st.els)
           \/ (Ret(st, op) = "true" /\ \E i \in 1..Len(st.els) : st'.els = RemoveIdx(st.els, i))]_vars

\* reading changes nothing and returns the live elements of the kind, in body order
Act_ReadPure ==
  [][\A op \in OpsOf(st) : (op.op \in Readers) =>
        /\ Apply(st, op) = st
        /\ \A i \in 1..Len(ReadResult(st, op)) :
              \E j \in 1..Len(st.els) : st.els[j].u = ReadResult(st, op)[i] /\ st.els[j].k = ReadKind(op)]_vars

\* ---- generation: print each complete behaviour once ----------------------
Emit == Len(hist) < Depth \/ PrintT(<<"WZCASE", ToJson(hist)>>)
=============================================================================
