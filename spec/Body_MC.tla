------------------------------ MODULE Body_MC ------------------------------
(* Exhaustive exploration (SpecMC) and behaviour generation (SpecGen) for Body. *)
EXTENDS Body, Json, SequencesExt

CONSTANTS MaxEls,     \* bound on body length
          MaxUid,     \* bound on allocated uids
          Depth,      \* behaviour length for generation
          OpNames     \* subset of operation names explored

VARIABLES st, hist
vars == <<st, hist>>

Idx(s) == -1 .. (Len(s.els) + 1)
\* handles: every uid ever allocated (live or removed) and 0 = a paragraph of another document
Handles(s) == 0 .. (s.nxt - 1)

OpsOf(s) ==
     {[op |-> n] : n \in OpNames \cap (Constructors \cup SectTouchers)}
  \cup (IF "RemoveParagraphAt" \in OpNames THEN {[op |-> "RemoveParagraphAt", i |-> i] : i \in Idx(s)} ELSE {})
  \cup (IF "RemoveElementAt" \in OpNames THEN {[op |-> "RemoveElementAt", i |-> i] : i \in Idx(s)} ELSE {})
  \cup (IF "RemoveParagraph" \in OpNames THEN {[op |-> "RemoveParagraph", h |-> h] : h \in Handles(s)} ELSE {})

Bounded(s) == Len(s.els) <= MaxEls /\ s.nxt <= MaxUid + 1

Init == st = InitSt /\ hist = <<>>

NextMC == \E op \in OpsOf(st) :
            /\ Bounded(Apply(st, op))
            /\ st' = Apply(st, op)
            /\ hist' = hist
SpecMC == Init /\ [][NextMC]_vars

NextGen == /\ Len(hist) < Depth
           /\ \E op \in OpsOf(st) :
                /\ st' = Apply(st, op)
                /\ hist' = Append(hist, op)
SpecGen == Init /\ [][NextGen]_vars

\* ---- properties of the reference machine (C08 at design level) -----------
Inv_Sect == SectAtMostOnce(st)
Inv_Uids == UidsDistinct(st)
Inv_Ser  == SerWellFormed(st)

\* appends never disturb what is there; removals remove exactly one element or nothing
Act_AppendOnly ==
  [][\A op \in OpsOf(st) :
        (st' = Apply(st, op) /\ op.op \in Constructors \cup SectTouchers)
           => IsPrefix(st.els, st'.els)]_vars
Act_RemoveExact ==
  [][\A op \in OpsOf(st) :
        (st' = Apply(st, op) /\ op.op \in Removers) =>
           \/ (Ret(st, op) = "false" /\ st'.els = st.els)
           \/ (Ret(st, op) = "true" /\ \E i \in 1..Len(st.els) : st'.els = RemoveIdx(st.els, i))]_vars

\* ---- generation: print each complete behaviour once ----------------------
Emit == Len(hist) < Depth \/ PrintT(<<"WZCASE", ToJson(hist)>>)
=============================================================================
