SPECIFICATION SpecMC
CONSTANTS
  Cycles = 2
  Lost = {"keepNext", "br", "tbl", "titlePg", "bCs"}
  LostKinds = {"bms"}
  MCCtors = {"c.para", "c.headingbm", "c.tbl.2x2"}
  MCFeats = {"p.keepNext.on", "p.bold.on", "p.format.full", "t.nested.d1", "t.merge.h", "p.addbreak"}
  MCSect = {"s.titlepg.on"}
  MinF = 0
  MaxF = 0
  SingleCtors = {}
  PairCtors = {}
  PairFeats = {}
  FocusKinds = {}
  CtxMode = "one"
  PreSaves = {FALSE}
INVARIANTS Inv_Identity Inv_Silent Inv_Exact Inv_NothingEarly
PROPERTIES Act_SavePure Act_OpenReads
CHECK_DEADLOCK FALSE
