------------------------------ MODULE Pkg_MC ------------------------------
(* Exhaustive exploration (SpecMC) of the reference machine of Pkg and     *)
(* behaviour generation (SpecGen).                                         *)
EXTENDS Pkg, Json

CONSTANTS MaxSteps,   \* bound on behaviour length for the exhaustive check
          Depth,      \* behaviour length for generation
          OpNames,    \* operation names explored
          TextC,      \* text classes
          KindC,      \* header/footer kinds
          FmtC,       \* image format classes
          NameC,      \* original file-name classes
          ImgViaC,    \* AddImage: data | file | noelem;  AddCellImage: data | file | cfg
          CellViaC,
          StyleViaC,  \* AddStyle: custom | quick | add
          PageC,      \* page-setting calls
          ReopenC,    \* mem | file
          SpellC,     \* Reopen: how the producer between save and open spelt the package (subset of SpellClasses)
          StyleEdC,   \* EditStyle: what is edited (subset of StyleEdits)
          RenderViaC, \* doc | legacy | file
          RenderImgC, \* none | png | jpeg | gif
          PrepC,      \* Render: is the template document first given placeholder content? (subset of BOOLEAN)
          TkC,        \* text-template shapes
          MkC,        \* Markdown shapes
          MdViaC,     \* string | file
          FirstC,     \* generation: op names allowed as the first step ({} = all)
          LastC,      \* generation: op names allowed as the last step ({} = all)
          Design      \* "byformat" (required) | "byname" (pinned tree; counterexample cfg only)

VARIABLES st, hist, last
vars == <<st, hist, last>>

On(x) == x \in OpNames

Ops ==
       {[op |-> o, tc |-> t] : o \in OpNames \cap TextOps, t \in TextC}
  \cup {[op |-> o, kind |-> k, tc |-> t] : o \in OpNames \cap HfOps, k \in KindC, t \in TextC}
  \cup (IF On("AddImage") THEN {[op |-> "AddImage", fmt |-> f, nm |-> n, via |-> v] : f \in FmtC, n \in NameC, v \in ImgViaC} ELSE {})
  \cup (IF On("AddCellImage") THEN {[op |-> "AddCellImage", fmt |-> f, nm |-> n, via |-> v] : f \in FmtC, n \in NameC, v \in CellViaC} ELSE {})
  \cup {[op |-> o] : o \in OpNames \cap (PlainOps \cup SaveOps)}
  \cup (IF On("AddStyle") THEN {[op |-> "AddStyle", tc |-> t, via |-> v] : t \in TextC, v \in StyleViaC} ELSE {})
  \cup (IF On("PageSet") THEN {[op |-> "PageSet", which |-> w] : w \in PageC} ELSE {})
  \cup (IF On("EditStyle") THEN {[op |-> "EditStyle", tc |-> t, ed |-> e] : t \in TextC, e \in StyleEdC} ELSE {})
  \cup (IF On("Reopen") THEN {[op |-> "Reopen", via |-> v, sp |-> s] : v \in ReopenC, s \in SpellC} ELSE {})
  \cup (IF On("Render") THEN {[op |-> "Render", tc |-> t, via |-> v, img |-> g, prep |-> p] : t \in TextC, v \in RenderViaC, g \in RenderImgC, p \in PrepC} ELSE {})
  \cup (IF On("RenderText") THEN {[op |-> "RenderText", tk |-> k, tc |-> t] : k \in TkC, t \in TextC} ELSE {})
  \cup (IF On("ConvertMd") THEN {[op |-> "ConvertMd", mk |-> k, tc |-> t, via |-> v] : k \in MkC, t \in TextC, v \in MdViaC} ELSE {})

Init == st = InitSt /\ hist = <<>> /\ last = [op |-> "New"]

NextMC == /\ Len(hist) < MaxSteps
          /\ \E op \in Ops :
                /\ st' = ApplyD(st, op, Design)
                /\ last' = op
                /\ hist' = Append(hist, 0)     \* only the length matters here (states of equal depth merge)
SpecMC == Init /\ [][NextMC]_vars

NextGen == /\ Len(hist) < Depth
           /\ \E op \in Ops :
                /\ (Len(hist) = 0 /\ FirstC # {}) => op.op \in FirstC
                /\ (Len(hist) = Depth - 1 /\ LastC # {}) => op.op \in LastC
                /\ st' = Apply(st, op)
                /\ hist' = Append(hist, op)
           /\ last' = last
SpecGen == Init /\ [][NextGen]_vars

\* ---- properties of the reference machine (C01 at design level) ----------------
Singletons == PartKinds \ {"header", "footer", "media", "rels", "other"}
NOf(P, k) == Cardinality({i \in 1..Len(P.parts) : P.parts[i].k = k})

\* the package of every reachable state satisfies the property
Inv_C01 == Viol_C01(st.pkg) = {}
\* shape: the fixed parts exist exactly once, singleton parts at most once, one header/footer part per defined kind
Inv_Shape == /\ \A k \in {"ctypes", "pkgrels", "docrels", "document", "styles"} : NOf(st.pkg, k) = 1
             /\ \A k \in Singletons : NOf(st.pkg, k) <= 1
             /\ NOf(st.pkg, "header") = Cardinality(st.hdr) /\ NOf(st.pkg, "footer") = Cardinality(st.ftr)
             /\ st.pkg.odoc = <<TRUE>> /\ st.pkg.dups = <<>>
\* every part has a recorded writer that is a call of the alphabet (or the constructor)
Inv_By == \A k \in PartKinds : st.by[k].op \in AllOps \cup {"New"}

Fresh(op) == op.op \in {"RenderText", "ConvertMd"}
\* parts are never lost by a call on the same document; a failing call changes nothing but the premise
Lean(op) == op.op = "Reopen" /\ op.sp = "min"
Act_Grow == [][(~Fresh(last') /\ ~Lean(last') /\ Ret(st, last') = "ok") => \A k \in PartKinds : NOf(st'.pkg, k) >= NOf(st.pkg, k)]_vars
Act_Fail == [][Ret(st, last') # "ok" => (st'.pkg = st.pkg /\ st'.by = st.by /\ st'.taint)]_vars
\* saving and reading change nothing at all
Act_Save == [][last'.op \in SaveOps \cup {"GetDocumentProperties"} => (st'.pkg = st.pkg /\ st'.by = st.by /\ st'.hdr = st.hdr /\ st'.ftr = st.ftr)]_vars
\* frame: the recorded writer of a part kind changes only by a call that writes that kind; a new part belongs to the call
Act_Frame == [][\A k \in PartKinds : st'.by[k] # st.by[k] => (k \in Writes(st, last') /\ st'.by[k] = Writer(last'))]_vars
Act_New   == [][\A k \in PartKinds : (NOf(st'.pkg, k) > NOf(st.pkg, k) /\ ~Fresh(last')) => st'.by[k] = Writer(last')]_vars
\* reading a package back, however its producer spelt it, keeps every part, the one main document and yields an opened document;
\* editing a style in place changes no part list; the origin changes only by the calls that replace the document object
Act_Reopen == [][last'.op = "Reopen" => (st'.org = "opened" /\ st'.pkg.odoc = st.pkg.odoc /\ st'.hdr = st.hdr /\ st'.ftr = st.ftr
                                        /\ (last'.sp \notin {"extra", "min"} => st'.pkg = st.pkg)
                                        /\ \A k \in PartKinds \ {"core", "app"} : NOf(st'.pkg, k) >= NOf(st.pkg, k))]_vars
Act_Style  == [][last'.op = "EditStyle" => (st'.pkg = st.pkg /\ st'.by["styles"] = Writer(last'))]_vars
Act_Org    == [][st'.org # st.org => last'.op \in {"Reopen", "Render", "RenderText", "ConvertMd"}]_vars
Inv_Org    == st.org \in Origins /\ (st.org = "new" => "other" \notin KindsIn(st.pkg))
\* every part a call adds is well-formed (if XML) and has a content type
Act_CT    == [][\A i \in 1..Len(st'.pkg.parts) : i > Len(st.pkg.parts) =>
                   (st'.pkg.parts[i].ct # "none" /\ (st'.pkg.parts[i].xml => st'.pkg.parts[i].wf = "ok"))]_vars

\* ---- generation: print each complete behaviour once ---------------------------
Emit == Len(hist) < Depth \/ PrintT(<<"WZCASE", ToJson(hist)>>)
=============================================================================
