----------------------------- MODULE Rels_Trace -----------------------------
(***************************************************************************)
(* Judge of observed behaviours of the real library against Rels (C02).    *)
(* Each line of the trace is                                                *)
(*   [ev |-> "reset", case |-> n]                                          *)
(*   [ev |-> "step", case |-> n, i |-> 0-based step, op |-> <op record>,   *)
(*    ret |-> STRING, lazy |-> BOOLEAN, seen |-> BOOLEAN,                  *)
(*    pkg |-> [ok, main, rels, refs, parts, ph],  inp |-> same shape]      *)
(* seen = the package was written and read at this step (always in the     *)
(* eager variant; only where the behaviour itself saves / loads / renders  *)
(* and at the last step in the lazy variant).  inp = what the independent  *)
(* reader sees in the package synthesised for OpenForeign.                 *)
(* The judge never blocks: deviations become witnesses and the spec state  *)
(* is resynchronised on the observed one.                                   *)
(* "C02" signatures are property witnesses                                  *)
(*   <<"C02", op, origin, what, class of the part, type / kind ...>>       *)
(*   origin  fresh | reopened | foreign/<id scheme>: where the document    *)
(*           came from (abstract state class)                               *)
(*   what    dup-id | target-missing | misattached | ref-unresolved |      *)
(*           ref-empty | ref-type     (Viol_C02 on the written package)     *)
(*           rel-changed | rel-removed | unexpected-rel | rel-not-created | *)
(*           extra-rel                (StepDiff against Apply)              *)
(*           panic | unreadable                                             *)
(* "M02" signatures only record machinery/binding notes (no verdict).       *)
(***************************************************************************)
EXTENDS Rels, Json, IOUtils

Trace == ndJsonDeserialize(IOEnv.WZ_OBS)

VARIABLES l, cur, org, pend, dead, wit
tvars == <<l, cur, org, pend, dead, wit>>

AddWit(w, sigs, c) == w \cup {[sig |-> s, case |-> c] : s \in {x \in sigs : ~\E r \in w : r.sig = x}}

ObsSt(p) == [main |-> p.main, rels |-> p.rels, refs |-> p.refs, parts |-> ToSet(p.parts), ph |-> p.ph]

OrgAfter(o, op) ==
  IF op.op = "New" THEN "fresh"
  ELSE IF op.op = "OpenForeign" THEN "foreign/" \o op.scheme
  ELSE IF op.op = "Reopen" /\ o = "fresh" THEN "reopened"
  ELSE o

SameKey(a, b) == a.src = b.src /\ a.id = b.id

ExpTy(op) == IF op.op \in HfOps THEN HfType(op.op)
             ELSE IF op.op \in CondOps THEN CondType(op.op)
             ELSE IF op.op = "OpenForeign" THEN "styles" ELSE "image"

\* the package the step starts from
BaseOf(op) == IF op.op = "OpenForeign" THEN [main |-> op.pkg.main, rels |-> op.pkg.rels, refs |-> op.pkg.refs,
                                             parts |-> ToSet(op.pkg.parts), ph |-> op.pkg.ph]
              ELSE IF op.op = "New" THEN EmptySt ELSE cur

\* is the synthesised package what the specification said it should be?
SynthOK(e) ==
  /\ e.inp.ok = "ok"
  /\ ToSet(e.inp.rels) = ToSet(e.op.pkg.rels)
  /\ ToSet(e.inp.refs) = ToSet(e.op.pkg.refs)
  /\ ToSet(e.op.pkg.parts) \subseteq ToSet(e.inp.parts)

Judge(e) ==
  LET op    == e.op
      opn   == op.op
      name  == IF e.lazy THEN "(saved later)" ELSE opn
      cls   == OrgAfter(org, op)
      base  == BaseOf(op)
      obs   == ObsSt(e.pkg)
      ops   == Append(pend, op)                       \* the calls whose effect is seen now
      B     == ToSet(base.rels)
      A     == ToSet(obs.rels)
      okGone == UNION {AllowedGone(base, ops[j]) : j \in 1..Len(ops)}
      gone  == (B \ A) \ okGone
      new0  == A \ B
      chg   == {r \in gone : \E m \in new0 : SameKey(m, r)}
      new   == {m \in new0 : ~\E r \in chg : SameKey(m, r)}
      good  == {m \in new : \E j \in 1..Len(ops) : NewOK(base, ops[j], m)}
      want  == NewCount(base, op)
  IN  (IF e.ret = "panic" THEN {<<"C02", opn, cls, "panic">>} ELSE {})
      \cup (IF e.ret \notin {"ok", "panic"} THEN {<<"M02", opn, "ret", e.ret>>} ELSE {})
      \cup (IF opn = "OpenForeign" /\ ~SynthOK(e) THEN {<<"M02", opn, "synth-mismatch", op.scheme \o "/" \o op.content>>} ELSE {})
      \* a behaviour whose start failed (the package could not be opened) is not judged: there is no document
      \cup (IF ~e.seen \/ dead \/ (opn \in StartOps /\ e.ret # "ok") THEN {}
            ELSE IF e.pkg.ok # "ok" THEN {<<"C02", name, cls, "unreadable", e.pkg.ok>>}
            ELSE \* the property on the written package: only what this step introduced
                 {<<"C02", name, cls>> \o v : v \in Viol_C02(obs) \ Viol_C02(base)}
                 \* StepDiff: existing relationships are left alone ...
                 \cup (IF opn = "New" THEN {}
                       ELSE {<<"C02", name, cls, "rel-changed", r.sc, TyCls(r.ty)>> : r \in chg}
                            \cup {<<"C02", name, cls, "rel-removed", r.sc, TyCls(r.ty)>> : r \in gone \ chg}
                            \* ... and only the relationships the calls ask for are created
                            \cup {<<"C02", name, cls, "unexpected-rel", m.sc, TyCls(m.ty)>> : m \in new \ good})
                 \* exactly one per relationship-creating call (eager variant: one call per observation)
                 \cup (IF e.lazy \/ e.ret # "ok" \/ opn = "New" THEN {}
                       ELSE (IF Cardinality(good) < want THEN {<<"C02", name, cls, "rel-not-created", "main", ExpTy(op)>>} ELSE {})
                            \cup (IF Cardinality(good) > want /\ CountExact(op) THEN {<<"C02", name, cls, "extra-rel", "main", ExpTy(op)>>} ELSE {})))

Resync(e) == IF e.seen /\ e.pkg.ok = "ok" THEN ObsSt(e.pkg)
             ELSE IF e.op.op = "New" THEN InitSt
             ELSE IF e.op.op = "OpenForeign" THEN BaseOf(e.op) ELSE cur

TInit == l = 1 /\ cur = EmptySt /\ org = "fresh" /\ pend = <<>> /\ dead = FALSE /\ wit = {}

TReset == /\ l <= Len(Trace) /\ Trace[l].ev = "reset"
          /\ cur' = EmptySt /\ org' = "fresh" /\ pend' = <<>> /\ dead' = FALSE /\ wit' = wit /\ l' = l + 1

TStep == /\ l <= Len(Trace) /\ Trace[l].ev = "step"
         /\ LET e == Trace[l] IN
              /\ wit' = AddWit(wit, Judge(e), e.case)
              /\ cur' = Resync(e)
              /\ org' = OrgAfter(org, e.op)
              /\ pend' = IF e.seen THEN <<>> ELSE Append(pend, e.op)
              /\ dead' = (dead \/ (e.op.op \in StartOps /\ e.ret # "ok"))
         /\ l' = l + 1

TDone == /\ l = Len(Trace) + 1
         /\ PrintT(<<"WZDONE", l - 1, ToJson(wit)>>)
         /\ l' = l + 1 /\ UNCHANGED <<cur, org, pend, dead, wit>>

TNext == TReset \/ TStep \/ TDone
TSpec == TInit /\ [][TNext]_tvars
=============================================================================
