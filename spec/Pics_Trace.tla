----------------------------- MODULE Pics_Trace -----------------------------
(***************************************************************************)
(* Judge of observed behaviours of the real library against Pics (C10).     *)
(* Each line of the trace is                                                 *)
(*   [ev |-> "reset", case |-> n]                                           *)
(*   [ev |-> "step", case |-> n, op |-> <op record>, ret |-> STRING,        *)
(*    seen |-> BOOLEAN,            was the package written and read back     *)
(*    saved |-> STRING,            "ok" or why the package was unreadable    *)
(*    body |-> Seq(el), media |-> Seq([name, tok]), rels |-> Seq([id, kind, *)
(*    tgt]),                       projection of the written package         *)
(*    info |-> STRING]             RelationID of the ImageInfo returned      *)
(* The judge never blocks: deviations become witnesses and the spec state   *)
(* is resynchronised on the observed one.                                    *)
(* Signatures starting with "C10" are property witnesses; "M10" only records *)
(* where the library's return values differ from the reference (no verdict). *)
(***************************************************************************)
EXTENDS Pics, Json, IOUtils

Trace == ndJsonDeserialize(IOEnv.WZ_OBS)

VARIABLES l, cur, wit
tvars == <<l, cur, wit>>

AddWit(w, sigs, c) == w \cup {[sig |-> s, case |-> c] : s \in {x \in sigs : ~\E r \in w : r.sig = x}}

ObsItem(o) == IF o.k = "pic" THEN [k |-> "pic", embed |-> o.embed, cx |-> o.cx, cy |-> o.cy, tx |-> 0, ty |-> 0,
                                   new |-> FALSE, szk |-> ""]
              ELSE IF o.k = "ph" THEN Ph(o.slot, o.lay)
              ELSE Txt
ObsEl(o) == IF o.k = "tbl"
            THEN [k |-> "tbl", cols |-> o.cols,
                  cells |-> [c \in 1..Len(o.cells) |-> [j \in 1..Len(o.cells[c]) |-> ObsItem(o.cells[c][j])]]]
            ELSE ObsItem(o)
\* a = the state the specification reaches: what a package cannot show (origin, handles, loose tokens, the caller's files)
ObsState(e, a) ==
  [origin |-> a.origin,
   body |-> [i \in 1..Len(e.body) |-> ObsEl(e.body[i])],
   media |-> {[name |-> e.media[i].name, tok |-> e.media[i].tok] : i \in 1..Len(e.media)},
   rels |-> [i \in 1..Len(e.rels) |-> [id |-> e.rels[i].id, kind |-> e.rels[i].kind, tgt |-> e.rels[i].tgt]],
   ctr |-> -1, ninfo |-> a.ninfo, loose |-> a.loose, files |-> a.files]

\* wp:extent and a:ext of one picture must agree (both are "the displayed extent")
PicItems(b) == UNION {IF b[i].k = "tbl" THEN UNION {{b[i].cells[c][j] : j \in 1..Len(b[i].cells[c])} : c \in 1..Len(b[i].cells)}
                      ELSE {b[i]} : i \in 1..Len(b)}
Viol_ExtPair(b) == {<<"extent-inconsistent", "wp:extent/a:ext", "">> :
                      p \in {x \in PicItems(b) : x.k = "pic" /\ (x.cx # x.ax \/ x.cy # x.ay)}}

Judge(e) ==
  LET name == e.op.op
      exp  == Apply(cur, e.op)
      obs  == ObsState(e, exp)
      pre  == <<"C10", name, cur.origin>>
  IN  (IF e.ret = "panic" THEN {pre \o <<"panic", "", "">>} ELSE {})
      \cup (IF ~e.seen THEN {}
            ELSE IF e.saved # "ok" THEN {pre \o <<"unreadable", e.saved, "">>}
            ELSE {pre \o v : v \in Viol_C10(exp, obs) \cup Viol_ExtPair(e.body)}
                 \cup (IF name \in AddOps /\ e.ret = "ok" /\ Guard(cur, e.op) /\ Resolve(obs, e.info) # Given(cur, e.op).t
                       THEN {pre \o <<"info-relationship", Resolve(obs, e.info), "">>} ELSE {}))
      \* ---- binding notes (no verdict) ----
      \cup (IF e.ret # "panic" /\ e.ret # Ret(cur, e.op) THEN {<<"M10", name, "ret", e.ret>>} ELSE {})

TInit == l = 1 /\ cur = [InitSt EXCEPT !.ctr = -1] /\ wit = {}

TReset == /\ l <= Len(Trace) /\ Trace[l].ev = "reset"
          /\ cur' = [InitSt EXCEPT !.ctr = -1] /\ wit' = wit /\ l' = l + 1

TStep == /\ l <= Len(Trace) /\ Trace[l].ev = "step"
         /\ LET e == Trace[l]
                a == Apply(cur, e.op)
            IN
              /\ wit' = AddWit(wit, Judge(e), e.case)
              \* resynchronise on what the implementation really did
              /\ cur' = IF e.seen /\ e.saved = "ok" THEN ObsState(e, a)
                        ELSE [a EXCEPT !.ctr = -1]
         /\ l' = l + 1

TDone == /\ l = Len(Trace) + 1
         /\ PrintT(<<"WZDONE", l - 1, ToJson(wit)>>)
         /\ l' = l + 1 /\ UNCHANGED <<cur, wit>>

TNext == TReset \/ TStep \/ TDone
TSpec == TInit /\ [][TNext]_tvars
=============================================================================
