------------------------------- MODULE XmlIn -------------------------------
(***************************************************************************)
(* C06 - opening never crashes or hangs, whatever the input bytes.         *)
(*                                                                         *)
(* An INPUT is described by                                                *)
(*   * a token string over the reader's element alphabet (start tag "o",   *)
(*     end tag "c", empty element "l", character data "x"), built step by  *)
(*     step by XmlIn_MC inside one of the CONTEXTS (a path of open         *)
(*     elements from the root down to the place where the generated        *)
(*     elements go; every container of the alphabet, i.e. every token loop *)
(*     of the reader, is the innermost element of one), grammatical or not;*)
(*   * one MUTATION of the main part (truncation after / inside any token, *)
(*     dropped or duplicated tags, root and namespace spellings, prolog    *)
(*     variants, extreme depth / width / text size, empty or absent part); *)
(*   * one deviation of the PACKAGE (another part broken, ZIP-level shape, *)
(*     a sound archive whose directory lies about an entry's sizes,        *)
(*     checksum or method, entry point).                                   *)
(* The harness turns the value into bytes; nothing else decides the bytes. *)
(*                                                                         *)
(* The REFERENCE MACHINE is the relation the property states: Open returns *)
(* an error or a document within the time limit; on a document every call  *)
(* of the battery returns (value or error) within the limit, and a save    *)
(* that returns nil has produced a package whose main part is well-formed. *)
(* It is deliberately a relation: nothing is demanded about WHICH of the   *)
(* allowed outcomes occurs (a well-formed input may be refused).           *)
(***************************************************************************)
EXTENDS Integers, Sequences, FiniteSets, TLC

\* ------------------------------------------------------------------ alphabet
\* grammatical children of every container of the reader's alphabet: what the parse* loops of the reader dispatch on
\* (every `case` of every token loop of pkg/document as it is now, incl. the loops of floating pictures: positions,
\* the three polygon / extent carrying wrap kinds, the vertex list of a wrap polygon, frame and picture locks)
Kids ==
  [x \in {"#root"} |-> {"document"}] @@
  ( "document" :> {"body"} @@
    "body" :> {"p", "tbl", "sectPr", "sdt", "unknown"} @@
    "sdt" :> {"sdtPr", "sdtContent"} @@
    "sdtContent" :> {"p", "tbl", "r"} @@
    "p" :> {"pPr", "r", "hyperlink", "ins", "sdt", "unknown"} @@
    "hyperlink" :> {"r"} @@
    "ins" :> {"r"} @@
    "pPr" :> {"pStyle", "numPr", "jc", "spacing", "ind", "pBdr", "tabs", "keepNext", "keepLines", "pageBreakBefore", "widowControl",
              "outlineLvl", "snapToGrid", "sectPr", "unknown"} @@
    "numPr" :> {"ilvl", "numId"} @@
    "pBdr" :> {"top", "left", "bottom", "right"} @@
    "tabs" :> {"tab"} @@
    "r" :> {"rPr", "t", "br", "fldChar", "instrText", "drawing", "unknown"} @@
    "rPr" :> {"b", "bCs", "i", "iCs", "u", "strike", "sz", "szCs", "color", "highlight", "rFonts", "unknown"} @@
    "t" :> {"text"} @@
    "instrText" :> {"text"} @@
    "drawing" :> {"inline", "anchor"} @@
    "inline" :> {"extent", "effectExtent", "docPr", "cNvGraphicFramePr", "graphic"} @@
    "anchor" :> {"simplePos", "positionH", "positionV", "extent", "effectExtent", "wrapNone", "wrapSquare", "wrapTight", "wrapThrough",
                 "wrapTopAndBottom", "docPr", "cNvGraphicFramePr", "graphic"} @@
    "positionH" :> {"align", "posOffset"} @@
    "positionV" :> {"align", "posOffset"} @@
    "align" :> {"text"} @@
    "posOffset" :> {"text"} @@
    "wrapTight" :> {"wrapPolygon"} @@
    "wrapThrough" :> {"wrapPolygon"} @@
    "wrapTopAndBottom" :> {"effectExtent"} @@
    "wrapPolygon" :> {"start", "lineTo"} @@
    "cNvGraphicFramePr" :> {"graphicFrameLocks"} @@
    "graphic" :> {"graphicData"} @@
    "graphicData" :> {"pic"} @@
    "pic" :> {"nvPicPr", "blipFill", "spPr"} @@
    "nvPicPr" :> {"cNvPr", "cNvPicPr"} @@
    "cNvPicPr" :> {"picLocks"} @@
    "blipFill" :> {"blip", "stretch"} @@
    "spPr" :> {"xfrm", "prstGeom"} @@
    "xfrm" :> {"off", "ext"} @@
    "tbl" :> {"tblPr", "tblGrid", "tr"} @@
    "tblPr" :> {"tblW", "jc", "tblStyle", "tblLook", "tblBorders", "shd", "tblCellMar", "tblLayout", "tblInd"} @@
    "tblBorders" :> {"top", "left", "bottom", "right", "insideH", "insideV"} @@
    "tblCellMar" :> {"top", "left", "bottom", "right"} @@
    "tblGrid" :> {"gridCol"} @@
    "tr" :> {"trPr", "tc"} @@
    "trPr" :> {"trHeight", "cantSplit", "tblHeader"} @@
    "tc" :> {"tcPr", "p", "tbl"} @@
    "tcPr" :> {"tcW", "gridSpan", "vMerge", "vAlign", "textDirection", "shd", "tcBorders", "tcMar", "noWrap", "hideMark"} @@
    "tcBorders" :> {"top", "left", "bottom", "right", "insideH", "insideV", "tl2br", "tr2bl"} @@
    "tcMar" :> {"top", "left", "bottom", "right"} @@
    "sectPr" :> {"pgSz", "pgMar", "cols", "docGrid", "titlePg", "pgNumType", "headerReference", "footerReference"} @@
    "unknown" :> {"unknown", "p", "r", "t"} )

Containers == DOMAIN Kids \ {"#root"}
AllNames == Containers \cup UNION {Kids[c] : c \in DOMAIN Kids}
KidsOf(n) == IF n \in DOMAIN Kids THEN Kids[n] ELSE {}

\* contexts: where the generated elements are placed (the path is opened first and closed last)
InlinePath == <<"document", "body", "p", "r", "drawing", "inline">>
AnchorPath == <<"document", "body", "p", "r", "drawing", "anchor">>
CtxPath ==
  "root"    :> <<>> @@
  "doc"     :> <<"document">> @@
  "body"    :> <<"document", "body">> @@
  "bsdt"    :> <<"document", "body", "sdt", "sdtContent">> @@
  "p"       :> <<"document", "body", "p">> @@
  "pPr"     :> <<"document", "body", "p", "pPr">> @@
  "hlink"   :> <<"document", "body", "p", "hyperlink">> @@
  "r"       :> <<"document", "body", "p", "r">> @@
  "rPr"     :> <<"document", "body", "p", "r", "rPr">> @@
  "t"       :> <<"document", "body", "p", "r", "t">> @@
  "instr"   :> <<"document", "body", "p", "r", "instrText">> @@
  "tbl"     :> <<"document", "body", "tbl">> @@
  "tblPr"   :> <<"document", "body", "tbl", "tblPr">> @@
  "tr"      :> <<"document", "body", "tbl", "tr">> @@
  "tc"      :> <<"document", "body", "tbl", "tr", "tc">> @@
  "tcPr"    :> <<"document", "body", "tbl", "tr", "tc", "tcPr">> @@
  "tcp"     :> <<"document", "body", "tbl", "tr", "tc", "p">> @@
  "sectPr"  :> <<"document", "body", "sectPr">> @@
  "drawing" :> <<"document", "body", "p", "r", "drawing">> @@
  "inline"  :> <<"document", "body", "p", "r", "drawing", "inline">> @@
  "anchor"  :> <<"document", "body", "p", "r", "drawing", "anchor">> @@
  "gdata"   :> <<"document", "body", "p", "r", "drawing", "inline", "graphic", "graphicData">> @@
  "pic"     :> <<"document", "body", "p", "r", "drawing", "inline", "graphic", "graphicData", "pic">> @@
  "apic"    :> <<"document", "body", "p", "r", "drawing", "anchor", "graphic", "graphicData", "pic">> @@
  \* the remaining token loops of the reader: every container of the alphabet is the innermost element of a context
  "sdt"     :> <<"document", "body", "sdt">> @@
  "ins"     :> <<"document", "body", "p", "ins">> @@
  "numPr"   :> <<"document", "body", "p", "pPr", "numPr">> @@
  "pBdr"    :> <<"document", "body", "p", "pPr", "pBdr">> @@
  "tabs"    :> <<"document", "body", "p", "pPr", "tabs">> @@
  "unknown" :> <<"document", "body", "unknown">> @@
  "tblGrid" :> <<"document", "body", "tbl", "tblGrid">> @@
  "tblBorders" :> <<"document", "body", "tbl", "tblPr", "tblBorders">> @@
  "tblCellMar" :> <<"document", "body", "tbl", "tblPr", "tblCellMar">> @@
  "trPr"    :> <<"document", "body", "tbl", "tr", "trPr">> @@
  "tcBorders" :> <<"document", "body", "tbl", "tr", "tc", "tcPr", "tcBorders">> @@
  "tcMar"   :> <<"document", "body", "tbl", "tr", "tc", "tcPr", "tcMar">> @@
  "posH"    :> AnchorPath \o <<"positionH">> @@
  "posV"    :> AnchorPath \o <<"positionV">> @@
  "align"   :> AnchorPath \o <<"positionH", "align">> @@
  "posOff"  :> AnchorPath \o <<"positionV", "posOffset">> @@
  "wrapT"   :> AnchorPath \o <<"wrapTight">> @@
  "wrapThr" :> AnchorPath \o <<"wrapThrough">> @@
  "wrapTB"  :> AnchorPath \o <<"wrapTopAndBottom">> @@
  "wpoly"   :> AnchorPath \o <<"wrapTight", "wrapPolygon">> @@
  "wpolyThr" :> AnchorPath \o <<"wrapThrough", "wrapPolygon">> @@
  "gfp"     :> AnchorPath \o <<"cNvGraphicFramePr">> @@
  "graphic" :> InlinePath \o <<"graphic">> @@
  "nvPicPr" :> InlinePath \o <<"graphic", "graphicData", "pic", "nvPicPr">> @@
  "cNvPicPr" :> InlinePath \o <<"graphic", "graphicData", "pic", "nvPicPr", "cNvPicPr">> @@
  "blipFill" :> InlinePath \o <<"graphic", "graphicData", "pic", "blipFill">> @@
  "spPr"    :> AnchorPath \o <<"graphic", "graphicData", "pic", "spPr">> @@
  "xfrm"    :> AnchorPath \o <<"graphic", "graphicData", "pic", "spPr", "xfrm">>
AllCtx == DOMAIN CtxPath

\* the contexts are placements the grammar allows, and no token loop of the reader is without one
CtxGrammatical == \A c \in AllCtx : \A i \in 1..Len(CtxPath[c]) : CtxPath[c][i] \in Kids[IF i = 1 THEN "#root" ELSE CtxPath[c][i - 1]]
CtxCoverLoops  == \A n \in Containers : \E c \in AllCtx : CtxPath[c] # <<>> /\ CtxPath[c][Len(CtxPath[c])] = n

\* ------------------------------------------------------------------- tokens
Tok(k, n, a) == [k |-> k, n |-> n, a |-> a]
\* typical attributes / no attribute at all / every value replaced by a word, a negative number, a large number, 2^31
AttrClasses == {"ok", "none", "word", "neg", "big", "huge"}
TextClasses == {"plain", "ent", "cdata", "comment", "pi", "space"}

RepSeq(s, n) == [i \in 1..(Len(s) * n) |-> s[((i - 1) % Len(s)) + 1]]
Last(s) == s[Len(s)]
Front(s) == SubSeq(s, 1, Len(s) - 1)

\* independent recogniser of well-formed token strings: one root element, tags properly nested,
\* no character data outside the root.  Result: [ok, stk (open elements at the stop), at (index of stop)]
RECURSIVE ScanFrom(_, _, _, _)
ScanFrom(ts, i, stk, roots) ==
  IF i > Len(ts) THEN [ok |-> (stk = <<>> /\ roots = 1), stk |-> stk, at |-> i]
  ELSE LET t == ts[i] IN
    CASE t.k = "o" -> IF stk = <<>> /\ roots >= 1 THEN [ok |-> FALSE, stk |-> stk, at |-> i]
                      ELSE ScanFrom(ts, i + 1, Append(stk, t.n), IF stk = <<>> THEN roots + 1 ELSE roots)
      [] t.k = "c" -> IF stk # <<>> /\ Last(stk) = t.n THEN ScanFrom(ts, i + 1, Front(stk), roots)
                      ELSE [ok |-> FALSE, stk |-> stk, at |-> i]
      [] t.k = "l" -> IF stk = <<>> /\ roots >= 1 THEN [ok |-> FALSE, stk |-> stk, at |-> i]
                      ELSE ScanFrom(ts, i + 1, stk, IF stk = <<>> THEN roots + 1 ELSE roots)
      [] OTHER     -> IF stk = <<>> /\ t.n \notin {"space", "comment", "pi"} THEN [ok |-> FALSE, stk |-> stk, at |-> i]
                      ELSE ScanFrom(ts, i + 1, stk, roots)
Scan(ts) == ScanFrom(ts, 1, <<>>, 0)
WellFormed(ts) == Scan(ts).ok

\* index of the end tag matching the start tag at j (0 if none)
RECURSIVE MatchFrom(_, _, _)
MatchFrom(ts, i, depth) ==
  IF i > Len(ts) THEN 0
  ELSE IF ts[i].k = "o" THEN MatchFrom(ts, i + 1, depth + 1)
  ELSE IF ts[i].k = "c" THEN (IF depth = 1 THEN i ELSE MatchFrom(ts, i + 1, depth - 1))
  ELSE MatchFrom(ts, i + 1, depth)
MatchOf(ts, j) == IF ts[j].k = "o" THEN MatchFrom(ts, j + 1, 1) ELSE IF ts[j].k = "l" \/ ts[j].k = "x" THEN j ELSE 0

\* elements open after the first k tokens (innermost last)
RECURSIVE OpenAfter(_, _, _)
OpenAfter(ts, k, stk) ==
  IF k = 0 \/ ts = <<>> THEN stk
  ELSE LET t == ts[1] IN
       OpenAfter(SubSeq(ts, 2, Len(ts)), k - 1,
                 IF t.k = "o" THEN Append(stk, t.n) ELSE IF t.k = "c" /\ stk # <<>> THEN Front(stk) ELSE stk)
InnermostAt(ts, k) == LET s == OpenAfter(ts, k, <<>>) IN IF s = <<>> THEN "#root" ELSE Last(s)

\* ---------------------------------------------------------------- mutations
\* token-level mutations are applied here (the harness renders the resulting tokens);
\* rendering-level mutations (spelling of names, prolog, partial tag, sizes) travel as directives.
TokenMuts  == {"none", "trunc", "dropend", "dupstart", "dupend", "swapend", "tworoots", "deep", "wide"}
RenderMuts == {"truncmid", "wrongroot", "strict", "nons", "defaultns", "prefix", "mixedns", "empty", "declonly", "spaceonly",
               "missing", "garbage", "badent", "ctrlchar", "badutf8", "utf16decl", "latin1decl", "bom", "doctype",
               "bigtext", "bigattr", "manyattrs", "nodecl", "text", "binary"}
AllMuts == TokenMuts \cup RenderMuts

NoMut == [kind |-> "none", j |-> 0, m |-> 0, n |-> 0]
Mut(kind, j, m, n) == [kind |-> kind, j |-> j, m |-> m, n |-> n]

\* a span j..j2 of consecutive start tags whose end tags are consecutive too (each the only child of the one before)
Chain(ts, j, j2) ==
  /\ j <= j2 /\ j2 <= Len(ts) /\ \A i \in j..j2 : ts[i].k = "o"
  /\ MatchOf(ts, j) # 0
  /\ \A i \in j..j2 : MatchOf(ts, i) = MatchOf(ts, j) - (i - j)

\* what is nested in itself n times: any single element, or the whole chain of only children below the body
DeepSpans(ts) ==
       {<<i, i>> : i \in {x \in 1..Len(ts) : ts[x].k = "o"}}
  \cup {<<3, i>> : i \in {x \in 4..Len(ts) : Chain(ts, 3, x) /\ ~Chain(ts, 3, x + 1)}}

ApplyMut(ts, mu) ==
  LET j == mu.j  m == mu.m  n == mu.n  L == Len(ts) IN
  CASE mu.kind = "trunc"    -> SubSeq(ts, 1, j)
    [] mu.kind = "truncmid" -> SubSeq(ts, 1, j)            \* token j is rendered only in part
    [] mu.kind = "dropend"  -> SubSeq(ts, 1, j - 1) \o SubSeq(ts, j + 1, L)
    [] mu.kind = "dupstart" -> SubSeq(ts, 1, j) \o SubSeq(ts, j, L)
    [] mu.kind = "dupend"   -> SubSeq(ts, 1, j) \o SubSeq(ts, j, L)
    [] mu.kind = "swapend"  -> SubSeq(ts, 1, j - 1) \o <<ts[j + 1], ts[j]>> \o SubSeq(ts, j + 2, L)
    [] mu.kind = "tworoots" -> ts \o <<Tok("l", "document", "ok")>>
    [] mu.kind = "deep"     -> LET j2 == m  c2 == MatchOf(ts, j2)  c1 == MatchOf(ts, j) IN
                               SubSeq(ts, 1, j - 1) \o RepSeq(SubSeq(ts, j, j2), n) \o SubSeq(ts, j2 + 1, c2 - 1)
                               \o RepSeq(SubSeq(ts, c2, c1), n) \o SubSeq(ts, c1 + 1, L)
    [] mu.kind = "wide"     -> SubSeq(ts, 1, j - 1) \o RepSeq(SubSeq(ts, j, m), n) \o SubSeq(ts, m + 1, L)
    [] OTHER                -> ts

\* mutations applicable to a token string (extreme sizes from the sets Deeps / Wides)
MutsOf(ts, kinds, Deeps, Wides) ==
  LET L == Len(ts) IN
       {Mut(k, 0, 0, 0) : k \in kinds \cap ({"none", "tworoots"} \cup (RenderMuts \ {"truncmid", "bigtext", "bigattr", "manyattrs"}))}
  \cup (IF "trunc" \in kinds THEN {Mut("trunc", j, 0, 0) : j \in 1..(L - 1)} ELSE {})
  \cup (IF "truncmid" \in kinds THEN {Mut("truncmid", j, 0, 0) : j \in 1..L} ELSE {})
  \cup (IF "dropend" \in kinds THEN {Mut("dropend", j, 0, 0) : j \in {i \in 1..L : ts[i].k = "c"}} ELSE {})
  \cup (IF "dupstart" \in kinds THEN {Mut("dupstart", j, 0, 0) : j \in {i \in 1..L : ts[i].k = "o"}} ELSE {})
  \cup (IF "dupend" \in kinds THEN {Mut("dupend", j, 0, 0) : j \in {i \in 1..L : ts[i].k = "c"}} ELSE {})
  \cup (IF "swapend" \in kinds THEN {Mut("swapend", j, 0, 0) : j \in {i \in 1..(L - 1) : ts[i].k = "c" /\ ts[i + 1].k = "c" /\ ts[i].n # ts[i + 1].n}} ELSE {})
  \cup (IF "deep" \in kinds THEN {Mut("deep", sp[1], sp[2], n) : n \in Deeps, sp \in DeepSpans(ts)} ELSE {})
  \cup (IF "wide" \in kinds
        THEN {Mut("wide", j, MatchOf(ts, j), n) : n \in Wides, j \in {i \in 2..L : ts[i].k \in {"o", "l"}}}
        ELSE {})
  \cup {Mut(k, j, 0, n) : k \in kinds \cap {"bigtext"}, n \in Wides, j \in {i \in 1..L : ts[i].k = "x"}}
  \cup {Mut(k, j, 0, n) : k \in kinds \cap {"bigattr", "manyattrs"}, n \in Wides, j \in {i \in 2..L : ts[i].k \in {"o", "l"} /\ ts[i].a = "ok"}}

\* what the specification says about the well-formedness of the main part after a mutation:
\* "wf" / "ill" are checked against the independent reader's verdict on the synthesised bytes
\* (machinery self-check); "any" = not claimed (depends on the XML processor's reading).
MutClass(ts, mu) ==
  CASE mu.kind \in {"deep", "wide"} -> IF WellFormed(ApplyMut(ts, [mu EXCEPT !.n = 2])) THEN "wf" ELSE "ill"   \* the count does not matter
    [] mu.kind \in TokenMuts -> IF WellFormed(ApplyMut(ts, mu)) THEN "wf" ELSE "ill"
    [] mu.kind \in {"wrongroot", "strict", "nons", "defaultns", "prefix", "mixedns", "bigtext", "bigattr", "manyattrs", "nodecl"}
                             -> IF WellFormed(ts) THEN "wf" ELSE "ill"
    [] mu.kind \in {"truncmid", "empty", "declonly", "spaceonly", "garbage", "badent", "ctrlchar", "badutf8", "text", "binary"} -> "ill"
    [] mu.kind = "missing"   -> "absent"
    [] OTHER                 -> "any"

\* the parse loop a truncation cuts (names the construct in a witness)
Construct(ts, mu) ==
  IF mu.kind \in {"trunc", "truncmid"} THEN InnermostAt(ts, IF mu.kind = "truncmid" THEN mu.j - 1 ELSE mu.j)
  ELSE IF mu.kind \in {"dropend", "dupstart", "dupend", "swapend", "deep", "wide", "bigtext", "bigattr", "manyattrs"} THEN ts[mu.j].n
  ELSE "-"

\* ------------------------------------------------------------------ package
\* one deviation of the package around the main part
PkParts  == {"ct", "rels", "docrels", "styles", "numbering", "header", "footnotes", "settings", "core", "media"}
PkBreaks == {"empty", "trunc", "text", "binary", "wrongroot", "missing", "noattrs", "selfref"}
ZipShapes == {"ok", "emptyzip", "dirs", "dupmain", "dupmainbad", "zerolen", "cutzip", "cutzipdir", "nonzip", "nobytes", "stored",
              "backslash", "upcase", "prefixjunk", "onlymain", "noise"}
Entries  == {"mem", "file"}

\* a structurally sound archive whose DIRECTORY LIES about an entry: one field of the entry's header (in the central
\* directory and in the local header alike) declares something the stored data do not bear out.  Every archive a ZIP
\* writer produces is honest; these are byte strings all the same.
\*   usize / csize : the declared uncompressed / compressed size as a function of the true size v, <<a, e, b>> standing
\*                   for a * v + 2^e + b (e = -1: no power term); 2^32 and beyond need the zip64 extra field
\*   crc           : the declared checksum, the same way as a function of the true one
\*   method        : <<the method the data are stored with, the method the header declares, 0>> (0 stored, 8 deflated)
ZipLieFields == {"usize", "csize", "crc", "method"}
SizeLies == "zero"  :> <<0, -1, 0>>  @@   \* nothing
            "less"  :> <<1, -1, -1>> @@   \* one byte less than there is
            "more"  :> <<1, -1, 1>>  @@   \* one byte more than there is
            "max32" :> <<0, 32, -2>> @@   \* the largest size a plain (non-zip64) header can declare
            "huge"  :> <<0, 62, 0>>  @@   \* zip64: far beyond any memory
            "neg"   :> <<1, 63, 0>>       \* zip64: negative once converted to a signed 64-bit integer
LieVals == "usize"  :> SizeLies @@
           "csize"  :> SizeLies @@
           "crc"    :> ("more" :> <<1, -1, 1>> @@ "zero" :> <<0, -1, 0>>) @@
           "method" :> ("stored" :> <<8, 0, 0>> @@ "deflated" :> <<0, 8, 0>> @@ "unknown" :> <<8, 99, 0>>)
ZipLieTargets == {"main", "styles", "media", "all"}      \* the entry (entries) the lie is told about
NoLie == [fld |-> "none", val |-> "none", tgt |-> "none", lv |-> <<1, -1, 0>>]
Lie(f, v, t) == [fld |-> f, val |-> v, tgt |-> t, lv |-> LieVals[f][v]]
ZipLies == UNION {{Lie(f, v, t) : v \in DOMAIN LieVals[f], t \in ZipLieTargets} : f \in ZipLieFields}
\* every one of them declares something else than the truth, whatever the true value (of a non-empty entry) is
LieSound ==
  /\ \A f \in {"usize", "csize", "crc"} : \A v \in DOMAIN LieVals[f] :
       LET l == LieVals[f][v] IN
       IF l[2] = -1 THEN \A x \in 1..64 : (l[1] * x + l[3] # x /\ l[1] * x + l[3] >= 0) ELSE l[2] >= 32
  /\ \A v \in DOMAIN LieVals["method"] : LieVals["method"][v][1] # LieVals["method"][v][2]
NoPk == [part |-> "none", brk |-> "none", zip |-> "ok", entry |-> "mem", lie |-> NoLie]

\* ------------------------------------------------------- the reference machine
\* abstract state of one run: what the caller holds
Closed == [ph |-> "closed"]
Phases == {"closed", "failed", "doc"}
BadRets == {"panic", "timeout", "fatal"}        \* the call did not return normally within the limit
OpenRets == {"err", "doc"}
CallRets == {"ok", "err", "false", "true"}      \* a battery call returned something
SaveRets == {"ok", "err"}

ReadOps == {"GetParagraphs", "GetTables", "TableReads", "GetPageSettings", "ListHeadings", "Counts", "StyleReads"}
EditOps == {"AddParagraph", "ParaSetters", "InsertRow", "AppendRow", "InsertColumn", "AppendColumn", "SetCellText", "CellFormat",
            "MergeCells", "UnmergeCells", "DeleteColumn", "DeleteRow", "TableLook", "NestedTable", "CopyTable",
            "PageSetters", "AddHeader", "AddFooter", "AddImage", "CellImage", "RemoveParagraphAt", "AddListItem",
            "AddFootnote", "AddEndnote", "SetTitle", "AddTable", "TOC", "Template"}
SaveOps == {"ToBytes", "SaveFile"}
BatteryOps == ReadOps \cup EditOps \cup SaveOps

PhaseOfOp(o) == IF o = "Open" THEN "open" ELSE IF o \in ReadOps THEN "accessor" ELSE IF o \in SaveOps THEN "save" ELSE "edit"

\* Allowed(s, o): the set of <<ret, wf, s'>> the property permits for call o in state s
\* (wf: the regenerated main part is well-formed; only meaningful for a save that returned nil)
Allowed(s, o) ==
  IF o = "Open" THEN (IF s.ph = "closed" THEN {<<"err", "-", [ph |-> "failed"]>>, <<"doc", "-", [ph |-> "doc"]>>} ELSE {})
  ELSE IF s.ph # "doc" THEN {}                       \* nothing may be called without a document
  ELSE IF o \in SaveOps THEN {<<"ok", "wf", s>>, <<"err", "-", s>>}
  ELSE {<<r, "-", s>> : r \in CallRets}

NextState(s, o, ret) ==
  IF o = "Open" THEN (IF ret = "doc" THEN [ph |-> "doc"] ELSE [ph |-> "failed"]) ELSE s

\* witnesses of one observed call (ret, wf) of operation o in state s
Viol_Call(s, o, ret, wf) ==
       (IF ret \in BadRets THEN {<<PhaseOfOp(o), o, ret>>} ELSE {})
  \cup (IF o \in SaveOps /\ ret = "ok" /\ wf # "wf" THEN {<<"save", o, "main-part-" \o wf>>} ELSE {})
  \cup (IF ret \notin BadRets /\ (\A a \in Allowed(s, o) : a[1] # ret) THEN {<<"MACH", o, "ret-" \o ret>>} ELSE {})

\* classes of the input for the signature: the mutation of the main part and the deviation of the package
MutOf(op) == op.mut.kind
PkOf(op) == IF op.pk.lie.fld # "none" THEN "ziplie-" \o op.pk.lie.fld \o "-" \o op.pk.lie.val \o "-" \o op.pk.lie.tgt
            ELSE IF op.pk.zip # "ok" THEN "zip-" \o op.pk.zip
            ELSE IF op.pk.part # "none" THEN op.pk.part \o "-" \o op.pk.brk
            ELSE "pkg-ok"
=============================================================================
