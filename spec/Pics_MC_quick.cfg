SPECIFICATION SpecMC
CONSTANTS
  Tier = "quick"
  Plans = {"mc"}
  MaxSteps = 3
  Mode = "mc"
INVARIANTS Inv_RelIds Inv_Media Inv_Resolve Inv_Files
PROPERTIES Act_Stable Act_New Act_Render Act_MediaKept Act_Unchanged Act_FilesKept
CHECK_DEADLOCK FALSE
