----------------------------- MODULE MdOut_Trace -----------------------------
(***************************************************************************)
(* Judge of what the real Word -> Markdown exporter did (property C20).    *)
(* Lines of the observation file:                                          *)
(*   [ev |-> "reset", case |-> n]                                          *)
(*   [ev |-> "step", case |-> n, op |-> "new", opts, co]                   *)
(*   [ev |-> "step", case |-> n, op |-> "export", body, opts, api, co,     *)
(*      origin,                                                            *)
(*      eff   |-> the options the exporter really ran with (read back from *)
(*                the library's ExportOptions value),                      *)
(*      ret   |-> "ok" | "err" | "panic",                                  *)
(*      src   |-> projection of the exported document (its saved bytes     *)
(*                read by the independent reader; its blocks also say      *)
(*                whether they carry numbering properties: np),            *)
(*      exp   |-> projection of the Markdown by the reference Markdown     *)
(*                reader (CommonMark + GFM),                               *)
(*      conv  |-> "ok" | "err" | "panic"  converting the Markdown back,    *)
(*      back  |-> projection of the converted document (saved bytes),      *)
(*      stable |-> exporting the converted document gave the same string]  *)
(* The judge recomputes ToMd itself.  A case whose document is not the     *)
(* body the specification built (src deviates) is counted, not judged.     *)
(* Witnesses <<"C20", phase, field, "|", classes ...>> are reported for    *)
(* the minimal class sets only.  It never blocks.                          *)
(***************************************************************************)
EXTENDS MdOut, Json, IOUtils, SequencesExt

Trace == ndJsonDeserialize(IOEnv.WZ_OBS)

VARIABLES l, cur, wit, seen, stat
tvars == <<l, cur, wit, seen, stat>>

Add(w, x) ==
  IF \E r \in w : r.kind = x.kind /\ r.ks \subseteq x.ks THEN w
  ELSE {r \in w : ~(r.kind = x.kind /\ x.ks \subseteq r.ks)} \cup {x}
RECURSIVE AddAll(_, _)
AddAll(w, xs) == IF xs = {} THEN w ELSE LET x == CHOOSE y \in xs : TRUE IN AddAll(Add(w, x), xs \ {x})

InRun(r) == [f |-> {r.f[i] : i \in 1..Len(r.f)}, c |-> r.c]
InBlk(b) == [k |-> b.k, n |-> b.n, a |-> b.a, runs |-> [i \in 1..Len(b.runs) |-> InRun(b.runs[i])],
             rows |-> [r \in 1..Len(b.rows) |-> [c \in 1..Len(b.rows[r]) |-> b.rows[r][c].c]]]
InBody(bs) == [i \in 1..Len(bs) |-> InBlk(bs[i])]

Clamp(obs) == [i \in 1..Len(obs) |-> [obs[i] EXCEPT !.lvl = IF @ > 6 THEN 6 ELSE @]]

\* the paragraphs of the saved document carry numbering properties exactly where the body says so
NumBuilt(B, src) ==
  LET ps == SelectSeq(src, LAMBDA x : x.k # "tbl")
      bs == SelectSeq(B, LAMBDA x : x.k # "tbl")
  IN Len(ps) = Len(bs) /\ \A i \in 1..Len(bs) : ps[i].np = (bs[i].k = "li" \/ bs[i].a # "")

\* a paragraph of the saved document without a word, whatever its style, is a block that shows nothing
SrcSeen(src) == SelectSeq(src, LAMBDA x : x.k = "tbl" \/ OWords(x) # <<>>)

\* [ws, built]
ExportJudge(e, c) ==
  LET B == InBody(e.body)
      after == Apply(cur, [op |-> "export", co |-> IF e.co \in {"call", "both"} THEN "given" ELSE "ctor", opts |-> e.opts])
      o == after.opts
      W(ph, x) == [kind |-> <<ph, x.fld>>, ks |-> x.ks, case |-> c]
      mach == IF e.eff # o THEN {[kind |-> <<"MACH", "opts">>, ks |-> {}, case |-> c]} ELSE {}
      built == e.ret # "ok" \/ (Judge(B, [o EXCEPT !.gfm = TRUE], Clamp(SrcSeen(e.src)), "exp") = {} /\ NumBuilt(B, e.src))
      ret == {W("exp", x) : x \in ViolRet(e.ret)}
      ex == IF e.ret = "ok" /\ built THEN {W("exp", x) : x \in Judge(B, o, e.exp, "exp")} ELSE {}
      fx == IF e.ret # "ok" \/ ~built THEN {}
            ELSE IF e.conv # "ok" THEN {[kind |-> <<"fix", "convert-" \o e.conv>>, ks |-> {}, case |-> c]}
            ELSE {W("fix", x) : x \in Judge(B, o, e.back, "fix") \cup StableWits(B, o, e.stable)}
  IN [ws |-> mach \cup ret \cup ex \cup fx, built |-> built, next |-> after,
      cls |-> EveryCls(B, o)]

TInit == l = 1 /\ cur = NewExp(DefaultOpts) /\ wit = {} /\ seen = {} /\ stat = [exports |-> 0, unbuilt |-> 0, deviating |-> 0, unbuiltcases |-> {}]

TReset == /\ l <= Len(Trace) /\ Trace[l].ev = "reset"
          /\ cur' = NewExp(DefaultOpts) /\ l' = l + 1 /\ UNCHANGED <<wit, seen, stat>>

TStep == /\ l <= Len(Trace) /\ Trace[l].ev = "step"
         /\ LET e == Trace[l] IN
              IF e.op = "new" THEN
                 /\ cur' = Apply(cur, [op |-> "new", opts |-> IF e.co \in {"ctor", "both"} THEN e.opts ELSE DefaultOpts])
                 /\ UNCHANGED <<wit, seen, stat>>
              ELSE
                 LET j == ExportJudge(e, e.case)
                 IN /\ wit' = AddAll(wit, j.ws)
                    /\ seen' = seen \cup j.cls
                    /\ stat' = [stat EXCEPT !.exports = @ + 1, !.unbuilt = @ + (IF j.built THEN 0 ELSE 1),
                                            !.unbuiltcases = IF ~j.built /\ Cardinality(@) < 20 THEN @ \cup {e.case} ELSE @,
                                            !.deviating = @ + (IF j.ws # {} THEN 1 ELSE 0)]
                    /\ cur' = j.next
         /\ l' = l + 1

Sig(w) == (IF w.kind[1] = "MACH" THEN <<>> ELSE <<"C20">>) \o w.kind \o <<"|">> \o SetToSeq(w.ks)

TDone == /\ l = Len(Trace) + 1
         /\ ("WZ_STAT" \in DOMAIN IOEnv) =>
               JsonSerialize(IOEnv.WZ_STAT, [classes |-> seen, stat |-> stat])
         /\ PrintT(<<"WZDONE", l - 1, ToJson({[sig |-> Sig(w), case |-> w.case] : w \in wit})>>)
         /\ l' = l + 1 /\ UNCHANGED <<cur, wit, seen, stat>>

TNext == TReset \/ TStep \/ TDone
TSpec == TInit /\ [][TNext]_tvars
=============================================================================
