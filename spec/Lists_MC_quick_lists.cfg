SPECIFICATION SpecMC
CONSTANTS
  KeyHasStart = TRUE
  ClampLevel = TRUE
  ND = 1
  OpNames = {"AddBulletList", "AddListItem", "AddListItemNil", "AddNumberedList", "CreateMultiLevelList", "RemoveListItem", "Reopen", "RestartNumbering"}
  Types = {"bullet", "decimal"}
  Syms = {"dash", "dot"}
  NumSyms = {"empty"}
  LvlCodes = {0, 1, 10}
  Starts = {1, 5}
  MLTypes = {"bullet", "decimal"}
  MLLvls = {0, 1}
  MLStarts = {1, 5}
  MLLen = 2
  NTexts = {"note a"}
  Runs = {"para"}
  Refs = {"bogus"}
  CfgFmts = {"lowerRoman"}
  CfgStarts = {0}
  Apis = {"para"}
  HLvls = {1}
  HTexts = {"Alpha"}
  Styles = {"Title"}
  MLs = {3}
  TSLvls = {1}
  Files = {FALSE}
  MaxK = 2
  Depth = 0
  MaxItems = 2
  MaxNotes = 2
  MaxHeads = 2
  MaxTocs = 2
  MaxAlloc = 3
INVARIANTS Inv_C15 Inv_Ids Inv_Idem
PROPERTIES Act_TOC Act_Notes Act_Frame
VIEW MCView
CHECK_DEADLOCK FALSE
