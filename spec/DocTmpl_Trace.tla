--------------------------- MODULE DocTmpl_Trace ---------------------------
(***************************************************************************)
(* Judge of observed document-template renderings against DocTmpl.         *)
(* Each line of the trace is                                                *)
(*   [ev |-> "reset", case |-> n]                                          *)
(*   [ev |-> "step", case |-> n, op |-> [op |-> "Build", base, via]        *)
(*                                   | [op |-> "Render", data],            *)
(*    ret |-> STRING, doc |-> projection of the base / of the result,      *)
(*    basesame |-> BOOLEAN]                                                 *)
(* Build: the projection of the base the library holds becomes the current  *)
(* state (and is checked against the generated description - a mismatch is  *)
(* a fault of the harness, reported under "MACHINERY", never a violation).  *)
(* Render: the observed result is judged against Subst(cur, data).          *)
(* The judge never blocks.                                                  *)
(***************************************************************************)
EXTENDS DocTmpl, Json, IOUtils

Trace == ndJsonDeserialize(IOEnv.WZ_OBS)

VARIABLES l, cur, wit
tvars == <<l, cur, wit>>

AddWit(w, sigs, c) == w \cup {[sig |-> s, case |-> c] : s \in {x \in sigs : ~\E r \in w : r.sig = x}}

\* ---- is the concretised base the document the generator described? ------------------
RunChars(r) == [i \in 1..Len(r.cs) |-> <<r.cs[i], r.f>>]
RECURSIVE FlatD(_)
FlatD(blocks) ==
  CatMap(blocks, LAMBDA b : IF b.k = "p" THEN CatMap(b.runs, RunChars)
                            ELSE IF b.k = "tbl" THEN CatMap(b.rows, LAMBDA row : CatMap(row, FlatD))
                            ELSE <<>>)
RECURSIVE FlatP(_)
FlatP(blocks) ==
  CatMap(blocks, LAMBDA b : IF b.k = "p" THEN [i \in 1..Len(Chars(b.atoms)) |-> <<Chars(b.atoms)[i].t, Chars(b.atoms)[i].f>>]
                            ELSE IF b.k = "tbl" THEN CatMap(b.rows, LAMBDA row : CatMap(row.cells, LAMBDA c : FlatP(c.blocks)))
                            ELSE <<>>)
Sane(desc, doc) ==
  LET D == FlatD(desc.body) \o CatMap(desc.ftr, RunChars) \o CatMap(desc.hdr, RunChars)
      P == FlatP(doc.body) \o CatMap(doc.hf, LAMBDA h : FlatP(h.blocks)) IN
  /\ Len(D) = Len(P)
  /\ \A i \in 1..Len(D) : D[i][1] = P[i][1] /\ (D[i][2] = 0 <=> P[i][2] = 0)
  \* the formatting ids correspond one to one
  /\ LET pairs == {<<D[i][2], P[i][2]>> : i \in 1..Len(D)} IN
       Cardinality(pairs) = Cardinality({x[1] : x \in pairs}) /\ Cardinality(pairs) = Cardinality({x[2] : x \in pairs})
  \* the pictures the base is described to carry are parts with exactly the described names
  /\ \A i \in 1..Len(desc.media) : \E x \in RangeOf(doc.parts) : x.c = "media" /\ x.n = "word/media/" \o desc.media[i].name
  /\ (desc.media # <<>> => Cardinality({x \in RangeOf(doc.parts) : x.c = "media"}) = Len(desc.media))

Judge(e) ==
  IF e.op.op = "Build" THEN
     (IF e.ret # "ok" THEN {<<"MACHINERY", "build", e.ret>>}
      ELSE IF ~Sane(e.op.base, e.doc) THEN {<<"MACHINERY", "base-mismatch", e.op.via>>} ELSE {})
  ELSE IF e.op.op = "Render" THEN
     (IF e.ret = "ok" THEN {<<"C18">> \o w : w \in JudgeDoc(cur, e.doc, e.op.data)}
                           \cup (IF e.basesame THEN {} ELSE {<<"C18", "base-mutated", e.op.data.cls>>})
      ELSE {<<"C18", "Render", e.ret, e.op.data.cls>>})
  ELSE {<<"MACHINERY", "unknown-op", e.op.op>>}

TInit == l = 1 /\ cur = NoDoc /\ wit = {}

TReset == /\ l <= Len(Trace) /\ Trace[l].ev = "reset"
          /\ cur' = NoDoc /\ wit' = wit /\ l' = l + 1

TStep == /\ l <= Len(Trace) /\ Trace[l].ev = "step"
         /\ LET e == Trace[l] IN
              /\ wit' = AddWit(wit, Judge(e), e.case)
              /\ cur' = IF e.op.op = "Build" THEN e.doc ELSE cur
         /\ l' = l + 1

TDone == /\ l = Len(Trace) + 1
         /\ PrintT(<<"WZDONE", l - 1, ToJson(wit)>>)
         /\ l' = l + 1 /\ UNCHANGED <<cur, wit>>

TNext == TReset \/ TStep \/ TDone
TSpec == TInit /\ [][TNext]_tvars
=============================================================================
