--------------------------- MODULE Foreign_Trace ---------------------------
(***************************************************************************)
(* Judge of observed behaviours of the real library against Foreign (C04). *)
(* Each line of the trace is                                                *)
(*   [ev |-> "reset", case |-> n]                                          *)
(*   [ev |-> "step", case |-> n, i |-> k, op |-> <op record>, ret, pmsg,   *)
(*    sv |-> "ok" | "open-err" | "open-panic" | "edit-panic" | "save-err"  *)
(*           | "save-panic"   (how far open/edit/save got),                *)
(*    orig |-> observed foreign package (only on the Open step),           *)
(*    pkg  |-> observed package saved after steps 0..k, np |-> Nat]        *)
(* The Open operation carries the model package (Foreign!PkgOf) the         *)
(* harness synthesised the bytes from. Step k is judged against the         *)
(* *original* package, so there is nothing to resynchronise and the judge   *)
(* never blocks.                                                            *)
(***************************************************************************)
EXTENDS Foreign, Json, IOUtils

Trace == ndJsonDeserialize(IOEnv.WZ_OBS)

VARIABLES l, cur, oo, prev, ptoks, wit
tvars == <<l, cur, oo, prev, ptoks, wit>>

ModelOf(p) == [parts |-> SetOf(p.parts), rels |-> SetOf(p.rels), body |-> p.body,
               ns |-> p.ns, pkgns |-> p.pkgns, hlink |-> p.hlink,
               styles |-> [sp |-> p.styles.sp, defs |-> SetOf(p.styles.defs)]]
ObsOf(x) == [parts |-> SetOf(x.parts), rels |-> SetOf(x.rels), toks |-> SetOf(x.toks), mem |-> SetOf(x.mem),
             zip |-> x.zip, body |-> x.body]
NoObs == [parts |-> {}, rels |-> {}, toks |-> {}, mem |-> {}, zip |-> "none", body |-> "none"]

AddWit(w, sigs, c) == w \cup {[sig |-> s, case |-> c] : s \in {x \in sigs : ~\E r \in w : r.sig = x}}

\* the bytes the harness wrote must be the package the specification described (machinery self-check)
RelKey(r) == <<r.src, r.id, r.ty, r.mode, r.tg, r.rt>>
Mach(m, o) ==
       (IF {p.n : p \in o.parts} # {p.n : p \in m.parts} THEN {<<"MACH", "synth-parts">>} ELSE {})
  \cup (IF {RelKey(r) : r \in o.rels} # {RelKey(r) : r \in m.rels} THEN {<<"MACH", "synth-rels">>} ELSE {})
  \cup (IF o.toks # BodyToks(m.body) \/ o.zip # "ok" \/ o.body # "ok" THEN {<<"MACH", "synth-body">>} ELSE {})
  \cup (IF \E p \in o.parts : p.n # CTPart /\ p.ct = "" THEN {<<"MACH", "synth-content-type">>} ELSE {})

\* raw witnesses of the package saved after this step (s = reference state after the step, o = observed
\* foreign package). If nothing was saved C04 makes no claim: reported as a note, never a verdict.
Raw(s, o, e) ==
  IF e.sv # "ok" THEN {<<"INFO", e.sv>>}
  ELSE Viol_C04(o, s, ObsOf(e.pkg))

\* The library's choice in RemoveParagraphAt, read off the observation: the paragraph whose tokens
\* disappeared with this step (0 = none, also when the call returned false). If what disappeared does not
\* fit into one paragraph nothing is excused and every token lost is reported.
Removed(s, e) ==
  LET gone == (ExpToks(s) \cap ptoks) \ SetOf(e.pkg.toks)
      cand == {k \in 1..Len(s.paras) : gone \subseteq s.paras[k]}
  IN IF e.ret # "true" \/ e.sv # "ok" \/ gone = {} \/ cand = {} THEN 0
     ELSE CHOOSE k \in cand : \A j \in cand : k <= j
ChoiceOf(s, e) == IF e.op.op = "RemoveParagraphAt" THEN [NoChoice EXCEPT !.rm = Removed(s, e)] ELSE NoChoice

\* a witness is attributed to the operation after which it first shows in its behaviour
Sigs(raw, old, name) == {(IF w[1] = "INFO" THEN <<"INFO", name, w[2]>> ELSE <<"C04", name>> \o w) : w \in raw \ old}

TInit == l = 1 /\ cur = Closed /\ oo = NoObs /\ prev = {} /\ ptoks = {} /\ wit = {}

TReset == /\ l <= Len(Trace) /\ Trace[l].ev = "reset"
          /\ cur' = Closed /\ oo' = NoObs /\ prev' = {} /\ ptoks' = {} /\ wit' = wit /\ l' = l + 1

TStep == /\ l <= Len(Trace) /\ Trace[l].ev = "step"
         /\ LET e == Trace[l] IN
              IF e.op.op = "Open"
              THEN LET m == ModelOf(e.op.pkg)
                       s == InitOf(m)
                       o == ObsOf(e.orig)
                       raw == Raw(s, o, e)
                   IN /\ cur' = s /\ oo' = o /\ prev' = raw /\ ptoks' = SetOf(e.pkg.toks)
                      /\ wit' = AddWit(wit, Mach(m, o) \cup Sigs(raw, {}, "Open"), e.case)
              ELSE LET s == Apply(cur, e.op, ChoiceOf(cur, e))
                       raw == Raw(s, oo, e)
                   IN /\ cur' = s /\ oo' = oo /\ prev' = raw /\ ptoks' = SetOf(e.pkg.toks)
                      /\ wit' = AddWit(wit, Sigs(raw, prev, e.op.op), e.case)
         /\ l' = l + 1

TDone == /\ l = Len(Trace) + 1
         /\ PrintT(<<"WZDONE", l - 1, ToJson(wit)>>)
         /\ l' = l + 1 /\ UNCHANGED <<cur, oo, prev, ptoks, wit>>

TNext == TReset \/ TStep \/ TDone
TSpec == TInit /\ [][TNext]_tvars
=============================================================================
