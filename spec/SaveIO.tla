------------------------------- MODULE SaveIO -------------------------------
(***************************************************************************)
(* Pure (variable-free) specification of "save a package to a path"        *)
(* (property C05): the protocol                                             *)
(*    mkdir / create / serialise / per entry: header, data / close of the   *)
(*    zip writer (last entry, central directory, flush) / close of the file *)
(*    / return                                                              *)
(* over a buffered writer, a compressor that may hold data back until the   *)
(* entry is closed, and a target that refuses bytes beyond a cumulative     *)
(* offset (faultAt), refuses every byte (device), or cannot be created.     *)
(*                                                                         *)
(* A configuration c fixes one call:                                        *)
(*   variant   "intended"  close errors are propagated                      *)
(*             "asbuilt"   both closes are deferred, their errors dropped   *)
(*             "cleaned"   as intended, but the path string is cleaned      *)
(*                         lexically before the operating system sees it    *)
(*             "uncollected" as intended, but the result of a staged sink   *)
(*                         is not collected when the sink is closed         *)
(*   staged    the buffered writer does not write to the file itself but    *)
(*             hands its chunks to a stage that writes them behind its back *)
(*             (a pipe + goroutine, a write-behind cache): a failed file    *)
(*             write is learnt by the NEXT chunk handed over, or when the   *)
(*             stage is closed - never by the chunk that failed             *)
(*   target    class of the path (Targets): what the path leads to AND how  *)
(*             the string is spelt (components "..", ".", doubled slashes,  *)
(*             symbolic links on the way / as the last component)           *)
(*   hdr,dat   per entry: bytes of the local header / of the compressed     *)
(*             data + descriptor                                            *)
(*   pass      per entry: bytes the compressor hands down when the data is  *)
(*             written (the rest stays pending until the entry is closed)   *)
(*   dir       bytes of the central directory + end record                  *)
(*   B         capacity of the buffered writer                              *)
(*   faultAt   the target accepts exactly this many bytes (NoFault = all)   *)
(*   closeFault  closing the file itself fails                              *)
(*   serFault    serialising the in-memory document fails                   *)
(*                                                                         *)
(* Bytes are abstract: the package is the deterministic byte stream         *)
(* Zip(parts) of length N(c), so "what is durable" is a prefix length.      *)
(***************************************************************************)
EXTENDS Integers, Sequences, FiniteSets, TLC

NoFault == -1

Targets == {"newdir",      \* new file in directories that do not exist yet
            "existing",    \* existing regular file holding another (longer) package
            "resave",      \* the file this very document was saved to by its previous successful Save, untouched since
            "device",      \* character device that refuses every byte (/dev/full)
            "rodir",       \* directory without write permission
            "rofile",      \* existing file without write permission
            "parentfile",  \* a path component is a regular file
            "isdir",       \* the path names a directory
            \* --- spellings of a path to a new regular file (PathForms below) ---
            "relative",    \* relative to the working directory, directories do not exist yet
            "dotdot",      \* a/../b/out: ".." after an existing real directory
            "unclean",     \* .//a/./b//out: empty and "." components
            "vialink",     \* link/sub/out: a component is a symbolic link to a directory elsewhere
            "linkdotdot",  \* link/../out: ".." after a symbolic link: the parent of the link's TARGET, not of the link
            "linktofile",  \* the last component is a symbolic link to an existing regular file (another package) elsewhere
            "danglinglink"}\* the last component is a symbolic link (relative target) to a file that does not exist yet
PathForms      == {"relative", "dotdot", "unclean", "vialink", "linkdotdot", "linktofile", "danglinglink"}
Regular(t)     == t \in {"newdir", "existing", "resave"} \cup PathForms
MkdirFails(t)  == t = "parentfile"
CreateFails(t) == t \in {"rodir", "rofile", "isdir"}

Variants == {"intended", "asbuilt", "cleaned", "uncollected"}

\* ---- the path string and where it leads ------------------------------------------
\* A location is the sequence of real directory names from the root of the scratch tree.  A path string is a
\* sequence of components: a name, a symbolic link to a directory elsewhere, "..", "." / the empty component.
Nm(n)  == [k |-> "name", n |-> n,      to |-> <<>>]
Ln(to) == [k |-> "link", n |-> "link", to |-> to]
Up     == [k |-> "up",   n |-> "..",   to |-> <<>>]
Dot    == [k |-> "dot",  n |-> ".",    to |-> <<>>]
\* the directory part of the path of a target class (the last component - the file - is left out)
DirOf(t) ==
  CASE t = "dotdot"     -> <<Nm("a"), Up, Nm("b")>>
    [] t = "unclean"    -> <<Dot, Dot, Nm("a"), Dot, Nm("b"), Dot>>
    [] t = "vialink"    -> <<Ln(<<"store">>), Nm("sub")>>
    [] t = "linkdotdot" -> <<Ln(<<"store", "deep", "sub">>), Up>>
    [] t \in {"relative", "resave"} -> <<Nm("a")>>
    [] t = "newdir"     -> <<Nm("a"), Nm("b"), Nm("c")>>
    [] OTHER            -> <<>>
ButLast(q) == IF q = <<>> THEN q ELSE SubSeq(q, 1, Len(q) - 1)
\* what the operating system does with the components, one after the other
RECURSIVE Walk(_, _)
Walk(loc, p) ==
  IF p = <<>> THEN loc
  ELSE LET h == Head(p)
       IN Walk(CASE h.k = "name" -> Append(loc, h.n)
                 [] h.k = "link" -> h.to
                 [] h.k = "up"   -> ButLast(loc)
                 [] OTHER        -> loc, Tail(p))
\* what lexical cleaning (filepath.Clean / Abs / Join) makes of them: ".." cancels the component before it, whatever it is
RECURSIVE CleanPath(_, _)
CleanPath(acc, p) ==
  IF p = <<>> THEN acc
  ELSE LET h == Head(p)
       IN CleanPath(CASE h.k = "up"  -> ButLast(acc)
                      [] h.k = "dot" -> acc
                      [] OTHER       -> Append(acc, h), Tail(p))
OSLoc(t)    == Walk(<<>>, DirOf(t))                          \* where the string as given leads
CleanLoc(t) == Walk(<<>>, CleanPath(<<>>, DirOf(t)))         \* where the cleaned string leads
LexicallySafe(t) == OSLoc(t) = CleanLoc(t)
\* the directory in which the call creates the file
CreateLoc(c) == IF c.variant = "cleaned" THEN CleanLoc(c.target) ELSE OSLoc(c.target)

\* ---- arithmetic helpers ---------------------------------------------------
SumSeq(s) == LET F[i \in 0..Len(s)] == IF i = 0 THEN 0 ELSE F[i - 1] + s[i] IN F[Len(s)]
MaxSeq(s) == IF Len(s) = 0 THEN 0 ELSE CHOOSE m \in {s[i] : i \in 1..Len(s)} : \A j \in 1..Len(s) : s[j] <= m
Smaller(a, b) == IF a < b THEN a ELSE b

NEnt(c) == Len(c.hdr)
\* length of the complete package
N(c) == SumSeq(c.hdr) + SumSeq(c.dat) + c.dir

\* ---- the target ------------------------------------------------------------
InitFile(c) ==
  CASE c.target \in {"existing", "rofile", "resave", "linktofile"} -> [kind |-> "old", len |-> N(c) + 1]
    [] c.target = "device"                 -> [kind |-> "dev", len |-> 0]
    [] c.target = "isdir"                  -> [kind |-> "dir", len |-> 0]
    [] OTHER                               -> [kind |-> "absent", len |-> 0]

\* write n bytes at the end of the file: [f |-> file afterwards, ok |-> all accepted]
FileWrite(c, f, n) ==
  IF n = 0 THEN [f |-> f, ok |-> TRUE]
  ELSE IF c.target = "device" THEN [f |-> f, ok |-> FALSE]
  ELSE IF c.faultAt = NoFault \/ f.len + n <= c.faultAt THEN [f |-> [f EXCEPT !.len = f.len + n], ok |-> TRUE]
  ELSE [f |-> [f EXCEPT !.len = IF c.faultAt > f.len THEN c.faultAt ELSE f.len], ok |-> FALSE]

\* hand n bytes to whatever is below the buffered writer: [f |-> file afterwards, ok |-> as far as the caller
\* can tell now, late |-> a failure the caller has not been told about is outstanding]
SinkWrite(c, s, n) ==
  IF n = 0 THEN [f |-> s.file, ok |-> TRUE, late |-> s.late]
  ELSE IF ~c.staged THEN LET r == FileWrite(c, s.file, n) IN [f |-> r.f, ok |-> r.ok, late |-> FALSE]
  ELSE IF s.late THEN [f |-> s.file, ok |-> FALSE, late |-> FALSE]     \* the earlier failure surfaces; nothing more is written
  ELSE LET r == FileWrite(c, s.file, n) IN [f |-> r.f, ok |-> TRUE, late |-> ~r.ok]

InitSt(c) ==
  [pc |-> "mkdir", i |-> 1, buf |-> 0, pend |-> 0, prod |-> 0, werr |-> FALSE, late |-> FALSE,
   file |-> InitFile(c), zipOpen |-> FALSE, fileOpen |-> FALSE, ser |-> FALSE,
   err |-> "none", failed |-> FALSE, ret |-> "none", loc |-> <<"nowhere">>]

\* ---- the buffered writer (sticky error) ------------------------------------
\* hand n bytes to the buffered writer; result = state with .ok
BufWrite(c, s, n) ==
  IF s.werr THEN [s |-> s, ok |-> FALSE]
  ELSE IF s.buf + n <= c.B THEN [s |-> [s EXCEPT !.buf = s.buf + n, !.prod = s.prod + n], ok |-> TRUE]
  ELSE LET total == s.buf + n
           keep  == total % c.B
           r     == SinkWrite(c, s, total - keep)
       IN IF r.ok THEN [s |-> [s EXCEPT !.buf = keep, !.file = r.f, !.prod = s.prod + n, !.late = r.late,
                                        !.failed = s.failed \/ r.late], ok |-> TRUE]
          ELSE [s |-> [s EXCEPT !.buf = 0, !.file = r.f, !.werr = TRUE, !.failed = TRUE, !.prod = s.prod + n, !.late = r.late], ok |-> FALSE]

BufFlush(c, s) ==
  IF s.werr THEN [s |-> s, ok |-> FALSE]
  ELSE LET r == SinkWrite(c, s, s.buf)
       IN IF r.ok THEN [s |-> [s EXCEPT !.buf = 0, !.file = r.f, !.late = r.late, !.failed = s.failed \/ r.late], ok |-> TRUE]
          ELSE [s |-> [s EXCEPT !.buf = 0, !.file = r.f, !.werr = TRUE, !.failed = TRUE, !.late = r.late], ok |-> FALSE]

\* close the entry being written: the compressor releases what it held back
ClosePending(c, s) ==
  LET r == BufWrite(c, s, s.pend) IN [s |-> [r.s EXCEPT !.pend = 0], ok |-> r.ok]

FirstErr(s, e) == IF s.err = "none" THEN e ELSE s.err

\* ---- one protocol step ------------------------------------------------------
Step(c, s) ==
  CASE s.pc = "mkdir" ->
         IF MkdirFails(c.target)
         THEN [s EXCEPT !.err = "mkdir", !.failed = TRUE, !.pc = "return"]
         ELSE [s EXCEPT !.pc = "create"]
    [] s.pc = "create" ->
         IF CreateFails(c.target)
         THEN [s EXCEPT !.err = "create", !.failed = TRUE, !.pc = "return"]
         ELSE [s EXCEPT !.file = IF c.target = "device" THEN s.file ELSE [kind |-> "new", len |-> 0],
                        !.fileOpen = TRUE, !.zipOpen = TRUE, !.pc = "serialize", !.loc = CreateLoc(c)]
    [] s.pc = "serialize" ->
         IF c.serFault THEN [s EXCEPT !.err = "serialize", !.pc = "closezip"]
         ELSE [s EXCEPT !.ser = TRUE, !.pc = "entry"]
    [] s.pc = "entry" ->    \* zipWriter.Create(name): closes the previous entry, writes the header
         IF s.i > NEnt(c) THEN [s EXCEPT !.pc = "closezip"]
         ELSE LET a == ClosePending(c, s)
                  b == IF a.ok THEN BufWrite(c, a.s, c.hdr[s.i]) ELSE a
              IN IF b.ok THEN [b.s EXCEPT !.pc = "data"]
                 ELSE [b.s EXCEPT !.err = FirstErr(s, "entry"), !.pc = "closezip"]
    [] s.pc = "data" ->     \* writer.Write(data): the compressor passes part of it down
         LET r == BufWrite(c, s, c.pass[s.i])
         IN IF r.ok THEN [r.s EXCEPT !.pend = c.dat[s.i] - c.pass[s.i], !.i = s.i + 1, !.pc = "entry"]
            ELSE [r.s EXCEPT !.err = FirstErr(s, "data"), !.pc = "closezip"]
    [] s.pc = "closezip" -> \* last entry, central directory, flush
         LET a == ClosePending(c, s)
             b == IF a.ok THEN BufWrite(c, a.s, c.dir) ELSE a
             f == IF b.ok THEN BufFlush(c, b.s) ELSE b
             t == [f.s EXCEPT !.zipOpen = FALSE, !.pc = "closesink"]
         IN IF f.ok \/ c.variant = "asbuilt" THEN t
            ELSE [t EXCEPT !.err = FirstErr(s, "closezip")]
    [] s.pc = "closesink" -> \* the stage (if any) is closed: it has written what it could; what failed is known now
         LET t == [s EXCEPT !.late = FALSE, !.pc = "closefile"]
         IN IF ~s.late \/ c.variant \in {"asbuilt", "uncollected"} THEN t
            ELSE [t EXCEPT !.err = FirstErr(s, "closesink")]
    [] s.pc = "closefile" ->
         LET t == [s EXCEPT !.fileOpen = FALSE, !.pc = "return"]
         IN IF ~c.closeFault THEN t
            ELSE IF c.variant = "asbuilt" THEN [t EXCEPT !.failed = TRUE]
            ELSE [t EXCEPT !.failed = TRUE, !.err = FirstErr(s, "closefile")]
    [] s.pc = "return" ->
         [s EXCEPT !.ret = IF s.err = "none" THEN "nil" ELSE "err", !.pc = "done"]
    [] OTHER -> s

\* run the protocol to its end (at most 2*entries + 8 steps)
RECURSIVE RunFrom(_, _)
RunFrom(c, s) == IF s.pc = "done" THEN s ELSE RunFrom(c, Step(c, s))
Run(c) == RunFrom(c, InitSt(c))

\* ---- what "complete and faithful" means in the model -------------------------
\* the file THE GIVEN STRING LEADS TO holds the whole byte stream of the serialised parts, nothing is still open
Complete(c, s) == /\ s.file.kind = "new" /\ s.file.len = N(c)
                  /\ s.loc = OSLoc(c.target)
                  /\ s.ser /\ s.i = NEnt(c) + 1
                  /\ ~s.fileOpen /\ ~s.zipOpen

\* closed form of the intended outcome: the oracle the trace judge uses
WritesFail(c) == \/ ~Regular(c.target)
                 \/ (c.faultAt # NoFault /\ c.faultAt < N(c))
ExpRet(c) == IF WritesFail(c) \/ c.closeFault \/ c.serFault THEN "err" ELSE "nil"

\* the most that can still be missing from the file when the zip writer is closed
\* (a stage delays the news until the chunk AFTER the one that failed has been handed over)
MaxChunk(c)  == IF MaxSeq(c.dat) > MaxSeq(c.hdr) THEN MaxSeq(c.dat) ELSE MaxSeq(c.hdr)
TailBytes(c) == IF c.staged THEN c.dir + 2 * c.B + 2 * MaxChunk(c) ELSE c.dir + c.B + MaxSeq(c.dat)

\* =========================================================================
\* The judge's side: one observed call of a save entry point.
\*   e.target, e.k (limit on the file size, -1 none), e.ret ("ok","err","panic"),
\*   e.complete (the path is a regular file that an independent reader accepts as a zip),
\*   e.before / e.disk (part name, canonical digest) of ToBytes-just-before / of the file,
\*   e.tb (that ToBytes returned "ok"/"err"), e.tbwhen ("before"; "after" where the harness took
\*   the serialisation just after an unlimited call instead, so that no ToBytes precedes the call),
\*   e.n0, e.dirstart, e.cmax: length, start of the central directory and largest compressed
\*   entry of an unfaulted save of the same document (sizes vary a little from call to call)
\*   e.conc: number of OTHER documents that were being saved (each by its own goroutine, to its own
\*   path, again and again) while this call ran; 0 = the call ran alone.  What a call owes its caller
\*   does not depend on it: every call is judged by the same rule, e.conc only labels the witness.
\* =========================================================================
BufSize  == 4096      \* archive/zip wraps the file in a bufio.Writer of the default size
FlateMax == 70000     \* compress/flate holds back at most one block (64 KiB of input) + its header
Slack    == 512       \* call-to-call variation of the package length (map order changes compression)

PartSet(s) == {<<s[i].n, s[i].h>> : i \in 1..Len(s)}
Faithful(e) == e.tb = "ok" /\ PartSet(e.disk) = PartSet(e.before) /\ Len(e.disk) = Len(e.before)

\* expected return of the intended protocol for the observed call; "any" inside the
\* uncertainty band around the package length
ObsExpRet(e) ==
  IF ~Regular(e.target) THEN "err"
  ELSE IF e.k = NoFault \/ e.k >= e.n0 + Slack THEN "nil"
  ELSE IF e.k < e.n0 - Slack THEN "err"
  ELSE "any"

\* where the injected fault must surface (TailBytes with the real sizes): a limit that leaves
\* more than the tail missing is hit while entries are written, otherwise possibly only at close
Phase(e) ==
  CASE MkdirFails(e.target)  -> "mkdir-fails"
    [] CreateFails(e.target) -> "create-fails"
    [] e.target # "device" /\ e.k = NoFault -> "no-fault"
    [] OTHER ->
         LET kk == IF e.target = "device" THEN 0 ELSE e.k
         IN IF kk + (e.n0 - e.dirstart) + BufSize + Smaller(e.cmax, FlateMax) + Slack < e.n0
            THEN "fault-before-close" ELSE "fault-at-close"

Viol_Save(e) ==
  LET who == IF e.conc > 0 THEN <<e.via, e.target, "concurrent-saves-of-other-documents">> ELSE <<e.via, e.target>> IN
  IF e.ret = "panic" THEN {who \o <<"panic">>}
  ELSE
       (IF e.ret = "ok" /\ ~e.complete THEN {who \o <<"ret-nil", "file-incomplete", Phase(e)>>} ELSE {})
  \cup (IF e.ret = "ok" /\ e.complete /\ ~Faithful(e) THEN {who \o <<"ret-nil", "parts-differ", "tobytes-" \o e.tbwhen, Phase(e)>>} ELSE {})
  \cup (IF e.ret = "err" /\ e.tb = "ok" /\ ObsExpRet(e) = "nil" THEN {who \o <<"ret-err", "nothing-failed", Phase(e)>>} ELSE {})

\* the fault the harness meant to inject did not happen (machinery, not a verdict)
Mach_Save(e) ==
  IF e.ret = "ok" /\ e.complete /\ Faithful(e) /\ ObsExpRet(e) = "err"
  THEN {<<"fault-not-injected", e.target>>} ELSE {}
=============================================================================
