------------------------------- MODULE SaveIO -------------------------------
(***************************************************************************)
(* Pure (variable-free) specification of "save a package to a path"        *)
(* (property C05): the protocol                                             *)
(*    mkdir / create / serialise / per entry: header, data / close of the   *)
(*    zip writer (last entry, central directory, flush) / close of the file *)
(*    / return                                                              *)
(* over a buffered writer, a compressor that may hold data back until the   *)
(* entry is closed, and a target that refuses bytes beyond a cumulative     *)
(* offset (faultAt), refuses every byte (device), or cannot be created.     *)
(*                                                                         *)
(* A configuration c fixes one call:                                        *)
(*   variant   "intended"  close errors are propagated                      *)
(*             "asbuilt"   both closes are deferred, their errors dropped   *)
(*   target    class of the path (Targets)                                  *)
(*   hdr,dat   per entry: bytes of the local header / of the compressed     *)
(*             data + descriptor                                            *)
(*   pass      per entry: bytes the compressor hands down when the data is  *)
(*             written (the rest stays pending until the entry is closed)   *)
(*   dir       bytes of the central directory + end record                  *)
(*   B         capacity of the buffered writer                              *)
(*   faultAt   the target accepts exactly this many bytes (NoFault = all)   *)
(*   closeFault  closing the file itself fails                              *)
(*   serFault    serialising the in-memory document fails                   *)
(*                                                                         *)
(* Bytes are abstract: the package is the deterministic byte stream         *)
(* Zip(parts) of length N(c), so "what is durable" is a prefix length.      *)
(***************************************************************************)
EXTENDS Integers, Sequences, FiniteSets, TLC

NoFault == -1

Targets == {"newdir",      \* new file in directories that do not exist yet
            "existing",    \* existing regular file holding another (longer) package
            "resave",      \* the file this very document was saved to by its previous successful Save, untouched since
            "device",      \* character device that refuses every byte (/dev/full)
            "rodir",       \* directory without write permission
            "rofile",      \* existing file without write permission
            "parentfile",  \* a path component is a regular file
            "isdir"}       \* the path names a directory
Regular(t)     == t \in {"newdir", "existing", "resave"}
MkdirFails(t)  == t = "parentfile"
CreateFails(t) == t \in {"rodir", "rofile", "isdir"}

Variants == {"intended", "asbuilt"}

\* ---- arithmetic helpers ---------------------------------------------------
SumSeq(s) == LET F[i \in 0..Len(s)] == IF i = 0 THEN 0 ELSE F[i - 1] + s[i] IN F[Len(s)]
MaxSeq(s) == IF Len(s) = 0 THEN 0 ELSE CHOOSE m \in {s[i] : i \in 1..Len(s)} : \A j \in 1..Len(s) : s[j] <= m
Smaller(a, b) == IF a < b THEN a ELSE b

NEnt(c) == Len(c.hdr)
\* length of the complete package
N(c) == SumSeq(c.hdr) + SumSeq(c.dat) + c.dir

\* ---- the target ------------------------------------------------------------
InitFile(c) ==
  CASE c.target \in {"existing", "rofile", "resave"} -> [kind |-> "old", len |-> N(c) + 1]
    [] c.target = "device"                 -> [kind |-> "dev", len |-> 0]
    [] c.target = "isdir"                  -> [kind |-> "dir", len |-> 0]
    [] OTHER                               -> [kind |-> "absent", len |-> 0]

\* write n bytes at the end of the file: [f |-> file afterwards, ok |-> all accepted]
FileWrite(c, f, n) ==
  IF n = 0 THEN [f |-> f, ok |-> TRUE]
  ELSE IF c.target = "device" THEN [f |-> f, ok |-> FALSE]
  ELSE IF c.faultAt = NoFault \/ f.len + n <= c.faultAt THEN [f |-> [f EXCEPT !.len = f.len + n], ok |-> TRUE]
  ELSE [f |-> [f EXCEPT !.len = IF c.faultAt > f.len THEN c.faultAt ELSE f.len], ok |-> FALSE]

InitSt(c) ==
  [pc |-> "mkdir", i |-> 1, buf |-> 0, pend |-> 0, prod |-> 0, werr |-> FALSE,
   file |-> InitFile(c), zipOpen |-> FALSE, fileOpen |-> FALSE, ser |-> FALSE,
   err |-> "none", failed |-> FALSE, ret |-> "none"]

\* ---- the buffered writer (sticky error) ------------------------------------
\* hand n bytes to the buffered writer; result = state with .ok
BufWrite(c, s, n) ==
  IF s.werr THEN [s |-> s, ok |-> FALSE]
  ELSE IF s.buf + n <= c.B THEN [s |-> [s EXCEPT !.buf = s.buf + n, !.prod = s.prod + n], ok |-> TRUE]
  ELSE LET total == s.buf + n
           keep  == total % c.B
           r     == FileWrite(c, s.file, total - keep)
       IN IF r.ok THEN [s |-> [s EXCEPT !.buf = keep, !.file = r.f, !.prod = s.prod + n], ok |-> TRUE]
          ELSE [s |-> [s EXCEPT !.buf = 0, !.file = r.f, !.werr = TRUE, !.failed = TRUE, !.prod = s.prod + n], ok |-> FALSE]

BufFlush(c, s) ==
  IF s.werr THEN [s |-> s, ok |-> FALSE]
  ELSE LET r == FileWrite(c, s.file, s.buf)
       IN IF r.ok THEN [s |-> [s EXCEPT !.buf = 0, !.file = r.f], ok |-> TRUE]
          ELSE [s |-> [s EXCEPT !.buf = 0, !.file = r.f, !.werr = TRUE, !.failed = TRUE], ok |-> FALSE]

\* close the entry being written: the compressor releases what it held back
ClosePending(c, s) ==
  LET r == BufWrite(c, s, s.pend) IN [s |-> [r.s EXCEPT !.pend = 0], ok |-> r.ok]

FirstErr(s, e) == IF s.err = "none" THEN e ELSE s.err

\* ---- one protocol step ------------------------------------------------------
Step(c, s) ==
  CASE s.pc = "mkdir" ->
         IF MkdirFails(c.target)
         THEN [s EXCEPT !.err = "mkdir", !.failed = TRUE, !.pc = "return"]
         ELSE [s EXCEPT !.pc = "create"]
    [] s.pc = "create" ->
         IF CreateFails(c.target)
         THEN [s EXCEPT !.err = "create", !.failed = TRUE, !.pc = "return"]
         ELSE [s EXCEPT !.file = IF c.target = "device" THEN s.file ELSE [kind |-> "new", len |-> 0],
                        !.fileOpen = TRUE, !.zipOpen = TRUE, !.pc = "serialize"]
    [] s.pc = "serialize" ->
         IF c.serFault THEN [s EXCEPT !.err = "serialize", !.pc = "closezip"]
         ELSE [s EXCEPT !.ser = TRUE, !.pc = "entry"]
    [] s.pc = "entry" ->    \* zipWriter.Create(name): closes the previous entry, writes the header
         IF s.i > NEnt(c) THEN [s EXCEPT !.pc = "closezip"]
         ELSE LET a == ClosePending(c, s)
                  b == IF a.ok THEN BufWrite(c, a.s, c.hdr[s.i]) ELSE a
              IN IF b.ok THEN [b.s EXCEPT !.pc = "data"]
                 ELSE [b.s EXCEPT !.err = FirstErr(s, "entry"), !.pc = "closezip"]
    [] s.pc = "data" ->     \* writer.Write(data): the compressor passes part of it down
         LET r == BufWrite(c, s, c.pass[s.i])
         IN IF r.ok THEN [r.s EXCEPT !.pend = c.dat[s.i] - c.pass[s.i], !.i = s.i + 1, !.pc = "entry"]
            ELSE [r.s EXCEPT !.err = FirstErr(s, "data"), !.pc = "closezip"]
    [] s.pc = "closezip" -> \* last entry, central directory, flush
         LET a == ClosePending(c, s)
             b == IF a.ok THEN BufWrite(c, a.s, c.dir) ELSE a
             f == IF b.ok THEN BufFlush(c, b.s) ELSE b
             t == [f.s EXCEPT !.zipOpen = FALSE, !.pc = "closefile"]
         IN IF f.ok \/ c.variant = "asbuilt" THEN t
            ELSE [t EXCEPT !.err = FirstErr(s, "closezip")]
    [] s.pc = "closefile" ->
         LET t == [s EXCEPT !.fileOpen = FALSE, !.pc = "return"]
         IN IF ~c.closeFault THEN t
            ELSE IF c.variant = "asbuilt" THEN [t EXCEPT !.failed = TRUE]
            ELSE [t EXCEPT !.failed = TRUE, !.err = FirstErr(s, "closefile")]
    [] s.pc = "return" ->
         [s EXCEPT !.ret = IF s.err = "none" THEN "nil" ELSE "err", !.pc = "done"]
    [] OTHER -> s

\* run the protocol to its end (at most 2*entries + 7 steps)
RECURSIVE RunFrom(_, _)
RunFrom(c, s) == IF s.pc = "done" THEN s ELSE RunFrom(c, Step(c, s))
Run(c) == RunFrom(c, InitSt(c))

\* ---- what "complete and faithful" means in the model -------------------------
\* the file holds the whole byte stream of the serialised parts, nothing is still open
Complete(c, s) == /\ s.file.kind = "new" /\ s.file.len = N(c)
                  /\ s.ser /\ s.i = NEnt(c) + 1
                  /\ ~s.fileOpen /\ ~s.zipOpen

\* closed form of the intended outcome: the oracle the trace judge uses
WritesFail(c) == \/ ~Regular(c.target)
                 \/ (c.faultAt # NoFault /\ c.faultAt < N(c))
ExpRet(c) == IF WritesFail(c) \/ c.closeFault \/ c.serFault THEN "err" ELSE "nil"

\* the most that can still be missing from the file when the zip writer is closed
TailBytes(c) == c.dir + c.B + MaxSeq(c.dat)

\* =========================================================================
\* The judge's side: one observed call of a save entry point.
\*   e.target, e.k (limit on the file size, -1 none), e.ret ("ok","err","panic"),
\*   e.complete (the path is a regular file that an independent reader accepts as a zip),
\*   e.before / e.disk (part name, canonical digest) of ToBytes-just-before / of the file,
\*   e.tb (that ToBytes returned "ok"/"err"), e.tbwhen ("before"; "after" where the harness took
\*   the serialisation just after an unlimited call instead, so that no ToBytes precedes the call),
\*   e.n0, e.dirstart, e.cmax: length, start of the central directory and largest compressed
\*   entry of an unfaulted save of the same document (sizes vary a little from call to call)
\* =========================================================================
BufSize  == 4096      \* archive/zip wraps the file in a bufio.Writer of the default size
FlateMax == 70000     \* compress/flate holds back at most one block (64 KiB of input) + its header
Slack    == 512       \* call-to-call variation of the package length (map order changes compression)

PartSet(s) == {<<s[i].n, s[i].h>> : i \in 1..Len(s)}
Faithful(e) == e.tb = "ok" /\ PartSet(e.disk) = PartSet(e.before) /\ Len(e.disk) = Len(e.before)

\* expected return of the intended protocol for the observed call; "any" inside the
\* uncertainty band around the package length
ObsExpRet(e) ==
  IF ~Regular(e.target) THEN "err"
  ELSE IF e.k = NoFault \/ e.k >= e.n0 + Slack THEN "nil"
  ELSE IF e.k < e.n0 - Slack THEN "err"
  ELSE "any"

\* where the injected fault must surface (TailBytes with the real sizes): a limit that leaves
\* more than the tail missing is hit while entries are written, otherwise possibly only at close
Phase(e) ==
  CASE MkdirFails(e.target)  -> "mkdir-fails"
    [] CreateFails(e.target) -> "create-fails"
    [] e.target # "device" /\ e.k = NoFault -> "no-fault"
    [] OTHER ->
         LET kk == IF e.target = "device" THEN 0 ELSE e.k
         IN IF kk + (e.n0 - e.dirstart) + BufSize + Smaller(e.cmax, FlateMax) + Slack < e.n0
            THEN "fault-before-close" ELSE "fault-at-close"

Viol_Save(e) ==
  LET who == <<e.via, e.target>> IN
  IF e.ret = "panic" THEN {who \o <<"panic">>}
  ELSE
       (IF e.ret = "ok" /\ ~e.complete THEN {who \o <<"ret-nil", "file-incomplete", Phase(e)>>} ELSE {})
  \cup (IF e.ret = "ok" /\ e.complete /\ ~Faithful(e) THEN {who \o <<"ret-nil", "parts-differ", "tobytes-" \o e.tbwhen, Phase(e)>>} ELSE {})
  \cup (IF e.ret = "err" /\ e.tb = "ok" /\ ObsExpRet(e) = "nil" THEN {who \o <<"ret-err", "nothing-failed", Phase(e)>>} ELSE {})

\* the fault the harness meant to inject did not happen (machinery, not a verdict)
Mach_Save(e) ==
  IF e.ret = "ok" /\ e.complete /\ Faithful(e) /\ ObsExpRet(e) = "err"
  THEN {<<"fault-not-injected", e.target>>} ELSE {}
=============================================================================
