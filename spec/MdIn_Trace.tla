----------------------------- MODULE MdIn_Trace -----------------------------
(***************************************************************************)
(* Judge of what the real Markdown converter did (property C19).           *)
(* Lines of the observation file:                                          *)
(*   [ev |-> "reset", case |-> n]                                          *)
(*   [ev |-> "step", case |-> n, op |-> "new", opts]                       *)
(*   [ev |-> "step", case |-> n, op |-> "conv", ast, opts, api, co,        *)
(*      ret |-> "ok"|"err"|"panic", saveret |-> "ok"|"err"|"none",         *)
(*      (api = "missing": ConvertFile of a path that does not exist)       *)
(*      pk |-> package facts, body |-> observed Word body,                 *)
(*      ref |-> the same projection of the reference CommonMark renderer's *)
(*              output for the same Markdown text and extensions]          *)
(*   [ev |-> "step", case |-> n, op |-> "raw" | "deep", toks,              *)
(*      outs |-> Seq([ret, saveret, pk, masks])]  one entry per distinct   *)
(*      outcome over the option masks the case was converted under         *)
(* The judge recomputes ToWord itself.  A case whose Markdown spelling the *)
(* reference renderer reads differently from the AST (ref deviates from    *)
(* ToWord) is not judged for fidelity: it is counted as ambiguous.         *)
(* Witnesses                                                               *)
(*   <<"C19", "fid", field, classes of the deviating block ...>>           *)
(*   <<"C19", "total", what ..., tokens of the input ...>>                 *)
(* are reported for the minimal class sets only.  It never blocks.         *)
(***************************************************************************)
EXTENDS MdIn, Json, IOUtils, SequencesExt

Trace == ndJsonDeserialize(IOEnv.WZ_OBS)

VARIABLES l, cur, wit, seen, stat
tvars == <<l, cur, wit, seen, stat>>

\* w = [kind, ks, case]; keep only witnesses whose class set is minimal for their kind
Add(w, x) ==
  IF \E r \in w : r.kind = x.kind /\ r.ks \subseteq x.ks THEN w
  ELSE {r \in w : ~(r.kind = x.kind /\ x.ks \subseteq r.ks)} \cup {x}

RECURSIVE AddAll(_, _)
AddAll(w, xs) == IF xs = {} THEN w ELSE LET x == CHOOSE y \in xs : TRUE IN AddAll(Add(w, x), xs \ {x})

TotWits(e, c) ==
  UNION {{[kind |-> <<"total">> \o v, ks |-> {e.toks[i] : i \in 1..Len(e.toks)}, case |-> c] :
            v \in ViolTotal(e.outs[j].ret, e.outs[j].saveret, e.outs[j].pk)} : j \in 1..Len(e.outs)}

\* [ws |-> witnesses, amb |-> the reference renderer reads the Markdown differently from the AST]
ConvJudge(e, c) ==
  LET tot == {[kind |-> <<"total">> \o v, ks |-> {"fid-case"}, case |-> c] :
                v \in IF e.api = "missing" THEN ViolMissing(e.ret) ELSE ViolTotal(e.ret, e.saveret, e.pk)}
      \* (the reference renderer knows no "table support off": it shows a parsed table as a table)
      ambiguous == JudgeFid(e.ast, [cur.opts EXCEPT !.tables = TRUE], e.ref) # {}
      fid == IF e.api = "missing" \/ e.ret # "ok" \/ e.saveret # "ok" \/ ambiguous THEN {}
             ELSE {[kind |-> <<"fid", w.fld>>, ks |-> w.ks, case |-> c] : w \in JudgeFid(e.ast, cur.opts, e.body)}
      mach == IF e.opts # cur.opts THEN {[kind |-> <<"MACH", "opts">>, ks |-> {}, case |-> c]} ELSE {}
  IN [ws |-> tot \cup fid \cup mach, amb |-> ambiguous]

TInit == l = 1 /\ cur = NewConv(DefaultOpts) /\ wit = {} /\ seen = {} /\ stat = [conv |-> 0, ambiguous |-> 0, raw |-> 0, deviating |-> 0, ambcases |-> {}]

TReset == /\ l <= Len(Trace) /\ Trace[l].ev = "reset"
          /\ cur' = NewConv(DefaultOpts) /\ l' = l + 1 /\ UNCHANGED <<wit, seen, stat>>

TStep == /\ l <= Len(Trace) /\ Trace[l].ev = "step"
         /\ LET e == Trace[l] IN
              CASE e.op = "new" ->
                     /\ cur' = Apply(cur, [op |-> "new", opts |-> e.opts])
                     /\ UNCHANGED <<wit, seen, stat>>
                [] e.op = "conv" ->
                     LET j == ConvJudge(e, e.case)
                         ws == j.ws
                         amb == j.amb
                     IN /\ wit' = AddAll(wit, ws)
                        /\ seen' = seen \cup UNION {Classes(e.ast[i], cur.opts) : i \in 1..Len(e.ast)}
                        /\ stat' = [stat EXCEPT !.conv = @ + 1, !.ambiguous = @ + (IF amb THEN 1 ELSE 0),
                                                !.ambcases = IF amb /\ Cardinality(@) < 20 THEN @ \cup {e.case} ELSE @,
                                                !.deviating = @ + (IF ws # {} THEN 1 ELSE 0)]
                        /\ cur' = Apply(cur, [op |-> "conv"])
                [] OTHER ->
                     LET ws == TotWits(e, e.case)
                     IN /\ wit' = AddAll(wit, ws)
                        /\ stat' = [stat EXCEPT !.raw = @ + 1, !.deviating = @ + (IF ws # {} THEN 1 ELSE 0)]
                        /\ UNCHANGED <<cur, seen>>
         /\ l' = l + 1

Sig(w) == (IF w.kind[1] = "MACH" THEN <<>> ELSE <<"C19">>) \o w.kind \o <<"|">> \o SetToSeq(w.ks)

TDone == /\ l = Len(Trace) + 1
         /\ ("WZ_STAT" \in DOMAIN IOEnv) =>
               JsonSerialize(IOEnv.WZ_STAT, [classes |-> seen, stat |-> stat])
         /\ PrintT(<<"WZDONE", l - 1, ToJson({[sig |-> Sig(w), case |-> w.case] : w \in wit})>>)
         /\ l' = l + 1 /\ UNCHANGED <<cur, wit, seen, stat>>

TNext == TReset \/ TStep \/ TDone
TSpec == TInit /\ [][TNext]_tvars
=============================================================================
