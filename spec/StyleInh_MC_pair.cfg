SPECIFICATION SpecMC
CONSTANTS
  NStyles = 2
  TwoSlots = FALSE
  YModes = {}
  Kinds = {}
  Plans = {}
  CloneReads = {}
  Depth = 0
  OpNames = {"AddStyle", "RemoveStyle", "Edit", "Resolve", "Clone", "OnClone"}
INVARIANTS Inv_Terminates Inv_Found Inv_Undef Inv_ReadOnly Inv_CopySound
PROPERTIES Act_Snapshot Act_Isolated Act_ReadOnly Act_OwnWins
VIEW MCView
CHECK_DEADLOCK FALSE
