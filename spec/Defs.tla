------------------------------- MODULE Defs -------------------------------
(***************************************************************************)
(* Pure (variable-free) specification of "everything a document refers to   *)
(* by id is defined in the same package" (property C13).                    *)
(*                                                                         *)
(* The REFERENCE machine: every library helper registers the style ids it   *)
(* emits, the styles part is rewritten from the registry at every save,     *)
(* numbering / note definitions belong to the document and only grow.       *)
(*                                                                         *)
(* Abstract state s (record):                                               *)
(*   origin   "new" | "reopen" | "reopen-fresh" | "foreign"                 *)
(*   saves    0..2  saves since the document was created/loaded (capped)    *)
(*   reg      set of style ids in the in-memory registry                    *)
(*   ver      {[id, v]}  version token of registry styles that were changed *)
(*            through the style API (absent = "base")                       *)
(*   hasPart  a styles part exists (was saved or loaded)                    *)
(*   part, pver   ids / non-base versions written at the last save or       *)
(*            carried by the opened package                                 *)
(*   pending  {[id, kind]} ids added ("added") / changed ("changed")         *)
(*            through the style API since the last save                      *)
(*   removed  ids the caller removed from the registry (and did not re-add) *)
(*   refs     {[id, by]}  pStyle/rStyle/tblStyle ids present in the body,   *)
(*            tagged with the helper that first emitted them                *)
(*   sdt      a TOC content control exists in the body                      *)
(*   nrefs    {[n, by]}  numIds used by list paragraphs                     *)
(*   nums     {[n, a]}   num -> abstractNum ; abss  set of abstractNum ids  *)
(*   absFor   {[t, a]}   abstract definition used for list type t           *)
(*   notes {[k, id]} / noterefs {[k, id, by]}   k in {"fn","en"}             *)
(*   rmnotes  notes removed by the caller                                   *)
(*   based    {[id, on]}  basedOn of the styles added through the style API *)
(*            (style hierarchies: custom on built-in, custom on custom ...) *)
(*   alt      <<>> or <<t>>: the OTHER document alive in the same process   *)
(*            (t is a state of the same shape with alt = <<>>); "Switch"    *)
(*            makes it the current one. Every other operation acts on the   *)
(*            current document only and must leave the other one alone.     *)
(* An operation is a record [op |-> name, ...args].                         *)
(***************************************************************************)
EXTENDS Integers, Sequences, FiniteSets, TLC

Levels == 1..9
Heading(l) == "Heading" \o ToString(l)
TocNum(l)  == ToString(12 + l)          \* "13".."21"; "12" is the TOC heading style
TocName(l) == "TOC" \o ToString(l)
HeadingIds == {Heading(l) : l \in Levels}
TocNumIds  == {TocNum(l) : l \in 0..9}
TocNameIds == {TocName(l) : l \in Levels}
TableTemplates == {"TableNormal", "TableGrid", "TableList", "TableColorful1", "TableColorful2",
                   "TableColorful3", "TableColumns1", "TableColumns2", "TableColumns3", "TableRows1",
                   "TableRows2", "TableRows3", "TablePlain1", "TablePlain2", "TablePlain3"}
OtherDefaults == {"Normal", "Title", "Subtitle", "ListParagraph", "Emphasis", "Strong", "Quote",
                  "CodeBlock", "CodeChar", "a1", "ab"}
\* ids of the registry of a new document
DefaultIds == HeadingIds \cup TocNumIds \cup OtherDefaults
CustomIds  == {"C1", "C2", "Q1", "TS1"}
ForeignIds == {"F1", "F2", "FT1"}

IdClass(id) ==
  CASE id \in HeadingIds     -> "heading"
    [] id \in TocNumIds      -> "toc-num"
    [] id \in TocNameIds     -> "toc-name"
    [] id \in TableTemplates -> "table-template"
    [] id \in CustomIds      -> "custom"
    [] id \in ForeignIds     -> "foreign"
    [] id \in OtherDefaults  -> "predefined"
    [] OTHER                 -> "other"

NextVer(v) == CASE v = "base" -> "v1" [] v = "v1" -> "v2" [] v = "v2" -> "v3" [] OTHER -> "v1"

\* ---- helpers ------------------------------------------------------------
VerOf(V, i) == IF \E d \in V : d.id = i THEN (CHOOSE d \in V : d.id = i).v ELSE "base"
SetVer(V, i, v) == {d \in V : d.id # i} \cup (IF v = "base" THEN {} ELSE {[id |-> i, v |-> v]})
DropVer(V, ids) == {d \in V : d.id \notin ids}
RefIds(s) == {r.id : r \in s.refs}
ByOfRef(s, i) == IF \E r \in s.refs : r.id = i THEN (CHOOSE r \in s.refs : r.id = i).by ELSE "unattributed"
ByOfNum(s, n) == IF \E r \in s.nrefs : r.n = n THEN (CHOOSE r \in s.nrefs : r.n = n).by ELSE "unattributed"
ByOfNote(s, k, i) == IF \E r \in s.noterefs : r.k = k /\ r.id = i
                     THEN (CHOOSE r \in s.noterefs : r.k = k /\ r.id = i).by ELSE "unattributed"
PendIds(s) == {p.id : p \in s.pending}
\* style hierarchy: what a style added through the API is based on ("" = not added through the API / no base)
OnOf(s, i) == IF \E b \in s.based : b.id = i THEN (CHOOSE b \in s.based : b.id = i).on ELSE ""
SetOn(B, i, on) == {b \in B : b.id # i} \cup (IF on = "" THEN {} ELSE {[id |-> i, on |-> on]})
BaseClass(s, i) == IF OnOf(s, i) = "" THEN "no-base" ELSE "on-" \o IdClass(OnOf(s, i))
\* the other document of the process
Bare(s) == [s EXCEPT !.alt = <<>>]
\* mark id as added/changed through the style API (an id added since the last save stays "added")
Pend(s, i) == {p \in s.pending : p.id # i}
              \cup {[id |-> i, kind |-> IF [id |-> i, kind |-> "added"] \in s.pending \/ i \notin s.reg
                                        THEN "added" ELSE "changed"]}
Heads(s) == {l \in Levels : Heading(l) \in RefIds(s)}
HasParaTOC(s) == RefIds(s) \cap TocNameIds # {}
MaxOf(S) == IF S = {} THEN 0 ELSE CHOOSE x \in S : \A y \in S : y <= x
FreshNum(s) == 1 + MaxOf({x.n : x \in s.nums} \cup {r.n : r \in s.nrefs})
FreshAbs(s) == 1 + MaxOf(s.abss \cup {x.a : x \in s.nums})
FreshNote(s, k) == 1 + MaxOf({x.id : x \in {y \in s.notes : y.k = k}} \cup {x.id : x \in {y \in s.noterefs : y.k = k}})
Orig3(s) == IF s.origin \in {"reopen", "reopen-fresh"} THEN "reopen" ELSE s.origin
When(s) == IF s.origin = "foreign" THEN "after-open-foreign"
           ELSE IF s.origin \in {"reopen", "reopen-fresh"} THEN "after-reopen"
           ELSE IF s.saves = 0 THEN "first-save" ELSE "after-save"

InitSt == [origin |-> "new", saves |-> 0, reg |-> DefaultIds, ver |-> {}, hasPart |-> FALSE,
           part |-> {}, pver |-> {}, pending |-> {}, removed |-> {}, refs |-> {}, sdt |-> FALSE,
           nrefs |-> {}, nums |-> {}, abss |-> {}, absFor |-> {},
           noterefs |-> {}, notes |-> {}, rmnotes |-> {}, based |-> {}, alt |-> <<>>]

\* ---- foreign packages (the specification is the single source: the op carries the content) ----
\* shape = [name, styles <<[id, v, t]>>, paras <<[k, st, n]>>, nums <<[n, a]>>, abss <<a>>]  (sequences: JSON arrays)
\*   k: "p" paragraph, "li" list paragraph, "tbl" table;  st: style id or "";  n: numId or 0
Para(st)  == [k |-> "p", st |-> st, n |-> 0]
Item(n)   == [k |-> "li", st |-> "", n |-> n]
Tbl(st)   == [k |-> "tbl", st |-> st, n |-> 0]
Sty(i, t) == [id |-> i, v |-> "base", t |-> t]
ForeignShape(name) ==
  CASE name = "plain" ->
         [name |-> name, styles |-> <<Sty("Normal", "paragraph"), Sty("F1", "paragraph")>>,
          paras |-> <<Para("F1"), Para("")>>, nums |-> <<>>, abss |-> <<>>]
    [] name = "lists" ->     \* own numbering definitions with ids that a fresh registry would not allocate first
         [name |-> name, styles |-> <<Sty("Normal", "paragraph"), Sty("F1", "paragraph")>>,
          paras |-> <<Para("F1"), Item(5), Item(7)>>,
          nums |-> <<[n |-> 5, a |-> 3], [n |-> 7, a |-> 4]>>, abss |-> <<3, 4>>]
    [] name = "listslow" ->  \* own numbering definitions with the ids a fresh registry allocates first
         [name |-> name, styles |-> <<Sty("Normal", "paragraph")>>,
          paras |-> <<Item(1), Item(2)>>,
          nums |-> <<[n |-> 1, a |-> 0], [n |-> 2, a |-> 1]>>, abss |-> <<0, 1>>]
    [] name = "toc" ->       \* a paragraph-style TOC (field TOC outside a content control) and a heading
         [name |-> name, styles |-> <<Sty("Normal", "paragraph"), Sty("Heading1", "paragraph"), Sty("TOC1", "paragraph")>>,
          paras |-> <<Para("TOC1"), Para("Heading1"), Para("")>>, nums |-> <<>>, abss |-> <<>>]
    [] name = "tbl" ->       \* own table style
         [name |-> name, styles |-> <<Sty("Normal", "paragraph"), Sty("FT1", "table"), Sty("F2", "paragraph")>>,
          paras |-> <<Tbl("FT1"), Para("F2")>>, nums |-> <<>>, abss |-> <<>>]
    [] OTHER ->              \* "nostyles": a package without a styles part
         [name |-> "nostyles", styles |-> <<>>, paras |-> <<Para("")>>, nums |-> <<>>, abss |-> <<>>]
ShapeNames == {"plain", "lists", "listslow", "toc", "tbl", "nostyles"}

SeqSet(q) == {q[i] : i \in 1..Len(q)}
\* reference Open: the registry is what the package defines (plus the defaults it lacks)
OpenShape(sh) ==
  LET ids == {x.id : x \in SeqSet(sh.styles)}
      ps  == SeqSet(sh.paras)
  IN [InitSt EXCEPT !.origin = "foreign",
        !.reg = ids \cup DefaultIds,
        !.hasPart = (Len(sh.styles) > 0), !.part = ids,
        !.refs = {[id |-> p.st, by |-> "OpenForeign"] : p \in {q \in ps : q.st # ""}},
        !.nrefs = {[n |-> p.n, by |-> "OpenForeign"] : p \in {q \in ps : q.k = "li"}},
        !.nums = SeqSet(sh.nums), !.abss = SeqSet(sh.abss)]

\* ---- Markdown conversion creates a new document ----------------------------
MdRefs(kind) ==
  CASE kind = "quote" -> {"Quote"}
    [] kind = "code"  -> {"CodeBlock"}
    [] kind = "heads" -> {Heading(1), Heading(2), Heading(6)}
    [] OTHER          -> {"Quote", "CodeBlock", Heading(1), Heading(3)}      \* "all"
MdKinds == {"quote", "code", "heads", "all"}

\* ---- style ids an operation emits into the body (same in the reference and as built) ----
UpTo(s, m) == {h \in Heads(s) : h <= m}
Emits(s, op) ==
  CASE op.op = "AddHeading" -> IF Heading(op.l) \in s.reg THEN {Heading(op.l)} ELSE {}
    [] op.op = "SetStyle" -> {op.id}
    [] op.op = "GenerateTOC" -> {TocNum(l) : l \in UpTo(s, op.max)}
    [] op.op = "AutoGenerateTOC" -> IF UpTo(s, op.max) = {} THEN {} ELSE {"12"} \cup {TocNum(l) : l \in UpTo(s, op.max)}
    [] op.op = "UpdateTOC" -> IF s.sdt THEN {TocNum(l) : l \in UpTo(s, 3)}
                              ELSE IF HasParaTOC(s) THEN {TocName(l) : l \in UpTo(s, 3)} ELSE {}
    [] op.op = "TOCEntry" -> {TocNum(op.l)}
    [] op.op = "ApplyTableStyle" -> {op.id}
    [] op.op = "CreateCustomTableStyle" -> {op.id}
    [] OTHER -> {}

\* who is responsible for an emitted id
ByOf(s, op, i) ==
  CASE op.op = "SetStyle" -> IF i \in s.reg THEN "SetStyle" ELSE "SetStyle:unregistered"
    [] op.op = "ApplyTableStyle" -> IF op.kind = "template" THEN "ApplyTableStyle"
                                    ELSE IF i \in s.reg THEN "ApplyTableStyle:id" ELSE "ApplyTableStyle:unregistered"
    [] OTHER -> op.op
\* ids whose definition the caller, not the library, is responsible for
CallerOwned(by) == by \in {"SetStyle:unregistered", "ApplyTableStyle:unregistered"}
\* helpers that own the ids they emit (the reference machine registers them)
Registers(op) == op.op \in {"GenerateTOC", "AutoGenerateTOC", "UpdateTOC", "TOCEntry", "CreateCustomTableStyle"}
                 \/ (op.op = "ApplyTableStyle" /\ op.kind = "template")

AddRefs(s, op, ids) ==
  [s EXCEPT !.refs = @ \cup {[id |-> i, by |-> ByOf(s, op, i)] : i \in ids \ RefIds(s)}]

StyleApi == {"AddStyle", "ModifyStyle", "RemoveStyle"}
Vias == {"AddStyle", "CreateCustomStyle", "CreateQuickStyle"}
Hows == {"mutate", "replace"}

\* expected return value
Ret(s, op) ==
  CASE op.op = "AddStyle" -> IF op.via = "CreateQuickStyle" /\ op.id \in s.reg THEN "err" ELSE "ok"
    [] op.op = "ModifyStyle" -> IF op.id \in s.reg THEN "ok" ELSE "nostyle"
    [] op.op = "AutoGenerateTOC" -> IF UpTo(s, op.max) = {} THEN "err" ELSE "ok"
    [] op.op = "UpdateTOC" -> IF s.sdt \/ HasParaTOC(s) THEN "ok" ELSE "err"
    [] op.op = "RemoveNote" -> IF \E x \in s.notes : x.k = op.k /\ x.id = op.id THEN "ok" ELSE "err"
    [] OTHER -> "ok"

SaveSt(s) == [s EXCEPT !.hasPart = TRUE, !.part = s.reg, !.pver = s.ver, !.pending = {},
                       !.saves = IF s.saves < 2 THEN s.saves + 1 ELSE 2]

Apply(s, op) ==
  IF Ret(s, op) # "ok" THEN s
  ELSE CASE op.op = "AddStyle" ->
              [s EXCEPT !.reg = @ \cup {op.id}, !.ver = SetVer(@, op.id, op.v),
                        !.pending = Pend(s, op.id), !.removed = @ \ {op.id},
                        !.based = SetOn(@, op.id, op.on)]
         [] op.op = "ModifyStyle" ->
              [s EXCEPT !.ver = SetVer(@, op.id, op.v), !.pending = Pend(s, op.id)]
         [] op.op = "RemoveStyle" ->     \* exactly the style named goes; styles based on it stay (their basedOn dangles)
              [s EXCEPT !.reg = @ \ {op.id}, !.ver = DropVer(@, {op.id}), !.pending = {p \in @ : p.id # op.id},
                        !.removed = IF op.id \in s.reg THEN @ \cup {op.id} ELSE @,
                        !.based = SetOn(@, op.id, "")]
         [] op.op = "AddListItem" ->
              LET n == FreshNum(s)
                  a == IF \E x \in s.absFor : x.t = op.t THEN (CHOOSE x \in s.absFor : x.t = op.t).a ELSE FreshAbs(s)
              IN [s EXCEPT !.nums = @ \cup {[n |-> n, a |-> a]}, !.abss = @ \cup {a},
                           !.absFor = @ \cup {[t |-> op.t, a |-> a]},
                           !.nrefs = @ \cup {[n |-> n, by |-> "AddListItem"]}]
         [] op.op = "AddNote" ->
              LET i == FreshNote(s, op.k)
              IN [s EXCEPT !.notes = @ \cup {[k |-> op.k, id |-> i]},
                           !.noterefs = @ \cup {[k |-> op.k, id |-> i, by |-> "AddNote"]}]
         [] op.op = "RemoveNote" ->
              [s EXCEPT !.notes = {x \in @ : ~(x.k = op.k /\ x.id = op.id)},
                        !.noterefs = {x \in @ : ~(x.k = op.k /\ x.id = op.id)},
                        !.rmnotes = @ \cup {[k |-> op.k, id |-> op.id]}]
         [] op.op = "Save" -> SaveSt(s)
         [] op.op = "Reopen" ->
              [SaveSt(s) EXCEPT !.origin = IF op.fresh THEN "reopen-fresh" ELSE "reopen", !.saves = 0]
         [] op.op = "OpenForeign" -> [OpenShape(op.shape) EXCEPT !.alt = s.alt]
         [] op.op = "Markdown" ->
              [InitSt EXCEPT !.refs = {[id |-> i, by |-> "Markdown"] : i \in MdRefs(op.kind)}, !.alt = s.alt]
         [] op.op = "Switch" ->          \* the other document (a new one if there is none yet) becomes the current one
              [(IF s.alt = <<>> THEN InitSt ELSE s.alt[1]) EXCEPT !.alt = <<Bare(s)>>]
         [] OTHER ->
              LET ids == Emits(s, op)
                  t   == AddRefs(s, op, ids)
                  u   == IF Registers(op)
                         THEN [t EXCEPT !.reg = @ \cup ids]
                         ELSE t
              IN [u EXCEPT !.sdt = IF op.op \in {"GenerateTOC", "AutoGenerateTOC", "TOCEntry"} THEN TRUE ELSE @]

\* ---- the package a save writes (reference machine) ---------------------------
\* pkg = [styles {id}, sver {[id,v]}, sbased {[id,on]}, refs {id}, numrefs {n}, nums {[n,a]}, abss {a}, noterefs {[k,id]}, notes {[k,id]}]
SaveView(s) ==
  [styles |-> s.reg, sver |-> s.ver, sbased |-> s.based, refs |-> RefIds(s), numrefs |-> {r.n : r \in s.nrefs},
   nums |-> s.nums, abss |-> s.abss,
   noterefs |-> {[k |-> r.k, id |-> r.id] : r \in s.noterefs}, notes |-> s.notes]

\* ---- the property on a saved package (witness set; empty = holds) ---------------
\* s = state just before the save (who emitted what, what is pending), pkg = the saved package
Excused(s, i) == CallerOwned(ByOfRef(s, i)) \/ i \in s.removed
Viol_Style(s, pkg) ==
  {<<"undefined-style", ByOfRef(s, i), IdClass(i), Orig3(s)>> :
       i \in {j \in pkg.refs : j \notin pkg.styles /\ ~Excused(s, j)}}
Viol_Written(s, pkg) ==
  {<<"style-not-written", When(s), p.kind, IF p.id \in s.part THEN "in-part" ELSE "not-in-part">> :
       p \in {q \in s.pending : q.id \in s.reg /\ (q.id \notin pkg.styles \/ VerOf(pkg.sver, q.id) # VerOf(s.ver, q.id))}}
  \* written, but based on something else than the caller said
  \cup {<<"style-not-written", When(s), p.kind, "based-on">> :
       p \in {q \in s.pending : q.id \in s.reg /\ q.id \in pkg.styles /\ OnOf(s, q.id) # ""
                                 /\ [id |-> q.id, on |-> OnOf(s, q.id)] \notin pkg.sbased}}
  \* added/changed through the style API, never removed by the caller, yet gone from the registry and from the save
  \cup {<<"style-lost", When(s), p.kind, BaseClass(s, p.id)>> :
       p \in {q \in s.pending : q.id \notin s.reg /\ q.id \notin pkg.styles}}
Viol_Num(s, pkg) ==
  {<<"undefined-num", s.origin, ByOfNum(s, n), "no-num">> :
       n \in {m \in pkg.numrefs : m # 0 /\ ~\E x \in pkg.nums : x.n = m}}
  \cup {<<"undefined-num", s.origin, ByOfNum(s, x.n), "no-abstract">> :
       x \in {y \in pkg.nums : y.n \in pkg.numrefs /\ y.a \notin pkg.abss}}
Viol_Note(s, pkg) ==
  {<<"undefined-note", s.origin, ByOfNote(s, r.k, r.id), r.k>> :
       r \in {q \in pkg.noterefs : q \notin pkg.notes /\ q \notin s.rmnotes}}
Viol_C13(s, pkg) == Viol_Style(s, pkg) \cup Viol_Written(s, pkg) \cup Viol_Num(s, pkg) \cup Viol_Note(s, pkg)
=============================================================================
