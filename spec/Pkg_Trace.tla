----------------------------- MODULE Pkg_Trace -----------------------------
(***************************************************************************)
(* Judge of observed behaviours of the real library against Pkg (C01).     *)
(* Each line of the trace is                                               *)
(*   [ev |-> "reset", case |-> n, pass |-> "eager" | "lazy"]               *)
(*   [ev |-> "step", case |-> n, i |-> 0-based step, op |-> <op record>,   *)
(*    ret |-> STRING, pass, seen |-> BOOLEAN, entry |-> save entry point,  *)
(*    pkg |-> the package as the independent reader saw it,                *)
(*    inp |-> the package the step handed to the library's open (Reopen:   *)
(*            the saved bytes as respelt by the producer in between;       *)
(*            zip = "none" where the step opens nothing)]                  *)
(* Every behaviour is executed eagerly (the document is written through a  *)
(* save entry point and read back after every step) and, where the case    *)
(* asks for it, a second time lazily (written only where the behaviour     *)
(* itself saves and after its last step).                                  *)
(* The judge never blocks: violations become witnesses and the spec state  *)
(* is resynchronised on the observed package.                              *)
(*   <<"C01", what, part kind, detail, op, a1, a2>>   property witnesses:  *)
(*        a violation the package did not show before this step, charged   *)
(*        to the call of this step and its argument classes; in the lazy   *)
(*        pass a violation that the eager pass of the same behaviour did   *)
(*        not show is charged to <<"(saved later)", the call that last     *)
(*        wrote that part kind, the origin of the document object>>        *)
(*   <<"X01", ...>>  the package handed to Reopen was itself outside the   *)
(*        property (the respelling machinery is at fault): note, the       *)
(*        behaviour leaves the premise                                     *)
(*   <<"N01", ...>>  the same, but after a call of the behaviour failed or *)
(*        panicked (outside the premise of the property): note, no verdict *)
(*   <<"M01", op, field>>  the library differs from the reference machine  *)
(*        in something the property does not fix: note, no verdict         *)
(***************************************************************************)
EXTENDS Pkg, Json, IOUtils

Trace == ndJsonDeserialize(IOEnv.WZ_OBS)

VARIABLES l, cur, wit, eagerV
tvars == <<l, cur, wit, eagerV>>

AddWit(w, sigs, c) == w \cup {[sig |-> s, case |-> c] : s \in {x \in sigs : ~\E r \in w : r.sig = x}}

ObsPkg(p) == [zip |-> p.zip, dups |-> p.dups, ct |-> p.ct, prels |-> p.prels, odoc |-> p.odoc, parts |-> p.parts]
Success(e) == e.ret \in {"ok", "skip"}

Expected(e) == IF e.ret = "skip" THEN cur ELSE Apply(cur, e.op)

\* the package a step fed to the library (if any) must itself satisfy the property
Fed(e)   == e.inp.zip # "none"
\* (what the library's own earlier output already showed is the library's, not the producer's)
BadIn(e) == IF Fed(e) THEN Viol_C01(ObsPkg(e.inp)) \ (Viol_C01(cur.pkg) \cup eagerV) ELSE {}
\* lazy pass: the call that last wrote the part kind of a violation, according to the reference machine
LastBy(s, k) == IF k \in PartKinds THEN s.by[k].op ELSE "-"

Judge(e) ==
  LET lazy == e.pass = "lazy"
      exp  == Expected(e)
      obs  == ObsPkg(e.pkg)
      tainted == cur.taint \/ ~Success(e) \/ BadIn(e) # {}
      tag  == IF tainted THEN "N01" ELSE "C01"
      new  == Viol_C01(obs) \ Viol_C01(cur.pkg)
      Who(v) == IF lazy THEN <<"(saved later)", LastBy(exp, v[2]), exp.org>> ELSE <<e.op.op, A1(e.op), A2(e.op)>>
  IN  \* a save entry point called by the behaviour itself fails or panics after successful calls only
      (IF e.op.op \in SaveOps /\ ~Success(e) /\ ~cur.taint
         THEN {<<"C01", "save-failed", "-", e.ret, e.op.op, "-", "-">>} ELSE {})
      \cup (IF e.ret = "panic" /\ e.op.op \notin SaveOps THEN {<<"N01", "panic", "-", "-", e.op.op, A1(e.op), A2(e.op)>>} ELSE {})
      \cup (IF ~e.seen THEN {}
            ELSE {<<tag, v[1], v[2], v[3], Who(v)[1], Who(v)[2], Who(v)[3]>> : v \in (IF lazy THEN new \ eagerV ELSE new)})
      \cup {<<"X01", "input", v[1], v[2], v[3], e.op.op, A2(e.op)>> : v \in BadIn(e)}
      \* ---- binding notes (no verdict) ----
      \cup (IF e.ret # "skip" /\ e.ret # Ret(cur, e.op) /\ ~(e.op.op \in SaveOps) THEN {<<"M01", e.op.op, "ret">>} ELSE {})
      \cup (IF e.seen /\ Success(e) /\ ~cur.taint /\ obs.zip = "ok" /\ PartBag(obs) # PartBag(exp.pkg)
              THEN {<<"M01", e.op.op, "parts">>} ELSE {})

Resync(e) ==
  LET exp == Expected(e)
      t   == cur.taint \/ ~Success(e) \/ BadIn(e) # {}
  IN IF e.seen THEN [exp EXCEPT !.pkg = ObsPkg(e.pkg), !.taint = t]
     ELSE [exp EXCEPT !.taint = t]

TInit == l = 1 /\ cur = InitSt /\ wit = {} /\ eagerV = {}

TReset == /\ l <= Len(Trace) /\ Trace[l].ev = "reset"
          /\ cur' = InitSt /\ wit' = wit /\ l' = l + 1
          /\ eagerV' = IF Trace[l].pass = "eager" THEN {} ELSE eagerV

TStep == /\ l <= Len(Trace) /\ Trace[l].ev = "step"
         /\ LET e == Trace[l] IN
              /\ wit' = AddWit(wit, Judge(e), e.case)
              /\ cur' = Resync(e)
              /\ eagerV' = IF e.pass = "eager" /\ e.seen THEN eagerV \cup Viol_C01(ObsPkg(e.pkg)) ELSE eagerV
         /\ l' = l + 1

TDone == /\ l = Len(Trace) + 1
         /\ PrintT(<<"WZDONE", l - 1, ToJson(wit)>>)
         /\ l' = l + 1 /\ UNCHANGED <<cur, wit, eagerV>>

TNext == TReset \/ TStep \/ TDone
TSpec == TInit /\ [][TNext]_tvars
=============================================================================
