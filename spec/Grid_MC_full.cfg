SPECIFICATION SpecMC
CONSTANTS
  Starts = {"1x1","1x3","3x1","2x2","3x3","h3","v3","r3","n2"}
  OpNames = {"InsertRow","AppendRow","DeleteRow","DeleteRows","InsertColumn","AppendColumn","DeleteColumn","DeleteColumns","SetCellText","SetCellFormattedText","AddCellFormattedText","AddCellParagraph","AddCellFormattedParagraph","ClearCellParagraphs","ClearCellContent","AddNestedTable","AddCellList","CellFmt","MergeCellsHorizontal","MergeCellsVertical","MergeCellsRange","UnmergeCells","ClearTable","CopyTable","ReadAll","RowFmt"}
  Creates = "all"
  Depth = 0
  Slack = 1
  PairMode = "all"
  CellMode = "all"
  MaxR = 5
  MaxC = 5
  MaxP = 3
  MaxTok = 99999
  MaxLevel = 3
INVARIANTS Inv_WF Inv_Uniq Inv_Read Inv_Relation
CONSTRAINTS LevelBound
VIEW MCView
CHECK_DEADLOCK FALSE
