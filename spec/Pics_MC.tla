------------------------------ MODULE Pics_MC ------------------------------
(* Exhaustive exploration (SpecMC) of the reference machine of Pics and      *)
(* behaviour generation (SpecGen: BFS over focused alphabets, or seeded       *)
(* random walks over the wide argument classes).                              *)
EXTENDS Pics, Json, Randomization

CONSTANTS Tier,       \* "quick" | "thorough": depth of each focused alphabet
          Plans,      \* names of the alphabets (plans) explored by this run
          MaxSteps,   \* SpecMC: bound on behaviour length; SpecGen in "sim" mode: length of the walks
          Mode        \* "mc" | "bfs" | "sim"

VARIABLES st, hist, n, plan, last    \* last = the operation that led to st (SpecMC)
vars == <<st, hist, n, plan, last>>

\* ---- template data classes: Seq([slot, img, sz, via]) ------------------------
D(slot, t, szn, via) == [slot |-> slot, img |-> ImgOf(t), sz |-> SzOf(szn), via |-> via]
DataOf(name) ==
  CASE name = "d1" -> <<D(1, "P2", "nil", "data"), D(2, "J1", "wkeep", "file")>>
    [] name = "d2" -> <<D(1, "G2", "wh", "details-data")>>
    [] name = "d3" -> <<D(1, "P1", "hkeep", "details-file"), D(2, "P1", "nosize", "data")>>
    [] name = "d4" -> <<D(2, "J3", "wonly", "data"), D(1, "G1", "whfrac", "file")>>
    [] name = "d5" -> <<D(1, "P1", "nil", "data"), D(2, "P1b", "nil", "data")>>       \* twin images in one data set
    [] OTHER -> <<>>
TplOf(name) ==
  CASE name = "two" -> <<1, 2>>
    [] name = "same" -> <<1, 1>>
    [] name = "rev" -> <<2, 1, 2>>
    [] OTHER -> <<1>>

\* ---- argument classes ---------------------------------------------------------
AllOps == {"AddImage", "AddResource", "AddTable", "AddCellImage", "BadCell", "AddPlaceholder", "AddCellPlaceholder",
           "Render", "RenderString", "RemovePic", "Other", "Info", "Save", "Reopen", "OpenForeign", "WriteFile", "RemoveFile"}
AllNames == {"png", "jpg", "jpeg", "PNG", "gif", "noext", "dot", "multi", "cjk", "space", "meta",
             "internal0", "internal1", "dotdot", "empty"}
AllCells == {<<r, c>> : r \in 0..(TblRows - 1), c \in 0..(TblCols - 1)}
Q == Tier = "quick"
\* pre = operations every behaviour of the plan starts with (its start state); Paths = the path slots of the caller's
\* files (WriteFile / RemoveFile act on them, PathVias / PathCellVias = the calls that add a picture from them)
Small == [ops |-> AllOps, pre |-> <<>>, dq |-> 2, dt |-> 2,
          Toks |-> {"P1", "J2"}, NameCls |-> {"png"}, SizeNs |-> {"nil", "wkeep"}, Vias |-> {"data"},
          CellVias |-> {"cfg-data"}, Cells |-> AllCells, Paths |-> {}, PathVias |-> {"file"}, PathCellVias |-> {"file"}, Poss |-> {"inline"}, Slots |-> {1}, Lays |-> {"alone"}, DataNs |-> {"d1"},
          StrTpls |-> {"two"}, RenderHows |-> {"engine"}, Keeps |-> {FALSE}, Shapes |-> {"gap"},
          Others |-> {"AddHeader"}, InfoNs |-> {"ResizeImage"}, Hs |-> {"last"}, ReopenHows |-> {"mem"}, MaxTbl |-> 1]
Wide == [Small EXCEPT
          !.Toks = LenAtMost(2^20 + 1), !.Paths = PathSlots, !.PathCellVias = {"cfg-file", "file"}, !.NameCls = AllNames, !.SizeNs = SizeNames, !.Vias = {"data", "file"},
          !.CellVias = {"cfg-data", "cfg-file", "data", "file"}, !.Poss = {"inline", "floatLeft", "floatRight"},
          !.Slots = {1, 2}, !.Lays = {"alone", "around"}, !.DataNs = {"d1", "d2", "d3", "d4"},
          !.StrTpls = {"two", "same", "rev", "one"}, !.RenderHows = {"engine", "renderer"}, !.Keeps = {FALSE, TRUE},
          !.Shapes = ShapeNames, !.Others = OtherKinds, !.InfoNs = InfoOps, !.Hs = {"nil", "last", "first"},
          !.ReopenHows = {"mem", "file"}, !.MaxTbl = 2]

\* the alphabets: ops, argument classes, BFS depth in the quick (dq) and the thorough (dt) tier; depth 0: not in that tier
PlanOf(name) ==
  CASE name = "all" ->          \* the whole alphabet, small classes
         [Small EXCEPT !.dq = 2, !.dt = 3]
    [] name = "adds" ->         \* every way of adding a picture, with reopen and another relationship in between
         [Small EXCEPT !.ops = {"AddImage", "AddResource", "AddTable", "AddCellImage", "RemovePic", "Other", "Reopen"},
                       !.SizeNs = {"wkeep"}, !.Cells = {<<0, 1>>, <<1, 0>>}, !.dq = 3, !.dt = 4]
    [] name = "sizes" ->        \* the sizing rules on every path: every size configuration, images of several aspect ratios
         [Small EXCEPT !.ops = {"AddImage", "AddTable", "AddCellImage"}, !.Toks = IF Q THEN {"P3"} ELSE {"P3", "J2"},
                       !.SizeNs = SizeNames, !.Vias = {"data", "file"}, !.CellVias = {"cfg-data", "data"},
                       !.Cells = {<<1, 1>>}, !.dq = 2, !.dt = 2]
    [] name = "sizes2" ->       \* ... floating pictures, the file forms of the cell calls, after a reopen
         [Small EXCEPT !.ops = {"AddImage", "AddTable", "AddCellImage", "Reopen"}, !.Toks = {"J1", "G2"}, !.SizeNs = SizeNames,
                       !.CellVias = {"cfg-file", "file"}, !.Cells = {<<0, 1>>}, !.Poss = {"floatLeft", "floatRight"},
                       !.dq = 0, !.dt = 2]
    [] name = "names" ->        \* file names of every class; equal names for different images
         [Small EXCEPT !.ops = {"AddImage", "AddResource", "Reopen"}, !.Toks = {"P1", "G1"},
                       !.NameCls = IF Q THEN {"png", "jpg", "noext", "cjk", "internal0", "dotdot"} ELSE AllNames,
                       !.SizeNs = {"nil"}, !.dq = 2, !.dt = 2]
    [] name = "names2" ->       \* ... read from files of those names
         [Small EXCEPT !.ops = {"AddImage"}, !.Toks = {"P1", "G1"}, !.NameCls = AllNames, !.SizeNs = {"nil"}, !.Vias = {"file"},
                       !.dq = 0, !.dt = 2]
    [] name = "foreign" ->      \* foreign packages with unusual media names, then additions
         [Small EXCEPT !.ops = IF Q THEN {"OpenForeign", "AddImage", "AddResource", "Other", "Reopen"}
                                ELSE {"OpenForeign", "AddImage", "AddResource", "AddTable", "AddCellImage", "Other", "Reopen"},
                       !.Toks = {"P1"}, !.SizeNs = {"wkeep"}, !.Cells = {<<0, 0>>},
                       !.Shapes = IF Q THEN {"gap", "upper", "jpg", "noext"} ELSE ShapeNames, !.dq = 3, !.dt = 3]
    [] name = "foreign2" ->     \* long enough to reach every counter value the shapes leave open
         [Small EXCEPT !.ops = {"OpenForeign", "AddImage", "AddResource", "Reopen"}, !.Toks = {"P1", "J2"},
                       !.SizeNs = {"nil"}, !.Shapes = {"gap", "upper", "jpg"}, !.dq = 0, !.dt = 4]
    [] name = "templates" ->    \* placeholders in body and cells, rendered through every path
         [Small EXCEPT !.ops = {"AddImage", "AddTable", "AddPlaceholder", "AddCellPlaceholder", "Render", "RenderString", "Reopen"},
                       !.Toks = {"P1"}, !.SizeNs = {"nil"}, !.Cells = {<<0, 1>>, <<1, 0>>}, !.Slots = {1, 2}, !.Lays = {"alone", "around"},
                       !.DataNs = IF Q THEN {"d1"} ELSE {"d1", "d2"}, !.Keeps = IF Q THEN {FALSE} ELSE {FALSE, TRUE}, !.dq = 3, !.dt = 3]
    [] name = "templates2" ->   \* every data class and rendering path for document templates
         [Small EXCEPT !.ops = {"AddImage", "AddPlaceholder", "Render", "Reopen"},
                       !.Toks = {"P1"}, !.SizeNs = {"wh"}, !.Slots = {1, 2}, !.Lays = {"alone", "around"},
                       !.DataNs = {"d1", "d2", "d3", "d4"}, !.RenderHows = {"engine", "renderer"}, !.dq = 0, !.dt = 3]
    [] name = "tstrings" ->     \* every text template, data class and layout
         [Small EXCEPT !.ops = {"AddImage", "RenderString", "Reopen"},
                       !.Toks = {"P1"}, !.SizeNs = {"wh"}, !.Lays = {"alone", "around"},
                       !.DataNs = {"d1", "d2", "d3", "d4"}, !.StrTpls = {"two", "same", "rev", "one"}, !.dq = 1, !.dt = 2]
    [] name = "tcells" ->       \* several placeholders in one cell
         [Small EXCEPT !.ops = {"AddTable", "AddCellPlaceholder", "Render"}, !.Cells = {<<0, 1>>}, !.Slots = {1, 2},
                       !.Lays = {"alone", "around"}, !.dq = 4, !.dt = 5]
    [] name = "twins" ->        \* two different images that agree in format, pixel size and encoded length, on every path
         [Small EXCEPT !.ops = {"AddImage", "AddTable", "AddCellImage", "AddPlaceholder", "Render", "Reopen"},
                       !.Toks = IF Q THEN {"P1", "P1b"} ELSE {"P1", "P1b", "J2", "J2b", "G1", "G1b"}, !.SizeNs = {"nil"},
                       !.Cells = {<<0, 1>>}, !.Slots = {1, 2}, !.DataNs = {"d5"}, !.dq = 3, !.dt = 3]
    [] name = "files" ->        \* the caller's files: a path is written, added from (body and cell), rewritten with other bytes of the
                                \* same format, pixel size and length (or of another format), removed, added from again
         [Small EXCEPT !.ops = IF Q THEN {"WriteFile", "AddImage", "AddCellImage"}
                                ELSE {"WriteFile", "RemoveFile", "AddImage", "AddCellImage", "Reopen"},
                       !.pre = <<[op |-> "AddTable"]>>, !.Toks = IF Q THEN {"P1", "P1b"} ELSE {"P1", "P1b", "J2"},
                       !.Vias = {}, !.CellVias = {}, !.SizeNs = IF Q THEN {"nil"} ELSE {"wkeep"}, !.Cells = {<<0, 0>>},
                       !.Paths = {"pa"}, !.PathCellVias = IF Q THEN {"file"} ELSE {"cfg-file", "file"}, !.dq = 5, !.dt = 5]
    [] name = "bulk" ->         \* images of every encoded length class (64 KiB ... 32 MiB), through save and reopen and in a foreign package
         [Small EXCEPT !.ops = {"AddImage", "AddCellImage", "Reopen", "OpenForeign"}, !.pre = <<[op |-> "AddTable"]>>,
                       !.Toks = {i.t : i \in LargeImages}, !.SizeNs = {"wkeep"},
                       !.Vias = {"data", "file"}, !.CellVias = {"cfg-file"}, !.Cells = {<<1, 0>>}, !.ReopenHows = {"mem", "file"},
                       !.Shapes = LargeShapeNames, !.dq = 0, !.dt = 3]
    [] name \in {"bulk0", "bulk1", "bulk2"} ->      \* the quick tier's share of it (the driver takes one per seed): the rung
                                \* above 16 MiB always, the lower rungs and the ways in and out in turn
         LET k == CHOOSE x \in 0..2 : name = "bulk" \o ToString(x)
         IN [Small EXCEPT !.ops = {"AddImage", "Reopen", "OpenForeign"},
                          !.Toks = {"L24", <<"L16", "L20", "L22">>[k + 1]}, !.SizeNs = {"wkeep"},
                          !.Vias = {<<"data", "file", "data">>[k + 1]}, !.ReopenHows = {<<"file", "mem", "mem">>[k + 1]},
                          !.Shapes = LargeShapeNames, !.dq = 2, !.dt = 0]
    [] name = "setters" ->      \* the setters on ImageInfo handles and failing cell calls change nothing
         [Small EXCEPT !.ops = {"AddImage", "AddTable", "AddCellImage", "BadCell", "Info", "Save", "Reopen"}, !.Toks = {"P1"},
                       !.SizeNs = {"wh"}, !.Cells = {<<0, 0>>}, !.InfoNs = IF Q THEN {"ResizeImage", "SetImageAlignment", "SetImagePosition"} ELSE InfoOps,
                       !.Hs = {"nil", "last"}, !.dq = 2, !.dt = 2]
    [] name = "setters3" ->     \* ... one step deeper with the setters that touch size, position and the paragraph
         [Small EXCEPT !.ops = {"AddImage", "AddTable", "AddCellImage", "BadCell", "Info", "Save", "Reopen"}, !.Toks = {"P1"},
                       !.SizeNs = {"wh"}, !.Cells = {<<0, 0>>}, !.InfoNs = {"ResizeImage", "SetImageAlignment", "SetImagePosition"},
                       !.dq = 0, !.dt = 3]
    [] name = "mc" ->           \* the exhaustive check of the reference machine
         [Small EXCEPT !.CellVias = {"cfg-data", "data"}, !.Slots = {1, 2}, !.DataNs = {"d1", "d2"}, !.Keeps = {FALSE, TRUE},
                       !.Paths = {"pa"},
                       !.Shapes = IF Q THEN {"gap", "upper", "noext"} ELSE ShapeNames,
                       !.Others = {"AddHeader", "AddParagraph"}, !.Hs = {"nil", "last"}]
    [] OTHER -> Wide            \* "wide": every class (random walks)
DepthOf(name) == IF Mode = "sim" THEN MaxSteps
                 ELSE IF Q THEN PlanOf(name).dq ELSE PlanOf(name).dt

\* in a random walk every argument class is narrowed to one random member per evaluation,
\* so that a step has one successor per call form instead of one per argument combination
Cls(s, S) == IF Mode = "sim" /\ S # {} THEN {RandomElement(IF Len(s.body) >= 0 THEN S ELSE {})} ELSE S

\* what the op record of an addition from a file shows as its image: the file's content now (Pics!Given decides)
NoImg == ImgL("-", "png", 0, 0, 0)
FileImg(s, f) == IF HasFile(s, f) THEN ImgOf(FileTok(s, f)) ELSE NoImg

TblRange(s, g) == 1..(IF NTables(s) < g.MaxTbl THEN NTables(s) ELSE g.MaxTbl)

OpsOf(s, g) ==
  LET On(x) == x \in g.ops
      Toks == Cls(s, g.Toks)   Names == Cls(s, g.NameCls)   Szs == Cls(s, g.SizeNs)
      CSzs == Cls(s, g.SizeNs \ {"nil", "nosize"})
      VSzs == Cls(s, (g.SizeNs \cap ConvSizeNames) \cup {"zerokeep"})
      Tbls == Cls(s, TblRange(s, g))   Cells == Cls(s, g.Cells)   Paths == Cls(s, g.Paths)
  IN
     (IF On("AddImage") THEN {[op |-> "AddImage", via |-> v, img |-> ImgOf(t), name |-> nm, sz |-> SzOf(z), pos |-> p, path |-> ""]
                               : v \in Cls(s, g.Vias), t \in Toks, nm \in Names, z \in Szs, p \in Cls(s, g.Poss)}
                         \cup {[op |-> "AddImage", via |-> "file", img |-> FileImg(s, f), name |-> "slot", sz |-> SzOf(z), pos |-> p, path |-> f]
                               : f \in Paths, z \in Szs, p \in Cls(s, g.Poss)} ELSE {})
  \cup (IF On("WriteFile") THEN {[op |-> "WriteFile", path |-> f, img |-> ImgOf(t)] : f \in Paths, t \in Toks} ELSE {})
  \cup (IF On("RemoveFile") THEN {[op |-> "RemoveFile", path |-> f] : f \in {x \in Paths : HasFile(s, x)}} ELSE {})
  \cup (IF On("AddResource") THEN {[op |-> "AddResource", img |-> ImgOf(t), name |-> nm] : t \in Toks, nm \in Names} ELSE {})
  \cup (IF On("AddTable") /\ NTables(s) < g.MaxTbl THEN {[op |-> "AddTable"]} ELSE {})
  \cup (IF On("AddCellImage")
        THEN {[op |-> "AddCellImage", via |-> v, tbl |-> tb, r |-> rc[1], c |-> rc[2], img |-> ImgOf(t), sz |-> SzOf(z), fmt |-> "", path |-> ""]
               : v \in Cls(s, g.CellVias \cap {"cfg-data", "cfg-file"}), tb \in Tbls, rc \in Cells, t \in Toks, z \in CSzs}
          \cup {[op |-> "AddCellImage", via |-> "cfg-data", tbl |-> tb, r |-> 0, c |-> 0, img |-> ImgOf(t), sz |-> SzOf(z), fmt |-> ImgOf(t).f, path |-> ""]
               : tb \in Tbls \cap (IF "cfg-data" \in g.CellVias THEN {1} ELSE {}), t \in Toks, z \in CSzs}
          \cup {[op |-> "AddCellImage", via |-> v, tbl |-> tb, r |-> rc[1], c |-> rc[2], img |-> ImgOf(t), sz |-> SzOf(z), fmt |-> "", path |-> ""]
               : v \in Cls(s, g.CellVias \cap {"data", "file"}), tb \in Tbls, rc \in Cells, t \in Toks, z \in VSzs}
          \* ... from one of the caller's files
          \cup {[op |-> "AddCellImage", via |-> "cfg-file", tbl |-> tb, r |-> rc[1], c |-> rc[2], img |-> FileImg(s, f), sz |-> SzOf(z), fmt |-> "", path |-> f]
               : tb \in Tbls, rc \in Cells, f \in Paths \cap (IF "cfg-file" \in g.PathCellVias THEN PathSlots ELSE {}), z \in CSzs}
          \cup {[op |-> "AddCellImage", via |-> "file", tbl |-> tb, r |-> rc[1], c |-> rc[2], img |-> FileImg(s, f), sz |-> SzOf(z), fmt |-> "", path |-> f]
               : tb \in Tbls, rc \in Cells, f \in Paths \cap (IF "file" \in g.PathCellVias THEN PathSlots ELSE {}), z \in VSzs}
        ELSE {})
  \cup (IF On("BadCell")
        THEN {[op |-> "AddCellImage", via |-> "cfg-data", tbl |-> a[1], r |-> a[2], c |-> a[3], img |-> ImgOf(t), sz |-> SzOf("wh"), fmt |-> a[4], path |-> ""]
               : a \in Cls(s, {<<0, 0, 0, "">>, <<1, 2, 0, "">>, <<1, 0, 2, "">>, <<1, 0, 0, "bad">>}), t \in Toks}
        ELSE {})
  \cup (IF On("AddPlaceholder") THEN {[op |-> "AddPlaceholder", slot |-> k, lay |-> l] : k \in Cls(s, g.Slots), l \in Cls(s, g.Lays)} ELSE {})
  \cup (IF On("AddCellPlaceholder")
        THEN {[op |-> "AddCellPlaceholder", tbl |-> tb, r |-> rc[1], c |-> rc[2], slot |-> k, lay |-> l]
               : tb \in Tbls, rc \in Cells, k \in Cls(s, g.Slots), l \in Cls(s, g.Lays)} ELSE {})
  \cup (IF On("Render") THEN {[op |-> "Render", how |-> h, keep |-> kp, dn |-> d, data |-> DataOf(d)]
                              : h \in Cls(s, g.RenderHows), kp \in Cls(s, g.Keeps), d \in Cls(s, g.DataNs)} ELSE {})
  \cup (IF On("RenderString") THEN {[op |-> "RenderString", tn |-> tp, slots |-> TplOf(tp), lay |-> l, dn |-> d, data |-> DataOf(d)]
                                    : tp \in Cls(s, g.StrTpls), l \in Cls(s, g.Lays), d \in Cls(s, g.DataNs)} ELSE {})
  \cup (IF On("RemovePic") THEN {[op |-> "RemovePic", i |-> i]
                                 : i \in Cls(s, 1..(IF Cardinality(BodyPicPos(s)) < 2 THEN Cardinality(BodyPicPos(s)) ELSE 2))} ELSE {})
  \cup (IF On("Other") THEN {[op |-> "Other", what |-> w] : w \in Cls(s, g.Others)} ELSE {})
  \cup (IF On("Info") THEN {[op |-> w, h |-> h] : w \in Cls(s, g.InfoNs), h \in Cls(s, g.Hs)} ELSE {})
  \cup (IF On("Save") THEN {[op |-> "Save"]} ELSE {})
  \cup (IF On("Reopen") THEN {[op |-> "Reopen", how |-> h] : h \in Cls(s, g.ReopenHows)} ELSE {})
  \cup (IF On("OpenForeign") THEN {[op |-> "OpenForeign", shape |-> ForeignShape(x)] : x \in Cls(s, g.Shapes)} ELSE {})

Ops == OpsOf(st, PlanOf(plan))

NoOp == [op |-> "none"]
RECURSIVE ApplyAll(_, _, _)
ApplyAll(s, q, i) == IF i > Len(q) THEN s ELSE ApplyAll(Apply(s, q[i]), q, i + 1)
Init == /\ plan \in {p \in Plans : Mode # "bfs" \/ DepthOf(p) > 0}
        /\ hist = PlanOf(plan).pre /\ st = ApplyAll(InitSt, PlanOf(plan).pre, 1) /\ n = 0 /\ last = NoOp

NextMC == /\ n < MaxSteps
          /\ \E op \in Ops : st' = Apply(st, op) /\ last' = op
          /\ n' = n + 1 /\ hist' = hist /\ plan' = plan
SpecMC == Init /\ [][NextMC]_vars

\* a behaviour is complete when it has the depth of its plan; one more (stuttering-free) step marks it
\* as done, so that a complete behaviour is printed exactly once in BFS mode and in a random walk
NextGen == \/ /\ Len(hist) < DepthOf(plan) /\ n = 0
              /\ \E op \in Ops :
                   /\ st' = Apply(st, op)
                   /\ hist' = Append(hist, op)
              /\ n' = n /\ plan' = plan /\ last' = last
           \/ /\ Len(hist) = DepthOf(plan) /\ n = 0
              /\ n' = 1 /\ UNCHANGED <<st, hist, plan, last>>
SpecGen == Init /\ [][NextGen]_vars

\* ---- properties of the reference machine (C10 at design level) -----------
Inv_RelIds  == RelIdsUnique(st)
Inv_Media   == MediaFunctional(st)
Inv_Resolve == AllResolve(st)
Inv_Files   == FilesFunctional(st)

PV(s) == PicsOnly(View(s))
ToksOf(v) == [i \in 1..Len(v) |-> v[i].tok]
\* no call disturbs an earlier picture; a call creates exactly the pictures it is asked for
Act_Stable ==
  [][LET op == last' IN
        op.op \notin {"OpenForeign", "RenderString"}
           => /\ IF op.op = "RemovePic" THEN IsSubseqOf(Core(PV(st')), Core(PV(st))) ELSE IsSubseqOf(Core(PV(st)), Core(PV(st')))
              /\ Len(PV(st')) = Len(PV(st)) + RequestedPics(st, op)]_vars
\* the new picture shows the bytes given, at the size the rules give, where it was put
LastOfCell(s, op) ==
  LET v == SelectSeq(View(s), LAMBDA x : x.k = "pic" /\ x.w = "cell" /\ x.t = op.tbl /\ x.c = CellIdx(op))
  IN v[Len(v)]
Act_New ==
  [][LET op == last' IN
        (Guard(st, op) /\ op.op \in {"AddImage", "AddCellImage"})
           => LET p == IF op.op = "AddImage" THEN PV(st')[Len(PV(st'))] ELSE LastOfCell(st', op)
                  g == Given(st, op)      \* for an addition from a file: what the file holds when the call is made
                  e == Extent(op.sz, g.pw, g.ph)
              IN /\ p.tok = g.t /\ p.cx = e.cx /\ p.cy = e.cy
                 /\ (op.op = "AddImage" => p.w = "body")]_vars
\* rendering turns each placeholder with data into a picture of that data, in place
WantRender(V, data) ==
  SelectSeq([i \in 1..Len(V) |->
               IF V[i].k = "pic" THEN V[i].tok
               ELSE IF DataFor(data, V[i].cx).slot # 0 THEN DataFor(data, V[i].cx).img.t ELSE "-"],
            LAMBDA x : x # "-")
Act_Render ==
  [][LET op == last' IN
        (op.op = "Render" /\ ~op.keep) => ToksOf(PV(st')) = WantRender(View(st), op.data)]_vars
\* stored images are never lost or altered by a later call
Act_MediaKept ==
  [][LET op == last' IN
        op.op \notin {"OpenForeign", "RenderString"} => st.media \subseteq st'.media]_vars
\* a failing call and the calls on ImageInfo handles leave the document as it is
Act_Unchanged ==
  [][LET op == last' IN
        (~Guard(st, op) \/ op.op \in InfoOps \cup EnvOps \cup {"Save"}) => Core(View(st')) = Core(View(st)) /\ st'.media = st.media]_vars
\* only the caller changes the caller's files
Act_FilesKept ==
  [][LET op == last' IN op.op \notin EnvOps => st'.files = st.files]_vars

\* ---- generation: print each complete behaviour once ----------------------
Emit == n = 0 \/ PrintT(<<"WZCASE", ToJson(hist)>>)
=============================================================================
