-------------------------- MODULE RoundTrip_Trace --------------------------
(***************************************************************************)
(* Judge of observed behaviours of the real library against RoundTrip.     *)
(* Each line of the trace is                                                *)
(*   [ev |-> "reset", case |-> n]                                          *)
(*   [ev |-> "step", case |-> n, i |-> step number, op |-> <op record>,    *)
(*    ret |-> STRING, errs |-> calls of Build that returned an error,       *)
(*    same |-> 0 | step number of an identical projection,                 *)
(*    proj |-> projection of what the library holds after the step]        *)
(* Build / Open log the accessor-level projection of the in-memory body,   *)
(* Save logs the independent parse of the bytes written. The judge never   *)
(* blocks: every deviation is a witness, the next step is judged against   *)
(* what was observed. One TLC state per behaviour (the steps of a          *)
(* behaviour are folded by RunCase), so the state holds only the witnesses.*)
(***************************************************************************)
EXTENDS RoundTrip, Json, IOUtils

Trace == ndJsonDeserialize(IOEnv.WZ_OBS)

VARIABLES l, wit
tvars == <<l, wit>>

\* add witness signatures (first case that shows each one is remembered)
AddWit(w, sigs, c) == w \cup {[sig |-> s, case |-> c] : s \in {x \in sigs : ~\E r \in w : r.sig = x}}

\* projections are transported once; `same` refers to the step that logged it first
Resolve(e, ps) == IF e.same > 0 /\ e.same <= Len(ps) THEN ps[e.same] ELSE e.proj

\* judge the steps of one behaviour starting at line k: js judge state, ps projections so far
RECURSIVE RunCase(_, _, _, _)
RunCase(k, js, ps, acc) ==
  IF k > Len(Trace) \/ Trace[k].ev # "step" THEN [l |-> k, sigs |-> acc]
  ELSE LET e == Trace[k]
           P == Resolve(e, ps)
           r == JudgeStep(js, e.op, e.ret, P)
           api == {<<"C03i", "api-error", e.errs[n]>> : n \in DOMAIN e.errs}
       IN RunCase(k + 1, r.js, Append(ps, P), acc \cup r.wit \cup api)

TInit == l = 1 /\ wit = {}

TCase == /\ l <= Len(Trace) /\ Trace[l].ev = "reset"
         /\ LET r == RunCase(l + 1, InitJs, <<>>, {})
            IN wit' = AddWit(wit, r.sigs, Trace[l].case) /\ l' = r.l

\* a step line that does not follow a reset (never written by the harness) is skipped
TStray == /\ l <= Len(Trace) /\ Trace[l].ev # "reset"
          /\ wit' = AddWit(wit, {<<"C03i", "stray-event">>}, 0) /\ l' = l + 1

TDone == /\ l = Len(Trace) + 1
         /\ PrintT(<<"WZDONE", l - 1, ToJson(wit)>>)
         /\ l' = l + 1 /\ UNCHANGED wit

TNext == TCase \/ TStray \/ TDone
TSpec == TInit /\ [][TNext]_tvars
=============================================================================
