-------------------------- MODULE RoundTrip_Trace --------------------------
(***************************************************************************)
(* Judge of observed behaviours of the real library against RoundTrip.     *)
(* Each line of the trace is                                                *)
(*   [ev |-> "reset", case |-> n]                                          *)
(*   [ev |-> "step", case |-> n, i |-> step number, op |-> <op record>,    *)
(*    ret |-> STRING, errs |-> calls of Build that returned an error,       *)
(*    same |-> 0 | step number of an identical projection,                 *)
(*    proj |-> projection of what the library holds after the step]        *)
(* Build / Open log the accessor-level projection of the in-memory body,   *)
(* Save logs the independent parse of the bytes written. The judge never   *)
(* blocks: every deviation is a witness, the next step is judged against   *)
(* what was observed.                                                      *)
(***************************************************************************)
EXTENDS RoundTrip, Json, IOUtils

Trace == ndJsonDeserialize(IOEnv.WZ_OBS)

VARIABLES l, js, ps, wit
tvars == <<l, js, ps, wit>>

\* add witness signatures (first case that shows each one is remembered)
AddWit(w, sigs, c) == w \cup {[sig |-> s, case |-> c] : s \in {x \in sigs : ~\E r \in w : r.sig = x}}

\* projections are transported once; `same` refers to the step that logged it first
Resolve(e) == IF e.same > 0 /\ e.same <= Len(ps) THEN ps[e.same] ELSE e.proj

TInit == l = 1 /\ js = InitJs /\ ps = <<>> /\ wit = {}

TReset == /\ l <= Len(Trace) /\ Trace[l].ev = "reset"
          /\ js' = InitJs /\ ps' = <<>> /\ wit' = wit /\ l' = l + 1

TStep == /\ l <= Len(Trace) /\ Trace[l].ev = "step"
         /\ LET e == Trace[l]
                P == Resolve(e)
                r == JudgeStep(js, e.op, e.ret, P)
                api == {<<"C03i", "api-error", e.errs[k]>> : k \in DOMAIN e.errs}
            IN /\ wit' = AddWit(wit, r.wit \cup api, e.case)
               /\ js' = r.js
               /\ ps' = Append(ps, P)
         /\ l' = l + 1

TDone == /\ l = Len(Trace) + 1
         /\ PrintT(<<"WZDONE", l - 1, ToJson(wit)>>)
         /\ l' = l + 1 /\ UNCHANGED <<js, ps, wit>>

TNext == TReset \/ TStep \/ TDone
TSpec == TInit /\ [][TNext]_tvars
=============================================================================
