SPECIFICATION SpecMC
CONSTANTS
  Starts = {"2x2","3x3","r3","n2","v4"}
  OpNames = {"InsertRow","AppendRow","DeleteRow","DeleteRows","InsertColumn","AppendColumn","DeleteColumn","DeleteColumns","SetCellText","ClearCellParagraphs","AddCellParagraph","AddNestedTable","MergeCellsHorizontal","MergeCellsVertical","MergeCellsRange","UnmergeCells","ClearTable","CopyTable","ReadAll"}
  Creates = "core"
  Depth = 0
  Slack = 1
  PairMode = "core"
  CellMode = "core"
  MaxR = 5
  MaxC = 5
  MaxP = 3
  MaxTok = 99999
  MaxLevel = 4
INVARIANTS Inv_WF Inv_Uniq Inv_Read Inv_Relation
CONSTRAINTS LevelBound
VIEW MCView
CHECK_DEADLOCK FALSE
