------------------------------- MODULE Grid -------------------------------
(***************************************************************************)
(* Pure (variable-free) specification of a table as a grid (property C09). *)
(*                                                                         *)
(* Abstract table  t = [gc |-> Int, rows |-> Seq(Seq(Cell))]               *)
(*   gc    number of declared grid columns (-1: no grid declared)          *)
(*   Cell  [tok, span, vm, np, nn]                                         *)
(*     tok   content token (positive integer, unique per written text;     *)
(*           0 = no content)                                               *)
(*     span  grid columns covered (gridSpan, 1 if absent)                  *)
(*     vm    "none" | "restart" | "cont"   (vertical merge marker)         *)
(*     np    number of paragraphs, nn number of nested tables              *)
(* Row/column/cell arguments of operations are 0-based as in the library;  *)
(* cell-level arguments address the physical cell index within the row.    *)
(*                                                                         *)
(* Two layers:                                                             *)
(*  (1) the REFERENCE machine  Valid/Apply/Ret : a merge-aware rows-by-    *)
(*      columns design.  On plain rectangular tables it is *the* plain     *)
(*      model the property speaks of; on merged tables it is one design    *)
(*      that satisfies the relation (model-checked in Grid_MC).            *)
(*  (2) the RELATION  Viol_Step(before, op, ret, after)  the property      *)
(*      states, evaluated on observed steps of the real library.           *)
(***************************************************************************)
EXTENDS Integers, Sequences, FiniteSets, TLC

Plain(t) == [tok |-> t, span |-> 1, vm |-> "none", np |-> 1, nn |-> 0]
EmptyTbl == [gc |-> 0, rows |-> <<>>]

\* ---- sequence helpers -----------------------------------------------------
SeqIns(s, i, x) == [k \in 1..(Len(s) + 1) |-> IF k < i THEN s[k] ELSE IF k = i THEN x ELSE s[k - 1]]
SeqDel(s, i)    == [k \in 1..(Len(s) - 1) |-> IF k < i THEN s[k] ELSE s[k + 1]]
SeqDelRange(s, a, b) == [k \in 1..(Len(s) - (b - a + 1)) |-> IF k < a THEN s[k] ELSE s[k + (b - a + 1)]]
DataAt(d, i) == IF i >= 1 /\ i <= Len(d) THEN d[i] ELSE 0
MaxOf(S) == IF S = {} THEN 0 ELSE CHOOSE x \in S : \A y \in S : y <= x

\* ---- geometry --------------------------------------------------------------
RECURSIVE LStart(_, _)
\* logical (0-based) start column of the physical cell j (1-based) of a row
LStart(row, j) == IF j <= 1 THEN 0 ELSE LStart(row, j - 1) + row[j - 1].span
RowSum(row) == LStart(row, Len(row) + 1)
LEnd(row, j) == LStart(row, j) + row[j].span
NR(t) == Len(t.rows)
NC0(t) == IF NR(t) = 0 THEN 0 ELSE Len(t.rows[1])
MaxCells(t) == MaxOf({Len(t.rows[i]) : i \in 1..NR(t)})
\* physical index of the cell of `row` that starts at logical column L with span S (0 = none)
CellAtLS(row, L, S) ==
  LET C == {j \in 1..Len(row) : LStart(row, j) = L /\ row[j].span = S}
  IN IF C = {} THEN 0 ELSE CHOOSE j \in C : TRUE
\* physical index of the cell covering logical column c (0 = none)
CellCovering(row, c) ==
  LET C == {j \in 1..Len(row) : LStart(row, j) <= c /\ c < LEnd(row, j)}
  IN IF C = {} THEN 0 ELSE CHOOSE j \in C : \A k \in C : j <= k
\* physical index of the cell starting at logical column L (0 = none)
CellStartingAt(row, L) ==
  LET C == {j \in 1..Len(row) : LStart(row, j) = L}
  IN IF C = {} THEN 0 ELSE CHOOSE j \in C : \A k \in C : j <= k

\* ---- well-formedness (witness classes; empty = well-formed) ----------------
Supported(rows, i, j) ==
  /\ i > 1
  /\ \E k \in 1..Len(rows[i - 1]) :
        /\ LStart(rows[i - 1], k) = LStart(rows[i], j)
        /\ rows[i - 1][k].span = rows[i][j].span
        /\ rows[i - 1][k].vm \in {"restart", "cont"}

WFV(t) ==
  LET sums == {RowSum(t.rows[i]) : i \in 1..NR(t)}
  IN  (IF Cardinality(sums) > 1 THEN {"ragged"} ELSE {})
      \cup (IF Cardinality(sums) = 1 /\ sums # {t.gc} THEN {"grid-mismatch"} ELSE {})
      \cup (IF \E i \in 1..NR(t) : \E j \in 1..Len(t.rows[i]) : t.rows[i][j].np < 1 \/ t.rows[i][j].span < 1
            THEN {"empty-cell"} ELSE {})
      \cup (IF \E i \in 1..NR(t) : \E j \in 1..Len(t.rows[i]) :
                   t.rows[i][j].vm = "cont" /\ ~Supported(t.rows, i, j)
            THEN {"dangling-vmerge"} ELSE {})
WellFormed(t) == WFV(t) = {}

HasV(t) == \E i \in 1..NR(t) : \E j \in 1..Len(t.rows[i]) : t.rows[i][j].vm # "none"
HasH(t) == \E i \in 1..NR(t) : \E j \in 1..Len(t.rows[i]) : t.rows[i][j].span # 1
HasN(t) == \E i \in 1..NR(t) : \E j \in 1..Len(t.rows[i]) : t.rows[i][j].nn > 0
IsRaggedT(t) == WFV(t) \cap {"ragged", "grid-mismatch"} # {}
\* plain rows-by-columns table: the reference machine is THE model there
IsPlain(t) == NR(t) >= 1 /\ WellFormed(t) /\ ~HasV(t) /\ ~HasH(t)
ShapeClass(t) ==
  IF IsRaggedT(t) THEN "ragged"
  ELSE IF HasV(t) THEN "vmerged"
  ELSE IF HasH(t) THEN "hmerged"
  ELSE IF HasN(t) THEN "nested"
  ELSE "rect"

\* a continuation cell that lost its start becomes the start of what is left
NormRows(rows) ==
  [i \in 1..Len(rows) |->
     [j \in 1..Len(rows[i]) |->
        IF rows[i][j].vm = "cont" /\ ~Supported(rows, i, j)
        THEN [rows[i][j] EXCEPT !.vm = "restart"] ELSE rows[i][j]]]

TokSetOf(t) == UNION {{t.rows[i][j].tok : j \in 1..Len(t.rows[i])} : i \in 1..Len(t.rows)}

\* ---- starting tables --------------------------------------------------------
RectRows(r, c) == [i \in 1..r |-> [j \in 1..c |-> Plain((i - 1) * c + j)]]
Rect(r, c) == [gc |-> c, rows |-> RectRows(r, c)]

\* fresh tables; tables carrying merges / nested tables built through the API; the same
\* saved and reopened ("..o"); ragged tables synthesised as XML and opened
\* in22 / in32: the table under test is a nested table as AddNestedTable returns it (abstractly a fresh table)
FreshStarts == {"1x1", "1x3", "3x1", "2x2", "3x3", "in22", "in32"}
\* v4: a vertical merge of three rows (a continuation with another continuation beneath it) above a plain row
MergedStarts == {"h3", "v3", "r3", "n2", "nn3", "vv4", "v4"}
\* bare3: a rectangular table opened from a part whose cells carry no w:tcPr (optional in the schema)
\* "..w": the table as another producer (Word) spells it in the part: continuation cells carry <w:vMerge/> without
\*        w:val (the implicit spelling of "continue"), the cells below a merge hold one empty paragraph
OpenedStarts == {"h3o", "v3o", "r3o", "rag", "rag2", "bare3", "v4o", "v4w", "r4w"}
AllStarts == FreshStarts \cup MergedStarts \cup OpenedStarts

\* ---- the reference machine --------------------------------------------------
InR(t, r) == r >= 0 /\ r < NR(t)
InC(t, r, c) == InR(t, r) /\ c >= 0 /\ c < Len(t.rows[r + 1])

CellOps == {"SetCellText", "SetCellFormattedText", "AddCellFormattedText", "AddCellParagraph",
            "AddCellFormattedParagraph", "ClearCellParagraphs", "ClearCellContent",
            "AddNestedTable", "AddCellList", "CellFmt"}
RowOps == {"InsertRow", "AppendRow", "DeleteRow", "DeleteRows"}
ColOps == {"InsertColumn", "AppendColumn", "DeleteColumn", "DeleteColumns"}
MergeOps == {"MergeCellsHorizontal", "MergeCellsVertical", "MergeCellsRange", "UnmergeCells"}
ReadOps == {"ReadAll", "CopyTable", "RowFmt", "TblFmt"}
AllOps == CellOps \cup RowOps \cup ColOps \cup MergeOps \cup ReadOps \cup {"ClearTable", "Start", "Create"}
\* the formatting-only calls that address one cell: op "CellFmt" carries which one in its field f
FmtKinds == {"SetCellFormat", "SetCellShading", "SetCellTextDirection", "ClearCellFormat", "RemoveCellBorders",
             "SetCellBorders", "SetCellPadding"}

\* the formatting-only calls that address the whole table: op "TblFmt" carries which one in its field f
TblFmtKinds == {"ApplyTableStyle", "SetTableBorders", "SetTableShading", "SetTableLayout", "SetTableAlignment",
                "RemoveTableBorders", "SetTablePageBreak"}
\* argument classes of the configuration handed to AddNestedTable (field cfg of the operation; absent = "ok"):
\* a valid one, no rows, no columns, fewer / more column widths than columns
NestCfgs == {"ok", "no-rows", "no-cols", "fewer-widths", "more-widths"}
NestCfgOk(op) == "cfg" \notin DOMAIN op \/ op.cfg = "ok"

\* ---- construction -----------------------------------------------------------------
\* [op |-> "Create", via, rows, cols, nw, grid]: the table under test comes into being through a constructor
\*   via   entry point: CreateTable | AddTable | AddNestedTable (the table under test is the nested one)
\*   nw    number of column widths handed in (0 = none: the widths are derived from the table width)
\*   grid  initial contents, rows of content tokens; may be smaller or larger than rows x cols in both directions
CreateVias == {"CreateTable", "AddTable", "AddNestedTable"}
CreateValid(op) == op.rows >= 1 /\ op.cols >= 1 /\ (op.nw = 0 \/ op.nw = op.cols)
CreateTbl(op) ==
  [gc |-> op.cols,
   rows |-> [i \in 1..op.rows |-> [j \in 1..op.cols |->
               Plain(IF i <= Len(op.grid) THEN DataAt(op.grid[i], j) ELSE 0)]]]
\* argument class of a construction (second element of its witness signatures, after the entry point)
CreateClass(op) ==
  IF op.rows < 1 \/ op.cols < 1 THEN "no-cells"
  ELSE IF op.nw = 0 THEN "no-widths"
  ELSE IF op.nw < op.cols THEN "fewer-widths"
  ELSE IF op.nw = op.cols THEN "widths" ELSE "more-widths"

CellEdit(cell, op) ==
  CASE op.op = "SetCellText"               -> [cell EXCEPT !.tok = op.tok, !.np = IF cell.np < 1 THEN 1 ELSE cell.np]
    [] op.op = "SetCellFormattedText"      -> [cell EXCEPT !.tok = op.tok, !.np = 1]
    [] op.op = "AddCellFormattedText"      -> [cell EXCEPT !.np = IF cell.np < 1 THEN 1 ELSE cell.np]
    [] op.op = "AddCellParagraph"          -> [cell EXCEPT !.np = cell.np + 1]
    [] op.op = "AddCellFormattedParagraph" -> [cell EXCEPT !.np = cell.np + 1]
    [] op.op = "ClearCellParagraphs"       -> [cell EXCEPT !.tok = 0, !.np = 1]
    [] op.op = "ClearCellContent"          -> [cell EXCEPT !.tok = 0]
    [] op.op = "AddNestedTable"            -> [cell EXCEPT !.nn = cell.nn + 1]
    [] op.op = "AddCellList"               -> [cell EXCEPT !.np = cell.np + 2]
    [] op.op = "CellFmt"                   -> [cell EXCEPT !.np = IF cell.np < 1 THEN 1 ELSE cell.np]
    [] OTHER                               -> cell

\* --- column insertion / deletion on one row (merge-aware) ---
RowInsCol(row, pos, tk) ==
  LET j == CellStartingAt(row, pos)
      k == CellCovering(row, pos)
  IN IF j # 0 THEN SeqIns(row, j, Plain(tk))
     ELSE IF k # 0 THEN [row EXCEPT ![k].span = row[k].span + 1]
     ELSE Append(row, Plain(tk))
RowDelCol(row, c) ==
  LET k == CellCovering(row, c)
  IN IF k = 0 THEN row
     ELSE IF row[k].span > 1 THEN [row EXCEPT ![k].span = row[k].span - 1]
     ELSE SeqDel(row, k)
RECURSIVE DelCols(_, _, _)
DelCols(rows, a, n) ==
  IF n <= 0 THEN rows ELSE DelCols([i \in 1..Len(rows) |-> RowDelCol(rows[i], a)], a, n - 1)

\* --- merges ---
RECURSIVE SpanSum(_, _, _)
SpanSum(row, a, b) == IF a > b THEN 0 ELSE row[a].span + SpanSum(row, a + 1, b)
AllNone(row, a, b) == \A j \in a..b : row[j].vm = "none"
MergeRun(row, a, b, vm, keep) ==   \* merge physical cells a..b (1-based) of a row into one
  LET m == IF keep THEN [row[a] EXCEPT !.span = SpanSum(row, a, b), !.vm = vm]
           ELSE [row[a] EXCEPT !.span = SpanSum(row, a, b), !.vm = vm, !.tok = 0, !.np = 1]
  IN [k \in 1..(Len(row) - (b - a)) |-> IF k < a THEN row[k] ELSE IF k = a THEN m ELSE row[k + (b - a)]]

\* physical run [j1, j2] of `row` covering exactly the logical interval [L, R), or <<0,0>>
RunCovering(row, L, R) ==
  LET j1 == CellStartingAt(row, L)
      C  == {j \in 1..Len(row) : LEnd(row, j) = R /\ row[j].span >= 1}
      j2 == IF C = {} THEN 0 ELSE CHOOSE j \in C : \A k \in C : k <= j
  IN IF j1 = 0 \/ j2 = 0 \/ j2 < j1 THEN <<0, 0>> ELSE <<j1, j2>>

\* the vertical run (merge group) containing cell (i, j)   (1-based)
VGroup(rows, i, j) ==
  LET L == LStart(rows[i], j)
      S == rows[i][j].span
      At(x) == CellAtLS(rows[x], L, S)
      Up(x) == /\ At(x) # 0 /\ rows[x][At(x)].vm # "none"
               /\ \A y \in (x + 1)..i : At(y) # 0 /\ rows[y][At(y)].vm = "cont"
      Down(x) == \A y \in (i + 1)..x : At(y) # 0 /\ rows[y][At(y)].vm = "cont"
  IN IF rows[i][j].vm = "none" THEN {<<i, j>>}
     ELSE {<<x, At(x)>> : x \in {x \in 1..Len(rows) : (x < i /\ Up(x)) \/ x = i \/ (x > i /\ Down(x))}}

RECURSIVE SplitRow(_, _, _)
\* split every cell of `row` whose physical index is in G (processed right to left)
SplitRow(row, G, j) ==
  IF j < 1 THEN row
  ELSE IF j \in G /\ row[j].span > 1
       THEN LET S == row[j].span
                head == [row[j] EXCEPT !.span = 1, !.vm = "none"]
                nrow == [k \in 1..(Len(row) + S - 1) |->
                           IF k < j THEN row[k] ELSE IF k = j THEN head
                           ELSE IF k < j + S THEN Plain(0) ELSE row[k - S + 1]]
            IN SplitRow(nrow, G, j - 1)
       ELSE IF j \in G THEN SplitRow([row EXCEPT ![j].vm = "none"], G, j - 1)
       ELSE SplitRow(row, G, j - 1)

Valid(t, op) ==
  CASE op.op = "Start" -> TRUE
    [] op.op = "Create" -> CreateValid(op)
    [] op.op = "InsertRow" -> op.pos >= 0 /\ op.pos <= NR(t) /\ NR(t) >= 1 /\ Len(op.data) <= t.gc
    [] op.op = "AppendRow" -> NR(t) >= 1 /\ Len(op.data) <= t.gc
    [] op.op = "DeleteRow" -> InR(t, op.i) /\ NR(t) > 1
    [] op.op = "DeleteRows" -> op.a >= 0 /\ op.b < NR(t) /\ op.a <= op.b /\ NR(t) - (op.b - op.a + 1) >= 1
    [] op.op = "InsertColumn" -> NR(t) >= 1 /\ op.pos >= 0 /\ op.pos <= t.gc /\ Len(op.data) <= NR(t)
    [] op.op = "AppendColumn" -> NR(t) >= 1 /\ Len(op.data) <= NR(t)
    [] op.op = "DeleteColumn" -> NR(t) >= 1 /\ op.i >= 0 /\ op.i < t.gc /\ t.gc > 1
    [] op.op = "DeleteColumns" -> NR(t) >= 1 /\ op.a >= 0 /\ op.b < t.gc /\ op.a <= op.b /\ t.gc - (op.b - op.a + 1) >= 1
    [] op.op = "AddNestedTable" -> InC(t, op.r, op.c) /\ NestCfgOk(op)
    [] op.op \in CellOps -> InC(t, op.r, op.c)
    [] op.op = "MergeCellsHorizontal" ->
         /\ InR(t, op.r) /\ op.a >= 0 /\ op.a < op.b /\ op.b < Len(t.rows[op.r + 1])
         /\ AllNone(t.rows[op.r + 1], op.a + 1, op.b + 1)
    [] op.op = "MergeCellsVertical" ->
         /\ op.a >= 0 /\ op.a < op.b /\ op.b < NR(t) /\ InC(t, op.a, op.c)
         /\ LET L == LStart(t.rows[op.a + 1], op.c + 1)
                S == t.rows[op.a + 1][op.c + 1].span
            IN \A i \in (op.a + 1)..(op.b + 1) :
                  LET j == CellAtLS(t.rows[i], L, S) IN j # 0 /\ t.rows[i][j].vm = "none"
    [] op.op = "MergeCellsRange" ->
         /\ op.sr >= 0 /\ op.sr <= op.er /\ op.er < NR(t)
         /\ op.sc >= 0 /\ op.sc <= op.ec /\ op.ec < Len(t.rows[op.sr + 1])
         /\ LET L == LStart(t.rows[op.sr + 1], op.sc + 1)
                R == LEnd(t.rows[op.sr + 1], op.ec + 1)
            IN \A i \in (op.sr + 1)..(op.er + 1) :
                  LET run == RunCovering(t.rows[i], L, R)
                  IN run[1] # 0 /\ AllNone(t.rows[i], run[1], run[2])
    [] op.op = "UnmergeCells" -> InC(t, op.r, op.c)
    [] OTHER -> TRUE    \* ClearTable, CopyTable, ReadAll, RowFmt, TblFmt

Do(t, op) ==
  CASE op.op = "Start" -> t   \* resolved by StartTbl below (Apply is overridden for Start)
    [] op.op = "InsertRow" ->
         [t EXCEPT !.rows = NormRows(SeqIns(t.rows, op.pos + 1, [j \in 1..t.gc |-> Plain(DataAt(op.data, j))]))]
    [] op.op = "AppendRow" ->
         [t EXCEPT !.rows = Append(t.rows, [j \in 1..t.gc |-> Plain(DataAt(op.data, j))])]
    [] op.op = "DeleteRow" -> [t EXCEPT !.rows = NormRows(SeqDel(t.rows, op.i + 1))]
    [] op.op = "DeleteRows" -> [t EXCEPT !.rows = NormRows(SeqDelRange(t.rows, op.a + 1, op.b + 1))]
    [] op.op = "InsertColumn" ->
         [gc |-> t.gc + 1,
          rows |-> NormRows([i \in 1..NR(t) |-> RowInsCol(t.rows[i], op.pos, DataAt(op.data, i))])]
    [] op.op = "AppendColumn" ->
         [gc |-> t.gc + 1,
          rows |-> [i \in 1..NR(t) |-> Append(t.rows[i], Plain(DataAt(op.data, i)))]]
    [] op.op = "DeleteColumn" -> [gc |-> t.gc - 1, rows |-> NormRows(DelCols(t.rows, op.i, 1))]
    [] op.op = "DeleteColumns" ->
         [gc |-> t.gc - (op.b - op.a + 1), rows |-> NormRows(DelCols(t.rows, op.a, op.b - op.a + 1))]
    [] op.op \in CellOps ->
         [t EXCEPT !.rows[op.r + 1][op.c + 1] = CellEdit(t.rows[op.r + 1][op.c + 1], op)]
    [] op.op = "MergeCellsHorizontal" ->
         [t EXCEPT !.rows[op.r + 1] = MergeRun(t.rows[op.r + 1], op.a + 1, op.b + 1, "none", TRUE)]
    [] op.op = "MergeCellsVertical" ->
         LET L == LStart(t.rows[op.a + 1], op.c + 1)
             S == t.rows[op.a + 1][op.c + 1].span
         IN [t EXCEPT !.rows =
               [i \in 1..NR(t) |->
                  IF i < op.a + 1 \/ i > op.b + 1 THEN t.rows[i]
                  ELSE LET j == CellAtLS(t.rows[i], L, S)
                       IN IF i = op.a + 1 THEN [t.rows[i] EXCEPT ![j].vm = "restart"]
                          ELSE [t.rows[i] EXCEPT ![j].vm = "cont", ![j].tok = 0, ![j].np = 1]]]
    [] op.op = "MergeCellsRange" ->
         LET L == LStart(t.rows[op.sr + 1], op.sc + 1)
             R == LEnd(t.rows[op.sr + 1], op.ec + 1)
         IN [t EXCEPT !.rows =
               [i \in 1..NR(t) |->
                  IF i < op.sr + 1 \/ i > op.er + 1 THEN t.rows[i]
                  ELSE LET run == RunCovering(t.rows[i], L, R)
                       IN IF i = op.sr + 1
                          THEN MergeRun(t.rows[i], run[1], run[2], IF op.er > op.sr THEN "restart" ELSE "none", TRUE)
                          ELSE MergeRun(t.rows[i], run[1], run[2], "cont", FALSE)]]
    [] op.op = "UnmergeCells" ->
         LET G == VGroup(t.rows, op.r + 1, op.c + 1)
         IN [t EXCEPT !.rows =
               [i \in 1..NR(t) |->
                  LET Gi == {g[2] : g \in {g \in G : g[1] = i}}
                  IN IF Gi = {} THEN t.rows[i] ELSE SplitRow(t.rows[i], Gi, Len(t.rows[i]))]]
    [] op.op = "ClearTable" ->
         [t EXCEPT !.rows = [i \in 1..NR(t) |-> [j \in 1..Len(t.rows[i]) |->
                                 [t.rows[i][j] EXCEPT !.tok = 0, !.np = 1]]]]
    [] OTHER -> t

ApplyOp(t, op) == IF Valid(t, op) THEN Do(t, op) ELSE t

H3 == ApplyOp(Rect(3, 3), [op |-> "MergeCellsHorizontal", r |-> 1, a |-> 0, b |-> 1])
V3 == ApplyOp(Rect(3, 3), [op |-> "MergeCellsVertical", a |-> 0, b |-> 1, c |-> 0])
R3 == ApplyOp(Rect(3, 3), [op |-> "MergeCellsRange", sr |-> 0, er |-> 1, sc |-> 0, ec |-> 1])
N2 == ApplyOp(Rect(2, 2), [op |-> "AddNestedTable", r |-> 0, c |-> 0])
\* two vertical merges stacked directly on top of each other in one column
VV4 == ApplyOp(ApplyOp(Rect(4, 2), [op |-> "MergeCellsVertical", a |-> 0, b |-> 1, c |-> 0]),
               [op |-> "MergeCellsVertical", a |-> 2, b |-> 3, c |-> 0])
\* three rows merged vertically / a block of three rows by two columns merged, one plain row beneath
V4 == ApplyOp(Rect(4, 2), [op |-> "MergeCellsVertical", a |-> 0, b |-> 2, c |-> 0])
R4 == ApplyOp(Rect(4, 3), [op |-> "MergeCellsRange", sr |-> 0, er |-> 2, sc |-> 0, ec |-> 1])
StartTbl(k) ==
  CASE k = "1x1" -> Rect(1, 1) [] k = "1x3" -> Rect(1, 3) [] k = "3x1" -> Rect(3, 1)
    [] k = "2x2" -> Rect(2, 2) [] k \in {"3x3", "bare3"} -> Rect(3, 3)
    [] k = "in22" -> Rect(2, 2) [] k = "in32" -> Rect(3, 2)
    [] k \in {"h3", "h3o"} -> H3
    [] k \in {"v3", "v3o"} -> V3
    [] k \in {"r3", "r3o"} -> R3
    [] k \in {"n2", "nn3"} -> N2     \* nn3: the nested table itself holds a nested table (same abstract state)
    [] k = "vv4" -> VV4
    [] k \in {"v4", "v4o", "v4w"} -> V4
    [] k = "r4w" -> R4
    [] k = "rag"  -> [gc |-> 3, rows |-> <<<<Plain(1), Plain(2), Plain(3)>>, <<Plain(4), Plain(5)>>, <<Plain(6), Plain(7), Plain(8)>> >>]
    [] k = "rag2" -> [gc |-> 3, rows |-> <<<<Plain(1), Plain(2)>>, <<Plain(3), Plain(4), Plain(5)>>, <<Plain(6), Plain(7), Plain(8)>> >>]
StartToks(k) == MaxOf(TokSetOf(StartTbl(k)))

\* (a construction that is refused leaves no table)
Apply(t, op) == IF op.op = "Start" THEN StartTbl(op.k)
                ELSE IF op.op = "Create" THEN (IF CreateValid(op) THEN CreateTbl(op) ELSE EmptyTbl)
                ELSE ApplyOp(t, op)
Ret(t, op) == IF Valid(t, op) THEN "ok" ELSE "err"

\* ---- content tokens ----------------------------------------------------------
Pos(t) == UNION {{<<i, j>> : j \in 1..Len(t.rows[i])} : i \in 1..NR(t)}
TokSet(t) == {t.rows[p[1]][p[2]].tok : p \in Pos(t)} \ {0}
Occ(t, k) == {p \in Pos(t) : t.rows[p[1]][p[2]].tok = k}
TheCell(t, k) == LET p == CHOOSE p \in Occ(t, k) : TRUE IN t.rows[p[1]][p[2]]
ThePos(t, k) == CHOOSE p \in Occ(t, k) : TRUE

\* tokens written by the operation itself
NewToks(op) ==
  CASE op.op \in {"InsertRow", "AppendRow", "InsertColumn", "AppendColumn"} -> {op.data[i] : i \in 1..Len(op.data)}
    [] op.op \in {"SetCellText", "SetCellFormattedText"} -> {op.tok}
    [] op.op = "Create" -> UNION {{op.grid[i][j] : j \in 1..Len(op.grid[i])} : i \in 1..Len(op.grid)}
    [] OTHER -> {}

\* positions (1-based row, physical cell) whose content the edit is allowed to change or
\* destroy.  On merged tables both the physical and the logical reading of a column /
\* range argument count as targeted (generous: never blame an edit for what it names).
RowsIn(t, a, b) == {p \in Pos(t) : p[1] >= a + 1 /\ p[1] <= b + 1}
ColHit(t, p, a, b) ==     \* cell p is at physical index a..b or overlaps logical columns a..b
  \/ (p[2] >= a + 1 /\ p[2] <= b + 1)
  \/ (LStart(t.rows[p[1]], p[2]) <= b /\ LEnd(t.rows[p[1]], p[2]) > a)
\* logical interval of the physical range a..b (0-based) in row r (1-based), clipped
LogLo(t, r, a) == IF r >= 1 /\ r <= NR(t) /\ a >= 0 /\ a < Len(t.rows[r]) THEN LStart(t.rows[r], a + 1) ELSE a
LogHi(t, r, b) == IF r >= 1 /\ r <= NR(t) /\ b >= 0 /\ b < Len(t.rows[r]) THEN LEnd(t.rows[r], b + 1) - 1 ELSE b
TargetPos(t, op) ==
  CASE op.op = "DeleteRow" -> RowsIn(t, op.i, op.i)
    [] op.op = "DeleteRows" -> RowsIn(t, op.a, op.b)
    [] op.op = "DeleteColumn" -> {p \in Pos(t) : ColHit(t, p, op.i, op.i)}
    [] op.op = "DeleteColumns" -> {p \in Pos(t) : ColHit(t, p, op.a, op.b)}
    [] op.op \in CellOps \cup {"UnmergeCells"} -> {p \in Pos(t) : p = <<op.r + 1, op.c + 1>>}
    [] op.op = "MergeCellsHorizontal" -> {p \in RowsIn(t, op.r, op.r) : p[2] >= op.a + 1 /\ p[2] <= op.b + 1}
    [] op.op = "MergeCellsVertical" ->
         {p \in RowsIn(t, op.a, op.b) :
            \/ p[2] = op.c + 1
            \/ ColHit(t, p, LogLo(t, op.a + 1, op.c), LogHi(t, op.a + 1, op.c))}
    [] op.op = "MergeCellsRange" ->
         {p \in RowsIn(t, op.sr, op.er) :
            \/ (p[2] >= op.sc + 1 /\ p[2] <= op.ec + 1)
            \/ ColHit(t, p, LogLo(t, op.sr + 1, op.sc), LogHi(t, op.sr + 1, op.ec))}
    [] op.op = "ClearTable" -> Pos(t)
    [] OTHER -> {}
Targeted(t, op) == {t.rows[p[1]][p[2]].tok : p \in TargetPos(t, op)}

\* ---- the relation of C09 on one observed step (witness classes) -------------
\* token -> set of positions, computed once per table
TokAt(t, p) == t.rows[p[1]][p[2]].tok
OccMap(t) == LET P == Pos(t)
                 T == {TokAt(t, p) : p \in P} \ {0}
             IN [k \in T |-> {p \in P : TokAt(t, p) = k}]
Viol_Preserved(b, a, op) ==
  LET mb == OccMap(b)
      ma == OccMap(a)
      tb == Targeted(b, op)
      K  == {k \in (DOMAIN mb) \ tb : Cardinality(mb[k]) = 1}
      Ka == {k \in K : k \in DOMAIN ma /\ Cardinality(ma[k]) = 1}
      PB == [k \in Ka |-> CHOOSE p \in mb[k] : TRUE]
      PA == [k \in Ka |-> CHOOSE p \in ma[k] : TRUE]
      nw == NewToks(op)
  IN  (IF \E k \in K : k \notin DOMAIN ma THEN {"lost-content"} ELSE {})
      \cup (IF \E k \in Ka : LET cb == b.rows[PB[k][1]][PB[k][2]]
                                  ca == a.rows[PA[k][1]][PA[k][2]]
                              IN ca.np # cb.np \/ ca.nn # cb.nn
            THEN {"lost-content"} ELSE {})
      \cup (IF \E k \in DOMAIN ma : Cardinality(ma[k]) > 1 /\ (k \notin DOMAIN mb \/ Cardinality(mb[k]) <= 1)
            THEN {"dup-content"} ELSE {})
      \cup (IF \E k \in DOMAIN ma : k \notin DOMAIN mb /\ k \notin nw THEN {"dup-content"} ELSE {})
      \cup (IF \E k1, k2 \in Ka :
                 \/ (PB[k1][1] = PB[k2][1] /\ PB[k1][2] < PB[k2][2]
                       /\ ~(PA[k1][1] = PA[k2][1] /\ PA[k1][2] < PA[k2][2]))
                 \/ (PB[k1][1] < PB[k2][1] /\ ~(PA[k1][1] < PA[k2][1]))
            THEN {"wrong-place"} ELSE {})

\* ill-formedness the step introduced: a class the table did not already show before the call
\* ("ragged" and "grid-mismatch" are one family: rows that disagree with the declared grid)
GridFam == {"ragged", "grid-mismatch"}
NewWFV(b, a) == LET wb == WFV(b) IN WFV(a) \ (wb \cup (IF wb \cap GridFam # {} THEN GridFam ELSE {}))

\* comparison with the plain rows-by-columns model where it is unambiguous
Viol_Plain(b, a, op) ==
  IF ~IsPlain(b) \/ op.op = "Start" THEN {}
  ELSE IF a # ApplyOp(b, op) THEN {"wrong-place"} ELSE {}

\* frame of the calls that address ONE cell (content edits, UnmergeCells): a cell outside the merge
\* group of the addressed cell keeps its place in the row (logical start), its span and its
\* vertical-merge role - no reading of "unmerge this cell" dissolves or re-shapes another merge
Viol_Frame(b, a, op) ==
  IF op.op \notin CellOps \cup {"UnmergeCells"} THEN {}
  ELSE IF ~InC(b, op.r, op.c) \/ ~WellFormed(b) THEN {}   \* merge groups are only unambiguous in a well-formed table
  ELSE LET G == IF op.op = "UnmergeCells" THEN VGroup(b.rows, op.r + 1, op.c + 1) \cup {<<op.r + 1, op.c + 1>>}
                ELSE {<<op.r + 1, op.c + 1>>}
           Kept(p) == /\ p[1] <= NR(a)
                      /\ \E j \in 1..Len(a.rows[p[1]]) :
                            /\ LStart(a.rows[p[1]], j) = LStart(b.rows[p[1]], p[2])
                            /\ a.rows[p[1]][j].span = b.rows[p[1]][p[2]].span
                            /\ a.rows[p[1]][j].vm = b.rows[p[1]][p[2]].vm
       IN IF \E p \in Pos(b) \ G : ~Kept(p) THEN {"untargeted-merge-changed"} ELSE {}

\* a construction either fails leaving no table, or yields a well-formed grid; where the plain model accepts the
\* arguments, the table is the one the plain model says (rows x cols, initial contents in place)
Viol_Create(op, ret, a) ==
  IF ret = "panic" THEN {"panic"}
  ELSE IF ret = "err" THEN (IF a # EmptyTbl THEN {"changed-on-error"} ELSE {})
  ELSE IF a = EmptyTbl THEN {"no-table"}
  ELSE IF WFV(a) # {} THEN WFV(a)
  ELSE IF CreateValid(op) /\ a # CreateTbl(op) THEN {"wrong-place"} ELSE {}

Viol_Step(b, op, ret, a) ==
  IF op.op = "Start" THEN {}
  ELSE IF op.op = "Create" THEN Viol_Create(op, ret, a)
  ELSE IF ret = "panic" THEN {"panic"}
  ELSE IF ret = "err" THEN (IF a # b THEN {"changed-on-error"} ELSE {})
  ELSE LET rel == NewWFV(b, a) \cup Viol_Preserved(b, a, op) \cup Viol_Frame(b, a, op)
       IN IF rel # {} THEN rel ELSE Viol_Plain(b, a, op)

\* ---- read-only operations -------------------------------------------------------
\* what a full traversal must visit: every physical cell, row-major
CellsOf(t) ==
  LET RECURSIVE Go(_, _)
      Go(i, j) == IF i > NR(t) THEN <<>>
                  ELSE IF j > Len(t.rows[i]) THEN Go(i + 1, 1)
                  ELSE <<[r |-> i - 1, c |-> j - 1, tok |-> t.rows[i][j].tok]>> \o Go(i, j + 1)
  IN Go(1, 1)
Viol_Read(t, rd) ==   \* rd = [ret, cells]
  IF rd.ret = "panic" THEN {"panic"}
  ELSE IF rd.ret # "ok" THEN {"read-error"}
  ELSE IF rd.cells # CellsOf(t) THEN {"read-mismatch"} ELSE {}
=============================================================================
