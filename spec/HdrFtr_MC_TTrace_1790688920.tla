---- MODULE HdrFtr_MC_TTrace_1790688920 ----
EXTENDS HdrFtr_MC, Sequences, TLCExt, Toolbox, Naturals, TLC

_expression ==
    LET HdrFtr_MC_TEExpression == INSTANCE HdrFtr_MC_TEExpression
    IN HdrFtr_MC_TEExpression!expression
----

_trace ==
    LET HdrFtr_MC_TETrace == INSTANCE HdrFtr_MC_TETrace
    IN HdrFtr_MC_TETrace!trace
----

_inv ==
    ~(
        TLCGet("level") = Len(_TETrace)
        /\
        st = ([def |-> ([kind |-> "default", hf |-> "h"] :> [align |-> "", items |-> <<[f |-> [st |-> FALSE, b |-> FALSE, i |-> FALSE, u |-> FALSE, color |-> "", hl |-> "", sz |-> 0, font |-> ""], k |-> "t", tc |-> "plain", n |-> 2]>>, on |-> TRUE, np |-> 1, stray |-> FALSE] @@ [kind |-> "default", hf |-> "f"] :> [align |-> "", items |-> <<>>, on |-> FALSE, np |-> 0, stray |-> FALSE] @@ [kind |-> "first", hf |-> "h"] :> [align |-> "", items |-> <<>>, on |-> FALSE, np |-> 0, stray |-> FALSE] @@ [kind |-> "first", hf |-> "f"] :> [align |-> "", items |-> <<>>, on |-> FALSE, np |-> 0, stray |-> FALSE] @@ [kind |-> "even", hf |-> "h"] :> [align |-> "", items |-> <<>>, on |-> FALSE, np |-> 0, stray |-> FALSE] @@ [kind |-> "even", hf |-> "f"] :> [align |-> "", items |-> <<>>, on |-> FALSE, np |-> 0, stray |-> FALSE]), clk |-> 2, pkg |-> [rels |-> <<[id |-> "rId1", tgt |-> "word/styles.xml", ty |-> "other"], [id |-> "rId2", tgt |-> "word/header1.xml", ty |-> "header"], [id |-> "rId3", tgt |-> "word/header1.xml", ty |-> "header"]>>, titlePg |-> FALSE, evenOdd |-> FALSE, refs |-> <<[kind |-> "default", rid |-> "rId2", hf |-> "h"], [kind |-> "default", rid |-> "rId3", hf |-> "h"]>>, parts |-> <<[c |-> [align |-> "", items |-> <<[f |-> [st |-> FALSE, b |-> FALSE, i |-> FALSE, u |-> FALSE, color |-> "", hl |-> "", sz |-> 0, font |-> ""], k |-> "t", tc |-> "plain", n |-> 2]>>, np |-> 1], name |-> "word/header1.xml", ok |-> TRUE, root |-> "hdr", ct |-> "header"]>>]])
        /\
        hist = (<<>>)
        /\
        last = ([op |-> "AddHeader", kind |-> "default", tc |-> "plain"])
    )
----

_init ==
    /\ hist = _TETrace[1].hist
    /\ last = _TETrace[1].last
    /\ st = _TETrace[1].st
----

_next ==
    /\ \E i,j \in DOMAIN _TETrace:
        /\ \/ /\ j = i + 1
              /\ i = TLCGet("level")
        /\ hist  = _TETrace[i].hist
        /\ hist' = _TETrace[j].hist
        /\ last  = _TETrace[i].last
        /\ last' = _TETrace[j].last
        /\ st  = _TETrace[i].st
        /\ st' = _TETrace[j].st

\* Uncomment the ASSUME below to write the states of the error trace
\* to the given file in Json format. Note that you can pass any tuple
\* to `JsonSerialize`. For example, a sub-sequence of _TETrace.
    \* ASSUME
    \*     LET J == INSTANCE Json
    \*         IN J!JsonSerialize("HdrFtr_MC_TTrace_1790688920.json", _TETrace)

=============================================================================

 Note that you can extract this module `HdrFtr_MC_TEExpression`
  to a dedicated file to reuse `expression` (the module in the 
  dedicated `HdrFtr_MC_TEExpression.tla` file takes precedence 
  over the module `HdrFtr_MC_TEExpression` below).

---- MODULE HdrFtr_MC_TEExpression ----
EXTENDS HdrFtr_MC, Sequences, TLCExt, Toolbox, Naturals, TLC

expression == 
    [
        \* To hide variables of the `HdrFtr_MC` spec from the error trace,
        \* remove the variables below.  The trace will be written in the order
        \* of the fields of this record.
        hist |-> hist
        ,last |-> last
        ,st |-> st
        
        \* Put additional constant-, state-, and action-level expressions here:
        \* ,_stateNumber |-> _TEPosition
        \* ,_histUnchanged |-> hist = hist'
        
        \* Format the `hist` variable as Json value.
        \* ,_histJson |->
        \*     LET J == INSTANCE Json
        \*     IN J!ToJson(hist)
        
        \* Lastly, you may build expressions over arbitrary sets of states by
        \* leveraging the _TETrace operator.  For example, this is how to
        \* count the number of times a spec variable changed up to the current
        \* state in the trace.
        \* ,_histModCount |->
        \*     LET F[s \in DOMAIN _TETrace] ==
        \*         IF s = 1 THEN 0
        \*         ELSE IF _TETrace[s].hist # _TETrace[s-1].hist
        \*             THEN 1 + F[s-1] ELSE F[s-1]
        \*     IN F[_TEPosition - 1]
    ]

=============================================================================



Parsing and semantic processing can take forever if the trace below is long.
 In this case, it is advised to uncomment the module below to deserialize the
 trace from a generated binary file.

\*
\*---- MODULE HdrFtr_MC_TETrace ----
\*EXTENDS HdrFtr_MC, IOUtils, TLC
\*
\*trace == IODeserialize("HdrFtr_MC_TTrace_1790688920.bin", TRUE)
\*
\*=============================================================================
\*

---- MODULE HdrFtr_MC_TETrace ----
EXTENDS HdrFtr_MC, TLC

trace == 
    <<
    ([st |-> [def |-> ([kind |-> "default", hf |-> "h"] :> [align |-> "", items |-> <<>>, on |-> FALSE, np |-> 0, stray |-> FALSE] @@ [kind |-> "default", hf |-> "f"] :> [align |-> "", items |-> <<>>, on |-> FALSE, np |-> 0, stray |-> FALSE] @@ [kind |-> "first", hf |-> "h"] :> [align |-> "", items |-> <<>>, on |-> FALSE, np |-> 0, stray |-> FALSE] @@ [kind |-> "first", hf |-> "f"] :> [align |-> "", items |-> <<>>, on |-> FALSE, np |-> 0, stray |-> FALSE] @@ [kind |-> "even", hf |-> "h"] :> [align |-> "", items |-> <<>>, on |-> FALSE, np |-> 0, stray |-> FALSE] @@ [kind |-> "even", hf |-> "f"] :> [align |-> "", items |-> <<>>, on |-> FALSE, np |-> 0, stray |-> FALSE]), clk |-> 0, pkg |-> [rels |-> <<[id |-> "rId1", tgt |-> "word/styles.xml", ty |-> "other"]>>, titlePg |-> FALSE, evenOdd |-> FALSE, refs |-> <<>>, parts |-> <<>>]],hist |-> <<>>,last |-> [op |-> "New"]]),
    ([st |-> [def |-> ([kind |-> "default", hf |-> "h"] :> [align |-> "", items |-> <<[f |-> [st |-> FALSE, b |-> FALSE, i |-> FALSE, u |-> FALSE, color |-> "", hl |-> "", sz |-> 0, font |-> ""], k |-> "t", tc |-> "plain", n |-> 1]>>, on |-> TRUE, np |-> 1, stray |-> FALSE] @@ [kind |-> "default", hf |-> "f"] :> [align |-> "", items |-> <<>>, on |-> FALSE, np |-> 0, stray |-> FALSE] @@ [kind |-> "first", hf |-> "h"] :> [align |-> "", items |-> <<>>, on |-> FALSE, np |-> 0, stray |-> FALSE] @@ [kind |-> "first", hf |-> "f"] :> [align |-> "", items |-> <<>>, on |-> FALSE, np |-> 0, stray |-> FALSE] @@ [kind |-> "even", hf |-> "h"] :> [align |-> "", items |-> <<>>, on |-> FALSE, np |-> 0, stray |-> FALSE] @@ [kind |-> "even", hf |-> "f"] :> [align |-> "", items |-> <<>>, on |-> FALSE, np |-> 0, stray |-> FALSE]), clk |-> 1, pkg |-> [rels |-> <<[id |-> "rId1", tgt |-> "word/styles.xml", ty |-> "other"], [id |-> "rId2", tgt |-> "word/header1.xml", ty |-> "header"]>>, titlePg |-> FALSE, evenOdd |-> FALSE, refs |-> <<[kind |-> "default", rid |-> "rId2", hf |-> "h"]>>, parts |-> <<[c |-> [align |-> "", items |-> <<[f |-> [st |-> FALSE, b |-> FALSE, i |-> FALSE, u |-> FALSE, color |-> "", hl |-> "", sz |-> 0, font |-> ""], k |-> "t", tc |-> "plain", n |-> 1]>>, np |-> 1], name |-> "word/header1.xml", ok |-> TRUE, root |-> "hdr", ct |-> "header"]>>]],hist |-> <<>>,last |-> [op |-> "AddHeader", kind |-> "default", tc |-> "plain"]]),
    ([st |-> [def |-> ([kind |-> "default", hf |-> "h"] :> [align |-> "", items |-> <<[f |-> [st |-> FALSE, b |-> FALSE, i |-> FALSE, u |-> FALSE, color |-> "", hl |-> "", sz |-> 0, font |-> ""], k |-> "t", tc |-> "plain", n |-> 2]>>, on |-> TRUE, np |-> 1, stray |-> FALSE] @@ [kind |-> "default", hf |-> "f"] :> [align |-> "", items |-> <<>>, on |-> FALSE, np |-> 0, stray |-> FALSE] @@ [kind |-> "first", hf |-> "h"] :> [align |-> "", items |-> <<>>, on |-> FALSE, np |-> 0, stray |-> FALSE] @@ [kind |-> "first", hf |-> "f"] :> [align |-> "", items |-> <<>>, on |-> FALSE, np |-> 0, stray |-> FALSE] @@ [kind |-> "even", hf |-> "h"] :> [align |-> "", items |-> <<>>, on |-> FALSE, np |-> 0, stray |-> FALSE] @@ [kind |-> "even", hf |-> "f"] :> [align |-> "", items |-> <<>>, on |-> FALSE, np |-> 0, stray |-> FALSE]), clk |-> 2, pkg |-> [rels |-> <<[id |-> "rId1", tgt |-> "word/styles.xml", ty |-> "other"], [id |-> "rId2", tgt |-> "word/header1.xml", ty |-> "header"], [id |-> "rId3", tgt |-> "word/header1.xml", ty |-> "header"]>>, titlePg |-> FALSE, evenOdd |-> FALSE, refs |-> <<[kind |-> "default", rid |-> "rId2", hf |-> "h"], [kind |-> "default", rid |-> "rId3", hf |-> "h"]>>, parts |-> <<[c |-> [align |-> "", items |-> <<[f |-> [st |-> FALSE, b |-> FALSE, i |-> FALSE, u |-> FALSE, color |-> "", hl |-> "", sz |-> 0, font |-> ""], k |-> "t", tc |-> "plain", n |-> 2]>>, np |-> 1], name |-> "word/header1.xml", ok |-> TRUE, root |-> "hdr", ct |-> "header"]>>]],hist |-> <<>>,last |-> [op |-> "AddHeader", kind |-> "default", tc |-> "plain"]])
    >>
----


=============================================================================

---- CONFIG HdrFtr_MC_TTrace_1790688920 ----
CONSTANTS
    MaxSteps = 2
    Depth = 0
    OpNames = { "AddHeader" , "AddFooterWithPageNumber" , "AddFormattedHeader" , "SetDifferentFirstPage" , "PageSet" , "AddImage" , "AddListItem" , "ToBytes" , "Reopen" , "Render" }
    HfC = { "h" , "f" }
    KindsC = { "default" , "first" }
    TextC = { "plain" , "var" }
    ShowC = { TRUE }
    FmtC = { "bold" }
    AlignC = { "center" }
    CfgNilC = { TRUE }
    PageC = { "SetPageMargins" }
    ViaC = { "mem" }
    RViaC = { "doc" }
    DataC = { "def" }
    Design = "append"

INVARIANT
    _inv

CHECK_DEADLOCK
    \* CHECK_DEADLOCK off because of PROPERTY or INVARIANT above.
    FALSE

INIT
    _init

NEXT
    _next

CONSTANT
    _TETrace <- _trace

ALIAS
    _expression
=============================================================================
\* Generated on Tue Sep 29 13:35:22 UTC 2026