SPECIFICATION SpecMC
CONSTANTS
  MaxSteps = 3
  Depth = 0
  OpNames = {"AddImage", "AddHeader", "AddFootnote", "SetFootnoteConfig"}
  KindsC = {"default"}
  WhereC = {"body"}
  ViaC = {"data", "text", "mem"}
  StartNew = TRUE
  SchemesC = {"sparse", "styleslast"}
  ContentsC = {"one"}
  FlagsC = {FALSE}
  AbsC = {FALSE}
  PicC = {"png"}
  KeepC = {"only"}
  LastC = {}
  Design = "asbuilt"
INVARIANTS Inv_C02
CHECK_DEADLOCK FALSE
