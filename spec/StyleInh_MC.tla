---------------------------- MODULE StyleInh_MC ----------------------------
(***************************************************************************)
(* StyleInh: exhaustive exploration of the reference machine (SpecMC),      *)
(* enumeration of every (registry, query) input (SpecEnum) and generation   *)
(* of operation sequences (SpecGen, used with -simulate).                   *)
(***************************************************************************)
EXTENDS StyleInh, Json, SequencesExt

CONSTANTS NStyles,    \* number of style ids ("s1" .. "sN")
          TwoSlots,   \* SpecMC/SpecGen: does slot y vary (TRUE) or stay unset (FALSE)
          YModes,     \* SpecEnum: how slot y's mask relates to slot x's:
                      \*   "free" any, "empty" nowhere, "all" everywhere, "compl" exactly where x is not, "same" where x is
          TailMode,   \* SpecEnum: what follows Load, Resolve, ToXML, Info on the same queried id:
                      \*   "none" nothing; "clone" CloneDrop, CloneSwap, Resolve (on the copy), MutRes;
                      \*   "rmr": the behaviour is Load, Resolve, <every registry-changing operation>, Resolve
                      \*   (resolution must follow the registry: nothing remembered from an earlier call);
                      \*   "rmr+clone": both families
          Depth,      \* SpecGen: behaviour length
          OpNames     \* SpecMC/SpecGen: operation names explored

VARIABLES st, hist
vars == <<st, hist>>

IdSeq == [k \in 1..NStyles |-> "s" \o ToString(k)]   \* order of definition in Load
TailOps == IF TailMode \in {"clone", "rmr+clone"} THEN <<"CloneDrop", "CloneSwap", "Resolve", "MutRes">> ELSE <<>>
Ids == {IdSeq[i] : i \in 1..Len(IdSeq)}
Bs  == Ids \cup {NONE, GHOST}           \* basedOn: any style (self included), none, an undefined id
Qs  == Ids \cup {GHOST}                 \* queried ids, one of them never defined
YB  == IF TwoSlots THEN BOOLEAN ELSE {FALSE}

OpsOf(s) ==
     (IF "AddStyle" \in OpNames
        THEN {[op |-> "AddStyle", s |-> i, b |-> b, x |-> x, y |-> y] : i \in Ids, b \in Bs, x \in BOOLEAN, y \in YB} ELSE {})
  \cup (IF "RemoveStyle" \in OpNames THEN {[op |-> "RemoveStyle", s |-> i] : i \in Qs} ELSE {})
  \cup (IF "Create" \in OpNames THEN {[op |-> "Create", s |-> i, b |-> b] : i \in Ids, b \in Bs} ELSE {})
  \cup (IF "Edit" \in OpNames
        THEN {[op |-> "Edit", s |-> i, b |-> b, x |-> x, y |-> y] : i \in Ids, b \in Bs \cup {"keep"}, x \in BOOLEAN, y \in YB} ELSE {})
  \cup {[op |-> n, q |-> q] : n \in OpNames \cap {"Resolve", "ToXML", "Info", "MutRes"}, q \in Qs}
  \cup {[op |-> n] : n \in OpNames \cap (CloneOps \cup {"List"})}

Init == st = InitSt /\ hist = <<>>

\* in SpecMC hist holds just the operation taken last (cfg: VIEW MCView, so states are registries)
NextMC == \E op \in OpsOf(st) : st' = Apply(st, op) /\ hist' = <<op>>
SpecMC == Init /\ [][NextMC]_vars
MCView == st

\* Generation (-simulate picks successors uniformly): queries and clone operations are given the
\* weight ReadWeight through a dummy field w (ignored by the executor) so that a random prefix mixes
\* registry changes and queries about evenly; the last operation of a behaviour is always a query or
\* clone operation (TLC evaluates Emit on every successor, so each random prefix is completed by all
\* of them).
ReadWeight == 4
GenOps(s, last) ==
  IF last THEN {op \in OpsOf(s) : op.op \notin Mutators}
  ELSE {op \in OpsOf(s) : op.op \in Mutators}
       \cup {[op |-> n, q |-> q, w |-> w] : n \in OpNames \cap {"Resolve", "ToXML", "Info", "MutRes"}, q \in Qs, w \in 1..ReadWeight}
       \cup {[op |-> n, w |-> w] : n \in OpNames \cap (CloneOps \cup {"List"}), w \in 1..ReadWeight}
NextGen == /\ Len(hist) < Depth
           /\ \E op \in GenOps(st, Len(hist) = Depth - 1) : st' = Apply(st, op) /\ hist' = Append(hist, op)
SpecGen == Init /\ [][NextGen]_vars

\* ---- design-level statement of C14 on the reference machine -----------------------
\* every reachable registry (= every registry over Ids: any basedOn graph with self loops,
\* cycles, missing parents; any subset of styles defined; every mask) and every queried id
Inv_Terminates == \A q \in Qs : ChainOK(st.reg, q)
Inv_Nearest    == \A q \in Qs : NearestOK(st.reg, q)
Inv_StepLaw    == \A q \in Qs : StepLawOK(st.reg, q)
Inv_Owner      == \A q \in Qs : OwnerOK(st.reg, q)
Inv_Found      == \A q \in Qs : Resolve(st.reg, q).found = (q \in DOMAIN st.reg)
                               /\ (q \notin DOMAIN st.reg => Chain(st.reg, q) = <<>>)
\* resolving, describing and cloning never change the registry
Inv_ReadOnly   == \A op \in OpsOf(st) : op.op \in Readers \cup CloneOps => Apply(st, op).reg = st.reg

\* frame: redefining or removing a style that resolution of q does not consult leaves q's result alone
ChainSet(reg, q) == {Chain(reg, q)[i] : i \in 1..Len(Chain(reg, q))}
Consults(reg, q, s) ==
  \/ q = s \/ s \in ChainSet(reg, q)
  \/ (q \in DOMAIN reg /\ reg[Chain(reg, q)[Len(Chain(reg, q))]].b = s)
Act_Frame ==
  [][LET op == hist'[1] IN
        op.op \in {"AddStyle", "RemoveStyle", "Create", "Edit"} =>
           \A q \in Qs : ~Consults(st.reg, q, op.s) => Resolve(st'.reg, q) = Resolve(st.reg, q)]_vars
\* resolving, describing and cloning are not transitions of the registry
Act_ReadOnly ==
  [][hist'[1].op \in Readers \cup CloneOps => st' = st]_vars
\* a style's own setting always wins, whatever is done to other styles
Act_OwnWins ==
  [][\A q \in Ids : q \in DOMAIN st'.reg =>
        /\ (st'.reg[q].x => Owner(st'.reg, q, "x") = q)
        /\ (st'.reg[q].y => Owner(st'.reg, q, "y") = q)]_vars

\* ---- enumeration of all inputs: one behaviour per (registry over all of Ids, query) ----
YOf(xs, m) ==
  CASE m = "free"  -> [Ids -> BOOLEAN]
    [] m = "empty" -> {[i \in Ids |-> FALSE]}
    [] m = "all"   -> {[i \in Ids |-> TRUE]}
    [] m = "compl" -> {[i \in Ids |-> ~xs[i]]}
    [] m = "same"  -> {xs}
    [] OTHER       -> {}

CaseOf(bs, xs, ys, q) ==
  <<[op |-> "Load", defs |-> [k \in 1..Len(IdSeq) |->
        [s |-> IdSeq[k], b |-> bs[IdSeq[k]], x |-> xs[IdSeq[k]], y |-> ys[IdSeq[k]]]]],
    [op |-> "Resolve", q |-> q], [op |-> "ToXML", q |-> q], [op |-> "Info", q |-> q]>>
  \o [k \in 1..Len(TailOps) |-> IF TailOps[k] \in CloneOps THEN [op |-> TailOps[k]] ELSE [op |-> TailOps[k], q |-> q]]

\* registry-changing operations whose y follows the same mode as the enumerated registry
YFor(x, m) == CASE m = "free" -> BOOLEAN [] m = "empty" -> {FALSE} [] m = "all" -> {TRUE}
                [] m = "compl" -> {~x} [] m = "same" -> {x} [] OTHER -> {}
MutOpsEnum(m) ==
       {[op |-> "AddStyle", s |-> i, b |-> b, x |-> x, y |-> y] : <<i, b, x, y>> \in
            {t \in Ids \X Bs \X BOOLEAN \X BOOLEAN : t[4] \in YFor(t[3], m)}}
  \cup {[op |-> "RemoveStyle", s |-> i] : i \in Qs}
  \cup {[op |-> "Create", s |-> i, b |-> b] : i \in Ids, b \in Bs}
  \cup {[op |-> "Edit", s |-> i, b |-> b, x |-> x, y |-> y] : <<i, b, x, y>> \in
            {t \in Ids \X (Bs \cup {"keep"}) \X BOOLEAN \X BOOLEAN : t[4] \in YFor(t[3], m) /\ (t[2] # "keep" \/ t[3] \/ t[4])}}
RmrOf(bs, xs, ys, q, mu) ==
  <<CaseOf(bs, xs, ys, q)[1], [op |-> "Resolve", q |-> q], mu, [op |-> "Resolve", q |-> q]>>

InitEnum ==
  \E bs \in [Ids -> Bs], xs \in [Ids -> BOOLEAN], m \in YModes, q \in Qs :
    \E ys \in YOf(xs, m) :
      /\ \/ /\ TailMode \in {"rmr", "rmr+clone"}
               /\ q \in Ids /\ \E mu \in MutOpsEnum(m) : hist = RmrOf(bs, xs, ys, q, mu)
            \/ /\ TailMode # "rmr"
               /\ hist = CaseOf(bs, xs, ys, q)
      /\ st = Apply(InitSt, hist[1])
SpecEnum == InitEnum /\ [][UNCHANGED vars /\ FALSE]_vars

\* the expected result is part of what the model checks on every enumerated input
Inv_EnumSound == \A q \in Qs : /\ ChainOK(st.reg, q) /\ NearestOK(st.reg, q) /\ StepLawOK(st.reg, q) /\ OwnerOK(st.reg, q)
                               /\ Resolve(st.reg, q).found = (q \in DOMAIN st.reg)

\* ---- generation: print each complete behaviour once ---------------------------------
Emit     == Len(hist) < Depth \/ PrintT(<<"WZCASE", ToJson(hist)>>)
EmitEnum == PrintT(<<"WZCASE", ToJson(hist)>>)
=============================================================================
