---------------------------- MODULE StyleInh_MC ----------------------------
(***************************************************************************)
(* StyleInh: exhaustive exploration of the reference machine (SpecMC),      *)
(* enumeration of every (registry, query) input (SpecEnum) and generation   *)
(* of operation sequences (SpecGen, used with -simulate).                   *)
(***************************************************************************)
EXTENDS StyleInh, Json, SequencesExt

CONSTANTS NStyles,    \* number of style ids ("s1" .. "sN")
          TwoSlots,   \* SpecMC/SpecGen: does slot y vary (TRUE) or stay unset (FALSE)
          YModes,     \* SpecEnum: how slot y's mask relates to slot x's:
                      \*   "free" any, "empty" nowhere, "all" everywhere, "compl" exactly where x is not, "same" where x is
          Kinds,      \* which kinds of alias (StyleInh!AliasKinds) occur as based-on references / queried ids
          Plans,      \* SpecEnum: the families of behaviours that are enumerated (a set):
                      \*   "plain": Load, Resolve, ToXML, Info on the same queried id, for every registry and queried id;
                      \*   "clone": the same followed by CloneDrop, CloneSwap, Resolve (on the copy), MutRes;
                      \*   "rmr":   Load, Resolve, Clone, <every registry-changing operation>, Resolve,
                      \*            OnClone(<CloneReads> on the same id), OnClone(Peek), OnClone(<the same change>), OnClone(Peek)
                      \*            (resolution follows the registry, nothing is remembered from an earlier call; the copy
                      \*            taken before the change is read for the first time after it and still resolves as
                      \*            before; the change made to the copy afterwards does not reach the source);
                      \*   "alias": Load, Resolve, ToXML, Info for every registry in which some style is based on an
                      \*            alias of a style, queried for every style id and every alias that occurs
                      \*   "xml":   LoadXML (each loader), Resolve, ToXML, Info: every registry as a styles part
          CloneReads, \* "rmr": the operations through which the copy is read for the first time (one behaviour each)
          Depth,      \* SpecGen: behaviour length
          OpNames     \* SpecMC/SpecGen: operation names explored

VARIABLES st, hist
vars == <<st, hist>>

IdSeq == [k \in 1..NStyles |-> "s" \o ToString(k)]   \* order of definition in Load
TailOps == IF "clone" \in Plans THEN <<"CloneDrop", "CloneSwap", "Resolve", "MutRes">> ELSE <<>>
Ids == {IdSeq[i] : i \in 1..Len(IdSeq)}
Als == AliasesOf(Kinds, Ids)
Bs  == Ids \cup {NONE, GHOST}           \* basedOn: any style (self included), none, an undefined id
Qs  == Ids \cup {GHOST}                 \* queried ids, one of them never defined
BsA == Bs \cup Als                      \* ... and the aliases of the styles
QsA == Qs \cup Als
YB  == IF TwoSlots THEN BOOLEAN ELSE {FALSE}

\* operations on one registry
BaseOps ==
     (IF "AddStyle" \in OpNames
        THEN {[op |-> "AddStyle", s |-> i, b |-> b, x |-> x, y |-> y] : i \in Ids, b \in BsA, x \in BOOLEAN, y \in YB} ELSE {})
  \cup (IF "RemoveStyle" \in OpNames THEN {[op |-> "RemoveStyle", s |-> i] : i \in Qs} ELSE {})
  \cup (IF "Create" \in OpNames THEN {[op |-> "Create", s |-> i, b |-> b] : i \in Ids, b \in BsA} ELSE {})
  \cup (IF "Edit" \in OpNames
        THEN {[op |-> "Edit", s |-> i, b |-> b, x |-> x, y |-> y] : i \in Ids, b \in BsA \cup {"keep"}, x \in BOOLEAN, y \in YB} ELSE {})
  \cup {[op |-> n, q |-> q] : n \in OpNames \cap {"Resolve", "ToXML", "Info", "MutRes"}, q \in QsA}
  \cup {[op |-> n] : n \in OpNames \cap (CloneOps \cup {"List"})}
  \* a styles part that defines one style, through each of the loaders
  \cup (IF "LoadXML" \in OpNames
        THEN {[op |-> "LoadXML", how |-> h, defs |-> <<[s |-> i, b |-> b, x |-> x, y |-> (TwoSlots /\ ~x)]>>] :
                 h \in XmlHows, i \in Ids, b \in Bs, x \in BOOLEAN} ELSE {})
\* ... and on the pair: take a copy; address an operation to the copy
OpsOf(s) ==
       BaseOps
  \cup (IF "Clone" \in OpNames THEN {[op |-> "Clone"]} ELSE {})
  \cup (IF "OnClone" \in OpNames /\ s.has
        THEN {[op |-> "OnClone", o |-> o] : o \in {b \in BaseOps : b.op \in InnerOps} \cup {[op |-> "Peek"]}} ELSE {})

Init == st = InitSt /\ hist = <<>>

\* in SpecMC hist holds just the operation taken last (cfg: VIEW MCView, so states are registries)
NextMC == \E op \in OpsOf(st) : st' = Apply(st, op) /\ hist' = <<op>>
SpecMC == Init /\ [][NextMC]_vars
MCView == st

\* Generation (-simulate picks successors uniformly): queries and clone operations are given the
\* weight ReadWeight, Clone the weight CloneWeight, through a dummy field w (ignored by the executor) so that
\* a random prefix mixes registry changes and queries about evenly and most behaviours take a copy early; the
\* last operation of a behaviour is always a query or clone operation (TLC evaluates Emit on every successor,
\* so each random prefix is completed by all of them).
ReadWeight == 4
CloneWeight == 40
IsChange(op) == IF op.op = "OnClone" THEN op.o.op \in Mutators ELSE op.op \in Mutators \cup {"Clone"}
Weighted(op, n) == {[f \in (DOMAIN op) \cup {"w"} |-> IF f = "w" THEN w ELSE op[f]] : w \in 1..n}
GenOps(s, last) ==
  IF last THEN {op \in OpsOf(s) : ~IsChange(op)}
  ELSE {op \in OpsOf(s) : IsChange(op) /\ op.op # "Clone"}
       \cup UNION {Weighted(op, ReadWeight) : op \in {o \in OpsOf(s) : ~IsChange(o)}}
       \cup UNION {Weighted(op, CloneWeight) : op \in {o \in OpsOf(s) : o.op = "Clone"}}
NextGen == /\ Len(hist) < Depth
           /\ \E op \in GenOps(st, Len(hist) = Depth - 1) : st' = Apply(st, op) /\ hist' = Append(hist, op)
SpecGen == Init /\ [][NextGen]_vars

\* ---- design-level statement of C14 on the reference machine -----------------------
\* every reachable registry (= every registry over Ids: any basedOn graph with self loops,
\* cycles, missing parents; any subset of styles defined; every mask) and every queried id
Inv_Terminates == \A q \in QsA : ChainOK(st.reg, q)
Inv_Nearest    == \A q \in QsA : NearestOK(st.reg, q)
Inv_StepLaw    == \A q \in QsA : StepLawOK(st.reg, q)
Inv_Owner      == \A q \in QsA : OwnerOK(st.reg, q)
Inv_Found      == \A q \in QsA : Resolve(st.reg, q).found = (q \in DOMAIN st.reg)
                               /\ (q \notin DOMAIN st.reg => Chain(st.reg, q) = <<>>)
Inv_Undef      == \A q \in Ids : UndefParentOK(st.reg, q)
\* resolving, describing and cloning never change the registry
Inv_ReadOnly   == \A op \in OpsOf(st) : op.op \in Readers \cup CloneOps => Apply(st, op).reg = st.reg

\* frame: redefining or removing a style that resolution of q does not consult leaves q's result alone
ChainSet(reg, q) == {Chain(reg, q)[i] : i \in 1..Len(Chain(reg, q))}
Consults(reg, q, s) ==
  \/ q = s \/ s \in ChainSet(reg, q)
  \/ (q \in DOMAIN reg /\ reg[Chain(reg, q)[Len(Chain(reg, q))]].b = s)
Act_Frame ==
  [][LET op == hist'[1] IN
        op.op \in {"AddStyle", "RemoveStyle", "Create", "Edit"} =>
           \A q \in QsA : ~Consults(st.reg, q, op.s) => Resolve(st'.reg, q) = Resolve(st.reg, q)]_vars
\* resolving, describing and cloning are not transitions of the registry
Act_ReadOnly ==
  [][LET op == hist'[1] IN
        (op.op \in Readers \cup CloneOps \/ (op.op = "OnClone" /\ op.o.op \in Readers)) => st' = st]_vars
\* a style's own setting always wins, whatever is done to other styles
Act_OwnWins ==
  [][\A q \in Ids : q \in DOMAIN st'.reg =>
        /\ (st'.reg[q].x => Owner(st'.reg, q, "x") = q)
        /\ (st'.reg[q].y => Owner(st'.reg, q, "y") = q)]_vars
\* "a cloned registry is fully independent of its source":
\* the copy is the registry as it is when Clone is called (every id resolves the same way) ...
Act_Snapshot ==
  [][hist'[1].op = "Clone" =>
        /\ st'.reg = st.reg /\ st'.has /\ st'.cl = st.reg
        /\ \A q \in QsA : Resolve(st'.cl, q) = Resolve(st.reg, q)]_vars
\* ... and from then on nothing done to one of the two is seen through the other: every id resolves on the
\* untouched side as it did before the step, whichever side the step was addressed to
Act_Isolated ==
  [][LET op == hist'[1] IN
        /\ (op.op = "OnClone" => st'.reg = st.reg /\ \A q \in QsA : Resolve(st'.reg, q) = Resolve(st.reg, q))
        /\ (op.op \notin PairOps => st'.cl = st.cl /\ st'.has = st.has
                                      /\ \A q \in QsA : Resolve(st'.cl, q) = Resolve(st.cl, q))
        \* an operation addressed to the copy does to the copy what it would do to any registry
        /\ (op.op = "OnClone" => st'.cl = ApplyReg(st.cl, op.o) /\ Ret(st, op) = RetReg(st.cl, op.o))]_vars
\* the copy obeys the same design-level statements as any registry
Inv_CopySound == st.has => \A q \in QsA : /\ ChainOK(st.cl, q) /\ NearestOK(st.cl, q) /\ StepLawOK(st.cl, q)
                                            /\ OwnerOK(st.cl, q) /\ UndefParentOK(st.cl, q)

\* ---- enumeration of all inputs: one behaviour per (registry over all of Ids, query) ----
YOf(xs, m) ==
  CASE m = "free"  -> [Ids -> BOOLEAN]
    [] m = "empty" -> {[i \in Ids |-> FALSE]}
    [] m = "all"   -> {[i \in Ids |-> TRUE]}
    [] m = "compl" -> {[i \in Ids |-> ~xs[i]]}
    [] m = "same"  -> {xs}
    [] OTHER       -> {}

LoadOf(bs, xs, ys) ==
  [op |-> "Load", defs |-> [k \in 1..Len(IdSeq) |->
        [s |-> IdSeq[k], b |-> bs[IdSeq[k]], x |-> xs[IdSeq[k]], y |-> ys[IdSeq[k]]]]]
PlainOf(bs, xs, ys, q) ==
  <<LoadOf(bs, xs, ys), [op |-> "Resolve", q |-> q], [op |-> "ToXML", q |-> q], [op |-> "Info", q |-> q]>>
CaseOf(bs, xs, ys, q) ==
  PlainOf(bs, xs, ys, q)
  \o [k \in 1..Len(TailOps) |-> IF TailOps[k] \in CloneOps THEN [op |-> TailOps[k]] ELSE [op |-> TailOps[k], q |-> q]]

\* registry-changing operations whose y follows the same mode as the enumerated registry
YFor(x, m) == CASE m = "free" -> BOOLEAN [] m = "empty" -> {FALSE} [] m = "all" -> {TRUE}
                [] m = "compl" -> {~x} [] m = "same" -> {x} [] OTHER -> {}
MutOpsEnum(m) ==
       {[op |-> "AddStyle", s |-> i, b |-> b, x |-> x, y |-> y] : <<i, b, x, y>> \in
            {t \in Ids \X Bs \X BOOLEAN \X BOOLEAN : t[4] \in YFor(t[3], m)}}
  \cup {[op |-> "RemoveStyle", s |-> i] : i \in Qs}
  \cup {[op |-> "Create", s |-> i, b |-> b] : i \in Ids, b \in Bs}
  \cup {[op |-> "Edit", s |-> i, b |-> b, x |-> x, y |-> y] : <<i, b, x, y>> \in
            {t \in Ids \X (Bs \cup {"keep"}) \X BOOLEAN \X BOOLEAN : t[4] \in YFor(t[3], m) /\ (t[2] # "keep" \/ t[3] \/ t[4])}}
ReadOf(r, q) == IF r \in {"List", "Peek"} THEN [op |-> r] ELSE [op |-> r, q |-> q]
RmrOf(bs, xs, ys, q, mu, r) ==
  <<LoadOf(bs, xs, ys), [op |-> "Resolve", q |-> q], [op |-> "Clone"], mu, [op |-> "Resolve", q |-> q],
    [op |-> "OnClone", o |-> ReadOf(r, q)], [op |-> "OnClone", o |-> [op |-> "Peek"]],
    [op |-> "OnClone", o |-> mu], [op |-> "OnClone", o |-> [op |-> "Peek"]]>>

\* based-on graphs in which at least one style refers to its parent by an alias (and none to GHOST: those
\* graphs are enumerated by "plain")
AliasGraphs == {bs \in [Ids -> Ids \cup {NONE} \cup Als] : \E i \in Ids : bs[i] \in Als}

RECURSIVE ApplyAll(_, _, _)
ApplyAll(s, ops, i) == IF i > Len(ops) THEN s ELSE ApplyAll(Apply(s, ops[i]), ops, i + 1)

InitEnum ==
  \E xs \in [Ids -> BOOLEAN], m \in YModes :
    \E ys \in YOf(xs, m) :
      /\ \/ /\ "rmr" \in Plans
            /\ \E bs \in [Ids -> Bs], q \in Ids, mu \in MutOpsEnum(m), r \in CloneReads : hist = RmrOf(bs, xs, ys, q, mu, r)
         \/ /\ Plans \cap {"plain", "clone"} # {}
            /\ \E bs \in [Ids -> Bs], q \in Qs : hist = CaseOf(bs, xs, ys, q)
         \/ /\ "xml" \in Plans
            /\ \E bs \in [Ids -> Bs], q \in Ids, h \in XmlHows :
                  hist = <<[op |-> "LoadXML", how |-> h, defs |-> LoadOf(bs, xs, ys).defs]>> \o Tail(PlainOf(bs, xs, ys, q))
         \/ /\ "alias" \in Plans
            /\ \E bs \in AliasGraphs : \E q \in Ids \cup {bs[i] : i \in {j \in Ids : bs[j] \in Als}} :
                  hist = PlainOf(bs, xs, ys, q)
      /\ st = ApplyAll(InitSt, hist, 1)
SpecEnum == InitEnum /\ [][UNCHANGED vars /\ FALSE]_vars

\* the expected result is part of what the model checks on every enumerated input (st: the state the
\* behaviour ends in; for "rmr" the changed source and the equally changed copy)
SoundReg(reg) == \A q \in QsA : /\ ChainOK(reg, q) /\ NearestOK(reg, q) /\ StepLawOK(reg, q) /\ OwnerOK(reg, q)
                                  /\ UndefParentOK(reg, q)
                                  /\ Resolve(reg, q).found = (q \in DOMAIN reg)
Inv_EnumSound == SoundReg(st.reg) /\ (st.has => SoundReg(st.cl) /\ st.cl = st.reg)

\* ---- generation: print each complete behaviour once ---------------------------------
Emit     == Len(hist) < Depth \/ PrintT(<<"WZCASE", ToJson(hist)>>)
EmitEnum == PrintT(<<"WZCASE", ToJson(hist)>>)
=============================================================================
