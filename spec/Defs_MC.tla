------------------------------ MODULE Defs_MC ------------------------------
(* Exhaustive exploration (SpecMC) of the reference machine of Defs and      *)
(* behaviour generation (SpecGen).                                           *)
EXTENDS Defs, Json

CONSTANTS MaxSteps,   \* bound on behaviour length for the exhaustive check
          Depth,      \* behaviour length for generation
          OpNames,    \* operation names explored
          Lv,         \* heading / TOC entry levels
          Maxes,      \* TOC maximum levels
          StyIds,     \* ids a caller passes to SetStyle
          AddIds,     \* ids a caller adds through the style API
          ModIds,     \* ids a caller changes
          RmIds,      \* ids a caller removes
          Tpls,       \* table style templates
          TblIds,     \* style ids a caller passes to ApplyTableStyle
          ListTypes, Shapes, Kinds, ViasC, HowsC, FreshC,
          OnIds,      \* ids a style added through the style API is based on (built-in, custom, unknown)
          NoteKinds,  \* "fn" / "en"
          Looks       \* what a caller reads: "styles" | "body" | "parts"

VARIABLES st, hist, n
vars == <<st, hist, n>>

On(x) == x \in OpNames
OpsOf(s) ==
     (IF On("AddHeading") THEN {[op |-> "AddHeading", l |-> l] : l \in Lv} ELSE {})
  \cup (IF On("SetStyle") THEN {[op |-> "SetStyle", id |-> i] : i \in StyIds} ELSE {})
  \cup (IF On("AddStyle") THEN {x \in {[op |-> "AddStyle", id |-> i, v |-> NextVer(VerOf(s.ver, i)), via |-> w, on |-> b] :
                                                 i \in AddIds, w \in ViasC, b \in OnIds} : x.on # x.id} ELSE {})
  \cup (IF On("ModifyStyle") THEN {[op |-> "ModifyStyle", id |-> i, v |-> NextVer(VerOf(s.ver, i)), how |-> h] : i \in ModIds, h \in HowsC} ELSE {})
  \cup (IF On("RemoveStyle") THEN {[op |-> "RemoveStyle", id |-> i] : i \in RmIds} ELSE {})
  \cup (IF On("GenerateTOC") THEN {[op |-> "GenerateTOC", max |-> m] : m \in Maxes} ELSE {})
  \cup (IF On("AutoGenerateTOC") THEN {[op |-> "AutoGenerateTOC", max |-> m] : m \in Maxes} ELSE {})
  \cup (IF On("UpdateTOC") THEN {[op |-> "UpdateTOC"]} ELSE {})
  \cup (IF On("TOCEntry") THEN {[op |-> "TOCEntry", l |-> l] : l \in Lv} ELSE {})
  \cup (IF On("ApplyTableStyle") THEN {[op |-> "ApplyTableStyle", kind |-> "template", id |-> t] : t \in Tpls}
                                      \cup {[op |-> "ApplyTableStyle", kind |-> "id", id |-> i] : i \in TblIds} ELSE {})
  \cup (IF On("CreateCustomTableStyle") THEN {[op |-> "CreateCustomTableStyle", id |-> "TS1"]} ELSE {})
  \cup (IF On("AddListItem") THEN {[op |-> "AddListItem", t |-> t] : t \in ListTypes} ELSE {})
  \cup (IF On("AddNote") THEN {[op |-> "AddNote", k |-> k] : k \in NoteKinds} ELSE {})
  \cup (IF On("RemoveNote") THEN {[op |-> "RemoveNote", k |-> x.k, id |-> x.id] : x \in s.notes} ELSE {})
  \cup (IF On("Save") THEN {[op |-> "Save", how |-> "ToBytes"]} ELSE {})
  \cup (IF On("SaveFile") THEN {[op |-> "Save", how |-> "Save"]} ELSE {})
  \cup (IF On("Reopen") THEN {[op |-> "Reopen", fresh |-> f] : f \in FreshC} ELSE {})
  \cup (IF On("OpenForeign") THEN {[op |-> "OpenForeign", shape |-> ForeignShape(x)] : x \in Shapes} ELSE {})
  \cup (IF On("Markdown") THEN {[op |-> "Markdown", kind |-> k] : k \in Kinds} ELSE {})
  \* operations that emit no ids; RenderTemplate = load the document as a template and render it (a copy);
  \* Look = the caller reads (style manager, styles, paragraphs, tables) without changing anything;
  \* Switch = go on with the other document of the process (a new one the first time)
  \cup (IF On("Look") THEN {[op |-> "Look", what |-> w] : w \in Looks} ELSE {})
  \cup {[op |-> x] : x \in OpNames \cap {"AddParagraph", "AddHeader", "AddFooter", "AddTable", "RenderTemplate", "Switch"}}

Init == st = InitSt /\ hist = <<>> /\ n = 0

NextMC == /\ n < MaxSteps
          /\ \E op \in OpsOf(st) : st' = Apply(st, op)
          /\ n' = n + 1 /\ hist' = hist
SpecMC == Init /\ [][NextMC]_vars

NextGen == /\ Len(hist) < Depth
           /\ \E op \in OpsOf(st) :
                /\ st' = Apply(st, op)
                /\ hist' = Append(hist, op)
           /\ n' = n
SpecGen == Init /\ [][NextGen]_vars

\* ---- properties of the reference machine (C13 at design level) -----------
\* whatever is saved now resolves every id, and carries every added/changed style
Inv_Defined == /\ Viol_C13(st, SaveView(st)) = {}
               /\ (st.alt # <<>> => Viol_C13(st.alt[1], SaveView(st.alt[1])) = {})
Inv_Wf == /\ PendIds(st) \subseteq st.reg
          /\ {d.id : d \in st.ver} \subseteq st.reg
          /\ \A x \in st.nums : x.a \in st.abss
          /\ \A r \in st.nrefs : \E x \in st.nums : x.n = r.n
          /\ \A r \in st.noterefs : [k |-> r.k, id |-> r.id] \in st.notes
          /\ \A r \in st.refs : r.id \in st.reg \/ CallerOwned(r.by) \/ r.id \in st.removed
          /\ {b.id : b \in st.based} \subseteq st.reg
          /\ (st.alt # <<>> => st.alt[1].alt = <<>>)
\* between saves, a registry style that differs from the styles part is pending or was registered by a helper
Inv_Pending == st.hasPart =>
                 \A i \in st.reg : VerOf(st.ver, i) # VerOf(st.pver, i) => i \in PendIds(st)
\* a save writes the registry
Act_Save ==
  [][\A op \in OpsOf(st) :
        (op.op \in {"Save", "Reopen"} /\ st' = Apply(st, op))
           => (st'.part = st.reg /\ st'.pver = st.ver /\ st'.pending = {} /\ st'.hasPart)]_vars
\* helpers never lose a definition
Act_Keep ==
  [][\A op \in OpsOf(st) :
        (st' = Apply(st, op) /\ op.op \notin StyleApi \cup {"OpenForeign", "Markdown", "Switch"})
           => /\ st.reg \subseteq st'.reg /\ st.ver = st'.ver
              /\ st.nums \subseteq st'.nums /\ st.abss \subseteq st'.abss
              /\ (op.op # "RemoveNote" => st.notes \subseteq st'.notes)]_vars

\* RemoveStyle removes the style named and nothing else (styles based on it stay defined)
Act_Remove ==
  [][\A op \in OpsOf(st) :
        (op.op = "RemoveStyle" /\ st' = Apply(st, op))
           => (st'.reg = st.reg \ {op.id} /\ \A i \in st'.reg : VerOf(st'.ver, i) = VerOf(st.ver, i) /\ OnOf(st', i) = OnOf(st, i))]_vars
\* two documents of one process do not touch each other: only Switch changes which one is current,
\* switching there and back changes nothing, reading changes nothing
Act_Isolated ==
  [][\A op \in OpsOf(st) :
        st' = Apply(st, op)
           => /\ (op.op # "Switch" => st'.alt = st.alt)
              /\ (op.op = "Switch" => st'.alt = <<Bare(st)>> /\ Apply(st', op) = [st EXCEPT !.alt = IF @ = <<>> THEN <<InitSt>> ELSE @])
              /\ (op.op = "Look" => st' = st)]_vars

\* ---- generation: print each complete behaviour once ----------------------
Emit == Len(hist) < Depth \/ PrintT(<<"WZCASE", ToJson(hist)>>)
=============================================================================
