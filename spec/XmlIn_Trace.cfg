SPECIFICATION TSpec
CHECK_DEADLOCK FALSE
