----------------------------- MODULE RoundTrip -----------------------------
(***************************************************************************)
(* Save / Open round trip of a document (property C03).                    *)
(*                                                                         *)
(* ABSTRACT DOCUMENT (a "projection"):                                     *)
(*   [ els  : Seq([k, sig, src, ents]),   body elements without sectPr     *)
(*     sect : ents, hs : 0..1 ]           section properties, present?     *)
(*   k    kind: p tbl bms bme sdt math                                     *)
(*   sig  identifying signature (kind + token of the element's text)       *)
(*   src  index of the constructor call that created it (0 = unknown)      *)
(*   ents function  key -> [v value, g group, up governing node key];      *)
(*        one entry per structural node below the element, per attribute,  *)
(*        per text leaf and per meaningful empty element (see               *)
(*        x_roundtrip_proj.go). g names the element a reader `case` has    *)
(*        to handle (keepNext, pBdr, br, tbl, gridSpan, pgSz ...).         *)
(*                                                                         *)
(* OPERATIONS: Build(els, sect, se), Save, Open. A Build names, per body   *)
(* element, a constructor token and a canonical-order sequence of feature  *)
(* tokens (one per public setter / constructor variant / argument class,   *)
(* FeatTable); `sect` are the document-level (section) features.           *)
(*                                                                         *)
(* PROPERTY: Save;Open is the identity on the abstract document, Save      *)
(* after Open writes the same abstract document again, and further cycles  *)
(* are fixed points. It is stated as witness sets by JudgeStep, which      *)
(* compares consecutive projections of the SAME type (memory with memory,  *)
(* saved part with saved part) and the in-memory document with the first   *)
(* saved part (same abstract type, two independent projectors).            *)
(***************************************************************************)
EXTENDS Integers, Sequences, FiniteSets, TLC

\* ---- the feature alphabet -------------------------------------------------
\* cls  element class the token applies to: p paragraph, t table, i image, s section
\* gs   groups the call is specified to leave in the document (attribution + observability)
\* exp  "all": every group of gs is present afterwards;  "none": no presence claim
\*      (removing setters, no-op stubs of the API, argument classes that set nothing)
\* req  capabilities the constructor must offer
F(id, cls, gs, exp, req) == [id |-> id, cls |-> cls, gs |-> gs, exp |-> exp, req |-> req]

FeatTable == <<
  F("x.text.edgews",       "p", {"t"}, "all", {"text"}),
  F("x.text.tabnl",        "p", {"t"}, "all", {"text"}),
  F("x.text.cjk",          "p", {"t"}, "all", {"text"}),
  F("x.text.astral",       "p", {"t"}, "all", {"text"}),
  F("x.text.xmlmeta",      "p", {"t"}, "all", {"text"}),
  F("x.text.cdataend",     "p", {"t"}, "all", {"text"}),
  F("x.text.wsonly",       "p", {"t"}, "all", {"text"}),
  F("x.text.exotic",       "p", {"t"}, "all", {"text"}),
  F("x.text.empty",        "p", {"t"}, "none", {"emptytext", "text"}),
  F("x.text.long",         "p", {"t"}, "all", {"text"}),
  F("tf.empty",            "p", {}, "none", {"tf"}),
  F("tf.bold",             "p", {"b"}, "all", {"tf"}),
  F("tf.italic",           "p", {"i"}, "all", {"tf"}),
  F("tf.size",             "p", {"sz"}, "all", {"tf"}),
  F("tf.color",            "p", {"color"}, "all", {"tf"}),
  F("tf.colorhash",        "p", {"color"}, "all", {"tf"}),
  F("tf.family",           "p", {"rFonts"}, "all", {"tf"}),
  F("tf.fontname",         "p", {"rFonts"}, "all", {"tf"}),
  F("tf.underline",        "p", {"u"}, "all", {"tf"}),
  F("tf.strike",           "p", {"strike"}, "all", {"tf"}),
  F("tf.highlight",        "p", {"highlight"}, "all", {"tf"}),
  F("i.cfg.empty",         "i", {}, "none", {}),
  F("i.size.wh",           "i", {"extent", "xfrm"}, "all", {}),
  F("i.size.wkeep",        "i", {"extent", "xfrm"}, "all", {}),
  F("i.size.hkeep",        "i", {"extent", "xfrm"}, "all", {}),
  F("i.size.wnokeep",      "i", {"extent", "xfrm"}, "all", {}),
  F("i.align.left",        "i", {"jc"}, "all", {}),
  F("i.align.center",      "i", {"jc"}, "all", {}),
  F("i.align.right",       "i", {"jc"}, "all", {}),
  F("i.alt",               "i", {"cNvPr", "docPr"}, "all", {}),
  F("i.title",             "i", {"cNvPr", "docPr"}, "all", {}),
  F("i.fl.default",        "i", {"anchor", "cNvGraphicFramePr", "effectExtent", "positionH", "positionV", "simplePos", "wrapSquare"}, "all", {}),
  F("i.fl.none",           "i", {"anchor", "cNvGraphicFramePr", "effectExtent", "positionH", "positionV", "simplePos", "wrapNone"}, "all", {}),
  F("i.fl.square",         "i", {"anchor", "cNvGraphicFramePr", "effectExtent", "positionH", "positionV", "simplePos", "wrapSquare"}, "all", {}),
  F("i.fl.tight",          "i", {"anchor", "cNvGraphicFramePr", "effectExtent", "positionH", "positionV", "simplePos", "wrapTight"}, "all", {}),
  F("i.fl.topbottom",      "i", {"anchor", "cNvGraphicFramePr", "effectExtent", "positionH", "positionV", "simplePos", "wrapTopAndBottom"}, "all", {}),
  F("i.fr.square",         "i", {"anchor", "cNvGraphicFramePr", "effectExtent", "positionH", "positionV", "simplePos", "wrapSquare"}, "all", {}),
  F("i.fr.tight",          "i", {"anchor", "cNvGraphicFramePr", "effectExtent", "positionH", "positionV", "simplePos", "wrapTight"}, "all", {}),
  F("i.off.x",             "i", {}, "none", {}),
  F("i.off.y",             "i", {}, "none", {}),
  F("i.off.xy",            "i", {}, "none", {}),
  F("tc.data",             "t", {"t"}, "all", {"tbldata"}),
  F("tc.colwidths",        "t", {"tblGrid", "tcW"}, "all", {"tbldata"}),
  F("tc.emph",             "t", {"b", "i"}, "all", {"c2", "r2", "tblcfg"}),
  F("p.align.left",        "p", {"jc"}, "all", {}),
  F("p.align.center",      "p", {"jc"}, "all", {}),
  F("p.align.right",       "p", {"jc"}, "all", {}),
  F("p.align.both",        "p", {"jc"}, "all", {}),
  F("p.spacing.line",      "p", {"spacing"}, "all", {}),
  F("p.spacing.before",    "p", {"spacing"}, "all", {}),
  F("p.spacing.after",     "p", {"spacing"}, "all", {}),
  F("p.spacing.first",     "p", {"ind"}, "all", {}),
  F("p.spacing.all",       "p", {"ind", "spacing"}, "all", {}),
  F("p.spacing.zero",      "p", {}, "none", {}),
  F("p.spacing.nil",       "p", {}, "none", {}),
  F("p.ind.first",         "p", {"ind"}, "all", {}),
  F("p.ind.hanging",       "p", {"ind"}, "all", {}),
  F("p.ind.left",          "p", {"ind"}, "all", {}),
  F("p.ind.right",         "p", {"ind"}, "all", {}),
  F("p.ind.all",           "p", {"ind"}, "all", {}),
  F("p.ind.negleft",       "p", {"ind"}, "all", {}),
  F("p.ind.zero",          "p", {}, "none", {}),
  F("p.keepNext.on",       "p", {"keepNext"}, "all", {}),
  F("p.keepNext.off",      "p", {}, "none", {}),
  F("p.keepLines.on",      "p", {"keepLines"}, "all", {}),
  F("p.keepLines.off",     "p", {}, "none", {}),
  F("p.pbb.on",            "p", {"pageBreakBefore"}, "all", {}),
  F("p.pbb.off",           "p", {}, "none", {}),
  F("p.widow.on",          "p", {"widowControl"}, "all", {}),
  F("p.widow.off",         "p", {"widowControl"}, "all", {}),
  F("p.outline.0",         "p", {"outlineLvl"}, "all", {}),
  F("p.outline.3",         "p", {"outlineLvl"}, "all", {}),
  F("p.outline.8",         "p", {"outlineLvl"}, "all", {}),
  F("p.outline.neg",       "p", {"outlineLvl"}, "all", {}),
  F("p.outline.big",       "p", {"outlineLvl"}, "all", {}),
  F("p.snap.off",          "p", {"snapToGrid"}, "all", {}),
  F("p.snap.on",           "p", {}, "none", {}),
  F("p.style.h2",          "p", {"pStyle"}, "all", {}),
  F("p.style.normal",      "p", {"pStyle"}, "all", {}),
  F("p.style.custom",      "p", {"pStyle"}, "all", {}),
  F("p.format.full",       "p", {"ind", "jc", "keepLines", "keepNext", "outlineLvl", "pStyle", "pageBreakBefore", "snapToGrid", "spacing", "widowControl"}, "all", {}),
  F("p.format.min",        "p", {"jc", "outlineLvl", "widowControl"}, "all", {}),
  F("p.format.nil",        "p", {}, "none", {}),
  F("p.border.bottom",     "p", {"pBdr"}, "all", {}),
  F("p.border.all",        "p", {"pBdr"}, "all", {}),
  F("p.border.topleft",    "p", {"pBdr"}, "all", {}),
  F("p.border.clear",      "p", {}, "none", {}),
  F("p.hrule",             "p", {"pBdr"}, "all", {}),
  F("p.bold.on",           "p", {"b", "bCs"}, "all", {}),
  F("p.bold.off",          "p", {}, "none", {}),
  F("p.italic.on",         "p", {"i", "iCs"}, "all", {}),
  F("p.italic.off",        "p", {}, "none", {}),
  F("p.underline.on",      "p", {"u"}, "all", {}),
  F("p.underline.off",     "p", {}, "none", {}),
  F("p.strike.on",         "p", {"strike"}, "all", {}),
  F("p.strike.off",        "p", {}, "none", {}),
  F("p.highlight.yellow",  "p", {"highlight"}, "all", {}),
  F("p.highlight.clear",   "p", {}, "none", {}),
  F("p.font.arial",        "p", {"rFonts"}, "all", {}),
  F("p.font.cjk",          "p", {"rFonts"}, "all", {}),
  F("p.font.clear",        "p", {}, "none", {}),
  F("p.size.16",           "p", {"sz", "szCs"}, "all", {}),
  F("p.size.zero",         "p", {}, "none", {}),
  F("p.color.red",         "p", {"color"}, "all", {}),
  F("p.color.hash",        "p", {"color"}, "all", {}),
  F("p.color.clear",       "p", {}, "none", {}),
  F("p.addtext.plain",     "p", {"r", "t"}, "all", {}),
  F("p.addtext.fmt",       "p", {"b", "color", "highlight", "i", "r", "rFonts", "strike", "sz", "t", "u"}, "all", {}),
  F("p.addtext.emptyfmt",  "p", {"r", "t"}, "all", {}),
  F("p.addtext.ws",        "p", {"i", "r", "t"}, "all", {}),
  F("p.addtext.empty",     "p", {"b", "r", "t"}, "none", {}),
  F("p.footnote.torun",   "p", {"t"}, "none", {}),
  F("p.addbreak",          "p", {"br", "r"}, "all", {}),
  F("p.inlinemath",        "p", {"r", "t"}, "all", {}),
  F("p.struct.tabs",       "p", {"tabs"}, "all", {}),
  F("p.struct.linebreak",  "p", {"br", "r"}, "all", {}),
  F("p.struct.textbreak",  "p", {"br", "r", "t"}, "all", {}),
  F("p.struct.fldchar",    "p", {"fldChar", "r"}, "all", {}),
  F("p.struct.instr",      "p", {"instrText", "r"}, "all", {}),
  F("p.struct.field",      "p", {"fldChar", "instrText", "r", "t"}, "all", {}),
  F("p.struct.linerule",   "p", {"spacing"}, "all", {}),
  F("p.struct.hint",       "p", {"rFonts"}, "all", {}),
  F("p.struct.udouble",    "p", {"u"}, "all", {}),
  F("p.struct.numpr",      "p", {"numPr"}, "all", {}),
  F("p.struct.cs",         "p", {"bCs", "iCs", "szCs"}, "all", {}),
  F("t.celltext.plain",    "t", {"t"}, "all", {}),
  F("t.celltext.edgews",   "t", {"t"}, "all", {}),
  F("t.celltext.xmlmeta",  "t", {"t"}, "all", {}),
  F("t.celltext.empty",    "t", {"t"}, "none", {}),
  F("t.cellfmt.full",      "t", {"b", "color", "i", "jc", "rFonts", "sz", "textDirection", "vAlign"}, "all", {}),
  F("t.cellfmt.vtop",      "t", {"vAlign"}, "all", {}),
  F("t.cellfmt.hcenter",   "t", {"jc"}, "all", {}),
  F("t.cellfmt.empty",     "t", {}, "none", {}),
  F("t.cellftext",         "t", {"b", "color", "i", "p", "r", "rFonts", "sz", "t"}, "all", {}),
  F("t.cellftext.nil",     "t", {"p", "r", "t"}, "all", {}),
  F("t.celladdtext",       "t", {"b", "color", "r", "t"}, "all", {}),
  F("t.cellpara",          "t", {"p", "r", "t"}, "all", {}),
  F("t.cellfpara",         "t", {"b", "color", "highlight", "i", "p", "r", "rFonts", "strike", "sz", "t", "u"}, "all", {}),
  F("t.celllist.bullet",   "t", {"p", "r", "t"}, "all", {}),
  F("t.celllist.roman",    "t", {"p", "r", "t"}, "all", {}),
  F("t.cellimage",         "t", {"blip", "cNvPicPr", "cNvPr", "docPr", "drawing", "extent", "inline", "p", "prstGeom", "r", "stretch", "xfrm"}, "all", {}),
  F("t.cellimage.sized",   "t", {"blip", "cNvPicPr", "cNvPr", "docPr", "drawing", "extent", "inline", "p", "prstGeom", "r", "stretch", "xfrm"}, "all", {}),
  F("t.cellimage.file",    "t", {"blip", "cNvPicPr", "cNvPr", "docPr", "drawing", "extent", "inline", "p", "prstGeom", "r", "stretch", "xfrm"}, "all", {}),
  F("t.cellimage.same",    "t", {"blip", "cNvPicPr", "cNvPr", "docPr", "drawing", "extent", "inline", "p", "prstGeom", "r", "stretch", "xfrm"}, "all", {}),   \* the same bytes in two pictures
  F("t.nested.d1",         "t", {"p", "r", "t", "tbl", "tc", "tr"}, "all", {}),
  F("t.nested.d2",         "t", {"p", "r", "t", "tbl", "tc", "tr"}, "all", {}),
  F("t.nested.two",        "t", {"p", "r", "t", "tbl", "tc", "tr"}, "all", {}),
  F("t.merge.h",           "t", {"gridSpan", "tc"}, "all", {"c2"}),
  F("t.merge.h.all",       "t", {"gridSpan", "tc"}, "all", {"c2"}),
  F("t.merge.v",           "t", {"p", "r", "vMerge"}, "all", {"r2"}),
  F("t.merge.v.all",       "t", {"p", "r", "vMerge"}, "all", {"r2"}),
  F("t.merge.range",       "t", {"gridSpan", "p", "r", "tc", "vMerge"}, "all", {"c2", "r2"}),
  F("t.merge.hv",          "t", {"gridSpan", "p", "r", "tc", "vMerge"}, "all", {"c2", "r2"}),
  F("t.unmerge",           "t", {}, "none", {"c2"}),
  F("t.rowheight.exact",   "t", {"trHeight"}, "all", {}),
  F("t.rowheight.atleast", "t", {"trHeight"}, "all", {}),
  F("t.rowheight.auto",    "t", {"trHeight"}, "all", {}),
  F("t.rowheight.range",   "t", {"trHeight"}, "all", {}),
  F("t.rowheader",         "t", {"tblHeader"}, "all", {}),
  F("t.rowheader.off",     "t", {}, "none", {}),
  F("t.headerrows",        "t", {"tblHeader"}, "all", {}),
  F("t.cantsplit",         "t", {"cantSplit"}, "all", {}),
  F("t.cantsplit.off",     "t", {}, "none", {}),
  F("t.align.left",        "t", {"jc"}, "all", {}),
  F("t.align.right",       "t", {"jc"}, "all", {}),
  F("t.layout.floating",   "t", {}, "none", {}),
  F("t.noop.pagebreak",    "t", {}, "none", {}),
  F("t.noop.rowkeepnext",  "t", {}, "none", {}),
  F("t.noop.cellpadding",  "t", {}, "none", {}),
  F("t.style.grid",        "t", {"tblLook", "tblStyle"}, "all", {}),
  F("t.style.custom",      "t", {"tblLook", "tblStyle"}, "all", {}),
  F("t.style.customfull",  "t", {"shd", "tblLook", "tblStyle"}, "all", {}),
  F("t.borders.all",       "t", {"tblBorders"}, "all", {}),
  F("t.borders.partial",   "t", {"tblBorders"}, "all", {}),
  F("t.borders.empty",     "t", {"tblBorders"}, "none", {}),
  F("t.borders.none",      "t", {"tblBorders"}, "all", {}),
  F("t.shading",           "t", {"shd"}, "all", {}),
  F("t.cellborders.all",   "t", {"tcBorders"}, "all", {}),
  F("t.cellborders.diag",  "t", {"tcBorders"}, "all", {}),
  F("t.cellborders.none",  "t", {"tcBorders"}, "all", {}),
  F("t.cellshading",       "t", {"shd"}, "all", {}),
  F("t.altrows",           "t", {"shd"}, "all", {}),
  F("t.textdir",           "t", {"textDirection"}, "all", {}),
  F("t.appendrow",         "t", {"p", "r", "t", "tc", "tcW", "tr", "vAlign"}, "all", {}),
  F("t.insertrow0",        "t", {"p", "r", "t", "tc", "tcW", "tr", "vAlign"}, "all", {}),
  F("t.appendcol",         "t", {"p", "r", "t", "tblGrid", "tc", "tcW"}, "all", {}),
  F("t.insertcol0",        "t", {"p", "r", "t", "tblGrid", "tc", "tcW"}, "all", {}),
  F("t.deleterow0",        "t", {}, "none", {"r2"}),
  F("t.deletecol0",        "t", {}, "none", {"c2"}),
  F("t.clear",             "t", {}, "none", {}),
  F("t.clearcellcontent",  "t", {}, "none", {}),
  F("t.clearcellformat",   "t", {}, "none", {}),
  F("t.clearcellparas",    "t", {}, "none", {}),
  F("t.copy",              "t", {}, "none", {}),
  F("t.struct.tblind",     "t", {"tblInd"}, "all", {}),
  F("t.struct.nowrap",     "t", {"hideMark", "noWrap"}, "all", {}),
  F("t.struct.tcmar",      "t", {"tcMar"}, "all", {}),
  F("t.struct.cellmar",    "t", {"tblCellMar"}, "all", {}),
  F("t.struct.themecolor", "t", {"shd", "tblBorders"}, "all", {}),
  F("t.struct.fixedlayout", "t", {"tblLayout", "tblW"}, "all", {}),
  F("i.setalign.center",   "i", {"jc"}, "all", {}),
  F("i.setalign.right",    "i", {"jc"}, "all", {}),
  F("i.noop.resize",       "i", {}, "none", {}),
  F("i.noop.setpos",       "i", {}, "none", {}),
  F("i.noop.setwrap",      "i", {}, "none", {}),
  F("i.noop.setalt",       "i", {}, "none", {}),
  F("i.noop.settitle",     "i", {}, "none", {}),
  F("s.size.letter",       "s", {"docGrid", "pgMar", "pgSz"}, "all", {}),
  F("s.size.legal",        "s", {"docGrid", "pgMar", "pgSz"}, "all", {}),
  F("s.size.a3",           "s", {"docGrid", "pgMar", "pgSz"}, "all", {}),
  F("s.size.a5",           "s", {"docGrid", "pgMar", "pgSz"}, "all", {}),
  F("s.size.a4",           "s", {"docGrid", "pgMar", "pgSz"}, "all", {}),
  F("s.size.custom",       "s", {"docGrid", "pgMar", "pgSz"}, "all", {}),
  F("s.size.custom.wide",  "s", {"docGrid", "pgMar", "pgSz"}, "all", {}),   \* custom page wider than tall, portrait
  F("s.size.custom.square","s", {"docGrid", "pgMar", "pgSz"}, "all", {}),
  F("s.orient.landscape",  "s", {"docGrid", "pgMar", "pgSz"}, "all", {}),
  F("s.orient.portrait",   "s", {"docGrid", "pgMar", "pgSz"}, "all", {}),
  F("s.margins",           "s", {"docGrid", "pgMar", "pgSz"}, "all", {}),
  F("s.hfdist",            "s", {"docGrid", "pgMar", "pgSz"}, "all", {}),
  F("s.gutter",            "s", {"docGrid", "pgMar", "pgSz"}, "all", {}),
  F("s.grid.lines",        "s", {"docGrid", "pgMar", "pgSz"}, "all", {}),
  F("s.grid.chars",        "s", {"docGrid", "pgMar", "pgSz"}, "all", {}),
  F("s.grid.default",      "s", {"docGrid", "pgMar", "pgSz"}, "all", {}),
  F("s.grid.clear",        "s", {"pgMar", "pgSz"}, "all", {}),
  F("s.settings.full",     "s", {"docGrid", "pgMar", "pgSz"}, "all", {}),
  F("s.get",               "s", {}, "none", {}),
  F("s.header.default",    "s", {"cols", "headerReference", "pgNumType"}, "all", {}),
  F("s.header.first",      "s", {"cols", "headerReference", "pgNumType"}, "all", {}),
  F("s.header.even",       "s", {"cols", "headerReference", "pgNumType"}, "all", {}),
  F("s.footer.default",    "s", {"cols", "footerReference", "pgNumType"}, "all", {}),
  F("s.footer.first",      "s", {"cols", "footerReference", "pgNumType"}, "all", {}),
  F("s.footer.even",       "s", {"cols", "footerReference", "pgNumType"}, "all", {}),
  F("s.headerpn",          "s", {"cols", "headerReference", "pgNumType"}, "all", {}),
  F("s.footerpn",          "s", {"cols", "footerReference", "pgNumType"}, "all", {}),
  F("s.fheader",           "s", {"cols", "headerReference", "pgNumType"}, "all", {}),
  F("s.ffooter",           "s", {"cols", "footerReference", "pgNumType"}, "all", {}),
  F("s.header.twice",      "s", {"cols", "headerReference", "pgNumType"}, "all", {}),
  F("s.titlepg.on",        "s", {"cols", "pgNumType", "titlePg"}, "all", {}),
  F("s.titlepg.off",       "s", {"cols", "pgNumType"}, "all", {}),
  F("s.struct.cols",       "s", {"cols"}, "all", {}),
  F("s.struct.pgnum",      "s", {"pgNumType"}, "all", {})
>>

\* ---- constructors ---------------------------------------------------------
\* kinds: body elements the call appends (main = index of the one that carries the features)
C(id, cls, caps, kinds, main, name) == [id |-> id, cls |-> cls, caps |-> caps, kinds |-> kinds, main |-> main, name |-> name]

CtorTable == <<
  C("c.para",          "p", {"text", "emptytext"},       <<"p">>, 1, "ctor.para"),
  C("c.fpara",         "p", {"text", "emptytext", "tf"}, <<"p">>, 1, "ctor.para"),
  C("c.heading1",      "p", {"text", "emptytext"},       <<"p">>, 1, "ctor.heading"),
  C("c.heading3",      "p", {"text", "emptytext"},       <<"p">>, 1, "ctor.heading"),
  C("c.heading9",      "p", {"text", "emptytext"},       <<"p">>, 1, "ctor.heading"),
  C("c.heading0",      "p", {"text", "emptytext"},       <<"p">>, 1, "ctor.heading"),
  C("c.headingbm",     "p", {"text"},                    <<"bms", "p", "bme">>, 2, "ctor.headingbm"),
  C("c.headingwb",     "p", {"text"},                    <<"p", "bme">>, 1, "ctor.headingwb"),
  C("c.pagebreak",     "p", {},                          <<"p">>, 1, "ctor.pagebreak"),
  C("c.list.nil",      "p", {"text"},                    <<"p">>, 1, "ctor.list"),
  C("c.list.dot",      "p", {"text"},                    <<"p">>, 1, "ctor.list"),
  C("c.list.circle",   "p", {"text"},                    <<"p">>, 1, "ctor.list"),
  C("c.list.square",   "p", {"text"},                    <<"p">>, 1, "ctor.list"),
  C("c.list.dash",     "p", {"text"},                    <<"p">>, 1, "ctor.list"),
  C("c.list.arrow",    "p", {"text"},                    <<"p">>, 1, "ctor.list"),
  C("c.list.decimal",  "p", {"text"},                    <<"p">>, 1, "ctor.list"),
  C("c.list.number",   "p", {"text"},                    <<"p">>, 1, "ctor.list"),
  C("c.list.lowerLetter", "p", {"text"},                 <<"p">>, 1, "ctor.list"),
  C("c.list.upperLetter", "p", {"text"},                 <<"p">>, 1, "ctor.list"),
  C("c.list.lowerRoman",  "p", {"text"},                 <<"p">>, 1, "ctor.list"),
  C("c.list.upperRoman",  "p", {"text"},                 <<"p">>, 1, "ctor.list"),
  C("c.list.cfg",      "p", {"text"},                    <<"p">>, 1, "ctor.list"),
  C("c.footnote",      "p", {"text"},                    <<"p">>, 1, "ctor.note"),
  C("c.endnote",       "p", {"text"},                    <<"p">>, 1, "ctor.note"),
  C("c.cellpara",      "p", {"text", "emptytext"},       <<"tbl">>, 1, "ctor.cellpara"),
  C("c.cellfpara",     "p", {"text", "emptytext", "tf"}, <<"tbl">>, 1, "ctor.cellpara"),
  C("c.nestedcellpara", "p", {"text", "emptytext"},      <<"tbl">>, 1, "ctor.nestedcellpara"),
  C("c.structpara",    "p", {"text", "emptytext"},       <<"p">>, 1, "ctor.para"),
  C("c.toc",           "p", {"text"},                    <<"p", "sdt">>, 1, "ctor.toc"),
  C("c.toc.auto",      "p", {"text"},                    <<"sdt", "bms", "p", "bme">>, 3, "ctor.toc"),
  C("c.toc.update",    "p", {"text"},                    <<"p", "sdt", "p">>, 1, "ctor.toc"),
  C("c.list.multi",    "p", {"text"},                    <<"p", "p", "p">>, 3, "ctor.list"),
  C("c.math.inline",   "m", {},                          <<"math">>, 1, "ctor.math"),
  C("c.math.block",    "m", {},                          <<"math">>, 1, "ctor.math"),
  C("c.math.text",     "m", {},                          <<"math">>, 1, "ctor.math"),
  C("c.tbl.1x1",       "t", {"tblcfg", "tbldata"},                  <<"tbl">>, 1, "ctor.table"),
  C("c.tbl.1x2",       "t", {"tblcfg", "tbldata", "c2"},            <<"tbl">>, 1, "ctor.table"),
  C("c.tbl.1x3",       "t", {"tblcfg", "tbldata", "c2"},            <<"tbl">>, 1, "ctor.table"),
  C("c.tbl.2x1",       "t", {"tblcfg", "tbldata", "r2"},            <<"tbl">>, 1, "ctor.table"),
  C("c.tbl.2x2",       "t", {"tblcfg", "tbldata", "r2", "c2"},      <<"tbl">>, 1, "ctor.table"),
  C("c.tbl.2x3",       "t", {"tblcfg", "tbldata", "r2", "c2"},      <<"tbl">>, 1, "ctor.table"),
  C("c.tbl.3x1",       "t", {"tblcfg", "tbldata", "r2"},            <<"tbl">>, 1, "ctor.table"),
  C("c.tbl.3x2",       "t", {"tblcfg", "tbldata", "r2", "c2"},      <<"tbl">>, 1, "ctor.table"),
  C("c.tbl.3x3",       "t", {"tblcfg", "tbldata", "r2", "c2"},      <<"tbl">>, 1, "ctor.table"),
  C("c.tbl.create",    "t", {"r2", "c2"},                <<"tbl">>, 1, "ctor.table"),
  C("c.ntbl.d1.2x2",   "t", {"tbldata", "r2", "c2"},     <<"tbl">>, 1, "ctor.nestedtable"),
  C("c.ntbl.d1.1x1",   "t", {"tbldata"},                 <<"tbl">>, 1, "ctor.nestedtable"),
  C("c.ntbl.d2.2x2",   "t", {"tbldata", "r2", "c2"},     <<"tbl">>, 1, "ctor.nestedtable"),
  C("c.img.png",       "i", {},                          <<"p">>, 1, "ctor.image"),
  C("c.img.jpeg",      "i", {},                          <<"p">>, 1, "ctor.image"),
  C("c.img.gif",       "i", {},                          <<"p">>, 1, "ctor.image"),
  C("c.img.file",      "i", {},                          <<"p">>, 1, "ctor.image")
>>

FeatIds == {FeatTable[i].id : i \in DOMAIN FeatTable}
FIdx    == [f \in FeatIds |-> CHOOSE i \in DOMAIN FeatTable : FeatTable[i].id = f]
FT      == [f \in FeatIds |-> FeatTable[FIdx[f]]]
CtorIds == {CtorTable[i].id : i \in DOMAIN CtorTable}
CIdx    == [c \in CtorIds |-> CHOOSE i \in DOMAIN CtorTable : CtorTable[i].id = c]
CT      == [c \in CtorIds |-> CtorTable[CIdx[c]]]

Applicable(c, f) == FT[f].cls = CT[c].cls /\ FT[f].req \subseteq CT[c].caps
SectFeats == {f \in FeatIds : FT[f].cls = "s"}

SeqSet(s) == {s[i] : i \in DOMAIN s}
MinOfSet(S) == CHOOSE x \in S : \A y \in S : x <= y
MaxOfSet(S) == CHOOSE x \in S : \A y \in S : x >= y

\* ---- operations -----------------------------------------------------------
BuildOp(els, sect, se) == [op |-> "Build", els |-> els, sect |-> sect, se |-> se]
SaveOp == [op |-> "Save"]
OpenOp == [op |-> "Open"]

NoEnts == [k \in {"#"} |-> [v |-> "", g |-> "#", up |-> ""]]
EmptyProj == [els |-> <<>>, sect |-> NoEnts, hs |-> 0]

\* ---- the model of Build: which groups each call leaves behind -------------
\* (model level: one entry per group; DeepFeats also leave an entry below a nested node)
DeepFeats == {"t.nested.d1", "t.nested.d2", "t.nested.two"}
\* constructors whose target - the element the features act on - lies below a nested table
\* node of the body element: everything the features leave is governed by that node
DeepCtors == {"c.nestedcellpara", "c.ntbl.d1.2x2", "c.ntbl.d1.1x1", "c.ntbl.d2.2x2"}
\* groups of which one element holds several instances, one per SLOT (the references of a
\* section to its header / footer parts: one per kind default / first / even); a later call
\* for the same slot replaces the instance of the earlier one
MultiGroups == {"headerReference", "footerReference"}
Slot(f) == CASE f \in {"s.header.first", "s.footer.first"} -> "first"
             [] f \in {"s.header.even", "s.footer.even", "s.ffooter"} -> "even"
             [] OTHER -> "default"

ExpFeats(S) == {x \in S \cap FeatIds : FT[x].exp = "all"}
GroupsOf(S) == UNION {FT[f].gs : f \in ExpFeats(S)}
ElGroups(e) == GroupsOf(SeqSet(e.fs))
NoFun == [x \in {} |-> x]
SingleEnts(S, up) == [k \in GroupsOf(S) \ MultiGroups |-> [v |-> "1", g |-> k, up |-> up]]
\* one entry per (multi group, slot); its value names the last call (canonical order) for the slot
MultiEnts(S, up) ==
  LET P == {p \in ExpFeats(S) \X MultiGroups : p[2] \in FT[p[1]].gs}
      key(p) == p[2] \o "/" \o Slot(p[1])
  IN [k \in {key(p) : p \in P} |->
        LET Q == {p \in P : key(p) = k}
            last == CHOOSE p \in Q : \A q \in Q : FIdx[q[1]] <= FIdx[p[1]]
        IN [v |-> last[1], g |-> last[2], up |-> up]]
\* S = set of feature tokens applied, deepC = the target lies below a nested table node
ModelEnts(S, deepC) ==
  LET up == IF deepC THEN "ntbl" ELSE ""
  IN ("#" :> [v |-> "", g |-> "#", up |-> ""])
     @@ (IF deepC THEN "ntbl" :> [v |-> "tbl", g |-> "tbl", up |-> ""] ELSE NoFun)
     @@ SingleEnts(S, up) @@ MultiEnts(S, up)
     @@ (IF S \cap DeepFeats # {} THEN "tbl/in" :> [v |-> "1", g |-> "tblW", up |-> "tbl"] ELSE NoFun)

RECURSIVE ModelEls(_, _)
ModelEls(els, i) ==
  IF i > Len(els) THEN <<>>
  ELSE LET e == els[i]
           c == CT[e.c]
           one(j) == [k |-> c.kinds[j], sig |-> c.kinds[j] \o ":" \o ToString(i) \o "." \o ToString(j), src |-> i,
                      ents |-> IF j = c.main THEN ModelEnts(SeqSet(e.fs), e.c \in DeepCtors) ELSE NoEnts]
       IN [j \in 1..Len(c.kinds) |-> one(j)] \o ModelEls(els, i + 1)

SectTouching(b) == b.sect # <<>>
Model(b) ==
  [els  |-> ModelEls(b.els, 1),
   sect |-> ModelEnts(SeqSet(b.sect), FALSE),
   hs   |-> IF SectTouching(b) THEN 1 ELSE 0]

\* the serialiser and the intended reader are the identity on the abstract document. Two general
\* forms of a defective reader: a LOSSY one (no `case` for the groups in Lost, the body-level kinds
\* in LostKinds) and an ALIASING one (every instance of a multi group in Alias comes back as a copy
\* of the last instance read - instances collected by reference to one shared variable)
Ser(m) == m
KeepEnts(E, Lost) ==
  LET kept == {k \in DOMAIN E : E[k].g \notin Lost}
      keep2 == {k \in kept : E[k].up = "" \/ E[k].up \in kept}
  IN [k \in keep2 |-> E[k]]
AliasEnts(E, Alias) ==
  [k \in DOMAIN E |->
     IF E[k].g \in Alias /\ E[k].v \in FeatIds
     THEN LET Q == {q \in DOMAIN E : E[q].g = E[k].g /\ E[q].v \in FeatIds}
              last == CHOOSE q \in Q : \A r \in Q : FIdx[E[r].v] <= FIdx[E[q].v]
          IN [E[k] EXCEPT !.v = E[last].v]
     ELSE E[k]]
ReadEnts(E, Lost, Alias) == AliasEnts(KeepEnts(E, Lost), Alias)
Parse(d, Lost, LostKinds, Alias) ==
  LET ks == SelectSeq(d.els, LAMBDA e : e.k \notin LostKinds)
  IN [els  |-> [i \in 1..Len(ks) |-> [ks[i] EXCEPT !.ents = ReadEnts(ks[i].ents, Lost, Alias), !.src = 0]],
      sect |-> ReadEnts(d.sect, Lost, Alias), hs |-> d.hs]

\* ---- alignment of body elements of two projections ------------------------
\* Order-preserving pairing of the elements of A (reference) with those of B, one pass:
\* equal kind and signature pair up; equal kind with a different signature pair up unless
\* the exact partner of one of them follows later and the other side has a surplus of that
\* kind (then the element without partner is lost / extra); different kinds: the element whose
\* kind does not occur any more on the other side is lost / extra.
\* The result maps indices of A to indices of B (0 = none).
CountK(S, from, k) == Cardinality({x \in from..Len(S) : S[x].k = k})
Exact(a, b) == a.k = b.k /\ a.sig = b.sig

RECURSIVE Al(_, _, _, _)
Al(A, B, i, j) ==
  IF i > Len(A) \/ j > Len(B) THEN {}
  ELSE IF Exact(A[i], B[j]) THEN {<<i, j>>} \cup Al(A, B, i + 1, j + 1)
  ELSE IF A[i].k = B[j].k THEN
       IF (\E jj \in (j + 1)..Len(B) : Exact(A[i], B[jj])) /\ CountK(B, j, A[i].k) > CountK(A, i, A[i].k)
       THEN Al(A, B, i, j + 1)
       ELSE IF (\E ii \in (i + 1)..Len(A) : Exact(A[ii], B[j])) /\ CountK(A, i, A[i].k) > CountK(B, j, A[i].k)
       THEN Al(A, B, i + 1, j)
       ELSE {<<i, j>>} \cup Al(A, B, i + 1, j + 1)
  ELSE LET aLater == CountK(B, j, A[i].k) > 0
           bLater == CountK(A, i, B[j].k) > 0
       IN IF ~aLater /\ ~bLater THEN Al(A, B, i + 1, j + 1)
          ELSE IF ~aLater THEN Al(A, B, i + 1, j)
          ELSE IF ~bLater THEN Al(A, B, i, j + 1)
          ELSE IF CountK(A, i, A[i].k) > CountK(B, j, A[i].k) THEN Al(A, B, i + 1, j)
          ELSE Al(A, B, i, j + 1)

SameShape(A, B) == Len(A) = Len(B) /\ \A i \in 1..Len(A) : Exact(A[i], B[i])
Align(A, B) ==
  IF SameShape(A, B) THEN [i \in 1..Len(A) |-> i]
  ELSE LET M == Al(A, B, 1, 1)
       IN [i \in 1..Len(A) |-> IF \E p \in M : p[1] = i THEN (CHOOSE p \in M : p[1] = i)[2] ELSE 0]

\* ---- attribution ----------------------------------------------------------
CtorName(b, i) == IF i = 0 THEN "ctor.sect"
                  ELSE IF i \in 1..Len(b.els) /\ b.els[i].c \in CtorIds THEN CT[b.els[i].c].name ELSE "ctor.unknown"
ElFeats(b, i) == IF i = 0 THEN SeqSet(b.sect) ELSE IF i \in 1..Len(b.els) THEN SeqSet(b.els[i].fs) ELSE {}
\* the requested features that are specified to touch group g; the constructor if none does
Attr(b, i, g) == LET A == {f \in ElFeats(b, i) \cap FeatIds : g \in FT[f].gs}
                 IN IF A = {} THEN {CtorName(b, i)} ELSE A

\* ---- differences of two entry maps as witnesses ---------------------------
\* an entry whose governing node is lost / new as well is not reported separately;
\* skip = keys already accounted for (lost when writing)
EntWits(b, i, A, B, kDrop, kChg, kAdd, skip) ==
  IF A = B THEN {}
  ELSE LET d0 == DOMAIN A \ DOMAIN B
           a0 == DOMAIN B \ DOMAIN A
           drop == {k \in d0 : A[k].up \notin d0 /\ k \notin skip}
           add  == IF kAdd = "" THEN {} ELSE {k \in a0 : B[k].up \notin a0}
           chg  == {k \in DOMAIN A \cap DOMAIN B : A[k].v # B[k].v}
       IN  UNION {{<<"C03", kDrop, a, A[k].g>> : a \in Attr(b, i, A[k].g)} : k \in drop}
           \cup UNION {{<<"C03", kChg, a, A[k].g>> : a \in Attr(b, i, A[k].g)} : k \in chg}
           \cup UNION {{<<"C03", kAdd, a, B[k].g>> : a \in Attr(b, i, B[k].g)} : k \in add}

\* keys of element i of the reference that the first saved part does not carry
\* (everything, if the element itself was not written)
LostOnWrite(ref, D, md, i) ==
  IF md[i] = 0 THEN DOMAIN ref.els[i].ents ELSE DOMAIN ref.els[i].ents \ DOMAIN D.els[md[i]].ents

Unmatched(m, P) == Len(P.els) - Cardinality({m[i] : i \in DOMAIN m} \ {0})

\* witnesses for the step from projection X to projection Y (same type), both aligned
\* to the reference ref (the document as built) by mx, my
ProjWits(b, ref, X, mx, Y, my, kDrop, kChg, kAdd, skipOf(_)) ==
  UNION {
     LET s == ref.els[i].src IN
     IF mx[i] # 0 /\ my[i] = 0 THEN {<<"C03", kDrop, CtorName(b, s), ref.els[i].k>>}
     ELSE IF mx[i] = 0 /\ my[i] # 0 THEN {<<"C03", kAdd, CtorName(b, s), ref.els[i].k>>}
     ELSE IF mx[i] # 0 /\ my[i] # 0
          THEN EntWits(b, s, X.els[mx[i]].ents, Y.els[my[i]].ents, kDrop, kChg, kAdd, skipOf(i))
     ELSE {} : i \in 1..Len(ref.els)}
  \cup (IF Unmatched(my, Y) > Unmatched(mx, X)
        THEN \* extra elements that pair with nothing built: if a content control (w:sdt) of the reference
             \* vanished in this very step, they are its children coming back without their wrapper
             LET lostSdt == {CtorName(b, ref.els[i].src) : i \in {j \in 1..Len(ref.els) : mx[j] # 0 /\ my[j] = 0 /\ ref.els[j].k = "sdt"}}
             IN IF lostSdt # {} THEN {<<"C03", kAdd, c, "sdt-content">> : c \in lostSdt}
                ELSE {<<"C03", kAdd, "ctor.unknown", "element">>}
        ELSE {})
  \cup (IF Unmatched(my, Y) < Unmatched(mx, X) THEN {<<"C03", kDrop, "ctor.unknown", "element">>} ELSE {})
  \cup (IF X.hs = 1 /\ Y.hs = 0 THEN {<<"C03", kDrop, "ctor.sect", "sectPr">>}
        ELSE IF X.hs = 0 /\ Y.hs = 1 THEN {<<"C03", kAdd, "ctor.sect", "sectPr">>}
        ELSE IF X.hs = 1 THEN EntWits(b, 0, X.sect, Y.sect, kDrop, kChg, kAdd, {})
        ELSE {})

\* a difference after the first cycle: <<"C03", "unstable-cycle", n, feature>>
Unstable(W, n) == {<<"C03", "unstable-cycle", ToString(n), w[3]>> : w \in W}

\* ---- what Build is specified to leave behind (information, not part of C03) ----
\* only elements with at most one feature are examined: every token occurs alone in every
\* tier, and a later setter may legitimately undo an earlier one
BuildInfo(b, ref) ==
  UNION {
    LET e == b.els[i]
        mine == {j \in 1..Len(ref.els) : ref.els[j].src = i}
        gsOf == UNION {{ref.els[j].ents[k].g : k \in DOMAIN ref.els[j].ents} : j \in mine}
        kindsOf == [n \in 1..Cardinality(mine) |->
                      ref.els[CHOOSE j \in mine : Cardinality({j2 \in mine : j2 < j}) = n - 1].k]
    IN (IF e.c \in CtorIds /\ e.fs = <<>> /\ kindsOf # CT[e.c].kinds THEN {<<"C03i", "ctor-kinds", e.c>>} ELSE {})
       \cup (IF Len(e.fs) = 1 /\ e.fs[1] \in FeatIds /\ FT[e.fs[1]].exp = "all"
             THEN {<<"C03i", "unobservable", e.fs[1], g>> : g \in FT[e.fs[1]].gs \ gsOf} ELSE {})
    : i \in 1..Len(b.els)}
  \cup (IF Len(b.sect) = 1 /\ b.sect[1] \in FeatIds /\ FT[b.sect[1]].exp = "all"
        THEN {<<"C03i", "unobservable", b.sect[1], g>> :
                 g \in FT[b.sect[1]].gs \ {ref.sect[k].g : k \in DOMAIN ref.sect}} ELSE {})

\* ---- the judge: one step -------------------------------------------------
\* js = [b build op, ref document as built, mem / mmem last in-memory projection and its
\*       alignment, disk / mdisk last saved projection and its alignment, d1 / md1 first saved
\*       projection, ns saves so far, no opens so far]
InitJs == [b |-> BuildOp(<<>>, <<>>, "last"), ref |-> EmptyProj, mem |-> EmptyProj, mmem |-> <<>>,
           disk |-> EmptyProj, mdisk |-> <<>>, d1 |-> EmptyProj, md1 |-> <<>>, ns |-> 0, no |-> 0]

NoSkip(i) == {}

JudgeBuild(op, ret, P) ==
  [js  |-> [InitJs EXCEPT !.b = op, !.ref = P, !.mem = P, !.mmem = [i \in 1..Len(P.els) |-> i]],
   wit |-> (IF ret # "ok" THEN {<<"C03i", "build-ret", ret>>} ELSE BuildInfo(op, P))]

JudgeSave(js, ret, P) ==
  IF ret # "ok" THEN [js |-> [js EXCEPT !.ns = @ + 1], wit |-> {<<"C03", "Save", ret>>}]
  ELSE
  LET n == js.ns + 1
      m == Align(js.ref.els, P.els)
      w == IF n = 1
           THEN \* the document in memory against the part just written (two projectors, one type)
                UNION {IF m[i] = 0 THEN {<<"C03", "dropped-on-write", CtorName(js.b, js.ref.els[i].src), js.ref.els[i].k>>}
                       ELSE EntWits(js.b, js.ref.els[i].src, js.ref.els[i].ents, P.els[m[i]].ents,
                                    "dropped-on-write", "changed-on-write", "", {}) : i \in 1..Len(js.ref.els)}
                \cup (IF js.ref.hs = 1 /\ P.hs = 0 THEN {<<"C03", "dropped-on-write", "ctor.sect", "sectPr">>}
                      ELSE IF js.ref.hs = 1 THEN EntWits(js.b, 0, js.ref.sect, P.sect, "dropped-on-write", "changed-on-write", "", {})
                      ELSE {})
           ELSE IF n = 2
           THEN ProjWits(js.b, js.ref, js.disk, js.mdisk, P, m, "dropped-on-open", "changed", "added", NoSkip)
           ELSE Unstable(ProjWits(js.b, js.ref, js.disk, js.mdisk, P, m, "d", "c", "a", NoSkip), n)
  IN [js  |-> [js EXCEPT !.ns = n, !.disk = P, !.mdisk = m,
                         !.d1 = IF n = 1 THEN P ELSE @, !.md1 = IF n = 1 THEN m ELSE @],
      wit |-> w]

JudgeOpen(js, ret, P) ==
  IF ret # "ok" THEN [js |-> [js EXCEPT !.no = @ + 1], wit |-> {<<"C03", "Open", ret>>}]
  ELSE
  LET n == js.no + 1
      m == Align(js.ref.els, P.els)
      skip(i) == LostOnWrite(js.ref, js.d1, js.md1, i)
      w == IF n = 1
           THEN ProjWits(js.b, js.ref, js.mem, js.mmem, P, m, "dropped-on-open", "changed", "added", skip)
           ELSE Unstable(ProjWits(js.b, js.ref, js.mem, js.mmem, P, m, "d", "c", "a", NoSkip), n)
  IN [js |-> [js EXCEPT !.no = n, !.mem = P, !.mmem = m], wit |-> w]

JudgeStep(js, op, ret, P) ==
  CASE op.op = "Build" -> JudgeBuild(op, ret, P)
    [] op.op = "Save"  -> JudgeSave(js, ret, P)
    [] op.op = "Open"  -> JudgeOpen(js, ret, P)
    [] OTHER           -> [js |-> js, wit |-> {<<"C03i", "unknown-op", op.op>>}]
=============================================================================
