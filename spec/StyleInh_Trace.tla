--------------------------- MODULE StyleInh_Trace ---------------------------
(***************************************************************************)
(* Judge of observed behaviours of the real style registry against          *)
(* StyleInh.  Each line of the trace is                                      *)
(*   [ev |-> "reset", case |-> n]                                           *)
(*   [ev |-> "step", case |-> n, op |-> <op record>, ret |-> STRING,        *)
(*    reg |-> Seq([s, b, x, y : STRING])   registry after the call, projected *)
(*            (x, y: "set" / "unset", anything else = no such abstract state) *)
(*    h0, h1 |-> STRING   deep fingerprint of the registry before / after,    *)
(*    own |-> Seq([sl, o, at])  what a resolver's result carries (see         *)
(*            StyleInh!Viol_Owner),                                           *)
(*    c0, c1 |-> STRING   fingerprint of the clone before / after the source  *)
(*            was overwritten field by field (CloneSwap)                      *)
(*    alias |-> BOOLEAN, self |-> BOOLEAN   (MutRes) writing through the      *)
(*            result changed the registry / the result is the registered      *)
(*            object,                                                         *)
(*    creg |-> Seq(...), ch |-> STRING   (OnClone) projection / deep            *)
(*            fingerprint of the copy; taken only when the wrapped operation  *)
(*            is Peek (seen = TRUE), otherwise the copy is not looked at]     *)
(* reg, h0, h1 always describe the registry the behaviour works on (the       *)
(* source of the copy), also on steps addressed to the copy.  The copy is     *)
(* followed by the specification alone between two Peeks: what a resolver     *)
(* returns for it is judged against the registry the copy must hold by its    *)
(* history (the source when Clone was called + what was addressed to it).     *)
(* ret is "ok" / "nil" / "err", or "panic" / "fatal" / "timeout" when the     *)
(* call did not come back.  The judge never blocks: deviations become         *)
(* witnesses and the spec state is resynchronised on the observed one.        *)
(***************************************************************************)
EXTENDS StyleInh, Json, IOUtils

Trace == ndJsonDeserialize(IOEnv.WZ_OBS)

VARIABLES l, cur, wit
tvars == <<l, cur, wit>>

AddWit(w, sigs, c) == w \cup {[sig |-> s, case |-> c] : s \in {x \in sigs : ~\E r \in w : r.sig = x}}

Flag(b) == IF b THEN "set" ELSE "unset"
\* both registries as functions id -> [b, x, y : STRING]
ObsFn(r) == [s \in {r[i].s : i \in 1..Len(r)} |->
               LET i == CHOOSE j \in 1..Len(r) : r[j].s = s IN [b |-> r[i].b, x |-> r[i].x, y |-> r[i].y]]
ExpFn(reg) == [s \in DOMAIN reg |-> [b |-> reg[s].b, x |-> Flag(reg[s].x), y |-> Flag(reg[s].y)]]
ToReg(f) == [s \in DOMAIN f |-> Def(f[s].b, f[s].x = "set", f[s].y = "set")]
\* does the observed registry denote an abstract registry at all?  (a projection such as
\* "foreign:shading" or "variants-differ" says a registered style holds values no AddStyle gave it;
\* that is reported once, by RegDiff, on the step where it appears; nothing is derived from such a state)
Clean(f) == \A s \in DOMAIN f : /\ f[s].x \in {"set", "unset"} /\ f[s].y \in {"set", "unset"}
                               /\ f[s].b \notin {"corrupt", "foreign", "variants-differ"}

\* first field in which the observed registry differs from the specified one
RegDiff(obs, exp) ==
  IF DOMAIN obs # DOMAIN exp THEN "styles"
  ELSE IF \E s \in DOMAIN obs : obs[s].b # exp[s].b THEN "basedOn"
  ELSE IF \E s \in DOMAIN obs : obs[s].x # exp[s].x \/ obs[s].y # exp[s].y THEN "attrs"
  ELSE ""

Crashes == {"panic", "fatal", "timeout"}
HasQ(name) == name \in {"Resolve", "ToXML", "Info", "MutRes"}

\* cur = [reg, ok      the source registry as observed after the previous step / does it denote an abstract registry
\*        cl, has, clok  the copy as it must be (as observed, after a Peek) / is there one / is it an abstract registry
\*        clh            deep fingerprint of the copy at the last Peek ("" = none, or the copy was changed on request since)
\*        srcch, clrd    since that Peek (or Clone): was the source changed / was the copy read]
Cur0 == [reg |-> InitSt.reg, ok |-> TRUE, cl |-> InitSt.cl, has |-> FALSE, clok |-> TRUE, clh |-> "",
         srcch |-> FALSE, clrd |-> FALSE, clch |-> FALSE]
AsSt(c) == [reg |-> c.reg, cl |-> c.cl, has |-> c.has]

\* a step addressed to the registry the behaviour works on
JudgeSrc(e) ==
  LET name == e.op.op
      api  == Api(e.op)
      reg0 == cur.reg
      exp  == Apply(AsSt(cur), e.op)
      cls  == IF HasQ(name) THEN EndClass(reg0, e.op.q) ELSE "-"
      diff == RegDiff(ObsFn(e.reg), ExpFn(exp.reg))
  IN
  IF ~cur.ok THEN {}                \* the state before the call is not an abstract registry (already reported)
  ELSE IF e.ret = "skipped" THEN {}      \* not executed (budget rule of the harness after a call that did not come back)
  \* C14 speaks about registries, not about how they are read from XML: what a loader does with its input is
  \* recorded for the evidence file only; the judge goes on from the registry the loader left behind
  ELSE IF name = "LoadXML" THEN
       IF e.ret # "ok" THEN {<<"INFO-C14", "xml-loader-rejects-input", api, e.ret>>}
                            \cup (IF e.op.how # "doc" /\ RegDiff(ObsFn(e.reg), ExpFn(reg0)) # ""
                                   THEN {<<"INFO-C14", "xml-loader-rejects-input-but-changes-registry", api>>} ELSE {})
       ELSE IF diff # "" THEN {<<"INFO-C14", "xml-loader-registry-differs", api, diff>>} ELSE {}
  ELSE IF e.ret \in Crashes THEN {<<"C14", e.ret, api, cls>>}
  ELSE
       (IF e.ret # Ret(AsSt(cur), e.op) THEN {<<"C14", "ret", api, cls>>} ELSE {})
  \cup (IF diff = "" THEN {}
        ELSE IF name = "CloneSwap" THEN {<<"C14", "clone-differs", diff>>}
        ELSE IF name \in Readers \cup {"Clone"} THEN {<<"C14", "registry-modified", api, cls, diff>>}
        ELSE {<<"C14", "registry-differs", api, diff>>})
  \cup (IF name \in (Readers \cup {"Clone"}) /\ name # "CloneDrop" /\ e.h0 # e.h1
          THEN {<<"C14", "registry-modified", api, cls, "deep">>} ELSE {})
  \cup (IF name = "CloneDrop" /\ e.h0 # e.h1 THEN {<<"C14", "clone-shares-state", "source-follows-clone">>} ELSE {})
  \cup (IF name = "CloneSwap" /\ e.c0 # e.c1 THEN {<<"C14", "clone-shares-state", "clone-follows-source">>} ELSE {})
  \cup (IF name = "Resolve" /\ e.ret = "ok"
          THEN {<<"C14">> \o v : v \in Viol_Owner(reg0, e.op.q, api, e.own, Attrs)} ELSE {})
  \cup (IF name = "ToXML" /\ e.ret = "ok"
          THEN {<<"C14">> \o v : v \in Viol_Owner(reg0, e.op.q, api, e.own, XmlAttrs)} ELSE {})
  \* not a violation of C14 (the statement constrains resolution, not what a caller does with
  \* the result); recorded for the evidence file only
  \cup (IF name = "MutRes" /\ e.ret = "ok" /\ e.alias
          THEN {<<"INFO-C14", "result-aliases-registry", IF e.self THEN "registered-object" ELSE "merged-copy">>} ELSE {})

\* what happened to the pair since the copy was last looked at (part of signatures)
Since == IF cur.clch THEN "after-own-change" ELSE IF cur.srcch THEN "after-source-change"
         ELSE IF cur.clrd THEN "after-reads" ELSE "as-taken"

\* a step addressed to the copy: [op |-> "OnClone", o |-> the operation]
JudgeCopy(e) ==
  LET o    == e.op.o
      name == o.op
      api  == Api(e.op)
      reg0 == cur.cl
      cls  == IF HasQ(name) THEN EndClass(reg0, o.q) ELSE "-"
      sdiff == RegDiff(ObsFn(e.reg), ExpFn(cur.reg))
      cdiff == RegDiff(ObsFn(e.creg), ExpFn(reg0))
  IN
  IF e.ret = "skipped" THEN {}
  ELSE IF ~cur.has THEN (IF e.ret # "noclone" THEN {<<"C14", "ret", api, "no-copy">>} ELSE {})
  ELSE
       \* whatever is done to the copy, the source stays as it is
       (IF ~cur.ok \/ e.ret \in Crashes THEN {}
        ELSE (IF sdiff # "" THEN {<<"C14", "clone-shares-state", "source-follows-clone", Api(o), sdiff>>} ELSE {})
        \cup (IF e.h0 # e.h1 THEN {<<"C14", "clone-shares-state", "source-follows-clone", Api(o), "deep">>} ELSE {}))
  \cup
       (IF ~cur.clok THEN {}
        ELSE IF e.ret \in Crashes THEN {<<"C14", e.ret, api, cls>>}
        ELSE
             (IF e.ret # Ret(AsSt(cur), e.op) THEN {<<"C14", "ret", api, cls, Since>>} ELSE {})
        \cup (IF name = "Resolve" /\ e.ret = "ok"
                THEN {<<"C14">> \o v : v \in Viol_Owner(reg0, o.q, api, e.own, Attrs)} ELSE {})
        \cup (IF name = "ToXML" /\ e.ret = "ok"
                THEN {<<"C14">> \o v : v \in Viol_Owner(reg0, o.q, api, e.own, XmlAttrs)} ELSE {})
        \* the copy holds what its history says: the source as it was when Clone was called + what was addressed to it
        \cup (IF e.seen /\ cdiff # "" THEN {<<"C14", "copy-differs", cdiff, Since>>} ELSE {})
        \cup (IF e.seen /\ cur.clh # "" /\ e.ch # cur.clh THEN {<<"C14", "copy-differs", "deep", Since>>} ELSE {})
        \cup (IF name = "MutRes" /\ e.ret = "ok" /\ e.alias
                THEN {<<"INFO-C14", "result-aliases-registry", IF e.self THEN "registered-object" ELSE "merged-copy">>} ELSE {}))

Judge(e) == IF e.op.op = "OnClone" THEN JudgeCopy(e) ELSE JudgeSrc(e)

\* the state the judge continues from: the source is resynchronised on what the implementation really holds
\* after every step, the copy whenever it was looked at; in between the copy is what the specification says
NextCur(e) ==
  LET name == e.op.op
      obs  == ObsFn(e.reg)
      c1   == [cur EXCEPT !.reg = ToReg(obs), !.ok = Clean(obs)]
  IN
  IF name = "Clone" THEN [c1 EXCEPT !.cl = c1.reg, !.has = TRUE, !.clok = c1.ok, !.clh = "",
                                    !.srcch = FALSE, !.clrd = FALSE, !.clch = FALSE]
  ELSE IF name # "OnClone" THEN [c1 EXCEPT !.srcch = @ \/ name \in Mutators \cup {"CloneSwap"}]
  ELSE IF ~cur.has \/ e.ret = "skipped" THEN c1
  ELSE IF e.seen THEN [c1 EXCEPT !.cl = ToReg(ObsFn(e.creg)), !.clok = Clean(ObsFn(e.creg)), !.clh = e.ch,
                                 !.srcch = FALSE, !.clrd = FALSE, !.clch = FALSE]
  ELSE IF e.op.o.op \in Mutators THEN [c1 EXCEPT !.cl = ApplyReg(cur.cl, e.op.o), !.clh = "", !.clch = TRUE]
  ELSE [c1 EXCEPT !.clrd = TRUE]

TInit == l = 1 /\ cur = Cur0 /\ wit = {}

TReset == /\ l <= Len(Trace) /\ Trace[l].ev = "reset"
          /\ cur' = Cur0 /\ wit' = wit /\ l' = l + 1

TStep == /\ l <= Len(Trace) /\ Trace[l].ev = "step"
         /\ LET e == Trace[l] IN
              /\ wit' = AddWit(wit, Judge(e), e.case)
              /\ cur' = NextCur(e)
         /\ l' = l + 1

TDone == /\ l = Len(Trace) + 1
         /\ PrintT(<<"WZDONE", l - 1, ToJson(wit)>>)
         /\ l' = l + 1 /\ UNCHANGED <<cur, wit>>

TNext == TReset \/ TStep \/ TDone
TSpec == TInit /\ [][TNext]_tvars
=============================================================================
