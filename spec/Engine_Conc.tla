----------------------------- MODULE Engine_Conc -----------------------------
(***************************************************************************)
(* The template engine used by several threads at once, at the granularity  *)
(* of the hook points of the implementation:                                *)
(*   engine.load.locked     a load holds the write lock                     *)
(*   engine.override.write  before one block of an ancestor is overwritten  *)
(*   engine.render.got      a render has fetched its template (read lock     *)
(*                          taken and released again)                        *)
(*   engine.block.read      before the content of one block is read          *)
(* A thread runs its program (a sequence of Engine operations); one step of  *)
(* the model is the code between two consecutive hook points of one thread.  *)
(*                                                                         *)
(* Variant = "ref":   values are immutable, a load publishes its value in    *)
(*   one step, a render reads from the value it fetched. Checked: every     *)
(*   render returns PureRender of the value cached when it fetched           *)
(*   (Inv_ConcPure), no two threads ever conflict on a block (Inv_NoRace),   *)
(*   nobody gets stuck (Inv_NotStuck).                                       *)
(* Variant = "built": as built - a load overwrites blocks of its ancestors   *)
(*   one by one under the write lock, a render reads them without any lock.  *)
(*   TLC must find counterexamples to Inv_ConcPure and Inv_NoRace            *)
(*   (self-test); the behaviours of this variant are the schedules that are  *)
(*   forced on the real engine.                                              *)
(***************************************************************************)
EXTENDS Engine, Json, SequencesExt

CONSTANTS Variant,      \* "ref" | "built"
          Setup,        \* operations executed before the threads start (SetupDocs for the program tuples of ProgsDocs)
          ProgChoices   \* set of tuples of programs, one program per thread

VARIABLES prog,   \* the tuple of programs chosen
          pc,     \* pc[t]  number of operations thread t has completed
          ph,     \* ph[t]  "idle" | "locked" | "writing" | "got" | "got2" | "reading"
          loc,    \* loc[t] locals of the operation in progress
          lk,     \* thread holding the write lock, 0 = free
          st,     \* reference state, advanced at linearisation points
          hs,     \* as-built state
          done,   \* completed renders: [t, i, res, exp]
          sched   \* history: <<[t |-> thread, k |-> "begin" | "step"], ...>>
vars == <<prog, pc, ph, loc, lk, st, hs, done, sched>>

Built == Variant = "built"
Threads == 1..Len(prog)

\* ---- pools ------------------------------------------------------------------
D(k, tag, ext, blk, rich) == [k |-> k, tag |-> tag, ext |-> ext, blk |-> blk, rich |-> rich]
Ld(n, def) == [op |-> "Load", n |-> n, def |-> def]
Rn(n, e) == [op |-> "Render", n |-> n, e |-> e, data |-> [v |-> "val2", items |-> <<"n3">>, c |-> TRUE, ik |-> "map"]]
RnD(n, e, d) == [op |-> "Render", n |-> n, e |-> e, data |-> d]
An(n) == [op |-> "Analyze", n |-> n]
B12 == {"b1", "b2"}

DefR   == D("str", "R",   "",     B12,    FALSE)
DefR2  == D("str", "R2",  "",     B12,    FALSE)
DefRD  == D("doc", "RD",  "",     B12,    FALSE)
DefCA  == D("str", "CA",  "base", {"b1"}, FALSE)
DefCA2 == D("str", "CA2", "base", B12,    FALSE)
DefCB  == D("str", "CB",  "base", {"b1"}, FALSE)
DefCB2 == D("str", "CB2", "base", B12,    FALSE)
DefDB  == D("doc", "DB",  "base", B12,    FALSE)
DefGA  == D("str", "GA",  "A",    {"b2"}, FALSE)
DefX   == D("str", "X",   "",     {"b1"}, FALSE)
DefRR  == D("doc", "RR",  "",     {"b1"}, TRUE)     \* a document with loop / conditional / image paragraphs and all three tables
DefRF  == D("file","RF",  "",     {"b1"}, TRUE)
DefFA  == D("file","FA",  "base", B12,    FALSE)
DefDA  == D("doc", "DA",  "base", B12,    FALSE)

SetupBaseA == <<Ld("base", DefR), Ld("A", DefCA)>>
SetupFlat  == <<Ld("base", DefR), Ld("A", DefX)>>      \* no inheritance anywhere

Writers1 == { <<Ld("B", DefCB)>>, <<Ld("B", DefCB2)>>, <<Ld("A", DefCA2)>>, <<Ld("base", DefR2)>>,
              <<[op |-> "Remove", n |-> "A"]>>, <<[op |-> "Clear"]>>, <<Ld("G", DefGA)>> }
Readers1 == { <<Rn("A", "doc")>>, <<Rn("base", "doc")>>, <<Rn("A", "tpl")>> }

ProgsTiny  == { <<<<Ld("B", DefCB2)>>, <<Rn("A", "doc")>>>> }
\* with SetupFlat: the only way to go wrong is the second fetch of RenderTemplateToDocument
ProgsRefetch == { <<<<Ld("base", DefRD)>>, <<Rn("base", "tpl")>>>> }
\* writer against reader, and two readers at once (concurrent renders on one engine)
ProgsQuick == (Writers1 \X Readers1) \cup (Readers1 \X Readers1)
Writers2 == Writers1 \cup { <<Ld("B", DefDB)>>, <<Ld("B", DefCB), Ld("G", DefGA)>>, <<Ld("B", DefCB2), [op |-> "Remove", n |-> "B"]>>,
                            <<Ld("base", DefRD), Ld("A", DefCA)>>, <<[op |-> "Get", n |-> "A"], Ld("A", DefX)>> }
Readers2 == Readers1 \cup { <<Rn("A", "doc"), Rn("A", "doc")>>, <<Rn("B", "doc")>>, <<Rn("base", "tpl"), Rn("A", "doc")>>,
                            <<Rn("G", "doc")>>, <<[op |-> "Validate", n |-> "A"], Rn("A", "doc")>> }
ProgsThorough == (Writers2 \X Readers2) \cup (Writers1 \X Writers1) \cup (Readers2 \X Readers2)
\* three threads: two writers and a reader (sampled by simulation only)
ProgsThree == Writers1 \X Writers1 \X Readers2
\* programs without inheritance: must be linearisable on every tree
FlatWriters == { <<Ld("B", DefX)>>, <<Ld("A", DefR2)>>, <<[op |-> "Remove", n |-> "A"]>>, <<[op |-> "Clear"]>>,
                 <<Ld("base", DefRD)>>, <<Ld("A", DefX), [op |-> "Remove", n |-> "base"]>> }
ProgsFlat == (FlatWriters \X Readers2) \cup (FlatWriters \X FlatWriters)
ProgsFlatQuick == ({ <<Ld("base", DefRD)>>, <<Ld("A", DefR2)>>, <<[op |-> "Remove", n |-> "A"]>>, <<[op |-> "Clear"]>> }
                     \X { <<Rn("base", "tpl")>>, <<Rn("A", "doc")>>, <<Rn("base", "tpl"), Rn("A", "doc")>> })
                  \cup ({ <<Ld("A", DefR2)>>, <<Ld("base", DefRD)>> } \X { <<[op |-> "Clear"]>>, <<[op |-> "Remove", n |-> "A"], Ld("A", DefX)>> })

\* document templates rendered by several threads at once, every thread with data of its own: each render
\* fills loops, conditionals, table rows and in-cell loops from ITS data only (nothing of a render in
\* progress may live on the engine)
DataA == [v |-> "va", items |-> <<"a1", "a2">>, c |-> TRUE,  ik |-> "map"]
DataB == [v |-> "vb", items |-> <<"b1">>,       c |-> FALSE, ik |-> "map"]
DataC == [v |-> "vc", items |-> <<"c1", "c2">>, c |-> TRUE,  ik |-> "smap"]
SetupDocs == <<Ld("base", DefRR), Ld("A", DefFA)>>
Pairs(S) == {<<S[i], S[j]>> : i \in 1..Len(S), j \in 1..Len(S)} \ UNION {{<<S[i], S[j]>> : j \in 1..(i - 1)} : i \in 1..Len(S)}   \* unordered pairs, a program with itself included
RendersDQ == << <<RnD("base", "tpl", DataA)>>, <<RnD("base", "rnd", DataB)>>,
                <<RnD("A", "tpl", DataB), RnD("base", "tpl", DataA)>>, <<An("base"), RnD("base", "rnd", DataC)>> >>
RendersDT == RendersDQ \o << <<RnD("base", "doc", DataA)>>, <<RnD("A", "rnd", DataC), RnD("A", "doc", DataB)>>,
                             <<RnD("base", "tpl", DataB), RnD("base", "tpl", DataB), RnD("base", "tpl", DataB)>> >>
WritersD == { <<Ld("base", DefRF)>>, <<Ld("A", DefDA)>>, <<[op |-> "Clear"]>> }
SeqSet(S) == {S[i] : i \in 1..Len(S)}
ProgsDocsQuick == Pairs(RendersDQ) \cup ({<<Ld("base", DefRF)>>} \X SeqSet(RendersDQ))
ProgsDocs      == Pairs(RendersDT) \cup (WritersD \X SeqSet(RendersDT))
\* the program tuples over document templates start from SetupDocs, all others from the constant Setup
SetupOf(p) == IF p \in ProgsDocs THEN SetupDocs ELSE Setup
ProgsQuickAll    == ProgsQuick \cup ProgsDocsQuick
ProgsThoroughAll == ProgsThorough \cup ProgsDocs

\* ---- helpers ------------------------------------------------------------------
RECURSIVE RunSeq(_, _), RunSeqB(_, _)
RunSeq(s, ops)  == IF ops = <<>> THEN s ELSE RunSeq(Apply(s, ops[1]), Tail(ops))
RunSeqB(h, ops) == IF ops = <<>> THEN h ELSE RunSeqB(ApplyB(h, ops[1]), Tail(ops))

CurOp(t) == prog[t][pc[t] + 1]
Finished(t) == pc[t] = Len(prog[t])
AllDone == \A t \in Threads : Finished(t)
NoLoc == [x |-> 0]

RootBlocks(def) == SelectSeq(BlockOrder, LAMBDA b : b \in def.blk)

\* the value / object a render works on, fetched under the read lock
Fetch(op) ==
  [id  |-> IF op.n \in DOMAIN hs.cache THEN hs.cache[op.n] ELSE 0,
   v   |-> Lookup(st.cache, op.n),
   exp |-> PureRender(Lookup(st.cache, op.n), op.data, op.e),
   ee  |-> op.e]

Finish(t, rec) ==
  /\ pc' = [pc EXCEPT ![t] = @ + 1]
  /\ ph' = [ph EXCEPT ![t] = "idle"]
  /\ loc' = [loc EXCEPT ![t] = NoLoc]
  /\ done' = done \cup rec

Log(t, k) == sched' = Append(sched, [t |-> t, k |-> k])

\* ---- steps ----------------------------------------------------------------------
\* first segment of an operation: up to its first hook point (or to its end)
Begin(t) ==
  /\ ~Finished(t) /\ ph[t] = "idle" /\ lk = 0
  /\ Log(t, "begin")
  /\ LET op == CurOp(t) IN
       CASE op.op = "Load" ->
              /\ lk' = t
              /\ st' = Apply(st, op)                    \* linearisation point of a load
              /\ ph' = [ph EXCEPT ![t] = "locked"]
              /\ UNCHANGED <<pc, loc, hs, done>>
         [] op.op = "Render" ->
              LET f == Fetch(op) IN
              IF f.v.id = 0
              THEN /\ Finish(t, {[t |-> t, i |-> pc[t] + 1, res |-> RenderErr, exp |-> f.exp]})
                   /\ UNCHANGED <<lk, st, hs>>
              ELSE /\ ph' = [ph EXCEPT ![t] = "got"]
                   /\ loc' = [loc EXCEPT ![t] = f]
                   /\ UNCHANGED <<pc, lk, st, hs, done>>
         [] OTHER ->                                    \* Remove, Clear, Get, Validate, Analyze: one critical section
              /\ st' = Apply(st, op) /\ hs' = ApplyB(hs, op)
              /\ Finish(t, {})
              /\ UNCHANGED lk

\* a load between engine.load.locked and its first write (or its end)
LoadParse(t) ==
  /\ ph[t] = "locked" /\ Log(t, "step")
  /\ LET op == CurOp(t)
         ws == IF Built THEN RealWritesB(hs, op.def) ELSE {} IN
       IF ws = {}
       THEN /\ hs' = ApplyB(hs, op) /\ lk' = 0 /\ Finish(t, {}) /\ UNCHANGED st
       ELSE /\ ph' = [ph EXCEPT ![t] = "writing"]
            /\ loc' = [loc EXCEPT ![t] = [w |-> ws]]
            /\ UNCHANGED <<pc, lk, st, hs, done>>

\* one overwrite of an ancestor's block; the last one also publishes the template and unlocks
LoadWrite(t) ==
  /\ ph[t] = "writing" /\ Log(t, "step")
  /\ \E w \in loc[t].w :
       LET op == CurOp(t)
           h1 == [hs EXCEPT !.heap = WriteB(hs.heap, w, op.def)] IN
       IF loc[t].w = {w}
       THEN /\ hs' = [cache |-> (op.n :> h1.nid) @@ h1.cache,
                      heap  |-> (h1.nid :> NewObjB(h1, op.def)) @@ h1.heap,
                      nid   |-> h1.nid + 1]
            /\ lk' = 0 /\ Finish(t, {}) /\ UNCHANGED st
       ELSE /\ hs' = h1
            /\ loc' = [loc EXCEPT ![t].w = @ \ {w}]
            /\ UNCHANGED <<pc, ph, lk, st, done>>

\* a render after engine.render.got
\* loc[t].ee is the entry point whose code is running: as built, RenderTemplateToDocument on a
\* string template calls RenderToDocument, which fetches the template by name a second time
RenderGo(t) ==
  /\ ph[t] \in {"got", "got2"} /\ Log(t, "step")
  /\ LET op == CurOp(t)
         f  == loc[t]
         def == IF Built THEN hs.heap[f.id].def ELSE f.v.def
         i  == pc[t] + 1 IN
       IF EntryCode(f.ee) = "tpl" /\ IsDoc(def)
       THEN \* substitution in a copy of the base document: no block is read
            /\ Finish(t, {[t |-> t, i |-> i, res |-> RenderWith(def, def, <<>>, op.data, "tpl"), exp |-> f.exp]})
            /\ UNCHANGED <<lk, st, hs>>
       ELSE IF EntryCode(f.ee) = "tpl" /\ Built
       THEN /\ lk = 0
            /\ LET g == Fetch(op) IN
                 IF g.id = 0
                 THEN Finish(t, {[t |-> t, i |-> i, res |-> RenderErr, exp |-> g.exp]})
                 ELSE /\ ph' = [ph EXCEPT ![t] = "got2"]
                      /\ loc' = [loc EXCEPT ![t] = [g EXCEPT !.ee = "doc"]]
                      /\ UNCHANGED <<pc, done>>
            /\ UNCHANGED <<lk, st, hs>>
       ELSE LET rdef == IF Built THEN hs.heap[RootId(hs.heap, f.id)].def ELSE RootOf(f.v).def
                rd   == RootBlocks(rdef) IN
            IF rd = <<>>
            THEN /\ Finish(t, {[t |-> t, i |-> i, res |-> RenderWith(def, rdef, <<>>, op.data, f.ee), exp |-> f.exp]})
                 /\ UNCHANGED <<lk, st, hs>>
            ELSE /\ ph' = [ph EXCEPT ![t] = "reading"]
                 /\ loc' = [loc EXCEPT ![t] = [id |-> f.id, v |-> f.v, exp |-> f.exp, ee |-> f.ee, rd |-> rd, acc |-> <<>>]]
                 /\ UNCHANGED <<pc, lk, st, hs, done>>

\* one block read (no lock held); the last one completes the render
RenderRead(t) ==
  /\ ph[t] = "reading" /\ Log(t, "step")
  /\ LET op == CurOp(t)
         f  == loc[t]
         b  == f.rd[1]
         rid == IF Built THEN RootId(hs.heap, f.id) ELSE 0
         tok == IF Built THEN hs.heap[rid].cur[b] ELSE Resolve(f.v, b)
         acc == (b :> tok) @@ f.acc
         def == IF Built THEN hs.heap[f.id].def ELSE f.v.def
         rdef == IF Built THEN hs.heap[rid].def ELSE RootOf(f.v).def IN
       IF Len(f.rd) = 1
       THEN /\ Finish(t, {[t |-> t, i |-> pc[t] + 1, res |-> RenderWith(def, rdef, acc, op.data, f.ee), exp |-> f.exp]})
            /\ UNCHANGED <<lk, st, hs>>
       ELSE /\ loc' = [loc EXCEPT ![t].rd = Tail(@), ![t].acc = acc]
            /\ UNCHANGED <<pc, ph, lk, st, hs, done>>

StepOf(t) == Begin(t) \/ LoadParse(t) \/ LoadWrite(t) \/ RenderGo(t) \/ RenderRead(t)

Init == /\ prog \in ProgChoices
        /\ pc = [t \in 1..Len(prog) |-> 0]
        /\ ph = [t \in 1..Len(prog) |-> "idle"]
        /\ loc = [t \in 1..Len(prog) |-> NoLoc]
        /\ lk = 0
        /\ st = RunSeq(InitSt, SetupOf(prog))
        /\ hs = RunSeqB(InitHs, SetupOf(prog))
        /\ done = {}
        /\ sched = <<>>

Next == (\E t \in Threads : StepOf(t)) /\ UNCHANGED prog
Spec == Init /\ [][Next]_vars

\* ---- properties -------------------------------------------------------------------------
\* each render equals what it would produce alone on the value cached when it fetched it
Inv_ConcPure == \A r \in done : r.res = r.exp

\* no unsynchronised conflicting accesses: a render about to read a block (it holds no lock)
\* while a load is about to overwrite the same block of the same object
NextRead(t)  == IF ph[t] = "reading" /\ Built THEN {<<RootId(hs.heap, loc[t].id), loc[t].rd[1]>>} ELSE {}
NextWrite(t) == IF ph[t] = "writing" THEN loc[t].w ELSE {}
Inv_NoRace == \A t, u \in Threads : t # u => NextRead(t) \cap NextWrite(u) = {}

\* somebody can always move until everybody has finished
CanStep(t) == \/ (~Finished(t) /\ ph[t] = "idle" /\ lk = 0)
              \/ ph[t] \in {"locked", "writing", "reading", "got2"}
              \/ (ph[t] = "got" /\ (lk = 0 \/ ~(Built /\ EntryCode(CurOp(t).e) = "tpl" /\ ~IsDoc(hs.heap[loc[t].id].def))))
Inv_NotStuck == AllDone \/ \E t \in Threads : CanStep(t)

\* the threads never disagree with the reference machine about what is cached
Inv_CacheAgree == lk # 0 \/ \A n \in NamePool :
                     Lookup(st.cache, n).id = (IF n \in DOMAIN hs.cache THEN hs.cache[n] ELSE 0)

\* ---- generation: print each complete schedule once -------------------------------------------
ConcSeq(ops) == [i \in 1..Len(ops) |-> Conc(ops[i])]
EmitC == ~AllDone \/ PrintT(<<"WZCASE", ToJson([setup |-> ConcSeq(SetupOf(prog)),
                                               progs |-> [t \in Threads |-> ConcSeq(prog[t])],
                                               sched |-> sched,
                                               names |-> SetToSeq(NamePool), pdata |-> ProbeData])>>)
=============================================================================
