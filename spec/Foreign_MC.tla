---------------------------- MODULE Foreign_MC ----------------------------
(* Exhaustive exploration of the reference machine (SpecMC) and generation of    *)
(* behaviours = (package shape, edit sequence) for the harness (SpecGen).        *)
EXTENDS Foreign, Json

CONSTANTS MaxDev,     \* number of deviations from the base shape
          Depth,      \* behaviour length (Open + Depth-1 edits)
          EditOps,    \* edit names explored
          Dims,       \* dimensions of the shape that may deviate
          ImgFmts, ImgNames,   \* AddImage argument classes
          IdPool, NamePool,    \* pools of the library's free choices (SpecMC only)
          SlimDims, SlimOps,   \* shapes that deviate in a dimension of SlimDims are explored with the edits of SlimOps only
          DimGroups            \* {} or a set of sets of dimensions: a shape deviates within one group only

VARIABLES devs, phase, st, hist
vars == <<devs, phase, st, hist>>

\* names a library might give a new header/footer part (some are taken in some shapes)
HFNamePool == {"header1.xml", "header2.xml", "header3.xml", "footer1.xml", "footer2.xml"}
DevPool == {d \in AllDevs : d.dim \in Dims}

SimpleOps == {"AddParagraph", "AddHeading", "AddFormattedParagraph", "AddListItem", "AddFootnote", "AddEndnote",
              "AddPageBreak", "Save", "SaveFile", "Reopen", "Render", "SetPageMargins", "AddTable",
              "SetFootnoteConfig", "GetDocumentProperties"} \cup PropOps

\* plan restrictions (which behaviours are enumerated, never what is demanded of them)
OpsFor(D) == IF \E d \in D : d.dim \in SlimDims THEN EditOps \cap SlimOps ELSE EditOps
GroupOK(D) == DimGroups = {} \/ \E g \in DimGroups : \A d \in D : d.dim \in g

EditsFor(s, Ops) ==
     {[op |-> n] : n \in Ops \cap SimpleOps}
  \cup (IF "AddImage" \in Ops THEN {[op |-> "AddImage", fmt |-> f, fn |-> x] : f \in ImgFmts, x \in ImgNames} ELSE {})
  \cup (IF "AddHeader" \in Ops THEN {[op |-> "AddHeader", t |-> t] : t \in {"default", "first"}} ELSE {})
  \cup (IF "AddFooter" \in Ops THEN {[op |-> "AddFooter", t |-> t] : t \in {"default"}} ELSE {})
  \cup (IF "RemoveParagraphAt" \in Ops THEN {[op |-> "RemoveParagraphAt", i |-> i] : i \in -1..Len(s.paras)} ELSE {})
EditsOf(s) == EditsFor(s, OpsFor(devs))

Init == devs = {} /\ phase = "shape" /\ st = Closed /\ hist = <<>>

AddDev == /\ phase = "shape" /\ Cardinality(devs) < MaxDev
          /\ \E d \in DevPool \ devs :
               /\ ShapeOK(devs \cup {d}) /\ GroupOK(devs \cup {d})
               /\ devs' = devs \cup {d}
          /\ UNCHANGED <<phase, st, hist>>

OpenOp(D) == [op |-> "Open", devs |-> D, pkg |-> PkgOf(D)]

OpenAct == /\ phase = "shape"
           /\ phase' = "open"
           /\ st' = Apply(Closed, OpenOp(devs), NoChoice)
           /\ hist' = <<OpenOp(devs)>>
           /\ UNCHANGED devs

\* ---- generation: the library's choices are irrelevant for which calls to make ----
GenChoice(s, e) == [id |-> "gen" \o ToString(Cardinality(s.m.rels)), name |-> "gen" \o ToString(Cardinality(s.m.parts)) \o ".png",
                    rm |-> IF e.op = "RemoveParagraphAt" THEN e.i + 1 ELSE 0]
EditGen == /\ phase = "open" /\ Len(hist) < Depth
           /\ \E e \in EditsOf(st) :
                /\ st' = Apply(st, e, GenChoice(st, e))
                /\ hist' = Append(hist, e)
           /\ UNCHANGED <<devs, phase>>
SpecGen == Init /\ [][AddDev \/ OpenAct \/ EditGen]_vars
Emit == phase # "open" \/ Len(hist) < Depth \/ PrintT(<<"WZCASE", ToJson(hist)>>)

\* ---- exhaustive exploration of the reference machine over all fresh choices ------
Choices(s, e) ==
  IF e.op = "RemoveParagraphAt" THEN {[id |-> "", name |-> "", rm |-> k] : k \in 0..Len(s.paras)}
  ELSE IF NewPart(s.m, e, NoChoice) = <<>> THEN {NoChoice}
  ELSE IF e.op = "AddImage" THEN {[id |-> i, name |-> nm, rm |-> 0] : i \in IdPool, nm \in NamePool}
  ELSE IF e.op \in HFOps THEN {[id |-> i, name |-> nm, rm |-> 0] : i \in IdPool, nm \in HFNamePool}
  ELSE {[id |-> i, name |-> "", rm |-> 0] : i \in IdPool}

EditMC == /\ phase = "open" /\ Len(hist) < Depth
          /\ \E e \in EditsOf(st) : \E ch \in Choices(st, e) :
               /\ ChoiceOK(st, e, ch)
               /\ st' = Apply(st, e, ch)
               /\ hist' = Append(hist, e)
          /\ UNCHANGED <<devs, phase>>
SpecMC == Init /\ [][AddDev \/ OpenAct \/ EditMC]_vars

\* ---- C04 at design level ---------------------------------------------------------
Of(ws, tag) == {w \in ws : w[1] = tag}
Claimed(s, r) == r.src \notin (s.regen \ AlwaysRegen) /\ <<r.src, r.id>> \notin s.xrels
\* witnesses when the saved package is a (observed) given the reference state s
W(s, oo, a) == Viol_C04(oo, s, a)

Inv_All ==
  phase = "open" =>
    LET o   == st.o
        oo  == ObsOfModel(o, BodyToks(o.body))
        now == ObsOfModel(st.m, ExpToks(st))
    IN
    \* the reference machine (any implementation refining it) is non-destructive
    /\ W(st, oo, now) = {}
    \* each detector fires exactly when the corresponding loss happens (non-vacuity)
    /\ {w \in W(st, oo, Lossy_DropModes(now)) : w[1] \in {"rel-mode-lost", "pkg-rel-mode-lost", "part-rel-mode-lost"}}
          = {<<RelTag(r.src, "rel-mode-lost"), r.k>> : r \in {x \in o.rels : x.mode = "External" /\ Claimed(st, x)}}
    /\ Of(W(st, oo, Lossy_PlainOnly(o, now)), "text-lost")
          = {<<"text-lost", LabelOfTok(o.body, t)>> : t \in {x \in ExpToks(st) : LabelOfTok(o.body, x) # "plain"}}
    /\ ((<<"rel-id-changed", "styles">> \in W(st, oo, Lossy_StylesRId1(now)))
           <=> (\E r \in o.rels : r.src = DocRels /\ r.k = "styles" /\ r.id # "rId1"))
    /\ LET wp == W(st, oo, Lossy_DefaultPkgRels(now)) IN
         \A r \in o.rels : (r.src = PkgRels /\ ~(r.id = "rId1" /\ r.k = "main")) => \E w \in wp : w[2] = r.k
    \* MIXED RUNS: losing the text of runs that hold more than one w:t / other run content is reported for
    \* exactly those runs - as unread when the reader loses it, as lost only when the writer does
    /\ LET wl == W(st, oo, Lossy_PureRunsOnly(o, now))
           mt == ExpToks(st) \cap MixedToks(o.body)
       IN /\ Of(wl, "text-lost") = {<<"text-lost", LabelOfTok(o.body, t)>> : t \in mt}
          /\ Of(wl, "text-unread") = {<<"text-unread", LabelOfTok(o.body, t)>> : t \in mt}
          /\ Of(W(st, oo, Lossy_WriterPureOnly(o, now)), "text-unread") = {}
          /\ Of(W(st, oo, Lossy_WriterPureOnly(o, now)), "text-lost") = Of(wl, "text-lost")
          /\ \A t \in mt : LabelOfTok(o.body, t) # "plain"
    \* LOOK-ALIKE RELATIONSHIP TYPES: a reader that takes stylesWithEffects for the styles relationship
    /\ LET wk == W(st, oo, Lossy_StylesLookalike(now))
           fx == {r \in o.rels : r.src = DocRels /\ r.k = "stylesWithEffects"}
           hasSty == \E r \in o.rels : r.src = DocRels /\ r.k = "styles"
       IN IF fx = {} THEN wk = {}
          ELSE IF hasSty THEN wk = {<<"rel-dropped", "stylesWithEffects">>}
          ELSE wk = {<<"rel-type-changed", "stylesWithEffects">>, <<"rel-target-changed", "stylesWithEffects">>}
    \* STYLES PART: it is claimed byte-for-byte exactly when it exists, every style the body uses is defined
    \* in it and no edit extended it by design - whatever its spelling
    /\ LET ws == W(st, oo, Lossy_StylesRewritten(now))
           claimed == HasPart(o.parts, StylesPart) /\ StyleRefs(o.body) \subseteq o.styles.defs
                      /\ ~(\E i \in 2..Len(hist) : hist[i].op = "AddHeading" /\ "Heading1" \notin o.styles.defs)
       IN ws = IF claimed THEN {<<"part-changed", "styles">>} ELSE {}
    \* BYTE CLASSES: a reader that skips entries without content loses exactly the claimed empty parts
    /\ W(st, oo, Lossy_SkipEmpty(o, now))
          = {<<"part-dropped", LabelOfPart(o, p.n)>> : p \in {q \in o.parts : q.b = "empty" /\ q.n \notin st.regen}}
    \* PLACEMENT: a writer that points the relationships of the roles it knows (properties, numbering, notes,
    \* settings) at its own conventional names is reported for exactly the relationships of parts placed
    \* elsewhere - also after the edit that rewrites the role's part, which takes the PART out of the claim only
    /\ W(st, oo, Lossy_Conventional(now))
          = {<<RelTag(r.src, "rel-target-changed"), r.k>> :
               r \in {x \in o.rels : Claimed(st, x) /\ x.mode = "Internal"
                                      /\ \E ro \in Roles : ro[1] = x.src /\ ro[2] = x.ty /\ ro[3] # x.rt}}
    \* an image stored under a name that is already taken is a violation: freshness is necessary
    /\ \A p \in {q \in st.m.parts : q.k = "media" /\ q.cls # "new"} :
         LET m2 == [st.m EXCEPT !.parts = (st.m.parts \ {p}) \cup {[p EXCEPT !.h = "new"]}]
         IN <<"media-overwritten", p.cls>> \in W(st, oo, ObsOfModel(m2, ExpToks(st)))

\* dropping or re-typing any claimed part is detected and named
Inv_DetectParts ==
  phase = "open" =>
    LET o   == st.o
        oo  == ObsOfModel(o, BodyToks(o.body))
        now == ObsOfModel(st.m, ExpToks(st))
    IN \A p \in {q \in o.parts : q.n \notin st.regen} :
         LET lbl == LabelOfPart(o, p.n)
             dropped == [now EXCEPT !.parts = {x \in now.parts : x.n # p.n}]
             retyped == [now EXCEPT !.parts = {IF x.n = p.n THEN [x EXCEPT !.ct = "other"] ELSE x : x \in now.parts}]
             changed == [now EXCEPT !.parts = {IF x.n = p.n THEN [x EXCEPT !.h = "other"] ELSE x : x \in now.parts}]
         IN /\ Viol_Parts(oo, o, st.regen, dropped) = {<<IF IsMedia(o, p.n) THEN "media-dropped" ELSE "part-dropped", lbl>>}
            /\ Viol_Parts(oo, o, st.regen, retyped) = {<<"content-type-changed", lbl>>}
            /\ Viol_Parts(oo, o, st.regen, changed) = {<<IF IsMedia(o, p.n) THEN "media-overwritten" ELSE "part-changed", lbl>>}

\* dropping, re-typing, re-targeting or internalising any claimed relationship is detected and named after its kind
Inv_DetectRels ==
  phase = "open" =>
    LET o   == st.o
        oo  == ObsOfModel(o, BodyToks(o.body))
        now == ObsOfModel(st.m, ExpToks(st))
        V(a) == Viol_Rels(oo, o, st.regen, st.xrels, a)
        ObsRel(r) == [src |-> r.src, id |-> r.id, ty |-> r.ty, tg |-> r.tg, rt |-> r.rt, mode |-> r.mode, ix |-> 0]
    IN \A r \in {x \in o.rels : Claimed(st, x)} :
         LET T(t) == RelTag(r.src, t)
             without == now.rels \ {ObsRel(r)}
             dropped == [now EXCEPT !.rels = without]
             retyped == [now EXCEPT !.rels = without \cup {[ObsRel(r) EXCEPT !.ty = "od/other"]}]
             moved   == [now EXCEPT !.rels = without \cup {[ObsRel(r) EXCEPT !.tg = "elsewhere", !.rt = "elsewhere"]}]
             renamed == [now EXCEPT !.rels = without \cup {[ObsRel(r) EXCEPT !.id = "rIdOther"]}]
         IN /\ V(dropped) = {<<T("rel-dropped"), r.k>>}
            /\ V(retyped) = {<<T("rel-type-changed"), r.k>>}
            /\ V(moved) = {<<T("rel-target-changed"), r.k>>}
            /\ V(renamed) = {<<T("rel-id-changed"), r.k>>}

Inv_ShapeWellFormed ==
  phase = "open" =>
    LET o == st.o IN
    /\ \A r \in o.rels : r.mode = "Internal" => HasPart(o.parts, r.rt)
    /\ \A x, y \in o.rels : (x.src = y.src /\ x.id = y.id) => x = y
    /\ \A p, q \in o.parts : p.n = q.n => p = q
    /\ \A b \in 1..Len(o.body) : o.body[b].blk = "pic" => o.body[b].rel # ""

\* edits never disturb what they do not rewrite by design
Act_Frame ==
  [][(phase = "open" /\ phase' = "open") =>
        /\ st.regen \subseteq st'.regen
        /\ \A p \in st.m.parts : p.n \notin st'.regen => p \in st'.m.parts
        /\ st.m.rels \subseteq st'.m.rels
        /\ ExpToks(st') \subseteq ExpToks(st)
        /\ (ExpToks(st') # ExpToks(st) => hist'[Len(hist')].op = "RemoveParagraphAt")]_vars
=============================================================================
