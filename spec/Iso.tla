-------------------------------- MODULE Iso --------------------------------
(***************************************************************************)
(* Pure (variable-free) specification of document isolation (property C07). *)
(*                                                                         *)
(* A document is a pair  [L |-> local state, R |-> registry].               *)
(*   R  the note / numbering registry: id counters and id-keyed maps        *)
(*        fn, en   sets of [id, own]           (live foot-/endnotes)        *)
(*        abs      set of [key, id, start, own] (abstract numbering, map    *)
(*                 keyed by key = type_symbol_level; start is NOT in key)   *)
(*        nums     set of [id, abs, own]        (numbering instances)       *)
(*        fnNext, enNext, absNext, numNext      (id counters)               *)
(*      `own` is a ghost field: the document whose call stored the entry.   *)
(*   L  everything else a document carries: body length, ids its own body   *)
(*      refers to, the notes / numbering parts (snapshots of the registry   *)
(*      taken when the part was last regenerated), images, header, styles…  *)
(*                                                                         *)
(* INTENDED semantics: every document has its own R.  AS BUILT: all         *)
(* documents of the process share one R (Iso_MC models both).  Every        *)
(* operation is the pair RegApply (registry effect) / LocApply (effect on   *)
(* the calling document), so both variants use the same operators and       *)
(* differ only in which registry value they are applied to.                 *)
(* An operation is a record [op |-> name, a |-> argument token or ""].      *)
(***************************************************************************)
EXTENDS Integers, Sequences, FiniteSets, TLC

ListCfgs == {"bullet", "num1", "num5"}
KeyOf(c)   == IF c = "bullet" THEN "bullet" ELSE "number"   \* cache key of the abstract definition
StartOf(c) == CASE c = "num1" -> 1 [] c = "num5" -> 5 [] OTHER -> 0
IdOf(a)    == CASE a = "1" -> 1 [] a = "2" -> 2 [] a = "3" -> 3 [] OTHER -> 0

\* operation names
RegOps   == {"AddFootnote", "AddFootnoteToRun", "AddEndnote", "RemoveFootnote", "RemoveEndnote", "AddListItem", "RestartNumbering"}
\* AddImageFile: the document writes its own picture to a path that every document of the process uses for its pictures
\* (a report chart re-rendered to a fixed temporary name) and inserts it from there
LocOps   == {"AddParagraph", "AddTable", "AddImage", "AddImageFile", "AddHeader", "AddFooter", "AddStyle", "EditStyle", "GenerateTOC",
             "SetPageMargins", "SetFootnoteConfig", "RenderTextTemplate", "ConvertMd", "ToBytes", "Save", "Open"}
AllOps   == RegOps \cup LocOps
\* operations whose registry update is split into sub-steps in the concurrent as-built model
SubOps   == {"AddFootnote", "AddEndnote", "AddListItem"}

ArgsOf(n) == CASE n = "AddListItem"      -> ListCfgs
               [] n = "RemoveFootnote"   -> {"1", "2"}
               [] n = "RemoveEndnote"    -> {"1"}
               [] n = "RestartNumbering" -> {"1"}
               [] OTHER                  -> {""}
OpsOver(names) == UNION {{[op |-> n, a |-> x] : x \in ArgsOf(n)} : n \in names}

\* ---- registry ------------------------------------------------------------
InitReg == [fn |-> {}, fnNext |-> 1, en |-> {}, enNext |-> 1,
            abs |-> {}, absNext |-> 0, nums |-> {}, numNext |-> 1]

\* map store: the entry replaces any entry with the same key
StoreId(S, r)  == {x \in S : x.id # r.id} \cup {r}
StoreKey(S, r) == {x \in S : x.key # r.key} \cup {r}
HasId(S, i)  == \E x \in S : x.id = i
HasKey(S, k) == \E x \in S : x.key = k
AbsIdOfKey(S, k) == (CHOOSE x \in S : x.key = k).id

RegApply(R, d, o) ==
  CASE o.op \in {"AddFootnote", "AddFootnoteToRun"} ->
         [R EXCEPT !.fn = StoreId(@, [id |-> R.fnNext, own |-> d]), !.fnNext = @ + 1]
    [] o.op = "AddEndnote" ->
         [R EXCEPT !.en = StoreId(@, [id |-> R.enNext, own |-> d]), !.enNext = @ + 1]
    [] o.op = "RemoveFootnote" -> [R EXCEPT !.fn = {x \in @ : x.id # IdOf(o.a)}]
    [] o.op = "RemoveEndnote"  -> [R EXCEPT !.en = {x \in @ : x.id # IdOf(o.a)}]
    [] o.op = "AddListItem" ->
         LET k   == KeyOf(o.a)
             old == HasKey(R.abs, k)
             aid == IF old THEN AbsIdOfKey(R.abs, k) ELSE R.absNext
         IN [R EXCEPT !.abs = IF old THEN @ ELSE StoreKey(@, [key |-> k, id |-> aid, start |-> StartOf(o.a), own |-> d]),
                      !.absNext = IF old THEN @ ELSE @ + 1,
                      !.nums = StoreId(@, [id |-> R.numNext, abs |-> aid, own |-> d]),
                      !.numNext = @ + 1]
    [] o.op = "RestartNumbering" ->
         \* the counter advances even when the instance does not exist
         IF HasId(R.nums, IdOf(o.a))
         THEN [R EXCEPT !.nums = StoreId(@, [id |-> R.numNext,
                                             abs |-> (CHOOSE x \in R.nums : x.id = IdOf(o.a)).abs, own |-> d]),
                        !.numNext = @ + 1]
         ELSE [R EXCEPT !.numNext = @ + 1]
    [] OTHER -> R

Ret(R, o) ==
  CASE o.op = "RemoveFootnote" -> IF HasId(R.fn, IdOf(o.a)) THEN "ok" ELSE "err"
    [] o.op = "RemoveEndnote"  -> IF HasId(R.en, IdOf(o.a)) THEN "ok" ELSE "err"
    \* no return value; observable result = whether the numbering part was rewritten
    [] o.op = "RestartNumbering" -> IF HasId(R.nums, IdOf(o.a)) THEN "changed" ELSE "ok"
    [] OTHER -> "ok"

\* ---- the calling document's own state ------------------------------------
InitLoc == [n |-> 0, nbody |-> 0, sect |-> FALSE,
            fnRef |-> <<>>, enRef |-> <<>>, numRef |-> <<>>,          \* ids the body refers to, in order
            fnHas |-> FALSE, fnPart |-> {}, enHas |-> FALSE, enPart |-> {},
            numHas |-> FALSE, numPart |-> [abs |-> {}, nums |-> {}],
            img |-> 0, hdr |-> FALSE, ftr |-> FALSE, sty |-> 0, toc |-> 0, mar |-> "default",
            cfg |-> FALSE, saves |-> 0, opens |-> 0, aux |-> "none"]

Touch(L) == IF L.sect THEN L ELSE [L EXCEPT !.sect = TRUE, !.nbody = @ + 1]

\* R = registry before the call, R2 = registry after it
LocApply0(L, R, R2, d, o) ==
  CASE o.op \in {"AddFootnote", "AddFootnoteToRun"} ->   \* ToRun: a new paragraph whose run gets the reference
         [L EXCEPT !.nbody = @ + 1, !.fnRef = Append(@, R.fnNext), !.fnHas = TRUE, !.fnPart = R2.fn]
    [] o.op = "AddEndnote" ->
         [L EXCEPT !.nbody = @ + 1, !.enRef = Append(@, R.enNext), !.enHas = TRUE, !.enPart = R2.en]
    [] o.op = "RemoveFootnote" ->
         IF HasId(R.fn, IdOf(o.a)) THEN [L EXCEPT !.fnHas = TRUE, !.fnPart = R2.fn] ELSE L
    [] o.op = "RemoveEndnote" ->
         IF HasId(R.en, IdOf(o.a)) THEN [L EXCEPT !.enHas = TRUE, !.enPart = R2.en] ELSE L
    [] o.op = "AddListItem" ->
         [L EXCEPT !.nbody = @ + 1, !.numRef = Append(@, R.numNext), !.numHas = TRUE,
                   !.numPart = [abs |-> R2.abs, nums |-> R2.nums]]
    [] o.op = "RestartNumbering" ->
         IF HasId(R.nums, IdOf(o.a)) THEN [L EXCEPT !.numHas = TRUE, !.numPart = [abs |-> R2.abs, nums |-> R2.nums]] ELSE L
    [] o.op = "AddParagraph"       -> [L EXCEPT !.nbody = @ + 1]
    [] o.op = "AddTable"           -> [L EXCEPT !.nbody = @ + 1]
    [] o.op = "AddImage"           -> [L EXCEPT !.nbody = @ + 1, !.img = @ + 1]
    [] o.op = "AddImageFile"       -> [L EXCEPT !.nbody = @ + 1, !.img = @ + 1]
    [] o.op = "GenerateTOC"        -> [L EXCEPT !.nbody = @ + 1, !.toc = @ + 1]
    [] o.op = "AddHeader"          -> [Touch(L) EXCEPT !.hdr = TRUE]
    [] o.op = "AddFooter"          -> [Touch(L) EXCEPT !.ftr = TRUE]
    [] o.op = "SetPageMargins"     -> [Touch(L) EXCEPT !.mar = "m20"]
    [] o.op = "AddStyle"           -> [L EXCEPT !.sty = @ + 1]
    [] o.op = "EditStyle"          -> [L EXCEPT !.sty = @ + 100]   \* a predefined style edited in place (through its pointer)
    [] o.op = "SetFootnoteConfig"  -> [L EXCEPT !.cfg = TRUE]
    [] o.op = "RenderTextTemplate" -> [L EXCEPT !.aux = "tmpl"]
    [] o.op = "ConvertMd"          -> [L EXCEPT !.aux = "md"]
    [] o.op = "ToBytes"            -> [L EXCEPT !.saves = @ + 1]
    [] o.op = "Save"               -> [L EXCEPT !.saves = @ + 1]
    [] o.op = "Open"               -> [L EXCEPT !.saves = @ + 1, !.opens = @ + 1]
    [] OTHER -> L
LocApply(L, R, R2, d, o) == [LocApply0(L, R, R2, d, o) EXCEPT !.n = @ + 1]

InitDoc == [L |-> InitLoc, R |-> InitReg]
\* intended semantics: the registry is the document's own
ApplyDoc(s, d, o) == LET R2 == RegApply(s.R, d, o)
                     IN [L |-> LocApply(s.L, s.R, R2, d, o), R |-> R2]

RECURSIVE Fold(_, _, _)
Fold(s, d, h) == IF h = <<>> THEN s ELSE Fold(ApplyDoc(s, d, Head(h)), d, Tail(h))
\* F(history of d): the state of d as a function of the calls made on d alone
F(d, h) == Fold(InitDoc, d, h)

\* ---- what a caller can observe of document d, given the registry it reads --
NumView(P, d) == {[num |-> x.id, starts |-> {a.start : a \in {b \in P.abs : b.id = x.abs}}, mine |-> x.own = d] : x \in P.nums}
View(L, R, d) ==
  [fnCount |-> Cardinality(R.fn), enCount |-> Cardinality(R.en),
   fnRef |-> L.fnRef, enRef |-> L.enRef, numRef |-> L.numRef,
   fnHas |-> L.fnHas, fnPart |-> {[id |-> x.id, mine |-> x.own = d] : x \in L.fnPart},
   enHas |-> L.enHas, enPart |-> {[id |-> x.id, mine |-> x.own = d] : x \in L.enPart},
   numHas |-> L.numHas, numPart |-> NumView(L.numPart, d), absCount |-> Cardinality(L.numPart.abs),
   own |-> [nbody |-> L.nbody, img |-> L.img, hdr |-> L.hdr, ftr |-> L.ftr, sty |-> L.sty, toc |-> L.toc,
            mar |-> L.mar, cfg |-> L.cfg, saves |-> L.saves, opens |-> L.opens, aux |-> L.aux]]

ViewFields == {"fnCount", "enCount", "fnRef", "enRef", "numRef", "fnHas", "fnPart", "enHas", "enPart",
               "numHas", "numPart", "absCount", "own"}
ViewDiff(v, w) == {f \in ViewFields : v[f] # w[f]}

\* nothing of another document is visible in d's view
NoForeign(v) == /\ \A x \in v.fnPart : x.mine
                /\ \A x \in v.enPart : x.mine
                /\ \A x \in v.numPart : x.mine
=============================================================================
