----------------------------- MODULE XmlIn_MC -----------------------------
(***************************************************************************)
(* (a) SpecGen: a state machine that builds an input step by step - pick a *)
(*     context, then open / close / empty-element / character-data steps   *)
(*     on a stack (grammatical placements freely, ungrammatical placements *)
(*     and unusual attribute classes within a budget), then one mutation   *)
(*     of the main part or one deviation of the package.  BFS reaches      *)
(*     every input of the bound exactly once, -simulate samples larger     *)
(*     ones.  Every finished input is emitted as a behaviour               *)
(*     <<Open(input), Battery(call 1, ..., call n)>>.                      *)
(* (b) SpecMC: the same inputs, followed by every run the reference        *)
(*     machine (XmlIn!Allowed) permits; the invariants state the property  *)
(*     at design level and the soundness of the input classification.      *)
(***************************************************************************)
EXTENDS XmlIn, Json

CONSTANTS Groups,      \* the groups of inputs explored in this run (presets below: bounds per group)
          Rot          \* 0..2: which third of the rotating classes the quick groups take (the run's seed decides)

VARIABLES grp, pk, ph, ctx, toks, stk, nodes, odd, op, rs, st
vars == <<grp, pk, ph, ctx, toks, stk, nodes, odd, op, rs, st>>

\* ------------------------------------------------------------------ presets
NamesAll  == AllNames
NamesCore == {"document", "body", "p", "pPr", "pStyle", "numPr", "numId", "sectPr", "r", "rPr", "sz", "t", "text", "br", "drawing",
              "inline", "anchor", "extent", "graphic", "graphicData", "pic", "blipFill", "blip", "tbl", "tblPr", "tblW", "tblGrid",
              "gridCol", "tr", "trPr", "tc", "tcPr", "gridSpan", "vMerge", "hyperlink", "sdt", "sdtContent", "pgSz", "pgMar",
              "headerReference", "unknown"}
NamesMini == {"document", "body", "p", "pPr", "numPr", "r", "t", "text", "drawing", "tbl", "tblGrid", "gridCol", "tr", "tc", "tcPr",
              "gridSpan", "vMerge", "sectPr", "pgSz", "sdt", "sdtContent", "unknown"}
NamesTiny == {"p", "t", "tbl", "text", "r", "unknown"}
WrongAll  == {"p", "tbl", "tr", "tc", "t", "r", "body", "sectPr", "drawing", "text", "document", "gridCol", "tcPr", "pPr", "blip"}
WrongMini == {"p", "tbl", "tc", "t", "body", "text", "sectPr"}
CtxMain   == {"root", "body", "bsdt", "p", "r", "tbl", "tr", "tc", "sectPr", "inline"}
\* the loops every quick group visits / the loops below them (property lists, floating pictures, picture parts),
\* which the position-dependent mutations of the quick tier visit a third at a time
CtxFirst  == {"root", "doc", "body", "bsdt", "p", "pPr", "hlink", "r", "rPr", "t", "instr", "tbl", "tblPr", "tr", "tc", "tcPr", "tcp",
              "sectPr", "drawing", "inline", "anchor", "gdata", "pic", "apic"}
CtxLowerSeq == <<"sdt", "wpoly", "tblGrid", "ins", "wrapT", "tblBorders", "numPr", "wrapThr", "tblCellMar", "pBdr", "wrapTB", "trPr",
                 "tabs", "posH", "tcBorders", "unknown", "posV", "tcMar", "gfp", "align", "nvPicPr", "graphic", "posOff", "cNvPicPr",
                 "blipFill", "wpolyThr", "spPr", "xfrm">>
CtxLower  == {CtxLowerSeq[i] : i \in 1..Len(CtxLowerSeq)}
CtxLowerRot == {CtxLowerSeq[i] : i \in {k \in 1..Len(CtxLowerSeq) : k % 3 = Rot}}
AttrRot   == IF Rot = 0 THEN {"none", "huge"} ELSE IF Rot = 1 THEN {"word", "neg"} ELSE {"big", "none"}
ASSUME /\ Rot \in 0..2
       /\ CtxFirst \cup CtxLower = AllCtx /\ CtxFirst \cap CtxLower = {} /\ Cardinality(CtxLower) = Len(CtxLowerSeq)
       /\ CtxGrammatical /\ CtxCoverLoops /\ LieSound
TextAll   == TextClasses
MutTags   == {"trunc", "truncmid", "dropend", "dupstart", "dupend", "swapend"}
MutExtreme == {"deep", "wide", "bigtext", "bigattr", "manyattrs"}
MutSmall  == AllMuts \ MutExtreme
MutSim    == {"none", "defaultns", "prefix", "mixedns", "nodecl", "bom", "trunc", "dupstart", "strict", "garbage"}   \* half of them leave a readable document
EntriesAll == {"mem", "file", "memerr"}

Def == [ctxs |-> AllCtx, names |-> NamesAll, wrong |-> WrongAll, attrdev |-> AttrClasses \ {"ok"}, textcls |-> {"plain"},
        maxnodes |-> 1, minnodes |-> 0, maxdepth |-> 2, maxodd |-> 1, muts |-> {"none"}, deeps |-> {}, wides |-> {},
        pkparts |-> {}, pkbreaks |-> {}, zips |-> {"ok"}, lies |-> {}, entries |-> {"mem"}, rich |-> {TRUE}, cross |-> FALSE, battery |-> "std"]
With(r, f, v) == [r EXCEPT ![f] = v]
W2(r, f1, v1, f2, v2) == With(With(r, f1, v1), f2, v2)
W3(r, f1, v1, f2, v2, f3, v3) == With(W2(r, f1, v1, f2, v2), f3, v3)
PkAll(r) == [r EXCEPT !.pkparts = PkParts, !.pkbreaks = PkBreaks, !.zips = ZipShapes, !.entries = EntriesAll]
PkLies(r) == [PkAll(r) EXCEPT !.lies = ZipLies]

GroupDef(gn) ==
  CASE \* ---- quick tier
       gn = "q-place1" -> W3(Def, "ctxs", CtxFirst, "battery", "full", "textcls", {"plain", "cdata"})
    [] gn = "q-place1n" -> W3(Def, "ctxs", CtxLower, "wrong", WrongMini, "attrdev", AttrRot)
    [] gn = "q-place2" -> [Def EXCEPT !.ctxs = CtxMain, !.names = NamesMini, !.wrong = WrongMini, !.attrdev = {}, !.minnodes = 2, !.maxnodes = 2]
    [] gn = "q-mut0"   -> W3(Def, "ctxs", CtxFirst, "maxnodes", 0, "muts", MutSmall)
    [] gn = "q-mut0n"  -> W3(Def, "ctxs", CtxLowerRot, "maxnodes", 0, "muts", MutTags)
    [] gn = "q-mut1"   -> [Def EXCEPT !.ctxs = CtxFirst, !.names = NamesMini, !.maxodd = 0, !.minnodes = 1, !.muts = {"trunc", "dropend"}]
    [] gn = "q-ziplie" -> [Def EXCEPT !.ctxs = {"body"}, !.maxnodes = 0, !.lies = ZipLies, !.entries = {"mem", "file"}]
    [] gn = "q-pkg"    -> PkAll([Def EXCEPT !.ctxs = {"body", "tc"}, !.maxnodes = 0, !.battery = "full"])
    [] gn = "q-extreme" -> [Def EXCEPT !.ctxs = {"tc", "r"}, !.names = {"p", "t", "tbl", "text"}, !.wrong = {"tbl"}, !.attrdev = {}, !.minnodes = 1,
                                     !.muts = MutExtreme, !.deeps = {2000}, !.wides = {8000}]
    [] gn = "q-sim"    -> PkLies([Def EXCEPT !.maxnodes = 9, !.maxdepth = 4, !.maxodd = 3, !.muts = MutSim, !.textcls = TextAll, !.rich = {TRUE, FALSE}, !.cross = TRUE])
       \* ---- thorough tier
    [] gn = "t-place2n" -> [Def EXCEPT !.ctxs = CtxLower, !.maxnodes = 2, !.wrong = WrongMini, !.attrdev = {"none", "huge"}, !.textcls = {"plain", "cdata"}]
    [] gn = "t-mut0n"  -> W3(Def, "ctxs", CtxLower, "maxnodes", 0, "muts", MutSmall)
    [] gn = "t-mut1n"  -> [Def EXCEPT !.ctxs = CtxLower, !.maxodd = 0, !.minnodes = 1, !.muts = MutTags]
    [] gn = "t-place2" -> [Def EXCEPT !.ctxs = CtxFirst, !.maxnodes = 2, !.attrdev = {"none", "huge"}, !.textcls = {"plain", "ent", "cdata", "comment"}]
    [] gn = "t-place3" -> [Def EXCEPT !.ctxs = CtxMain, !.names = NamesMini, !.wrong = WrongMini, !.attrdev = {}, !.minnodes = 3, !.maxnodes = 3, !.maxdepth = 3]
    [] gn = "t-odd2"   -> [Def EXCEPT !.ctxs = CtxMain, !.names = NamesMini, !.attrdev = {"none", "huge"}, !.minnodes = 2, !.maxnodes = 2, !.maxodd = 2, !.textcls = {"plain", "pi", "space"}]
    [] gn = "t-mut0"   -> [Def EXCEPT !.ctxs = CtxFirst, !.maxnodes = 0, !.muts = MutSmall, !.rich = {TRUE, FALSE}, !.entries = {"mem", "file"}]
    [] gn = "t-mut1"   -> [Def EXCEPT !.ctxs = CtxFirst, !.names = NamesMini, !.maxodd = 0, !.minnodes = 1, !.muts = MutSmall \ {"none"}]
    [] gn = "t-mut2"   -> [Def EXCEPT !.ctxs = CtxMain, !.names = NamesMini, !.maxodd = 0, !.minnodes = 2, !.maxnodes = 2, !.muts = {"trunc", "dropend"}]
    [] gn = "t-pkg"    -> PkAll([Def EXCEPT !.ctxs = {"body", "tc", "p", "sectPr", "inline"}, !.maxnodes = 0, !.battery = "full", !.rich = {TRUE, FALSE}])
    [] gn = "t-extreme" -> [Def EXCEPT !.ctxs = {"tc", "r", "bsdt"}, !.names = {"p", "t", "tbl", "text"}, !.wrong = {"tbl"},
                                     !.attrdev = {}, !.minnodes = 1, !.muts = MutExtreme, !.deeps = {30000}, !.wides = {40000}]
    [] gn = "t-ziplie" -> [Def EXCEPT !.ctxs = {"body", "tc"}, !.maxnodes = 0, !.lies = ZipLies, !.entries = EntriesAll, !.battery = "full"]
    [] gn = "t-sim"    -> PkLies([Def EXCEPT !.maxnodes = 14, !.maxdepth = 6, !.maxodd = 3, !.muts = MutSim, !.textcls = TextAll, !.rich = {TRUE, FALSE}, !.cross = TRUE, !.battery = "full"])
       \* ---- model checking of the reference machine and of the classification
    [] gn = "mc-q"     -> [Def EXCEPT !.ctxs = {"root", "body", "r", "tc"}, !.names = {"document", "body", "p", "r", "t", "text", "tbl", "tr", "tc", "gridSpan", "sectPr", "pgSz", "unknown"},
                                     !.wrong = {"p", "tbl", "tc", "t", "body", "text"}, !.attrdev = {"none"}, !.textcls = {"plain", "comment"},
                                     !.muts = {"none", "trunc", "truncmid", "dropend", "dupstart", "dupend", "swapend", "tworoots", "strict", "empty", "missing", "deep", "wide"},
                                     !.deeps = {2}, !.wides = {3}, !.pkparts = {"styles"}, !.pkbreaks = {"empty"}, !.zips = {"ok", "nonzip"}, !.lies = {Lie("usize", "huge", "main"), Lie("method", "unknown", "all")}, !.battery = "short"]
    [] gn = "mc-t"     -> [Def EXCEPT !.ctxs = {"root", "doc", "body", "p", "r", "tc", "sectPr", "pic"}, !.names = NamesMini, !.attrdev = {"none", "huge"},
                                     !.wrong = WrongMini \cup {"document", "tr"}, !.textcls = {"plain", "comment", "cdata"}, !.maxnodes = 2,
                                     !.muts = {"none", "trunc", "truncmid", "dropend", "dupstart", "dupend", "swapend", "tworoots", "strict", "empty", "missing", "deep", "wide"},
                                     !.deeps = {2, 3}, !.wides = {2, 3}, !.pkparts = {"styles"}, !.pkbreaks = {"empty"}, !.zips = {"ok", "nonzip"}, !.lies = {Lie("usize", "huge", "main"), Lie("method", "unknown", "all")}, !.battery = "short"]

G == GroupDef(grp)
Ctxs == G.ctxs          Names == G.names        WrongNames == G.wrong    AttrDev == G.attrdev   TextCls == G.textcls
MaxNodes == G.maxnodes  MinNodes == G.minnodes  MaxDepth == G.maxdepth   MaxOdd == G.maxodd     MutKinds == G.muts
Deeps == G.deeps        Wides == G.wides        PkPartsC == G.pkparts    PkBreaksC == G.pkbreaks ZipsC == G.zips
EntriesC == G.entries   RichC == G.rich         Cross == G.cross         BatteryName == G.battery
LiesC == G.lies

\* the calls made on every opened document, in this order (reads, edits, saves)
BatteryFull == <<"GetParagraphs", "GetTables", "TableReads", "GetPageSettings", "ListHeadings", "Counts", "StyleReads", "ToBytes",
                 "AddParagraph", "ParaSetters", "UnmergeCells", "CellFormat", "SetCellText", "InsertRow", "AppendRow", "InsertColumn", "AppendColumn",
                 "MergeCells", "UnmergeCells", "TableLook", "NestedTable", "CopyTable", "DeleteColumn", "DeleteRow",
                 "PageSetters", "AddHeader", "AddFooter", "AddImage", "CellImage", "AddListItem", "AddFootnote", "AddEndnote",
                 "SetTitle", "AddTable", "TOC", "RemoveParagraphAt", "Template", "ToBytes", "SaveFile">>
\* the standard battery leaves out the second way of saving and template rendering (they work on the same structures)
BatteryStd == SelectSeq(BatteryFull, LAMBDA o : o \notin {"SaveFile", "Template", "StyleReads", "CopyTable"})
BatteryShort == <<"GetParagraphs", "InsertColumn", "ToBytes">>   \* for model checking the relation only
Battery == IF BatteryName = "full" THEN BatteryFull ELSE IF BatteryName = "std" THEN BatteryStd ELSE BatteryShort

Path == CtxPath[ctx]
Top == IF Len(stk) = 0 THEN "#root" ELSE Last(stk)
Grammatical(n) == n \in KidsOf(Top)
GenDepth == Len(stk) - Len(Path)

Init == /\ grp \in Groups /\ pk = NoPk /\ ph = "ctx" /\ ctx = "root" /\ toks = <<>> /\ stk = <<>> /\ nodes = 0 /\ odd = 0
        /\ op = [op |-> "none"] /\ rs = <<>> /\ st = Closed

PkDevs == {[part |-> p, brk |-> b, zip |-> "ok", entry |-> "mem", lie |-> NoLie] : p \in PkPartsC, b \in PkBreaksC}
     \cup {[part |-> "none", brk |-> "none", zip |-> z, entry |-> e, lie |-> NoLie] : z \in ZipsC \ {"ok"}, e \in EntriesC}
     \cup {[part |-> "none", brk |-> "none", zip |-> "ok", entry |-> e, lie |-> l] : l \in LiesC, e \in EntriesC \ {"memerr"}}
PkPlain == {[part |-> "none", brk |-> "none", zip |-> "ok", entry |-> e, lie |-> NoLie] : e \in EntriesC}

\* the context and the package around the main part are chosen first
PickCtx == /\ ph = "ctx"
           /\ \E c \in Ctxs :
                /\ ctx' = c /\ stk' = CtxPath[c]
                /\ toks' = [i \in 1..Len(CtxPath[c]) |-> Tok("o", CtxPath[c][i], "ok")]
           /\ pk' \in PkDevs \cup PkPlain
           /\ ph' = "build" /\ UNCHANGED <<grp, nodes, odd, op, rs, st>>

\* cost of a placement: 1 if ungrammatical, +1 if the attribute class is unusual
Cost(n, a) == (IF Grammatical(n) THEN 0 ELSE 1) + (IF a = "ok" THEN 0 ELSE 1)
MayPlace(n, a) == /\ (Grammatical(n) \/ n \in WrongNames)
                  /\ odd + Cost(n, a) <= MaxOdd

OpenEl == /\ ph = "build" /\ nodes < MaxNodes /\ GenDepth < MaxDepth
          /\ \E n \in Names \cap Containers, a \in {"ok"} \cup AttrDev :
               /\ MayPlace(n, a)
               /\ toks' = Append(toks, Tok("o", n, a)) /\ stk' = Append(stk, n)
               /\ odd' = odd + Cost(n, a)
          /\ nodes' = nodes + 1 /\ UNCHANGED <<grp, pk, ph, ctx, op, rs, st>>

LeafEl == /\ ph = "build" /\ nodes < MaxNodes
          /\ \E n \in Names \ (Containers \cup {"text"}), a \in {"ok"} \cup AttrDev :
               /\ MayPlace(n, a)
               /\ toks' = Append(toks, Tok("l", n, a))
               /\ odd' = odd + Cost(n, a)
          /\ nodes' = nodes + 1 /\ UNCHANGED <<grp, pk, ph, ctx, stk, op, rs, st>>

TextEl == /\ ph = "build" /\ nodes < MaxNodes /\ "text" \in Names
          /\ (IF Len(toks) = 0 THEN TRUE ELSE Last(toks).k # "x")          \* adjacent character data is one token for a reader
          /\ \E c \in TextCls :
               /\ MayPlace("text", "ok")
               /\ toks' = Append(toks, Tok("x", c, "ok"))
               /\ odd' = odd + Cost("text", "ok")
          /\ nodes' = nodes + 1 /\ UNCHANGED <<grp, pk, ph, ctx, stk, op, rs, st>>

CloseEl == /\ ph = "build" /\ GenDepth > 0
           /\ toks' = Append(toks, Tok("c", Top, "ok")) /\ stk' = Front(stk)
           /\ UNCHANGED <<grp, pk, ph, ctx, nodes, odd, op, rs, st>>

\* all generated elements are closed: close the context path
Finish == /\ ph = "build" /\ GenDepth = 0 /\ nodes >= MinNodes /\ Len(toks) > 0
          /\ toks' = toks \o [i \in 1..Len(Path) |-> Tok("c", Path[Len(Path) + 1 - i], "ok")]
          /\ stk' = <<>> /\ ph' = "built"
          /\ UNCHANGED <<grp, pk, ctx, nodes, odd, op, rs, st>>

MutSet == MutsOf(toks, MutKinds, Deeps, Wides)
\* one of them at a time unless the group crosses them: a deviating package goes with the unmutated main part
Choices == IF Cross \/ pk \in PkPlain THEN MutSet ELSE {mu \in MutSet : mu.kind = "none"}

\* the extreme mutations travel unexpanded (the harness repeats the span; the judge compares the token count)
Extreme(mu) == mu.kind \in {"deep", "wide"}
NTok(mu) == IF mu.kind = "deep" THEN Len(toks) + 2 * (mu.n - 1) * (mu.m - mu.j + 1)
            ELSE IF mu.kind = "wide" THEN Len(toks) + (mu.n - 1) * (mu.m - mu.j + 1)
            ELSE Len(ApplyMut(toks, mu))
OpenOp(mu, rich) ==
  [op |-> "Open", ctx |-> ctx, toks |-> IF Extreme(mu) THEN toks ELSE ApplyMut(toks, mu), ntoks |-> NTok(mu),
   grp |-> grp, mut |-> mu, cls |-> MutClass(toks, mu), con |-> Construct(toks, mu), pk |-> pk, rich |-> rich]

Mutate == /\ ph = "built"
          /\ \E mu \in Choices, rich \in RichC :
               op' = OpenOp(mu, rich)
          /\ ph' = "done" /\ UNCHANGED <<grp, pk, ctx, toks, stk, nodes, odd, rs, st>>

Build == PickCtx \/ OpenEl \/ LeafEl \/ TextEl \/ CloseEl \/ Finish \/ Mutate

\* ----------------------------------------------------------------- generation
SpecGen == Init /\ [][Build]_vars
CaseOf == <<op, [op |-> "Battery", calls |-> Battery]>>
Emit == ph # "done" \/ PrintT(<<"WZCASE", ToJson(CaseOf)>>)

\* -------------------------------------------------- the reference machine runs
\* after the input is fixed: Open, then the battery in order, every permitted outcome
\* (rs keeps the calls made so far without their outcomes plus the outcome of the last one: the
\*  permitted outcomes do not depend on earlier outcomes, so this loses no run of the relation)
NextOp == IF Len(rs) = 0 THEN "Open" ELSE IF Len(rs) <= Len(Battery) THEN Battery[Len(rs)] ELSE "-"
Forget(e) == [o |-> e.o, ret |-> "-", wf |-> "-", pre |-> e.pre]
Call == /\ ph = "done" /\ NextOp # "-"
        /\ \E a \in Allowed(st, NextOp) :
             /\ rs' = [i \in 1..Len(rs) |-> Forget(rs[i])] \o <<[o |-> NextOp, ret |-> a[1], wf |-> a[2], pre |-> st]>>
             /\ st' = a[3]
        /\ UNCHANGED <<grp, pk, ph, ctx, toks, stk, nodes, odd, op>>
SpecMC == Init /\ [][Build \/ Call]_vars

\* the reference machine satisfies the property, and every deviation from it is named
Inv_Ref ==
  \A i \in 1..Len(rs) :
    LET e == rs[i] IN
    /\ (e.ret # "-" => Viol_Call(e.pre, e.o, e.ret, e.wf) = {})
    /\ \A b \in BadRets : Viol_Call(e.pre, e.o, b, "-") = {<<PhaseOfOp(e.o), e.o, b>>}
    /\ (e.o \in SaveOps => /\ Viol_Call(e.pre, e.o, "ok", "ill") = {<<"save", e.o, "main-part-ill">>}
                           /\ Viol_Call(e.pre, e.o, "err", "-") = {})
    /\ e.pre.ph = "doc" \/ e.o = "Open"
\* nothing is ever called on a failed open; a call there would be reported as a machinery fault
Inv_NoCallAfterError ==
  /\ (st.ph = "failed" => Len(rs) = 1)
  /\ \A o \in BatteryOps : Viol_Call([ph |-> "failed"], o, "err", "-") = {<<"MACH", o, "ret-err">>}
  /\ Viol_Call(Closed, "Open", "doc", "-") = {} /\ Viol_Call(Closed, "Open", "err", "-") = {}

\* what the generator builds, and the classification of its mutations, against the independent recogniser
Inv_Built ==
  ph = "built" =>
    /\ (ctx # "root" => WellFormed(toks))
    /\ Len(toks) = 2 * Cardinality({i \in 1..Len(toks) : toks[i].k = "o"}) + Cardinality({i \in 1..Len(toks) : toks[i].k \in {"l", "x"}})
    /\ \A i \in 1..Len(toks) : toks[i].k = "o" => (MatchOf(toks, i) > i /\ toks[MatchOf(toks, i)].n = toks[i].n)
    /\ odd <= MaxOdd /\ nodes <= MaxNodes

Inv_Muts ==
  ph = "built" =>
    \A mu \in MutsOf(toks, TokenMuts \cup {"truncmid"}, {2, 3}, {2, 3}) :
      LET r == ApplyMut(toks, mu) IN
      /\ (mu.kind \in {"trunc", "dropend", "dupstart", "dupend", "swapend", "tworoots"} /\ ctx # "root" => ~WellFormed(r))
      /\ (mu.kind \in {"trunc", "dropend", "dupstart", "dupend", "swapend", "tworoots"} /\ ctx # "root" => MutClass(toks, mu) = "ill")
      /\ (mu.kind = "trunc" /\ ctx # "root" => (Construct(toks, mu) # "#root" /\ Scan(r).stk # <<>>))
      /\ (mu.kind = "deep" /\ ctx # "root" =>
            /\ WellFormed(r)
            /\ Len(r) = Len(toks) + 2 * (mu.n - 1) * (mu.m - mu.j + 1))
      /\ (mu.kind = "wide" /\ ctx # "root" =>
            /\ WellFormed(r)
            /\ Len(r) = Len(toks) + (mu.n - 1) * (mu.m - mu.j + 1))
      /\ (mu.kind = "none" => r = toks)

Inv_OpenOp ==
  ph = "done" =>
    /\ op.cls \in {"wf", "ill", "any", "absent"}
    /\ (op.mut.kind \in TokenMuts \ {"deep", "wide"} => (op.cls = "wf") = WellFormed(op.toks))
    /\ (op.mut.kind \in TokenMuts /\ op.mut.n <= 3 => op.ntoks = Len(ApplyMut(toks, op.mut)))
=============================================================================
