SPECIFICATION SpecMC
CONSTANTS
  Variant = "built"
  Loadables <- PoolTiny
  RDatas <- DatasStd
  OpKinds = {"Load", "Render", "Get", "Validate", "Remove", "Clear", "SetBasePath", "Analyze"}
  ArgNames = {"base", "A", "B", "G"}
  Entries = {"doc", "tpl", "rnd"}
  MaxLoads = 3
  Depth = 0
INVARIANTS Inv_ShowsPure Inv_RenderPure Inv_CacheAgree
PROPERTIES Act_Local Act_ReadersPure Act_ValuesImmutable
CHECK_DEADLOCK FALSE
\* expected result of this configuration: Invariant Inv_ShowsPure is violated (non-vacuity self-test, asserted by props/C17.py)
