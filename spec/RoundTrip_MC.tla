--------------------------- MODULE RoundTrip_MC ---------------------------
(***************************************************************************)
(* (a) SpecMC: exhaustive check of the reference machine                   *)
(*        Build ; (Save ; Open)*                                            *)
(*     with the serialiser and a reader that has a `case` for everything   *)
(*     except the groups in Lost and the body-level kinds in LostKinds,    *)
(*     and that returns the instances of the multi groups in Alias as      *)
(*     copies of the last one. With all three empty (the intended reader)  *)
(*     the round trip is the identity and the judge is silent; otherwise   *)
(*     the judge must report exactly what is lost / changed, attributed to *)
(*     the features / constructors that requested it, and nothing after    *)
(*     cycle 1. The alphabets contain targets below a nested table node    *)
(*     (DeepCtors) and sections with several header / footer references.   *)
(* (b) SpecGen: generation of the behaviours replayed on the library: a     *)
(*     focus element carrying 0..MaxF features, embedded in a context.     *)
(***************************************************************************)
EXTENDS RoundTrip, Json, SequencesExt

CONSTANTS
  Cycles,        \* number of Save;Open cycles per behaviour
  Lost,          \* SpecMC: groups (below an element) the modelled reader drops
  LostKinds,     \* SpecMC: body-level element kinds the modelled reader drops
  Alias,         \* SpecMC: multi groups whose instances the modelled reader aliases to the last one
  MCCtors, MCFeats, MCSect,  \* SpecMC: small alphabets (section features: every subset of at most MCSectMax)
  MCSectMax,
  MinF, MaxF,    \* SpecGen: number of features on the focus element
  SingleCtors,   \* constructors that receive every applicable single feature
  PairCtors,     \* constructors that receive feature sets of size >= 2
  PairFeats,     \* features that may occur in sets of size >= 2
  FocusKinds,    \* subset of {"ctor", "sect"}: what may be the focus
  CtxMode,       \* "one": a context determined by the focus; "all": every context
  PreSaves       \* subset of BOOLEAN: build with / without an intermediate serialisation

ASSUME Alias \subseteq MultiGroups /\ Alias \cap Lost = {}

VARIABLES st, hist, g
vars == <<st, hist, g>>

Canon(S) == SetToSortSeq(S, LAMBDA a, b : FIdx[a] < FIdx[b])

\* ------------------------------------------------------------------ SpecMC
\* st = [phase, built, mem, disk, js, wit]
MCInit == /\ st = [phase |-> "new", built |-> BuildOp(<<>>, <<>>, "last"), mem |-> EmptyProj, disk |-> EmptyProj,
                   js |-> InitJs, wit |-> {}, n |-> 0]
          /\ hist = <<>> /\ g = 0

FeatSets(c) == LET A == {f \in MCFeats : Applicable(c, f)}
               IN {{}} \cup {{f} : f \in A} \cup {{f, h} : f \in A, h \in A}
MCBuilds == {BuildOp(<<[c |-> c, fs |-> Canon(fs)]>> \o tail, Canon(sf), "last") :
                c \in MCCtors, fs \in UNION {FeatSets(cc) : cc \in MCCtors},
                tail \in {<<>>, <<[c |-> "c.para", fs |-> <<>>]>>},
                sf \in {x \in SUBSET MCSect : Cardinality(x) <= MCSectMax}}
MCBuildsOK == {b \in MCBuilds : \A f \in SeqSet(b.els[1].fs) : Applicable(b.els[1].c, f)}

MCStep(op, P) ==
  LET r == JudgeStep(st.js, op, "ok", P)
  IN [st EXCEPT !.js = r.js, !.wit = @ \cup r.wit]

MCBuild == /\ st.phase = "new"
           /\ \E b \in MCBuildsOK :
                st' = [MCStep(b, Model(b)) EXCEPT !.phase = "built", !.built = b, !.mem = Model(b)]
MCSave  == /\ st.phase \in {"built", "opened"} /\ st.n < Cycles
           /\ st' = [MCStep(SaveOp, Ser(st.mem)) EXCEPT !.phase = "saved", !.disk = Ser(st.mem)]
MCOpen  == /\ st.phase = "saved"
           /\ st' = [MCStep(OpenOp, Parse(st.disk, Lost, LostKinds, Alias)) EXCEPT !.phase = "opened", !.mem = Parse(st.disk, Lost, LostKinds, Alias), !.n = @ + 1]
MCNext == (MCBuild \/ MCSave \/ MCOpen) /\ UNCHANGED <<hist, g>>
SpecMC == MCInit /\ [][MCNext]_vars

\* the design-level statement of C03: with a reader that handles everything, opening what
\* was saved gives back the document that was built, and saving again writes the same part
StripSrc(P) == [P EXCEPT !.els = [i \in 1..Len(P.els) |-> [P.els[i] EXCEPT !.src = 0]]]
Intended == Lost = {} /\ LostKinds = {} /\ Alias = {}
Inv_Identity == Intended =>
                  /\ st.phase = "opened" => StripSrc(st.mem) = StripSrc(Model(st.built))
                  /\ st.phase \in {"saved", "opened"} => StripSrc(st.disk) = StripSrc(Model(st.built))
C03Wits == {w \in st.wit : w[1] = "C03"}
Inv_Silent == Intended => C03Wits = {}

\* with a lossy reader the judge reports exactly what is lost, once, attributed correctly
ExpectedLoss(b) ==
  UNION {
    LET c == CT[b.els[i].c]
        gone == {j \in 1..Len(c.kinds) : c.kinds[j] \in LostKinds}
    IN {<<"C03", "dropped-on-open", c.name, c.kinds[j]>> : j \in gone}
       \cup (IF c.main \in gone THEN {}
             ELSE IF b.els[i].c \in DeepCtors /\ "tbl" \in Lost
             THEN \* the nested table node that governs everything the features left
                  {<<"C03", "dropped-on-open", a, "tbl">> : a \in Attr(b, i, "tbl")}
             ELSE UNION {{<<"C03", "dropped-on-open", a, gg>> : a \in Attr(b, i, gg)} : gg \in ElGroups(b.els[i]) \cap Lost})
    : i \in 1..Len(b.els)}
  \cup UNION {{<<"C03", "dropped-on-open", a, gg>> : a \in Attr(b, 0, gg)} :
                gg \in UNION {FT[f].gs : f \in {x \in SeqSet(b.sect) : FT[x].exp = "all"}} \cap Lost}
\* an aliasing reader changes every multi group of which an element (that is read at all) holds two instances or more
AliasWits(b, i, E) ==
  UNION {IF Cardinality({k \in DOMAIN E : E[k].g = gg}) >= 2
         THEN {<<"C03", "changed", a, gg>> : a \in Attr(b, i, gg)} ELSE {} : gg \in Alias}
ExpectedAlias(b) ==
  LET M == Model(b)
  IN UNION {IF M.els[j].k \in LostKinds THEN {} ELSE AliasWits(b, M.els[j].src, M.els[j].ents) : j \in 1..Len(M.els)}
     \cup (IF M.hs = 1 THEN AliasWits(b, 0, M.sect) ELSE {})
Inv_Exact == (st.phase = "opened" \/ (st.phase = "saved" /\ st.n >= 1)) => C03Wits = ExpectedLoss(st.built) \cup ExpectedAlias(st.built)
Inv_NothingEarly == st.phase \in {"new", "built"} \/ (st.phase = "saved" /\ st.n = 0) => C03Wits = {}
\* an aliasing reader changes values, never the number of instances: the reopened section has as many
\* entries as the saved one unless the reader is lossy
Inv_AliasKeepsShape == (Lost = {} /\ st.phase = "opened") => DOMAIN st.mem.sect = DOMAIN st.disk.sect

\* Save never changes the document in memory; Open installs what the reader yields
Act_SavePure == [][st'.phase = "saved" => st'.mem = st.mem]_vars
Act_OpenReads == [][st'.phase = "opened" => (st'.disk = st.disk /\ Len(st'.mem.els) <= Len(st.disk.els)
                                             /\ (Intended => StripSrc(st'.mem) = StripSrc(st.disk)))]_vars

\* ----------------------------------------------------------------- SpecGen
\* contexts: elements before / after the focus, section features, when they are applied
E(c) == [c |-> c, fs |-> <<>>]
Contexts == <<
  [pre |-> <<>>,               post |-> <<>>,             sect |-> <<>>,                   se |-> "last"],
  [pre |-> <<E("c.para")>>,    post |-> <<>>,             sect |-> <<>>,                   se |-> "last"],
  [pre |-> <<>>,               post |-> <<E("c.para")>>,  sect |-> <<"s.margins">>,        se |-> "first"],
  [pre |-> <<E("c.tbl.1x2")>>, post |-> <<E("c.img.png")>>, sect |-> <<>>,                 se |-> "last"],
  [pre |-> <<E("c.headingbm")>>, post |-> <<E("c.para")>>, sect |-> <<"s.header.default">>, se |-> "last"]
>>
SumIdx(S) == LET RECURSIVE Sum(_)
                 Sum(T) == IF T = {} THEN 0 ELSE LET x == CHOOSE y \in T : TRUE IN FIdx[x] + Sum(T \ {x})
             IN Sum(S)
CtxChoices(c, fs) ==
  IF CtxMode = "all" /\ Cardinality(fs) <= 1 /\ c \in PairCtors THEN DOMAIN Contexts
  ELSE {1 + ((SumIdx(fs) + (IF c \in CtorIds THEN CIdx[c] ELSE 0)) % Len(Contexts))}

GenBuild(c, fs, k) ==
  LET x == Contexts[k]
  IN IF c = "sect"
     THEN BuildOp((IF x.pre \o x.post = <<>> THEN <<E("c.para")>> ELSE x.pre \o x.post), Canon(fs), x.se)
     ELSE BuildOp(x.pre \o <<[c |-> c, fs |-> Canon(fs)]>> \o x.post, x.sect, x.se)

Cand(c) == IF c = "sect" THEN SectFeats ELSE {f \in FeatIds : Applicable(c, f)}
AllowedSet(c, fs) ==
  \/ fs = {}
  \/ Cardinality(fs) = 1 /\ (c \in SingleCtors \/ (c \in PairCtors /\ fs \subseteq PairFeats))
  \/ Cardinality(fs) >= 2 /\ c \in PairCtors /\ fs \subseteq PairFeats

GInit == /\ st = [phase |-> "new", built |-> BuildOp(<<>>, <<>>, "last"), mem |-> EmptyProj, disk |-> EmptyProj,
                  js |-> InitJs, wit |-> {}, n |-> 0]
         /\ hist = <<>> /\ g = [stage |-> "pick"]
GPick == /\ g.stage = "pick"
         /\ \E c \in (IF "ctor" \in FocusKinds THEN CtorIds ELSE {}) \cup (IF "sect" \in FocusKinds THEN {"sect"} ELSE {}) :
              g' = [stage |-> "feat", c |-> c, fs |-> {}]
         /\ UNCHANGED <<st, hist>>
GAdd == /\ g.stage = "feat" /\ Cardinality(g.fs) < MaxF
        /\ \E f \in Cand(g.c) :
             /\ \A h \in g.fs : FIdx[h] < FIdx[f]
             /\ AllowedSet(g.c, g.fs \cup {f})
             /\ g' = [g EXCEPT !.fs = @ \cup {f}]
        /\ UNCHANGED <<st, hist>>
\* ps ("pre-saved"): the document is serialised once, result discarded, after each constructor call and before the
\* setters are applied to the new element (and before section settings applied last).  Serialising does not change the
\* document (Act_SavePure), so Model(b) does not depend on ps; an implementation that remembers what it serialised does.
WithPs(b, p) == [op |-> b.op, els |-> b.els, sect |-> b.sect, se |-> b.se, ps |-> p]
GClose == /\ g.stage = "feat" /\ Cardinality(g.fs) >= MinF
          /\ \E k \in CtxChoices(g.c, g.fs), p \in PreSaves :
               /\ hist' = <<WithPs(GenBuild(g.c, g.fs, k), p)>>
               /\ g' = [stage |-> "run"]
          /\ UNCHANGED st
GRun == /\ g.stage = "run" /\ Len(hist) < 1 + 2 * Cycles
        /\ hist' = Append(hist, IF Len(hist) % 2 = 1 THEN SaveOp ELSE OpenOp)
        /\ UNCHANGED <<st, g>>
GNext == GPick \/ GAdd \/ GClose \/ GRun
SpecGen == GInit /\ [][GNext]_vars

Emit == Len(hist) < 1 + 2 * Cycles \/ PrintT(<<"WZCASE", ToJson(hist)>>)
=============================================================================
