------------------------------ MODULE MdIn_MC ------------------------------
(***************************************************************************)
(* Generators and design-level laws for MdIn (property C19).               *)
(*                                                                         *)
(* Mode = "fid": a state machine builds a Markdown AST left to right with  *)
(*   a stack of open constructs (blocks, list items, inline containers),   *)
(*   then chooses options and the way the converter is called.  BFS        *)
(*   reaches every AST within the bounds exactly once; -simulate samples   *)
(*   larger ones.  Only ASTs whose Markdown spelling is unambiguous are    *)
(*   built (see the guards).  The laws below are checked on all of them.   *)
(* Mode = "tot": strings over the Markdown lexical alphabet are built      *)
(*   token by token; every non-empty string within the length bound is a   *)
(*   case, converted under every option mask of MaskSet.                   *)
(* Mode = "deep": extreme shapes  tok^n  (child process, wall-clock limit).*)
(***************************************************************************)
EXTENDS MdIn, Json, SequencesExt

CONSTANTS Mode,
          MaxNodes, MinNodes,     \* bounds on the number of AST nodes
          MaxDepth,               \* nesting of block containers (quote, list item)
          MaxInl,                 \* nesting of inline containers
          MaxKids,                \* children per inline sequence
          Atoms,                  \* text atoms usable in inline content
          CodeAtoms,              \* atoms usable inside code spans
          Inls,                   \* inline container kinds
          TopKinds,               \* block kinds at the top level
          InKinds,                \* block kinds inside quotes
          HLevels, HStyles,       \* heading levels / "atx", "setext"
          Tasks,                  \* task states of list items
          AllowSB,                \* generate soft breaks
          LineSeqs,               \* code block contents: set of Seq(<<indent, atoms>>)
          CellSeq,                \* cell contents cycled through a table: Seq(inline sequence)
          TblShapes,              \* set of <<columns, body rows, alignments (Seq), offset into CellSeq>>
          MathSeqs,               \* display formula contents: set of Seq(atom)
          OVMasks, OVApis, OVCos, OVWarms,   \* option masks / "string" "bytes" "file" "batch" / "nil" "same" / reuse
          UMasks,                 \* option masks over which the laws quantify
          TotToks, TotLen, MaskSet,
          DeepToks, DeepNs

VARIABLES g
vars == <<g>>

OptVia == {[opts |-> OptOfMask(m), api |-> a, co |-> c, warm |-> w] : m \in OVMasks, a \in OVApis, c \in OVCos, w \in OVWarms}
OptUniverse == {OptOfMask(m) : m \in UMasks}

\* ---- presets for the structured constants (a cfg file can only spell sets of atoms)
L(a, t) == <<a, t>>
LS_one   == {<<L("0", <<"w1">>)>>}
LS_quick == {<<L("0", <<"w1">>)>>,
             <<L("0", <<"w1", "w2">>), L("2", <<"w2">>)>>,
             <<L("0", <<"w1">>), L("0", <<>>), L("t", <<"w2">>)>>,
             <<L("0", <<"m1">>), L("2", <<"x1", "w1">>)>>}
LS_full  == LS_quick \cup
            {<<L("0", <<>>), L("0", <<"w1">>)>>,
             <<L("0", <<"w1">>), L("0", <<>>)>>,
             <<L("t", <<"w1">>), L("0", <<"w2">>)>>,
             <<L("2", <<"u1">>), L("2", <<"m2">>), L("0", <<"w1">>)>>,
             <<L("0", <<"w1">>), L("0", <<>>), L("0", <<>>), L("2", <<"w2">>)>>}
CS_quick == << <<Txt("w1")>>, <<Inl("em", <<Txt("w2")>>)>>, <<Txt("w3"), Inl("code", <<Txt("w1")>>)>>,
               <<Inl("link", <<Txt("w2")>>)>>, <<Txt("x1")>>, <<Inl("st", <<Txt("w3")>>), Txt("w1")>> >>
CS_full  == CS_quick \o << <<>>, <<Txt("u1")>>, <<Inl("del", <<Txt("w1")>>)>>, <<Inl("em", <<Inl("st", <<Txt("w2")>>)>>)>> >>
TS_one   == {<<2, 1, <<"l", "r">>, 0>>}
TS_quick == {<<1, 1, <<"n">>, 0>>, <<2, 1, <<"l", "r">>, 1>>, <<2, 2, <<"c", "n">>, 3>>, <<3, 1, <<"n", "c", "r">>, 2>>,
             <<2, 0, <<"c", "l">>, 0>>}          \* a table may consist of its header only
TS_full  == TS_quick \cup {<<1, 2, <<"c">>, 5>>, <<2, 1, <<"n", "n">>, 6>>, <<3, 2, <<"r", "l", "c">>, 4>>, <<2, 2, <<"l", "l">>, 8>>, <<1, 0, <<"r">>, 1>>}
MS_all   == {<<"w1">>, <<"w1", "w2">>}

\* ======================================================================== fidelity
Frame(t, n, a) == [t |-> t, n |-> n, a |-> a, x |-> "", k |-> <<>>]
FidInit == [ph |-> "doc", st |-> <<Frame("doc", 0, "")>>, sz |-> 0, ast |-> <<>>, ov |-> <<>>]

Top == g.st[Len(g.st)]
LastT(f) == IF f.k = <<>> THEN "" ELSE f.k[Len(f.k)].t
LastX(f) == IF f.k = <<>> THEN "" ELSE f.k[Len(f.k)].x
StackKinds == {g.st[i].t : i \in 1..Len(g.st)}
CDepth == Cardinality({i \in 1..Len(g.st) : g.st[i].t \in {"q", "item"}})
IDepth == Cardinality({i \in 1..Len(g.st) : g.st[i].t \in InlKinds})

TextHosts == {"h", "p", "em", "st", "del", "link"}
RECURSIVE HasKind(_, _)
HasKind(s, t) == \E i \in 1..Len(s) : s[i].t = t \/ HasKind(s[i].k, t)
Building == g.ph = "doc" /\ g.sz < MaxNodes

Push(f) == g' = [g EXCEPT !.st = Append(@, f), !.sz = @ + 1]
AddKid(x) == g' = [g EXCEPT !.st[Len(g.st)].k = Append(@, x), !.sz = @ + 1]
Pop == LET x == Nd(Top.t, Top.n, Top.a, "", Top.k)
           rest == SubSeq(g.st, 1, Len(g.st) - 1)
       IN g' = [g EXCEPT !.st = [rest EXCEPT ![Len(rest)].k = Append(@, x)]]

\* ---- inline content
AddAtom ==
  /\ Building /\ Len(Top.k) < MaxKids
  /\ \/ /\ Top.t \in TextHosts
        /\ \E a \in Atoms : ~(LastT(Top) = "txt" /\ LastX(Top) = a) /\ AddKid(Txt(a))
     \/ /\ Top.t = "code"
        /\ \E a \in CodeAtoms : ~(LastT(Top) = "txt" /\ LastX(Top) = a) /\ AddKid(Txt(a))
     \/ /\ Top.t = "math" /\ Len(Top.k) < 2
        /\ \E a \in {"w1", "w2"} : ~(LastT(Top) = "txt" /\ LastX(Top) = a) /\ AddKid(Txt(a))

\* a soft break: never first or last in its container, never two in a row, not in ATX headings
AddSB ==
  /\ Building /\ AllowSB /\ Len(Top.k) < MaxKids
  /\ Top.t \in TextHosts /\ Top.k # <<>> /\ LastT(Top) # "sb"
  /\ \A i \in 1..Len(g.st) : g.st[i].t = "h" => g.st[i].a = "setext"
  /\ AddKid(SoftBr)

\* an inline container: no kind twice on the stack (the spelling would be ambiguous)
OpenI ==
  /\ Building /\ Len(Top.k) < MaxKids
  /\ Top.t \in TextHosts /\ IDepth < MaxInl
  /\ \E t \in Inls : /\ t \notin StackKinds
                     \* the formula extension misreads a second $..$ in the same block
                     /\ t = "math" => \A i \in 1..Len(g.st) : g.st[i].t \in TextHosts => ~HasKind(g.st[i].k, "math")
                     /\ Push(Frame(t, 0, ""))

CloseI ==
  /\ g.ph = "doc" /\ Top.t \in InlKinds
  /\ Top.k # <<>> /\ LastT(Top) # "sb"
  /\ Pop

\* ---- blocks
BlockHost == Top.t \in {"doc", "q", "item"}

KindOK(t) ==
  /\ CASE Top.t = "doc"  -> t \in TopKinds
       [] Top.t = "q"    -> t \in InKinds
       [] Top.t = "item" -> IF Top.k = <<>> THEN t = "p" ELSE t \in {"ul", "ol", "p", "fence"} \cap TopKinds
       [] OTHER          -> FALSE
  \* two lists, two quotes or two indented code blocks in a row would be read as one
  /\ t \in ListKinds => LastT(Top) \notin ListKinds
  /\ t = "q" => LastT(Top) # "q"
  \* an indented line after a list continues the list item
  /\ t = "icode" => LastT(Top) \notin ListKinds \cup {"icode"}
  /\ t \in {"q", "ul", "ol"} => CDepth < MaxDepth
  \* a second paragraph of a list item only once, a nested list only once
  /\ (Top.t = "item" /\ t = "p" /\ Top.k # <<>>) => \A i \in 2..Len(Top.k) : Top.k[i].t # "p"

Lines(ls) == [i \in 1..Len(ls) |-> Nd("line", 0, ls[i][1], "", [j \in 1..Len(ls[i][2]) |-> Txt(ls[i][2][j])])]
\* an indented code block neither starts nor ends with a blank line, and its first line is not indented further
ICodeOK(ls) == ls[1][2] # <<>> /\ ls[Len(ls)][2] # <<>> /\ ls[1][1] = "0"

\* indentation of the fence itself: varied at top level only (inside a container the container's own
\* indentation rules interfere); with lines that are themselves indented the boundary widths 1 and 3, else 2
FenceInds(ls, info) ==
  IF Top.t = "doc" /\ info = ""
  THEN IF \E i \in 1..Len(ls) : ls[i][1] # "0" THEN {0, 1, 3} ELSE {0, 2}
  ELSE {0}

Cell(i, off) == CellSeq[((i + off) % Len(CellSeq)) + 1]
TblNode(sh) ==
  LET nc == sh[1]
      nr == sh[2]
  IN Nd("tbl", 0, "", "",
        [r \in 1..(nr + 1) |->
           Nd("row", 0, "", "",
              [c \in 1..nc |-> Nd("cell", 0, IF r = 1 THEN sh[3][c] ELSE "", "", Cell((r - 1) * nc + c, sh[4]))])])

OpenB ==
  /\ Building /\ BlockHost
  /\ \/ /\ KindOK("p") /\ Push(Frame("p", 0, ""))
     \/ /\ KindOK("h") /\ \E n \in HLevels, s \in HStyles : (s = "setext" => n <= 2) /\ Push(Frame("h", n, s))
     \/ /\ KindOK("q") /\ Push(Frame("q", 0, ""))
     \/ \E t \in ListKinds : KindOK(t) /\ Push(Frame(t, 0, ""))
     \/ /\ KindOK("hr") /\ AddKid(Nd("hr", 0, "", "", <<>>))
     \/ /\ KindOK("fence") /\ \E ls \in LineSeqs, info \in {"", "go"} :
                                  \E ind \in FenceInds(ls, info) : AddKid(Nd("fence", ind, info, "", Lines(ls)))
     \/ /\ KindOK("icode") /\ \E ls \in LineSeqs : ICodeOK(ls) /\ AddKid(Nd("icode", 0, "", "", Lines(ls)))
     \/ /\ KindOK("tbl") /\ \E sh \in TblShapes : AddKid(TblNode(sh))
     \/ /\ KindOK("mathb") /\ \E ms \in MathSeqs : AddKid(Nd("mathb", 0, "", "", [j \in 1..Len(ms) |-> Txt(ms[j])]))

OpenItem ==
  /\ Building /\ Top.t \in ListKinds
  /\ \E a \in Tasks : (a # "none" => Top.t = "ul") /\ Push(Frame("item", 0, a))

CloseB ==
  /\ g.ph = "doc" /\ Len(g.st) > 1
  /\ Top.t \in {"h", "p", "q", "ul", "ol", "item"}
  /\ Top.k # <<>> /\ LastT(Top) # "sb"
  /\ Pop

Finish ==
  /\ g.ph = "doc" /\ Len(g.st) = 1 /\ Top.k # <<>> /\ g.sz >= MinNodes
  /\ g' = [g EXCEPT !.ph = "opts", !.ast = Top.k, !.st = <<Frame("doc", 0, "")>>]

ChooseOV ==
  /\ g.ph = "opts"
  /\ \E ov \in OptVia : g' = [g EXCEPT !.ph = "done", !.ov = ov]

FidNext == AddAtom \/ AddSB \/ OpenI \/ CloseI \/ OpenB \/ OpenItem \/ CloseB \/ Finish \/ ChooseOV

\* the warm-up conversion that precedes the case's own one on the same converter (reuse)
WarmDoc == <<Nd("ul", 0, "", "", <<Nd("item", 0, "none", "", <<Nd("p", 0, "", "", <<Txt("w4")>>),
                                   Nd("ul", 0, "", "", <<Nd("item", 0, "none", "", <<Nd("p", 0, "", "", <<Txt("w3")>>)>>)>>)>>)>>),
             Nd("h", 2, "atx", "", <<Txt("w4")>>)>>

FidCase ==
  <<[op |-> "new", opts |-> g.ov.opts]>>
  \o (IF g.ov.warm THEN <<[op |-> "conv", ast |-> WarmDoc, api |-> "string", co |-> "nil"]>> ELSE <<>>)
  \o <<[op |-> "conv", ast |-> g.ast, api |-> g.ov.api, co |-> g.ov.co]>>

\* ======================================================================== totality
TotInit == [ph |-> "tot", toks |-> <<>>]
TotNext == /\ g.ph = "tot" /\ Len(g.toks) < TotLen
           /\ \E t \in TotToks : g' = [g EXCEPT !.toks = Append(@, t)]
TotCase == <<[op |-> "raw", toks |-> g.toks, masks |-> SetToSortSeq(MaskSet, <)]>>

DeepInit == [ph |-> "deep0"]
DeepNext == /\ g.ph = "deep0"
            /\ \E t \in DeepToks, n \in DeepNs, m \in MaskSet : g' = [ph |-> "deep", tok |-> t, n |-> n, mask |-> m]
DeepCase == <<[op |-> "deep", tok |-> g.tok, n |-> g.n, mask |-> g.mask]>>

\* ======================================================================== spec
Init == g = CASE Mode = "tot" -> TotInit [] Mode = "deep" -> DeepInit [] OTHER -> FidInit
Next == CASE Mode = "tot" -> TotNext [] Mode = "deep" -> DeepNext [] OTHER -> FidNext
Spec == Init /\ [][Next]_vars

Done == g.ph = "done"

Emit ==
  CASE g.ph = "done" -> PrintT(<<"WZCASE", ToJson(FidCase)>>)
    [] g.ph = "tot" /\ g.toks # <<>> -> PrintT(<<"WZCASE", ToJson(TotCase)>>)
    [] g.ph = "deep" -> PrintT(<<"WZCASE", ToJson(DeepCase)>>)
    [] OTHER -> TRUE

\* ======================================================================== design-level laws (C19 on the model)
A == g.ast
O == g.ov.opts

\* the expected body presented as an observation (what a faithful implementation would produce)
AsObsToks(ts) == [i \in 1..Len(ts) |-> [t |-> ts[i].t, f |-> SetToSeq(ts[i].f)]]
AsObs(E) ==
  CASE E.k = "tbl" -> [k |-> "tbl", lvl |-> 0, toks |-> <<>>,
                       rows |-> [i \in 1..Len(E.rows) |-> [j \in 1..Len(E.rows[i]) |->
                                   [toks |-> AsObsToks(E.rows[i][j]),
                                    al |-> CASE E.al[j] = "l" -> "left" [] E.al[j] = "c" -> "center" [] E.al[j] = "r" -> "right" [] OTHER -> ""]]]]
    [] E.k = "h"   -> [k |-> "h", lvl |-> E.lvl, toks |-> AsObsToks(E.toks), rows |-> <<>>]
    [] E.k = "hr"  -> [k |-> "p", lvl |-> 0, toks |-> <<>>, rows |-> <<>>]
    [] E.k = "li"  -> [k |-> "p", lvl |-> 0, toks |-> <<[t |-> "bul", f |-> <<>>], [t |-> "sp", f |-> <<>>]>> \o AsObsToks(E.toks), rows |-> <<>>]
    [] OTHER       -> [k |-> "p", lvl |-> 0, toks |-> AsObsToks(E.toks), rows |-> <<>>]
AsBody(ws) == [i \in 1..Len(ws) |-> AsObs(ws[i])]

\* the judge accepts the reference output itself ...
Inv_Reflexive == Done => JudgeFid(A, O, AsBody(ToWord(A, O))) = {}
\* ... and rejects a body that lacks its last block, or whose first word is gone
DropFirstWord(b) ==
  IF b.k = "tbl" THEN [b EXCEPT !.rows[1][1].toks = <<>>]
  ELSE [b EXCEPT !.toks = SelectSeq(@, LAMBDA x : x.t \in Ws \cup Marks)]
Inv_Sensitive ==
  Done => LET body == AsBody(ToWord(A, O))
          IN /\ body # <<>> => JudgeFid(A, O, SubSeq(body, 1, Len(body) - 1)) # {}
             /\ (body # <<>> /\ OWords(body[1]) # <<>>) =>
                   \E w \in JudgeFid(A, O, [body EXCEPT ![1] = DropFirstWord(@)]) : w.fld \in {"text-lost", "cells", "code-text"}

\* the visible words of a document, by a traversal that knows nothing of Word (document order)
RECURSIVE AW(_), AWs(_)
AWs(s) == IF s = <<>> THEN <<>> ELSE AW(Head(s)) \o AWs(Tail(s))
AW(x) == IF x.t = "txt" THEN <<x.x>> ELSE AWs(x.k)
IsAtom(t) == AtomClass(t) # "?"
ExpAtoms(ws) == CatSeqs([i \in 1..Len(ws) |-> SelectSeq(EWords(ws[i]), IsAtom)])

\* no text is lost or invented, whatever the options; order is document order
Inv_Atoms == Done => \A o \in OptUniverse : ExpAtoms(ToWord(A, o)) = AWs(A)

\* options only matter for the constructs they govern
RECURSIVE Kinds(_), KindsS(_)
KindsS(s) == UNION {Kinds(s[i]) : i \in 1..Len(s)}
Kinds(x) == {x.t} \cup (IF x.t = "item" /\ x.a # "none" THEN {"task"} ELSE {}) \cup KindsS(x.k)
Governed(o1, o2) == (IF o1.gfm # o2.gfm THEN {"del", "tbl"} ELSE {})
                    \cup (IF o1.tables # o2.tables THEN {"tbl"} ELSE {})
                    \cup (IF o1.math # o2.math THEN {"math", "mathb"} ELSE {})
Inv_Options ==
  Done => \A o1, o2 \in OptUniverse : (KindsS(A) \cap Governed(o1, o2) = {}) => ToWord(A, o1) = ToWord(A, o2)

\* headings keep their level, in order; run flags are exactly the enclosing emphasis constructs
RECURSIVE HLv(_)
HLv(s) == IF s = <<>> THEN <<>>
          ELSE LET b == Head(s)
               IN (IF b.t = "h" THEN <<b.n>> ELSE IF b.t \in {"q", "ul", "ol", "item"} THEN HLv(b.k) ELSE <<>>) \o HLv(Tail(s))
Inv_Headings ==
  Done => LET ws == ToWord(A, O)
              hs == SelectSeq(ws, LAMBDA w : w.k = "h")
          IN [i \in 1..Len(hs) |-> hs[i].lvl] = HLv(A)

RECURSIVE FlagsOK(_, _, _)
FlagsOK(s, F, o) ==
  \A i \in 1..Len(s) :
     LET x == s[i]
         F2 == F \cup (CASE x.t = "em" -> {"i"} [] x.t = "st" -> {"b"} [] x.t = "code" -> {"c"}
                         [] x.t = "del" -> (IF o.gfm THEN {"s"} ELSE {}) [] OTHER -> {})
     IN IF x.t = "txt" THEN \E tk \in Elems(RInl(<<x>>, F, o)) : tk.t = x.x /\ tk.f = F
        ELSE IF x.t = "sb" THEN TRUE
        ELSE /\ FlagsOK(x.k, F2, o)
             /\ \A tk \in Elems(RInl(<<x>>, F, o)) : tk.t \in Ws \/ F \subseteq tk.f
Inv_Flags == Done => \A i \in 1..Len(A) : A[i].t = "p" => FlagsOK(A[i].k, {}, O)

\* code keeps every line, tables keep their shape
Inv_Shape ==
  Done => \A i \in 1..Len(A) :
            /\ A[i].t \in {"fence", "icode"} => Len(Blk(A[i], O)) = Len(A[i].k)
            /\ (A[i].t = "tbl" /\ O.gfm /\ O.tables) =>
                  LET w == Blk(A[i], O)[1]
                  IN Len(w.rows) = Len(A[i].k) /\ \A r \in 1..Len(w.rows) : Len(w.rows[r]) = Len(A[i].k[1].k)

\* conversion is compositional over top-level blocks and leaves the converter unchanged
Act_Compositional ==
  [][(g.ph = "doc" /\ g'.ph = "doc" /\ Len(g'.st) = 1 /\ Len(g.st) <= 2 /\ Len(g'.st[1].k) = Len(g.st[1].k) + 1) =>
       \A o \in OptUniverse :
          /\ ToWord(g'.st[1].k, o) = ToWord(g.st[1].k, o) \o Blk(g'.st[1].k[Len(g'.st[1].k)], o)
          /\ Apply(NewConv(o), [op |-> "conv", ast |-> g'.st[1].k, co |-> "nil"]) = NewConv(o)]_vars
=============================================================================
