------------------------------ MODULE DocTmpl ------------------------------
(***************************************************************************)
(* Reference semantics of rendering a DOCUMENT template (property C18),    *)
(* as pure operators over the abstract document                            *)
(*                                                                         *)
(*   doc   = [body: Seq(block), sect: Seq(nv), hf: Seq(hfpart),            *)
(*            parts: Seq([n, c, v])]                                       *)
(*   block = [k |-> "p",   ppr: Seq(nv), atoms: Seq(atom)]                 *)
(*         | [k |-> "tbl", tpr: Seq(nv),                                   *)
(*            rows: Seq([trpr: Seq(nv),                                    *)
(*                       cells: Seq([tcpr: Seq(nv), blocks: Seq(block)])])]*)
(*         | [k |-> "other", n, v]                                         *)
(*   atom  = [k, t, f, r]   k = "c": one character token t of a run with   *)
(*           formatting id f (0 = none) and run index r; any other k is a  *)
(*           non-text run child (br, drawing, fldChar, instrText ...)      *)
(*   nv    = [n: element name, v: canonical content]                       *)
(*   data  = [cls, vars: Seq([n: Seq(tok), v: Seq(tok), ty]),              *)
(*            lists: Seq([n, items: Seq(Seq([n, v, ty]))]),                *)
(*            imgs: Seq([n, img: image token])]                            *)
(*           v is the TEXT the value stands for; ty says as what the value *)
(*           is handed over ("str", "nil", "int", "bool", "float") - the   *)
(*           semantics only uses v                                         *)
(*   parts = every other part of the package, one [n: name, c: class,      *)
(*           v: digest] each; pictures the base document already carries   *)
(*           are parts of class "media" (and drawing atoms whose token     *)
(*           names the bytes the relationship resolves to)                 *)
(*                                                                         *)
(* Operations of the subsystem:                                            *)
(*   Build(base, via)        - a base document exists / is loaded as a     *)
(*                             template (LoadTemplateFromDocument,         *)
(*                             OpenFromMemory + Load, LoadTemplateFromFile)*)
(*   Render(data)            - RenderTemplateToDocument / RenderTemplate   *)
(* Render is a pure function of (base, data): the result is Subst(base,    *)
(* data), the base is unchanged. Subst is given as                          *)
(*   SubFrom      placeholder substitution on the atoms of one paragraph   *)
(*   ExpectParas  what a paragraph becomes (image placeholders may be set  *)
(*                inline or in paragraphs of their own)                    *)
(*   ExpectRows   what the rows of a table become (loop row -> one row per *)
(*                item)                                                    *)
(* and the property as witness sets Judge*(base, got, data): empty = holds. *)
(***************************************************************************)
EXTENDS Integers, Sequences, FiniteSets, TLC

WordTok == {"a","b","c","d","e","f","g","h","i","j","k","l","m","n","o","p","q","r","s","t","u","v","w","x","y","z",
            "A","B","C","D","E","F","G","H","I","J","K","L","M","N","O","P","Q","R","S","T","U","V","W","X","Y","Z",
            "0","1","2","3","4","5","6","7","8","9","_"}

KwImage == <<"#","i","m","a","g","e">>
KwEach  == <<"#","e","a","c","h">>
EndEach == <<"{","{","/","e","a","c","h","}","}">>

\* ---- small helpers --------------------------------------------------------
RangeOf(s) == {s[i] : i \in 1..Len(s)}
MaxOfSet(S) == CHOOSE x \in S : \A y \in S : y <= x
MinOfSet(S) == CHOOSE x \in S : \A y \in S : x <= y
Occurs(pat, s) == \E i \in 1..(Len(s) - Len(pat) + 1) : \A k \in 1..Len(pat) : s[i + k - 1] = pat[k]
CountOcc(pat, s) == Cardinality({i \in 1..(Len(s) - Len(pat) + 1) : \A k \in 1..Len(pat) : s[i + k - 1] = pat[k]})
NamesOf(S) == {x.n : x \in S}
\* index of the first pair with this name (0 = none)
Lookup(pairs, name) ==
  LET S == {i \in 1..Len(pairs) : pairs[i].n = name} IN IF S = {} THEN 0 ELSE MinOfSet(S)

CatMap(s, F(_)) == LET RECURSIVE go(_)
                       go(i) == IF i > Len(s) THEN <<>> ELSE F(s[i]) \o go(i + 1)
                   IN go(1)

\* ---- placeholder recognition on atoms --------------------------------------
IsWord(a) == a.k = "c" /\ a.t \in WordTok
LitAt(as, i, lit) == /\ i >= 1 /\ i + Len(lit) - 1 <= Len(as)
                     /\ \A k \in 1..Len(lit) : as[i + k - 1].k = "c" /\ as[i + k - 1].t = lit[k]
WordRun(as, i) == IF i > Len(as) THEN 0
                  ELSE MaxOfSet({m \in 0..(Len(as) - i + 1) : \A k \in i..(i + m - 1) : IsWord(as[k])})
Toks(as, i, m) == [k \in 1..m |-> as[i + k - 1].t]
NoMatch == [e |-> 0, name |-> <<>>]
\* {{name}} starting at i: e = index of the last brace, name = token sequence
VarAt(as, i) ==
  IF LitAt(as, i, <<"{","{">>)
  THEN LET m == WordRun(as, i + 2) IN
       IF m > 0 /\ LitAt(as, i + 2 + m, <<"}","}">>) THEN [e |-> i + m + 3, name |-> Toks(as, i + 2, m)] ELSE NoMatch
  ELSE NoMatch
\* {{#kw name}} starting at i
DirAt(as, i, kw) ==
  IF LitAt(as, i, <<"{","{">> \o kw \o <<" ">>)
  THEN LET s == i + 3 + Len(kw)
           m == WordRun(as, s) IN
       IF m > 0 /\ LitAt(as, s + m, <<"}","}">>) THEN [e |-> s + m + 1, name |-> Toks(as, s, m)] ELSE NoMatch
  ELSE NoMatch

\* ---- expected atoms ---------------------------------------------------------
\* fs = set of admissible formatting ids ({} = any), val = produced by a value, img = picture,
\* ph = character of a placeholder that stays because there is no data for it
EA(a) == [k |-> a.k, t |-> a.t, fs |-> {a.f}, val |-> FALSE, img |-> FALSE, ph |-> FALSE]
ValAtoms(v, fs) == [j \in 1..Len(v) |-> [k |-> "c", t |-> v[j], fs |-> fs, val |-> TRUE, img |-> FALSE, ph |-> FALSE]]
ImgAtom(tok) == [k |-> "drawing", t |-> tok, fs |-> {}, val |-> FALSE, img |-> TRUE, ph |-> FALSE]
\* a placeholder without data stays visible; the statement does not fix which of the formats of the runs
\* it was spread over its characters carry afterwards
StayAtoms(as, i, e, fs) == [k \in 1..(e - i + 1) |-> [k |-> "c", t |-> as[i + k - 1].t, fs |-> fs, val |-> FALSE, img |-> FALSE, ph |-> TRUE]]

\* Substitution on the atoms of one paragraph, left to right, one pass.
\*  - {{name}} with data: the value, formatted like one of the runs the placeholder covered
\*  - {{name}} without data: stays (formatted like one of the runs it covered)
\*  - {{#image name}} with data: the picture
\*  - strip: the loop markers of a loop row are removed
RECURSIVE SubFrom(_, _, _, _, _)
SubFrom(as, i, vars, imgs, strip) ==
  IF i > Len(as) THEN <<>>
  ELSE
   LET v == VarAt(as, i)
       g == DirAt(as, i, KwImage)
       h == DirAt(as, i, KwEach) IN
   IF v.e > 0 THEN
      LET ix == Lookup(vars, v.name)
          fs == {as[k].f : k \in i..v.e} IN
      (IF ix > 0 THEN ValAtoms(vars[ix].v, fs) ELSE StayAtoms(as, i, v.e, fs))
        \o SubFrom(as, v.e + 1, vars, imgs, strip)
   ELSE IF g.e > 0 /\ Lookup(imgs, g.name) > 0 THEN
      <<ImgAtom(imgs[Lookup(imgs, g.name)].img)>> \o SubFrom(as, g.e + 1, vars, imgs, strip)
   ELSE IF strip /\ h.e > 0 THEN SubFrom(as, h.e + 1, vars, imgs, strip)
   ELSE IF strip /\ LitAt(as, i, EndEach) THEN SubFrom(as, i + Len(EndEach), vars, imgs, strip)
   ELSE <<EA(as[i])>> \o SubFrom(as, i + 1, vars, imgs, strip)

SubstAtoms(as, vars, imgs, strip) == SubFrom(as, 1, vars, imgs, strip)

\* variable placeholders of a base paragraph: literal text, has data?, split over several runs?
Phs(as, vars) ==
  {[lit |-> Toks(as, i, VarAt(as, i).e - i + 1),
    has |-> Lookup(vars, VarAt(as, i).name) > 0,
    split |-> Cardinality({as[k].r : k \in i..VarAt(as, i).e}) > 1] : i \in {j \in 1..Len(as) : VarAt(as, j).e > 0}}

HasImg(as, imgs) == \E i \in 1..Len(as) : DirAt(as, i, KwImage).e > 0 /\ Lookup(imgs, DirAt(as, i, KwImage).name) > 0
HasEach(as) == \E i \in 1..Len(as) : DirAt(as, i, KwEach).e > 0
EachName(as) == DirAt(as, MinOfSet({i \in 1..Len(as) : DirAt(as, i, KwEach).e > 0}), KwEach).name

\* ---- paragraphs ---------------------------------------------------------------
EP(p, atoms, vars) == [k |-> "p", ppr |-> p.ppr, anyppr |-> FALSE, atoms |-> atoms, phs |-> Phs(p.atoms, vars)]
ImgPara(a) == [k |-> "p", ppr |-> <<>>, anyppr |-> TRUE, atoms |-> <<a>>, phs |-> {}]
Blank(piece) == \A i \in 1..Len(piece) : piece[i].k = "c" /\ piece[i].t = " "

\* the "split" rendering of pictures: text before / picture / text after in paragraphs of their own
RECURSIVE SplitFrom(_, _, _, _)
SplitFrom(p, E, i, vars) ==
  IF i > Len(E) THEN <<>>
  ELSE LET J == {j \in i..Len(E) : E[j].img}
           j == IF J = {} THEN Len(E) + 1 ELSE MinOfSet(J)
           piece == SubSeq(E, i, j - 1) IN
       (IF Blank(piece) THEN <<>> ELSE <<EP(p, piece, vars)>>)
         \o (IF j <= Len(E) THEN <<ImgPara(E[j])>> \o SplitFrom(p, E, j + 1, vars) ELSE <<>>)

\* what one base paragraph becomes; form "inline" keeps one paragraph, form "split" gives
\* every picture a paragraph of its own (both satisfy the property)
ExpectParas(p, d, strip, form) ==
  LET E == SubstAtoms(p.atoms, d.vars, d.imgs, strip) IN
  IF form = "split" /\ HasImg(p.atoms, d.imgs) THEN SplitFrom(p, E, 1, d.vars) ELSE <<EP(p, E, d.vars)>>

\* ---- tables ------------------------------------------------------------------------
RowHasEach(row) == \E j \in 1..Len(row.cells) : \E b \in RangeOf(row.cells[j].blocks) : b.k = "p" /\ HasEach(b.atoms)
LoopRow(t) == LET S == {i \in 1..Len(t.rows) : RowHasEach(t.rows[i])} IN IF S = {} THEN 0 ELSE MinOfSet(S)
RowEachName(row) ==
  LET J == {j \in 1..Len(row.cells) : \E b \in RangeOf(row.cells[j].blocks) : b.k = "p" /\ HasEach(b.atoms)}
      c == row.cells[MinOfSet(J)]
      B == {i \in 1..Len(c.blocks) : c.blocks[i].k = "p" /\ HasEach(c.blocks[i].atoms)} IN
  EachName(c.blocks[MinOfSet(B)].atoms)

ItemData(item, cls) == [cls |-> cls, vars |-> item, lists |-> <<>>, imgs |-> <<>>]
\* expected rows: [src: base row, tag: ""|"loopother"|"looprow", d: data in force, strip]
ExpectRows(t, d) ==
  LET li == LoopRow(t) IN
  IF li = 0 THEN [i \in 1..Len(t.rows) |-> [src |-> t.rows[i], tag |-> "", d |-> d, strip |-> FALSE]]
  ELSE LET lx == Lookup(d.lists, RowEachName(t.rows[li]))
           items == IF lx = 0 THEN <<>> ELSE d.lists[lx].items
           other(i) == [src |-> t.rows[i], tag |-> "loopother", d |-> d, strip |-> FALSE] IN
       [i \in 1..(li - 1) |-> other(i)]
         \o [n \in 1..Len(items) |-> [src |-> t.rows[li], tag |-> "looprow", d |-> ItemData(items[n], d.cls), strip |-> TRUE]]
         \o [i \in 1..(Len(t.rows) - li) |-> other(li + i)]

\* ---- the property: witness sets ------------------------------------------------------
NoCtl(as) == SelectSeq(as, LAMBDA a : ~(a.k = "c" /\ a.t = "CTL"))
Chars(as) == SelectSeq(as, LAMBDA a : a.k = "c")
NonText(as) == SelectSeq(as, LAMBDA a : a.k # "c")
TextOf(as) == [i \in 1..Len(Chars(as)) |-> Chars(as)[i].t]
KT(as) == [i \in 1..Len(as) |-> <<as[i].k, as[i].t>>]
Sp(q) == IF q.split THEN "split" ELSE "whole"

PropDiff(what, level, eprops, gprops, ctx) ==
  LET lost == NamesOf(RangeOf(eprops) \ RangeOf(gprops))
      added == NamesOf(RangeOf(gprops) \ RangeOf(eprops)) \ lost IN
  {<<what \o "-lost", level, n, ctx>> : n \in lost} \cup {<<what \o "-added", level, n, ctx>> : n \in added}

\* e: expected paragraph (EP), g: observed paragraph, ctx: placement, cls: data class
DiffPara(e, g, ctx, cls) ==
  LET ea == NoCtl(e.atoms)
      ga == NoCtl(g.atoms)
      eT == TextOf(ea)
      gT == TextOf(ga)
      eX == KT(NonText(ea))
      gX == KT(NonText(ga))
      eC == Chars(ea)
      gC == Chars(ga)
      stay0 == {q \in e.phs : q.has /\ CountOcc(q.lit, gT) > CountOcc(q.lit, eT)}
      \* the same variable may occur twice, once whole and once split over runs: blame the split one
      stay == IF \E q \in stay0 : q.split THEN {q \in stay0 : q.split} ELSE stay0
      gone == {q \in e.phs : ~q.has /\ CountOcc(q.lit, gT) < CountOcc(q.lit, eT)}
      lostX == {i \in 1..Len(eX) : eX[i] \notin RangeOf(gX)}
      pc == IF \E q \in e.phs : q.has THEN "replaced" ELSE "untouched"
      textW == IF eT = gT THEN {}
               ELSE {<<"not-replaced", ctx, Sp(q)>> : q \in stay}
                    \cup {<<"placeholder-vanished", ctx, Sp(q)>> : q \in gone}
                    \cup (IF stay = {} /\ gone = {} THEN {<<"text-changed", ctx, cls>>} ELSE {})
      \* same non-text children in the same order, but one the base already had shows other content
      \* (e.g. a picture of the base that now resolves to other bytes)
      sameKinds == Len(eX) = Len(gX) /\ \A i \in 1..Len(eX) : eX[i][1] = gX[i][1]
      chgX == IF sameKinds THEN {i \in 1..Len(eX) : eX[i] # gX[i] /\ ~NonText(ea)[i].img} ELSE {}
      objW  == IF eX = gX THEN {}
               ELSE IF chgX # {} THEN {<<"nontext-content-changed", eX[i][1], ctx, pc>> : i \in chgX}
               ELSE {IF NonText(ea)[i].img THEN <<"image-missing", ctx>> ELSE <<"nontext-run-dropped", eX[i][1], ctx, pc>> : i \in lostX}
                    \cup (IF lostX = {} THEN {<<"nontext-changed", ctx>>} ELSE {})
      moveW == IF eT = gT /\ eX = gX /\ KT(ea) # KT(ga) THEN {<<"nontext-moved", ctx>>} ELSE {}
      fmtW  == IF eT # gT THEN {}
               ELSE {<<"format-lost", IF eC[i].val THEN "value-char" ELSE "outside-char", ctx, cls>> :
                       i \in {j \in 1..Len(eC) : eC[j].fs # {} /\ gC[j].f \notin eC[j].fs}}
      pprW  == IF e.anyppr THEN {} ELSE PropDiff("ppr", "pPr", e.ppr, g.ppr, ctx)
  IN textW \cup objW \cup moveW \cup fmtW \cup pprW

CellCtx(ctx, tag) == IF tag # "" THEN tag
                     ELSE IF ctx = "body" THEN "cell"
                     ELSE IF ctx \in {"cell", "nested", "looprow", "loopother"} THEN "nested"
                     ELSE ctx

RECURSIVE JudgeBlocks(_, _, _, _, _), JudgeTable(_, _, _, _)

\* B: base blocks of one container, G: observed blocks, d: data, ctx: placement.
\* Pictures may be set inline or in paragraphs of their own: the container is accepted if either
\* reading has no witness; otherwise the witnesses of the reading whose block count fits are reported.
JudgeBlocks(B, G, d, ctx, strip) ==
  LET RECURSIVE Expand(_, _)
      Expand(i, form) ==
        IF i > Len(B) THEN <<>>
        ELSE (IF B[i].k = "p" THEN ExpectParas(B[i], d, strip, form) ELSE <<B[i]>>) \o Expand(i + 1, form)
      W(E) == IF Len(E) # Len(G) THEN {<<"block-count", ctx, d.cls>>}
              ELSE UNION {
                IF E[i].k # G[i].k THEN {<<"block-kind", ctx, d.cls>>}
                ELSE IF E[i].k = "p" THEN DiffPara(E[i], G[i], ctx, d.cls)
                ELSE IF E[i].k = "tbl" THEN JudgeTable(E[i], G[i], d, ctx)
                ELSE IF E[i] = G[i] THEN {} ELSE {<<"other-content-changed", E[i].n, ctx>>} : i \in 1..Len(E)}
      Ei == Expand(1, "inline")
      Wi == W(Ei)
  IN IF Wi = {} \/ ~\E i \in 1..Len(B) : B[i].k = "p" /\ HasImg(B[i].atoms, d.imgs) THEN Wi
     ELSE LET Es == Expand(1, "split")
              Ws == W(Es) IN
          IF Ws = {} THEN {} ELSE IF Len(Es) # Len(G) /\ Len(Ei) = Len(G) THEN Wi ELSE Ws

JudgeTable(t, g, d, ctx) ==
  LET R == ExpectRows(t, d)
      loop == LoopRow(t) > 0 IN
  PropDiff("tbl-prop", "tblPr", t.tpr, g.tpr, ctx)
  \cup (IF Len(R) # Len(g.rows) THEN {<<IF loop THEN "row-loop" ELSE "table", "row-count", ctx>>}
        ELSE UNION {
          LET er == R[i]
              gr == g.rows[i]
              cctx == CellCtx(ctx, er.tag) IN
          PropDiff("tbl-prop", "trPr", er.src.trpr, gr.trpr, cctx)
          \cup (IF Len(er.src.cells) # Len(gr.cells) THEN {<<"table", "cell-count", cctx>>}
                ELSE UNION {PropDiff("tbl-prop", "tcPr", er.src.cells[j].tcpr, gr.cells[j].tcpr, cctx)
                            \cup JudgeBlocks(er.src.cells[j].blocks, gr.cells[j].blocks, er.d, cctx, er.strip)
                              : j \in 1..Len(gr.cells)})
          : i \in 1..Len(R)})

\* pictures in headers/footers are not part of the statement: no image data there
HfData(d) == [cls |-> d.cls, vars |-> d.vars, lists |-> d.lists, imgs |-> <<>>]

JudgeHF(base, got, d) ==
  UNION {
    LET b == base.hf[i]
        S == {j \in 1..Len(got.hf) : got.hf[j].name = b.name} IN
    IF ~b.ok THEN {}
    ELSE IF S = {} THEN {<<"hf-missing", b.kind>>}
    ELSE LET g == got.hf[MinOfSet(S)] IN
         IF ~g.ok THEN {<<"hf-illformed", b.kind, d.cls>>}
         ELSE (IF g.skel # b.skel THEN {<<"hf-structure-changed", b.kind>>} ELSE {})
              \cup JudgeBlocks(b.blocks, g.blocks, HfData(d), b.kind, FALSE)
    : i \in 1..Len(base.hf)}

JudgeDoc(base, got, d) ==
  JudgeBlocks(base.body, got.body, d, "body", FALSE)
  \cup {<<"sect-changed", n>> : n \in NamesOf(RangeOf(base.sect) \ RangeOf(got.sect)) \cup NamesOf(RangeOf(got.sect) \ RangeOf(base.sect))}
  \cup JudgeHF(base, got, d)
  \cup {<<"part-changed", x.c>> : x \in RangeOf(base.parts) \ RangeOf(got.parts)}

\* ---- operations ------------------------------------------------------------------------
\* abstract state: the loaded base document (projection) or "none"
NoDoc == [body |-> <<>>, sect |-> <<>>, hf |-> <<>>, parts |-> <<>>]
Ret(op) == "ok"       \* every generated Build / Render is expected to succeed
=============================================================================
